(* Model of the liquidation sweeps and of the seize rules, statement by statement:
     x/liquidation/types/liquidations.go      GetSliceStartEndForLiquidations (identical copy in
                                              x/liquidationsV2/types)
     x/liquidation/keeper/liquidate_vaults.go LiquidateVaults            (V1, per-app offsets)
     x/liquidation/keeper/liquidate_borrow.go LiquidateBorrows           (V1 borrows)
     x/liquidationsV2/keeper/liquidate.go     LiquidateVaults / LiquidateIndividualVault /
                                              LiquidateBorrows / LiquidateIndividualBorrow / MsgLiquidate
     x/vault/keeper/vault.go                  CalculateCollateralizationRatio
     x/market/keeper/oracle.go                CalcAssetPrice
     x/lend/keeper/keeper.go                  CalculateCollateralizationRatio (lend)
   Definitions only; proofs live in Proofs/LiquidationProofs.v. *)
From Comdex Require Import Lib.Base Lib.DecArith.

(* ------------------------------------------------------------------------------------ *)
(* 1. the slice                                                                           *)

(* GetSliceStartEndForLiquidations(sliceLen, offset, batchSize) *)
Definition slice_bounds (len off batch : Z) : Z * Z :=
  if (off >=? len) || (off <? 0) || (batch <? 0) then (len, len)
  else
    let e := off + batch in
    if e >=? len then (off, len) else (off, e).

(* the callers: "if start == end { offset = 0; start, end = again }" *)
Definition sweep_window (len off batch : Z) : Z * Z :=
  let se := slice_bounds len off batch in
  if fst se =? snd se then slice_bounds len 0 batch else se.

(* ------------------------------------------------------------------------------------ *)
(* 2. the ratio tests                                                                     *)

Definition oz (o : option Z) : outcome Z := match o with Some x => Ok x | None => Panic end.

(* amount * price / decimals in sdk.Dec: NewDecFromInt(amt).Mul(NewDecFromInt(price)).Quo(NewDecFromInt(decimals)) *)
Definition value_of (amt price decimals : Z) : outcome Z :=
  obind (oz (dmul_c (dec_of_int amt) (dec_of_int price)))
        (fun num => oz (dquo_c num (dec_of_int decimals))).

(* market.CalcAssetPrice: [price] = Some Twa when the record exists and IsPriceActive *)
Definition calc_asset_price (price : option Z) (decimals amt : Z) : outcome Z :=
  match price with
  | None => Err 1
  | Some p => value_of amt p decimals
  end.

(* everything the vault ratio test reads, for one vault *)
Record vault_in := mkVaultIn {
  v_id : Z; v_app : Z;
  v_amt_in : Z; v_amt_out : Z; v_interest : Z; v_closing : Z;
  v_price_in : option Z; v_dec_in : Z;        (* collateral asset: active Twa, Decimals *)
  v_price_out : option Z; v_dec_out : Z;      (* debt asset *)
  v_out_oracle : bool; v_out_fixed : Z;       (* AssetOutOraclePrice, AssetOutPrice *)
  v_min_cr : Z;                               (* extPair.MinCr = the liquidation ratio (Dec) *)
  v_esm : bool; v_esm_snap : bool;            (* ESM status found && Status; SnapshotStatus *)
  v_snap_in : option Z; v_snap_out : option Z;(* ESM price snapshots *)
  v_kill : bool;                              (* kill switch BreakerEnable for the app *)
  v_white : bool;                             (* V2: liquidation whitelisting found for the app *)
  v_auction : bool                            (* V1: auction params found for the app; V2: IsDutchActivated *)
}.

(* vault.CalculateCollateralizationRatio(extPair, amountIn, amountOut).  The zero-value Dec that
   the code leaves in assetInTotalPrice when ESM is on without snapshot is a nil pointer: the
   following LTE panics. *)
Definition calc_cr (v : vault_in) (amt_in amt_out : Z) : outcome Z :=
  let tin : outcome (option Z) :=
    if v_esm v && v_esm_snap v then
      match v_snap_in v with
      | None => Err 2
      | Some p => obind (value_of amt_in p (v_dec_in v)) (fun x => Ok (Some x))
      end
    else if negb (v_esm v) then
      obind (calc_asset_price (v_price_in v) (v_dec_in v) amt_in) (fun x => Ok (Some x))
    else Ok None in
  obind tin (fun ti =>
  let tout : outcome Z :=
    if v_out_oracle v then
      if v_esm v && v_esm_snap v then
        match v_snap_out v with
        | None => Err 2
        | Some p => value_of amt_out p (v_dec_out v)
        end
      else calc_asset_price (v_price_out v) (v_dec_out v) amt_out
    else value_of amt_out (v_out_fixed v) (v_dec_out v) in
  obind tout (fun to_ =>
  match ti with
  | None => Panic
  | Some ti =>
      if ti <=? 0 then Err 3
      else if to_ <=? 0 then Err 4
      else oz (dquo_c ti to_)
  end)).

(* total debt as the sweeps compute it: AmountOut.Add(InterestAccumulated).Add(ClosingFeeAccumulated) *)
Definition total_out (v : vault_in) : outcome Z :=
  obind (oz (iadd_c (v_amt_out v) (v_interest v))) (fun x => oz (iadd_c x (v_closing v))).

(* what one unit of the sweep does with a position *)
Inductive verdict := VSeize | VKeep | VErr | VPanic.

Definition verdict_of_outcome (o : outcome bool) : verdict :=
  match o with Ok true => VSeize | Ok false => VKeep | Err _ => VErr | Panic => VPanic end.

Inductive gen := GV1 | GV2 | GB1 | GB2.   (* V1 vaults, V2 vaults, V1 borrows, V2 borrows *)

(* the ratio test itself, both generations: collateralizationRatio.LT(liqRatio) *)
Definition cr_below (v : vault_in) : outcome bool :=
  obind (total_out v) (fun tot =>
  obind (calc_cr v (v_amt_in v) tot) (fun cr => Ok (cr <? v_min_cr v))).

Definition is_some {A} (o : option A) : bool := match o with Some _ => true | None => false end.

(* can the seizure itself complete?  V1: auction params of the app exist (StartDutchAuction);
   V2: IsDutchActivated and DutchAuctionActivator finds an ACTIVE debt price even when the debt
   is valued at a fixed price *)
Definition start_ok (g : gen) (v : vault_in) : bool :=
  match g with
  | GV1 => v_auction v
  | _ => v_auction v && is_some (v_price_out v)
  end.

(* V1 liquidate_vaults.go:52-106 (inside the closure, after the AppId test which the sweep
   applies): CalcAssetPrice(assetIn) must succeed, then the ratio test, then the auction must
   start (auction params of the app).
   V2 liquidate.go:79-166 LiquidateIndividualVault: ESM / kill switch, whitelisting, ratio test,
   IsDutchActivated. *)
Definition seize_rule_vault (g : gen) (v : vault_in) : verdict :=
  match g with
  | GV1 =>
      verdict_of_outcome
        (obind (calc_asset_price (v_price_in v) (v_dec_in v) (v_amt_in v)) (fun _ =>
         obind (cr_below v) (fun b =>
         if b then (if start_ok g v then Ok true else Err 5) else Ok false)))
  | _ =>
      if v_esm v || v_kill v then VErr
      else if negb (v_white v) then VErr
      else verdict_of_outcome
        (obind (cr_below v) (fun b =>
         if b then (if start_ok g v then Ok true else Err 5) else Ok false))
  end.

(* ---- borrows ---- *)
(* everything LiquidateIndividualBorrow / UpdateLockedBorrows read for one borrow (liquidationsV2
   liquidate.go:261-404), as raw as the code reads it: the case split (same pool / first transit /
   second transit, e-mode) is made by the MODEL from these fields, not by the harness *)
Record borrow_in := mkBorrowIn {
  b_id : Z;
  b_found : bool;                   (* GetBorrow found *)
  b_liquidated : bool;              (* IsLiquidated *)
  b_lend_found : bool;              (* GetLend(borrowPos.LendingID) found *)
  b_kill : bool;                    (* kill switch of lendPos.AppID *)
  b_interest_ok : bool;             (* CalculateBorrowInterestForLiquidation / ReBalanceStableRates succeed *)
  b_interest_panic : bool;          (* ... panic (division by a zero GlobalIndex / ReserveGlobalIndex of the borrow) *)
  b_amt_in : Z; b_amt_out : Z;      (* AmountIn.Amount, AmountOut.Amount *)
  b_interest : Z;                   (* InterestAccumulated (Dec) after the interest update of this visit *)
  b_price_in : option Z; b_dec_in : Z;    (* lendPair.AssetIn: active Twa, Decimals *)
  b_price_out : option Z; b_dec_out : Z;  (* lendPair.AssetOut *)
  b_liq_thr : Z;                    (* AssetRatesParams(lendPair.AssetIn).LiquidationThreshold (Dec) *)
  b_eliq_thr : Z;                   (* ... .ELiquidationThreshold (Dec) *)
  b_emode : bool;                   (* lendPair.IsEModeEnabled *)
  b_bridged_amt : Z;                (* borrowPos.BridgedAssetAmount.Amount *)
  b_bridged_denom : Z;              (* borrowPos.BridgedAssetAmount.Denom, as the id of the asset with that denom *)
  b_first_denom : Z;                (* denom of the first transit asset (AssetTransitType 2, last such entry) of the
                                       pool of the LEND position, as an asset id; 0 = the pool has none (denom "") *)
  b_thr_one : Z; b_thr_two : Z;     (* LiquidationThreshold of the pool's first / second transit asset (Dec) *)
  b_white : bool;                   (* V2: liquidation whitelisting found for lendPos.AppID *)
  b_dutch : bool; b_english : bool; (* V2: its IsDutchActivated / IsEnglishActivated *)
  b_pool_bal : Z; b_cpool_bal : Z;  (* V2: balance of the lend position's pool module in the collateral denom / its cToken denom *)
  b_v1_start : bool                 (* V1 (not wired on this tree): the seizure itself succeeds *)
}.

(* lend.CalculateCollateralizationRatio(amountIn, assetIn, amountOut, assetOut) with
   amountOut = AmountOut + InterestAccumulated.TruncateInt():
   CalcAssetPrice(out).Quo(CalcAssetPrice(in)) - debt over collateral; the collateral is priced first *)
Definition lend_cr (b : borrow_in) : outcome Z :=
  let debt := b_amt_out b + dtrunc_int (b_interest b) in
  obind (calc_asset_price (b_price_in b) (b_dec_in b) (b_amt_in b)) (fun tin =>
  obind (calc_asset_price (b_price_out b) (b_dec_out b) debt) (fun tout =>
  oz (dquo_c tout tin))).

(* liquidate.go:295-298: the collateral asset's threshold, e-mode pairs use ELiquidationThreshold *)
Definition base_threshold (b : borrow_in) : Z :=
  if b_emode b then b_eliq_thr b else b_liq_thr b.

Inductive bridge_case := SamePool | FirstTransit | SecondTransit.

(* liquidate.go:320 / :332: BridgedAssetAmount.Amount == 0 -> same pool; else its denom equals the
   first transit asset's denom -> first; else -> second *)
Definition bridge_of (b : borrow_in) : bridge_case :=
  if b_bridged_amt b =? 0 then SamePool
  else if b_bridged_denom b =? b_first_denom b then FirstTransit
  else SecondTransit.

(* the liquidation threshold applicable to the borrow, as the code computes it (liquidate.go:325,
   :337, :349): the base threshold, or its sdk.Dec product (Mul: round half even at 18 places)
   with the LiquidationThreshold (never the e-mode one) of the transit asset the borrow is
   bridged through *)
Definition applicable_threshold (b : borrow_in) : outcome Z :=
  match bridge_of b with
  | SamePool => Ok (base_threshold b)
  | FirstTransit => oz (dmul_c (base_threshold b) (b_thr_one b))
  | SecondTransit => oz (dmul_c (base_threshold b) (b_thr_two b))
  end.

(* sdk.Dec.GT(currentCollateralizationRatio, threshold); the ratio is computed first (its errors
   return first) *)
Definition ratio_above_of (cr th : outcome Z) : outcome bool :=
  obind cr (fun c => obind th (fun t => Ok (c >? t))).
Definition ratio_above (b : borrow_in) : outcome bool :=
  ratio_above_of (lend_cr b) (applicable_threshold b).

(* UpdateLockedBorrows can complete (liquidate.go:360-404): SendCoinsFromModuleToModule(pool ->
   auctionsV2, AmountIn of the collateral denom), BurnCoins(pool, AmountIn of the cToken),
   CreateLockedVault with AuctionType = IsDutchActivated: a Dutch auction needs active prices of
   both assets (they are: the ratio was computed), an English one IsEnglishActivated *)
Definition borrow_funds_ok (b : borrow_in) : bool :=
  (b_amt_in b <=? b_pool_bal b) && (b_amt_in b <=? b_cpool_bal b).
Definition borrow_start_ok (b : borrow_in) : bool :=
  borrow_funds_ok b && (b_dutch b || b_english b).

Definition seize_rule_borrow_of (g : gen) (b : borrow_in) (above_ : outcome bool) : verdict :=
  if negb (b_found b) then (match g with GB1 => VKeep | _ => VErr end)
  else if b_liquidated b then VKeep
  else if negb (b_lend_found b) then VErr
  else if b_kill b then VErr
  else if b_interest_panic b then VPanic
  else if negb (b_interest_ok b) then VErr
  else verdict_of_outcome
    (obind above_ (fun above =>
     if above then
       (match g with
        | GB1 => if b_v1_start b then Ok true else Err 5
        | _ => if negb (b_white b) then Err 6 else if borrow_start_ok b then Ok true else Err 5
        end)
     else Ok false)).

Definition seize_rule_borrow (g : gen) (b : borrow_in) : verdict :=
  seize_rule_borrow_of g b (ratio_above b).

(* everything the runner needs about one visit, the ratio computed once *)
Record beval := mkBeval { e_v : verdict; e_cr : outcome Z; e_th : outcome Z; e_unsafe : bool }.
Definition borrow_eval (g : gen) (b : borrow_in) : beval :=
  let cr := lend_cr b in
  let th := applicable_threshold b in
  let above := ratio_above_of cr th in
  mkBeval (seize_rule_borrow_of g b above) cr th (match above with Ok x => x | _ => false end).

(* ------------------------------------------------------------------------------------ *)
(* 3. the sweep over a position list                                                      *)

Record pos := mkPos { p_id : Z; p_app : Z; p_v : verdict }.

Definition pos_of_vault (g : gen) (v : vault_in) : pos := mkPos (v_id v) (v_app v) (seize_rule_vault g v).
Definition pos_of_borrow (g : gen) (b : borrow_in) : pos := mkPos (b_id b) 0 (seize_rule_borrow g b).

(* a zero-valued Vault in the slack between len and cap of the slice GetVaults returned:
   V1: AppId 0 <> app -> error;  V2: vault 0 not found -> error *)
Definition zero_pos : pos := mkPos 0 0 VErr.

(* Go: totalVaults[start:end].  The bounds are checked against the CAPACITY of the slice, not
   its length; elements between len and cap are zero values.  None = run-time panic. *)
Definition go_slice (l : list pos) (cap s e : Z) : option (list pos) :=
  if (0 <=? s) && (s <=? e) && (e <=? cap) then
    Some (firstn (Z.to_nat (e - s))
                 (skipn (Z.to_nat s) (l ++ repeat zero_pos (Z.to_nat (cap - zlen l)))))
  else None.

Definition removes (g : gen) : bool := match g with GV1 | GV2 => true | _ => false end.

(* the verdict a unit reaches: V1 first tests vault.AppId != appIds[i] *)
Definition eff_verdict (g : gen) (app : Z) (p : pos) : verdict :=
  match g with
  | GV1 => if p_app p =? app then p_v p else VErr
  | _ => p_v p
  end.

(* the for-loop over the window: all four sweeps run every item inside utils.ApplyFuncIfNoError
   (the V2 borrow loop since fix C09-F3): an error or a (recovered) panic of one item is rolled
   back and swallowed, the loop goes on with the next item *)
Fixpoint sweep_items (g : gen) (app : Z) (items : list pos) : list Z :=
  match items with
  | [] => []
  | p :: rest =>
      match eff_verdict g app p with
      | VSeize => p_id p :: sweep_items g app rest
      | _ => sweep_items g app rest
      end
  end.

Definition mem_z (x : Z) (l : list Z) : bool := existsb (Z.eqb x) l.

(* effect of the seizures on the list: vaults are deleted; a borrow stays in the list with
   IsLiquidated set (every later visit returns nil at once) *)
Definition after_seize (g : gen) (seized : list Z) (l : list pos) : list pos :=
  if removes g then filter (fun p => negb (mem_z (p_id p) seized)) l
  else map (fun p => if mem_z (p_id p) seized then mkPos (p_id p) (p_app p) VKeep else p) l.

Record sweep_res := mkRes {
  r_seized : list Z;      (* ids seized, in order *)
  r_list : list pos;      (* the list afterwards *)
  r_off : Z;              (* the stored offset afterwards *)
  r_counter : Z           (* the stored length counter afterwards (vaults) *)
}.

(* uint64 <-> int conversions of the stored counter: LengthOfVault is a uint64 that the seizure
   decrements without a floor (wraps below zero); the sweeps convert it with int(...) *)
Definition two63 : Z := 9223372036854775808.
Definition int_of_u64 (c : Z) : Z := if c >=? two63 then c - two64 else c.
Definition u64 (x : Z) : Z := x mod two64.

(* the parameter validation of LiquidationBatchSize (x/liquidationsV2/types/params.go
   validateLiquidationBatchSize, since fix C09-F4): positive and representable as an int - the sweeps
   convert the stored uint64 with int(...) *)
Definition valid_batch (b : Z) : bool := (1 <=? b) && (b <? two63).

(* One sweep over the list, sliced by [len] (an int).  [cap] is the capacity of the slice the
   keeper returned.  Result: seized ids, list afterwards, offset to store (= end of the window,
   computed on the list BEFORE the seizures). *)
Definition sweep_core (g : gen) (app : Z) (l : list pos) (cap len off batch : Z)
  : outcome (list Z * list pos * Z) :=
  let se := sweep_window len off batch in
  match go_slice l cap (fst se) (snd se) with
  | None => Panic
  | Some items =>
      let sz := sweep_items g app items in
      Ok (sz, after_seize g sz l, snd se)
  end.

(* [counter] is the stored LengthOfVault for vaults (the callers slice the list by it, not by
   len(list)); for borrows the callers pass len(list). *)
Definition sweep_one (g : gen) (app : Z) (l : list pos) (cap counter off batch : Z) : outcome sweep_res :=
  match sweep_core g app l cap (int_of_u64 counter) off batch with
  | Ok (sz, l', o) =>
      Ok (mkRes sz l' o (if removes g then u64 (counter - zlen sz) else counter))
  | Err c => Err c
  | Panic => Panic
  end.

(* the sweep of the task statement: positions, counter, offset, batch -> seized ids, new list,
   new offset; parameterised by generation *)
Definition sweep_block (g : gen) (app : Z) (l : list pos) (cap counter off batch : Z)
  : outcome (list Z * list pos * Z) :=
  obind (sweep_one g app l cap counter off batch) (fun r => Ok (r_seized r, r_list r, r_off r)).

(* ---- V1: one sweep per whitelisted app, each with its own offset ---- *)
Fixpoint get_off (offs : list (Z * Z)) (app : Z) : Z :=
  match offs with [] => 0 | (a, o) :: r => if a =? app then o else get_off r app end.
Fixpoint set_off (offs : list (Z * Z)) (app o : Z) : list (Z * Z) :=
  match offs with
  | [] => [(app, o)]
  | (a, x) :: r => if a =? app then (a, o) :: r else (a, x) :: set_off r app o
  end.

Record v1_state := mkV1 { s_list : list pos; s_counter : Z; s_offs : list (Z * Z) }.

(* [apps] = GetAppIdsForLiquidation in store order, each with "kill switch or ESM on";
   [capf n] = capacity of the slice GetVaults builds for n vaults (run-time growth policy) *)
Fixpoint sweep_v1 (capf : Z -> Z) (batch : Z) (apps : list (Z * bool)) (st : v1_state) (acc : list Z)
  : outcome (list Z * v1_state) :=
  match apps with
  | [] => Ok (acc, st)
  | (app, blocked) :: rest =>
      if blocked then sweep_v1 capf batch rest st acc
      else
        match sweep_one GV1 app (s_list st) (capf (zlen (s_list st))) (s_counter st)
                        (get_off (s_offs st) app) batch with
        | Ok r => sweep_v1 capf batch rest
                    (mkV1 (r_list r) (r_counter r) (set_off (s_offs st) app (r_off r)))
                    (acc ++ r_seized r)
        | Err c => Err c
        | Panic => Panic
        end
  end.

(* ---- V2: liquidationsV2.Liquidate = LiquidateVaults(ctx, 0); LiquidateBorrows(ctx, 1).
   The vault sweep reads and writes its offset under key 0, the borrow sweep under key 1 (since
   fix C09-F2 it sets holder.AppId = offsetCounterId before SetLiquidationOffsetHolder, which keys
   the record by that field): two independent offsets.  The borrow list is sliced by len(list). *)
Record v2_state := mkV2 { t_list : list pos; t_counter : Z; t_off0 : Z; t_borrows : list pos; t_off1 : Z }.

Definition sweep_v2 (capf : Z -> Z) (batch : Z) (st : v2_state) : outcome (list Z * list Z * v2_state) :=
  match sweep_one GV2 0 (t_list st) (capf (zlen (t_list st))) (t_counter st) (t_off0 st) batch with
  | Ok r1 =>
      match sweep_one GB2 0 (t_borrows st) (zlen (t_borrows st)) (zlen (t_borrows st)) (t_off1 st) batch with
      | Ok r2 =>
          Ok (r_seized r1, r_seized r2, mkV2 (r_list r1) (r_counter r1) (r_off r1) (r_list r2) (r_off r2))
      | Err c => Err c
      | Panic => Panic
      end
  | Err c => Err c
  | Panic => Panic
  end.

(* ---- the liquidate message (liquidationsV2 MsgLiquidateInternalKeeper, liq type 0 / 1):
   the same LiquidateIndividualVault / LiquidateIndividualBorrow on one id ---- *)
Fixpoint find_pos (l : list pos) (id : Z) : option pos :=
  match l with [] => None | p :: r => if p_id p =? id then Some p else find_pos r id end.

Definition msg_liquidate (g : gen) (l : list pos) (id : Z) : outcome (list Z * list pos) :=
  match find_pos l id with
  | None => Err 7
  | Some p =>
      match p_v p with
      | VSeize => Ok ([id], after_seize g [id] l)
      | VKeep => Ok ([], l)
      | VErr => Err 8
      | VPanic => Panic
      end
  end.

(* ------------------------------------------------------------------------------------ *)
(* 4. seizure effects that the property names: collateral moved, records opened           *)

Record custody := mkCustody { c_vault : Z; c_auction : Z; c_locked : Z; c_auctions : Z }.

(* one seizure: SendCoinsFromModuleToModule(vault, auction, AmountIn); one locked-vault record;
   one auction *)
Definition seize_effect (c : custody) (amt_in : Z) : custody :=
  mkCustody (c_vault c - amt_in) (c_auction c + amt_in) (c_locked c + 1) (c_auctions c + 1).

(* the handover predicate, evaluated on the IMPLEMENTATION's custody before / after a step that
   seized positions with the recorded collateral amounts [amts] *)
Definition holds_C09_handover (before after : custody) (amts : list Z) : bool :=
  (c_vault after =? c_vault before - zsum amts) &&
  (c_auction after =? c_auction before + zsum amts) &&
  (c_locked after =? c_locked before + zlen amts) &&
  (c_auctions after =? c_auctions before + zlen amts).

(* per seized position: exactly one locked record and exactly one auction, both for exactly the
   recorded collateral *)
Definition holds_C09_handover_one (amt_in n_locked locked_amt n_auctions auction_amt : Z) : bool :=
  (n_locked =? 1) && (locked_amt =? amt_in) && (n_auctions =? 1) && (auction_amt =? amt_in).

(* ---- 4b. the book-keeping of one BORROW seizure (UpdateLockedBorrows, liquidate.go:360-404) ---- *)
Definition key := (Z * Z)%type.
Definition key_eqb (a b : key) : bool := (fst a =? fst b) && (snd a =? snd b).

(* finite maps as association lists in a fixed key order (the order the harness dumps them in);
   a missing key reads 0 *)
Fixpoint kget (m : list (key * Z)) (k : key) : Z :=
  match m with [] => 0 | (k', v) :: r => if key_eqb k' k then v else kget r k end.
Fixpoint kadd (m : list (key * Z)) (k : key) (d : Z) : list (key * Z) :=
  match m with
  | [] => [(k, d)]
  | (k', v) :: r => if key_eqb k' k then (k', v + d) :: r else (k', v) :: kadd r k d
  end.
(* lend positions: (id, AmountIn) in id order; a position whose amount is not positive after the
   subtraction is deleted *)
Fixpoint lend_sub (m : list (Z * Z)) (id d : Z) : list (Z * Z) :=
  match m with
  | [] => []
  | (i, v) :: r => if i =? id then (if v - d >? 0 then (i, v - d) :: r else r) else (i, v) :: lend_sub r id d
  end.
Fixpoint lend_get (m : list (Z * Z)) (id : Z) : option Z :=
  match m with [] => None | (i, v) :: r => if i =? id then Some v else lend_get r id end.

(* account 0 = the auctionsV2 module account; the other accounts are the pools' module accounts *)
Definition auction_acc : Z := 0.

(* what a borrow seizure touches; every field is read from the records BEFORE the step *)
Record bseize := mkBS {
  z_id : Z;                 (* borrow id *)
  z_amt_in : Z;             (* borrow.AmountIn.Amount: the recorded collateral *)
  z_amt_out : Z;            (* borrow.AmountOut.Amount *)
  z_stable : bool;          (* borrow.IsStableBorrow *)
  z_pool_acc : Z;           (* module account of the LEND position's pool *)
  z_denom_in : Z;           (* assetIn.Denom (the underlying collateral), as an asset id *)
  z_cdenom : Z;             (* the cToken of the collateral asset *)
  z_pool_in : Z; z_asset_in : Z;    (* lendPos.PoolID, lendPos.AssetID *)
  z_pool_out : Z; z_asset_out : Z;  (* lendPair.AssetOutPoolID, lendPair.AssetOut *)
  z_lend : Z                (* borrow.LendingID *)
}.

Record lworld := mkLW {
  w_bal : list (key * Z);       (* (account, denom) -> bank balance *)
  w_supply : list (key * Z);    (* (0, denom) -> total supply (cTokens are burnt) *)
  w_tlend : list (key * Z);     (* (pool, asset) -> PoolAssetLBMapping.TotalLend *)
  w_tborrow : list (key * Z);   (* (pool, asset) -> TotalBorrowed *)
  w_tstable : list (key * Z);   (* (pool, asset) -> TotalStableBorrowed *)
  w_lend : list (Z * Z);        (* lend positions: (id, AmountIn.Amount) *)
  w_liq : list Z;               (* borrows with IsLiquidated set, in the order they were set *)
  w_locked : list (Z * Z);      (* locked vaults opened: (OriginalVaultId, CollateralToken.Amount) *)
  w_auction : list (Z * Z)      (* auctions opened: (OriginalVaultId of their locked vault, CollateralToken.Amount) *)
}.

Definition seize_borrow_world (w : lworld) (z : bseize) : lworld :=
  let a := z_amt_in z in
  mkLW
    (kadd (kadd (kadd (w_bal w) (z_pool_acc z, z_denom_in z) (- a)) (auction_acc, z_denom_in z) a)
          (z_pool_acc z, z_cdenom z) (- a))
    (kadd (w_supply w) (0, z_cdenom z) (- a))
    (kadd (w_tlend w) (z_pool_in z, z_asset_in z) (- a))
    (if z_stable z then w_tborrow w else kadd (w_tborrow w) (z_pool_out z, z_asset_out z) (- z_amt_out z))
    (if z_stable z then kadd (w_tstable w) (z_pool_out z, z_asset_out z) (- z_amt_out z) else w_tstable w)
    (lend_sub (w_lend w) (z_lend z) a)
    (w_liq w ++ [z_id z])
    (w_locked w ++ [(z_id z, a)])
    (w_auction w ++ [(z_id z, a)]).

(* decidable equality of observations *)
Definition kv_eqb (a b : key * Z) : bool := key_eqb (fst a) (fst b) && (snd a =? snd b).
Definition zz_eqb (a b : Z * Z) : bool := (fst a =? fst b) && (snd a =? snd b).
Fixpoint list_eqb {A} (eqb : A -> A -> bool) (l1 l2 : list A) : bool :=
  match l1, l2 with
  | [], [] => true
  | a :: r1, b :: r2 => eqb a b && list_eqb eqb r1 r2
  | _, _ => false
  end.
Definition lworld_eqb (a b : lworld) : bool :=
  list_eqb kv_eqb (w_bal a) (w_bal b) && list_eqb kv_eqb (w_supply a) (w_supply b) &&
  list_eqb kv_eqb (w_tlend a) (w_tlend b) && list_eqb kv_eqb (w_tborrow a) (w_tborrow b) &&
  list_eqb kv_eqb (w_tstable a) (w_tstable b) && list_eqb zz_eqb (w_lend a) (w_lend b) &&
  list_eqb Z.eqb (w_liq a) (w_liq b) && list_eqb zz_eqb (w_locked a) (w_locked b) &&
  list_eqb zz_eqb (w_auction a) (w_auction b).

(* the borrow hand-over predicate, evaluated on the IMPLEMENTATION's observations before / after a
   step in which it seized the borrows [zs] (descriptors read before the step): the world after
   the step is exactly the world before it with every seizure's book-keeping applied - exactly
   the recorded collateral left the pool for auction custody, the same amount of cTokens was
   burnt, the pool statistics and the lend position shrank by exactly the recorded amounts,
   IsLiquidated was set, exactly one locked vault and one auction per seizure for exactly the
   recorded collateral, and nothing else moved *)
Definition holds_C09_handover_borrow (before after : lworld) (zs : list bseize) : bool :=
  lworld_eqb (fold_left seize_borrow_world zs before) after.

(* ---- 4c. MsgLiquidateExternalKeeper (liquidate.go:679-718): anyone hands collateral of his own to the
   auction module against the app's reserve funds for the debt asset; a Dutch auction is opened ---- *)
Definition ext_rule (params reserve dutch : bool) (price_c price_d : option Z) : bool :=
  params && reserve && dutch && is_some price_c && is_some price_d.

Definition ext_world (w : lworld) (denom amt : Z) : lworld :=
  mkLW (kadd (w_bal w) (auction_acc, denom) amt) (w_supply w) (w_tlend w) (w_tborrow w) (w_tstable w)
       (w_lend w) (w_liq w) (w_locked w ++ [(0, amt)]) (w_auction w ++ [(0, amt)]).

Definition holds_C09_handover_external (before after : lworld) (denom amt : Z) : bool :=
  lworld_eqb (ext_world before denom amt) after.

(* the id-level effect of the sweep and the world-level effect name the same borrows *)
Definition seized_ids (zs : list bseize) : list Z := map z_id zs.

(* ------------------------------------------------------------------------------------ *)
(* 5. property predicates on observations                                                 *)

(* a vault is on the unsafe side iff the ratio is computable and below the liquidation ratio *)
Definition vault_unsafe (v : vault_in) : bool :=
  match cr_below v with Ok b => b | _ => false end.
Definition borrow_unsafe (b : borrow_in) : bool :=
  match ratio_above b with Ok x => x | _ => false end.

(* safety: every seized position was on the unsafe side at the inputs the step read *)
Definition holds_C09_safe (seized : list vault_in) : bool := forallb vault_unsafe seized.
Definition holds_C09_safe_borrow (seized : list borrow_in) : bool := forallb borrow_unsafe seized.

(* the property's liveness hypotheses for a borrow at one block: the position exists and is open,
   the kill switch is off, liquidation is enabled for the app (whitelisting) with an auction type
   activated; active prices are implied by a computable ratio (borrow_unsafe) *)
Definition live_hyp_borrow (b : borrow_in) : bool :=
  b_found b && negb (b_liquidated b) && b_lend_found b && negb (b_kill b) &&
  b_white b && (b_dutch b || b_english b).

(* known-finding class C09-F5: every hypothesis of the property holds and the borrow is above its
   threshold, but the module account of the collateral's pool holds less of the collateral asset
   than the borrow recorded (the rest is lent out to other borrowers): UpdateLockedBorrows fails at
   SendCoinsFromModuleToModule, the visit is rolled back, the borrow is not seized - in any block
   while the pool stays short *)
Definition kf_C09_5 (b : borrow_in) : bool :=
  live_hyp_borrow b && borrow_unsafe b && negb (borrow_funds_ok b).

(* known-finding class C09-F6: every hypothesis of the property holds and the borrow is above its
   threshold (at its STORED interest), but the interest update every visit starts with fails: the
   borrow was opened while lend.GetReserveRate was exactly 0 (e.g. the only earlier borrows of that
   pool asset are stable borrows of an asset whose stable rate parameters are 0), its
   ReserveGlobalIndex is 0 and lend.CalculateBorrowInterest divides by it - in every block, and in
   every liquidate / repay / close message *)
Definition kf_C09_6 (b : borrow_in) : bool :=
  live_hyp_borrow b && borrow_unsafe b && (b_interest_panic b || negb (b_interest_ok b)).

(* liveness hypotheses for a vault at one block: controls off, prices active, liquidation and
   its auction type enabled *)
Definition live_hyp_vault (g : gen) (v : vault_in) : bool :=
  negb (v_esm v) && negb (v_kill v) && start_ok g v && v_white v &&
  (match v_price_in v with Some _ => true | None => false end) &&
  (if v_out_oracle v then match v_price_out v with Some _ => true | None => false end else true).

(* the proved bound (Proofs: live_interleaved): a position that stays unsafe while the
   hypotheses hold is seized within this many blocks; [m] = list length when it became unsafe
   plus the creations since, [c] = those creations, [b] = batch size *)
Definition live_R (m b : Z) : Z := (m - 1) / b + 2.
Definition live_bound (m c b : Z) : Z := m * live_R m b + 2 * c.

Definition holds_C09_live (age m c b : Z) : bool := age <=? live_bound m c b.

(* the proved bound for the V2 BORROW sweep with interleaved repayments and new borrows: an
   insertion anywhere in the list costs at most 3 blocks (an appended vault: 2) *)
Definition blive_bound (m c b : Z) : Z := live_bound m c b + c.
Definition holds_C09_live_borrow (age m c b : Z) : bool := age <=? blive_bound m c b.
(* quiet chain (no repayment / new borrow during the wait): within live_R n b = (n-1)/b + 2 blocks *)
Definition holds_C09_live_borrow_quiet (age n b : Z) : bool := age <=? live_R n b.

(* the property's literal bound: two full sweeps of the list *)
Definition two_sweeps (n b : Z) : Z := 2 * ((n + b - 1) / b).

(* known-finding classes *)
(* C09-F1: more than two full sweeps of the list, but within the proved bound *)
Definition kf_C09_1 (age m c b : Z) : bool := (age >? two_sweeps m b) && (age <=? live_bound m c b).
(* (C09-F2, the V2 borrow sweep storing its offset under the vault sweep's key, and C09-F3, the V2
   borrow loop aborted by the first erroring borrow, are repaired: no class) *)

(* ------------------------------------------------------------------------------------ *)
(* 6. the quiet / interleaved schedule used by the liveness theorems and by the in-Coq
      exhaustive evaluation: single offset, counter = length, capacity = length            *)

Inductive event :=
| EBlock (unsafe : Z -> bool)    (* a block: the sweep, with the verdicts of that block *)
| EClose (id : Z)                (* a user closes (or another sweep seizes) position id *)
| ECreate (id : Z).              (* a user opens a position: appended *)

Definition lpos (unsafe : Z -> bool) (id : Z) : pos := mkPos id 0 (if unsafe id then VSeize else VKeep).

(* one block of the single-offset vault sweep on a list of ids *)
Definition block_ids (ids : list Z) (off batch : Z) (unsafe : Z -> bool) : list Z * list Z * Z :=
  match sweep_core GV2 0 (map (lpos unsafe) ids) (zlen ids) (zlen ids) off batch with
  | Ok (sz, l', o) => (sz, map p_id l', o)
  | _ => ([], ids, off)
  end.

Definition ev_step (batch : Z) (st : list Z * Z) (e : event) : list Z * Z :=
  match e with
  | EBlock unsafe => let r := block_ids (fst st) (snd st) batch unsafe in (snd (fst r), snd r)
  | EClose id => (filter (fun x => negb (x =? id)) (fst st), snd st)
  | ECreate id => (fst st ++ [id], snd st)
  end.

(* position of x in the list (0-based; length of the list when absent) *)
Fixpoint idxn (x : Z) (l : list Z) : nat :=
  match l with [] => O | a :: r => if a =? x then O else S (idxn x r) end.
Definition idx (x : Z) (l : list Z) : Z := Z.of_nat (idxn x l).

(* the potential of the liveness proof: blocks the offset still needs to reach index i in a
   list of n positions (an upper estimate), see Proofs *)
Definition pot_T (n i off b : Z) : Z :=
  if off <? n then
    if off <=? i then (i - off) / b else (n - off + i) / b + 1
  else i / b.
Definition pot (b : Z) (x : Z) (st : list Z * Z) (c : Z) : Z :=
  let n := zlen (fst st) in
  let m := n + c in
  pot_T n (idx x (fst st)) (snd st) b + 2 * c + (m - 1) * live_R m b.

Definition is_block (e : event) : Z := match e with EBlock _ => 1 | _ => 0 end.
Definition is_create (e : event) : Z := match e with ECreate _ => 1 | _ => 0 end.
Definition n_blocks (evs : list event) : Z := zsum (map is_block evs).
Definition n_creates (evs : list event) : Z := zsum (map is_create evs).

(* ---- the borrow schedule: a seized borrow is not removed, it stays in the list with
   IsLiquidated set.  BBlock vf = one block of the V2 borrow sweep in which borrow id reaches the
   verdict vf id (ANY verdict, errors and panics included, for every borrow: every price path and
   every fault of another position); BClose id = the borrow is repaid / deleted (leaves the
   list); BCreate k id = a new borrow, INSERTED at position k: lend.GetBorrows concatenates the
   BorrowIds of the pool-asset statistics in store-key order (pool, asset), a new borrow is appended
   to the BorrowIds of ITS (AssetOutPoolID, AssetOut), i.e. anywhere in the swept list (k >= length
   = appended).  State: ids, stored offset (key 1), the ids liquidated so far. ---- *)
Inductive bevent :=
| BBlock (vf : Z -> verdict)
| BClose (id : Z)
| BCreate (k : nat) (id : Z).

Definition insert_at (k : nat) (id : Z) (ids : list Z) : list Z := firstn k ids ++ id :: skipn k ids.

Definition bpos (vf : Z -> verdict) (liq : list Z) (id : Z) : pos :=
  mkPos id 0 (if mem_z id liq then VKeep else vf id).

Record bstate := mkB { bs_ids : list Z; bs_off : Z; bs_liq : list Z }.

(* one block of the V2 borrow sweep on a list of ids: seized ids, offset to store *)
Definition bblock_ids (ids liq : list Z) (off batch : Z) (vf : Z -> verdict) : list Z * Z :=
  match sweep_core GB2 0 (map (bpos vf liq) ids) (zlen ids) (zlen ids) off batch with
  | Ok (sz, _, o) => (sz, o)
  | _ => ([], off)
  end.

Definition bev_step (batch : Z) (st : bstate) (e : bevent) : bstate :=
  match e with
  | BBlock vf =>
      let r := bblock_ids (bs_ids st) (bs_liq st) (bs_off st) batch vf in
      mkB (bs_ids st) (snd r) (bs_liq st ++ fst r)
  | BClose id => mkB (filter (fun x => negb (x =? id)) (bs_ids st)) (bs_off st) (bs_liq st)
  | BCreate k id => mkB (insert_at k id (bs_ids st)) (bs_off st) (bs_liq st)
  end.

Definition is_bblock (e : bevent) : Z := match e with BBlock _ => 1 | _ => 0 end.
Definition is_bcreate (e : bevent) : Z := match e with BCreate _ _ => 1 | _ => 0 end.
Definition n_bblocks (evs : list bevent) : Z := zsum (map is_bblock evs).
Definition n_bcreates (evs : list bevent) : Z := zsum (map is_bcreate evs).

(* V2 hook iterated k times *)
Fixpoint run_v2 (capf : Z -> Z) (batch : Z) (k : nat) (st : v2_state) : outcome v2_state :=
  match k with
  | O => Ok st
  | S k' =>
      match sweep_v2 capf batch st with
      | Ok (_, _, st') => run_v2 capf batch k' st'
      | Err c => Err c
      | Panic => Panic
      end
  end.

(* number of blocks until [x] leaves the list under constant verdicts, at most [fuel] *)
Fixpoint blocks_until (fuel : nat) (batch : Z) (unsafe : Z -> bool) (x : Z) (ids : list Z) (off : Z) : Z :=
  match fuel with
  | O => 0
  | S f =>
      if mem_z x ids then
        let r := block_ids ids off batch unsafe in
        1 + blocks_until f batch unsafe x (snd (fst r)) (snd r)
      else 0
  end.

(* exhaustive evaluation on small sizes: all safe/unsafe patterns of n positions (as bit
   masks), every start offset 0..n, every unsafe position; returns the worst block count *)
Definition pattern (mask : Z) (id : Z) : bool := Z.testbit mask id.

Definition worst_blocks (n batch : Z) : Z :=
  let ids := map Z.of_nat (seq 0 (Z.to_nat n)) in
  fold_left Z.max
    (flat_map (fun mask =>
       flat_map (fun off =>
         map (fun x => if pattern mask x
                       then blocks_until (Z.to_nat (4 * n + 8)) batch (pattern mask) x ids off
                       else 0) ids)
         (map Z.of_nat (seq 0 (Z.to_nat n + 1))))
       (map Z.of_nat (seq 0 (Z.to_nat (2 ^ n)))))
    0.
