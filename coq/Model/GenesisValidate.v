(* C20 - what the genesis validation reads (definitions only).

   InitGenesis of the liquidity module validates the imported state and panics on an error; every
   module's AppModuleBasic.ValidateGenesis runs the same kind of function on a genesis file.  A
   validation that rejects a state the module exported itself makes the chain unable to start from
   its own export.  The regenerated table (Gen/GenesisTable.v, part 7) lists every collection the
   validation ranges over, every map it builds and every lookup it makes in one.  The decision
   procedure below checks the CROSS REFERENCES: a record of another kind is looked up through the
   field that names that kind's id -

       pool, ok := poolMap[req.PoolId]        DepositRequest.PoolId -> Pool   (map keyed by Pool.Id)
       pair := pairMap[pool.PairId]           Pool.PairId           -> Pair   (map keyed by Pair.Id)

   - never through the id of something else (pairMap[req.PoolId] finds the pair whose id happens to be
   the POOL's id: the right one only while every pair has exactly one pool). *)
From Coq Require Import String Ascii.
From Comdex Require Import Lib.Base Lib.GenesisTypes Gen.GenesisTable.
Open Scope Z_scope.
Local Open Scope string_scope.

Definition str_in (s : string) (l : list string) : bool := existsb (String.eqb s) l.

(* the record whose field is the key is the item of the loop the access stands in *)
Definition from_item (x : val_xref) : bool := String.eqb (vx_from x) ("item:" ++ vx_coll x).

(* ... or was itself fetched, in the same loop, from a map holding records of its kind - by a lookup
   that is a row of its own (and is checked on its own) *)
Definition from_fetch (xs : list val_xref) (x : val_xref) : bool :=
  existsb (fun y => String.eqb (vx_mod y) (vx_mod x) && String.eqb (vx_coll y) (vx_coll x) &&
                    String.eqb (vx_from x) ("map:" ++ vx_map y) && String.eqb (vx_kind y) (vx_owner x) &&
                    (String.eqb (vx_how y) "fetch" || String.eqb (vx_how y) "fetch-checked")) xs.

(* every population of the map [name] stores a record of the map's kind under that record's own Id *)
Definition map_keyed_by_id (xs : list val_xref) (m name kind : string) : bool :=
  let pops := filter (fun y => String.eqb (vx_mod y) m && String.eqb (vx_map y) name && String.eqb (vx_how y) "populate") xs in
  match pops with [] => false | _ => true end &&
  forallb (fun y => String.eqb (vx_owner y) kind && from_item y &&
                    match vx_keys y with [k] => String.eqb k "Id" | _ => false end) pops.

Definition composite (k : string) : bool := String.prefix "(" k.

Definition xref_ok (xs : list val_xref) (x : val_xref) : bool :=
  if String.eqb (vx_kind x) "" then
    (* a duplicate-detection set: keyed by fields of the loop's own item *)
    from_item x && match vx_keys x with [] => false | _ => true end
  else if String.eqb (vx_owner x) (vx_kind x) && from_item x then
    (* the item in the map of its own kind (duplicate check, population): its own Id, or a composite
       of its own fields *)
    match vx_keys x with [k] => String.eqb k "Id" || composite k | _ => false end
  else
    (* a reference to a record of ANOTHER kind K: the key is the field "<K>Id" of a record that is
       the loop's item or was fetched by a checked row; the map is keyed by K's own Id *)
    match vx_keys x with [k] => String.eqb k (vx_kind x ++ "Id") | _ => false end &&
    (from_item x || from_fetch xs x) &&
    map_keyed_by_id xs (vx_mod x) (vx_map x) (vx_kind x).

Definition xrefs_keyed (xs : list val_xref) : bool := forallb (xref_ok xs) xs.

(* every access is on a declared map of the stated kind *)
Definition xref_declared (ms : list val_map) (x : val_xref) : bool :=
  existsb (fun m => String.eqb (vm_mod m) (vx_mod x) && String.eqb (vm_name m) (vx_map x) && String.eqb (vm_kind m) (vx_kind x)) ms.

(* closed world: every DeFi module has an AppModuleBasic.ValidateGenesis row; the error of a
   validation is never ignored *)
Definition entries_closed (mods : list (string * string)) (es : list val_entry) : bool :=
  forallb (fun m => existsb (fun e => String.eqb (ve_mod e) (fst m) && String.eqb (ve_entry e) "ValidateGenesis") es) mods &&
  forallb (fun e => negb (String.eqb (ve_reaction e) "ignored")) es.

(* the modules whose InitGenesis itself validates (and panics / returns on a rejected state) *)
Definition validates_at_init (es : list val_entry) : list string :=
  map ve_mod (filter (fun e => String.eqb (ve_entry e) "InitGenesis") es).

(* last component of "Kind.Field" *)
Fixpoint after_dot (s acc : string) : string :=
  match s with
  | EmptyString => acc
  | String c r => if Ascii.eqb c (Ascii.ascii_of_nat 46) then after_dot r EmptyString else after_dot r (acc ++ String c EmptyString)
  end.
Definition leaf (s : string) : string := after_dot s EmptyString.

(* every collection the validation ranges over is a field the module's ExportGenesis fills (or the
   per-app wrapper that holds such fields) *)
Definition coll_exported (exps : list export_row) (cs : list val_coll) (c : val_coll) : bool :=
  existsb (fun e => String.eqb (e_mod e) (vc_mod c) && String.eqb (e_field e) (leaf (vc_coll c))) exps ||
  existsb (fun d => String.eqb (vc_mod d) (vc_mod c) && String.eqb (vc_parent d) (vc_coll c)) cs.

Definition validation_ok : bool :=
  xrefs_keyed val_xrefs && forallb (xref_declared val_maps) val_xrefs &&
  entries_closed modules val_entries && forallb (coll_exported exports val_colls) val_colls.
