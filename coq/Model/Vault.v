(* Model of x/vault/keeper/msg_server.go (all message handlers) and of the helpers they call in
   x/vault/keeper/vault.go (CalculateCollateralizationRatio, VerifyCollaterlizationRatio,
   GetAmountOfOtherToken, CheckAppExtendedPairVaultMapping, Update...Mapping, calculateUserToken,
   DeleteAddressFromAppExtendedPairVaultMapping), x/market CalcAssetPrice, x/collector
   UpdateCollector (only its error condition: the collector's books are C13's subject) and the
   bank calls, STATEMENT BY STATEMENT in the order of the Go code, defects included.
   Definitions only; proofs live in Proofs/VaultProofs*.v.

   What is an input (environment) rather than state computed here:
   - the interest that rewards.CalculateVaultInterest adds to the vault inside a handler: an
     argument [ienv] of the op (>= 0: the delta of InterestAccumulated; -1: the call returned
     an error; -2: the call panicked, e.g. Int64() of a debt above 2^63-1);
   - oracle prices (Twa + active flag), block time, ESM status / snapshot prices and the circuit
     breaker: fields of the state that only the env ops SetPrice / AdvanceTime / SetEsm /
     SetSnap / SetBreaker change.
   Not modelled: uint64 wrap of the id counters (fewer than 2^64 vaults are ever created), the
   256-bit overflow of sdk.Int Add/Sub (amounts are bounded by the total supply < 2^256), the
   stable-mint rewards bookkeeping (no app is registered for external stable-vault rewards). *)
From Comdex Require Import Lib.Base Lib.DecArith Lib.Atomic.

(* ---------- accounts and error classes ---------- *)
Definition VAULT : Z := 0.      (* module account vaultV1 (custody) *)
Definition COLL : Z := 1.       (* module account collectorV1 *)
                                (* users: ids >= 2 *)
Definition E_ESM := 1.       Definition E_BREAKER := 2.   Definition E_NOTFOUND := 3.
Definition E_MISMATCH := 4.  Definition E_UNAUTH := 5.    Definition E_INVALID := 6.
Definition E_FLOOR := 7.     Definition E_CEIL := 8.      Definition E_CR := 9.
Definition E_PRICE := 10.    Definition E_FUNDS := 11.    Definition E_STATE := 12.
Definition E_INTEREST := 13.

(* ---------- configuration (asset module records, resolved per extended pair) ---------- *)
Record epair := mkEP {
  ep_id : Z; ep_app : Z;
  ep_in : Z; ep_out : Z;              (* asset ids (= denoms) of collateral and debt *)
  ep_dec_in : Z; ep_dec_out : Z;      (* Asset.Decimals, the scale factor itself (10^6 ...) *)
  ep_stab : Z; ep_closing : Z; ep_ddf : Z; ep_min_cr : Z;   (* Dec: stability, closing, draw-down fee, min CR *)
  ep_floor : Z; ep_ceiling : Z;       (* Int: debt floor, debt ceiling *)
  ep_stable : bool; ep_active : bool; ep_oracle_out : bool; ep_out_price : Z }.

Record cfg := mkCfg { apps : list Z; epairs : list epair }.

Definition get_ep (c : cfg) (id : Z) : option epair := find (fun e => ep_id e =? id) (epairs c).
Definition app_exists (c : cfg) (a : Z) : bool := existsb (Z.eqb a) (apps c).

(* ---------- state ---------- *)
Record vault := mkV { v_id : Z; v_owner : Z; v_app : Z; v_pair : Z;
                      v_in : Z; v_out : Z; v_int : Z; v_fee : Z }.
Record svault := mkSV { sv_id : Z; sv_app : Z; sv_pair : Z; sv_in : Z; sv_out : Z }.
Record prod := mkP { p_coll : Z; p_mint : Z; p_ids : list Z }.
Record esm_rec := mkEsm { e_status : bool; e_end : Z; e_snap : bool }.
Definition esm0 := mkEsm false 0 false.     (* GetESMStatus not found: the zero value *)

Record state := mkS {
  vaults : list vault;                 (* the Vault records *)
  svaults : list svault;               (* the StableMintVault records *)
  prods : Z -> Z -> option prod;       (* AppExtendedPairVaultMappingData by (app, ext pair) *)
  umap : Z -> Z -> Z -> option Z;      (* UserAppExtendedPairMapping: owner app pair -> vault id *)
  vlen : Z; vid : Z; sid : Z;          (* LengthOfVault, IDForVault, IDForStableVault *)
  bal : Z -> Z -> Z;                   (* bank balance: account denom *)
  sup : Z -> Z;                        (* bank total supply per denom *)
  now : Z;                             (* block time, unix seconds *)
  price : Z -> option Z;               (* market Twa of an asset when IsPriceActive *)
  esm : Z -> esm_rec;                  (* per app *)
  snap : Z -> Z -> option Z;           (* esm.GetSnapshotOfPrices app asset *)
  brk : Z -> bool;                     (* KillSwitchParams.BreakerEnable per app *)
  unsol : Z -> Z                       (* ghost: coins sent to the custody account unsolicited *)
}.

Definition set_vaults s x := mkS x (svaults s) (prods s) (umap s) (vlen s) (vid s) (sid s) (bal s) (sup s) (now s) (price s) (esm s) (snap s) (brk s) (unsol s).
Definition set_svaults s x := mkS (vaults s) x (prods s) (umap s) (vlen s) (vid s) (sid s) (bal s) (sup s) (now s) (price s) (esm s) (snap s) (brk s) (unsol s).
Definition set_prods s x := mkS (vaults s) (svaults s) x (umap s) (vlen s) (vid s) (sid s) (bal s) (sup s) (now s) (price s) (esm s) (snap s) (brk s) (unsol s).
Definition set_umap s x := mkS (vaults s) (svaults s) (prods s) x (vlen s) (vid s) (sid s) (bal s) (sup s) (now s) (price s) (esm s) (snap s) (brk s) (unsol s).
Definition set_vlen s x := mkS (vaults s) (svaults s) (prods s) (umap s) x (vid s) (sid s) (bal s) (sup s) (now s) (price s) (esm s) (snap s) (brk s) (unsol s).
Definition set_vid s x := mkS (vaults s) (svaults s) (prods s) (umap s) (vlen s) x (sid s) (bal s) (sup s) (now s) (price s) (esm s) (snap s) (brk s) (unsol s).
Definition set_sid s x := mkS (vaults s) (svaults s) (prods s) (umap s) (vlen s) (vid s) x (bal s) (sup s) (now s) (price s) (esm s) (snap s) (brk s) (unsol s).
Definition set_bal s x := mkS (vaults s) (svaults s) (prods s) (umap s) (vlen s) (vid s) (sid s) x (sup s) (now s) (price s) (esm s) (snap s) (brk s) (unsol s).
Definition set_sup s x := mkS (vaults s) (svaults s) (prods s) (umap s) (vlen s) (vid s) (sid s) (bal s) x (now s) (price s) (esm s) (snap s) (brk s) (unsol s).
Definition set_now s x := mkS (vaults s) (svaults s) (prods s) (umap s) (vlen s) (vid s) (sid s) (bal s) (sup s) x (price s) (esm s) (snap s) (brk s) (unsol s).
Definition set_price s x := mkS (vaults s) (svaults s) (prods s) (umap s) (vlen s) (vid s) (sid s) (bal s) (sup s) (now s) x (esm s) (snap s) (brk s) (unsol s).
Definition set_esm s x := mkS (vaults s) (svaults s) (prods s) (umap s) (vlen s) (vid s) (sid s) (bal s) (sup s) (now s) (price s) x (snap s) (brk s) (unsol s).
Definition set_snap s x := mkS (vaults s) (svaults s) (prods s) (umap s) (vlen s) (vid s) (sid s) (bal s) (sup s) (now s) (price s) (esm s) x (brk s) (unsol s).
Definition set_brk s x := mkS (vaults s) (svaults s) (prods s) (umap s) (vlen s) (vid s) (sid s) (bal s) (sup s) (now s) (price s) (esm s) (snap s) x (unsol s).
Definition set_unsol s x := mkS (vaults s) (svaults s) (prods s) (umap s) (vlen s) (vid s) (sid s) (bal s) (sup s) (now s) (price s) (esm s) (snap s) (brk s) x.

(* the state before any vault message: arbitrary balances / supply / environment, empty books *)
Definition init (b : Z -> Z -> Z) (sp : Z -> Z) (t : Z) (pr : Z -> option Z) : state :=
  mkS [] [] (fun _ _ => None) (fun _ _ _ => None) 0 0 0 b sp t pr (fun _ => esm0)
      (fun _ _ => None) (fun _ => false) (fun _ => 0).

(* ---------- finite maps as functions ---------- *)
Definition upd1 {A} (f : Z -> A) (k : Z) (v : A) : Z -> A := fun x => if x =? k then v else f x.
Definition upd2 {A} (f : Z -> Z -> A) (k1 k2 : Z) (v : A) : Z -> Z -> A :=
  fun x y => if (x =? k1) && (y =? k2) then v else f x y.
Definition upd3 {A} (f : Z -> Z -> Z -> A) (k1 k2 k3 : Z) (v : A) : Z -> Z -> Z -> A :=
  fun x y z => if (x =? k1) && (y =? k2) && (z =? k3) then v else f x y z.

(* ---------- the vault KV records (key = id; a record is replaced in place, a new key is
   appended: ids only grow, so the list stays in key order, as the store iterates) ---------- *)
Section KV.
  Context {A : Type} (key : A -> Z).
  Fixpoint gfind (l : list A) (id : Z) : option A :=
    match l with [] => None | v :: r => if key v =? id then Some v else gfind r id end.
  Fixpoint gput (l : list A) (v : A) : list A :=
    match l with [] => [v] | w :: r => if key w =? key v then v :: r else w :: gput r v end.
  Fixpoint gdel (l : list A) (id : Z) : list A :=
    match l with [] => [] | w :: r => if key w =? id then r else w :: gdel r id end.
End KV.
Definition find_v := gfind v_id.
Definition put_v := gput v_id.
Definition del_v := gdel v_id.
Definition find_sv := gfind sv_id.
Definition put_sv := gput sv_id.

(* ---------- bank ---------- *)
(* SendCoins* with one coin: sdk.NewCoin panics on a negative amount, sdk.NewCoins drops a zero
   coin (empty send), otherwise the sender must hold the amount *)
(* the balance change of a transfer: subUnlockedCoins(from) then addCoins(to) *)
Definition xfer (from to d amt : Z) : Z -> Z -> Z :=
  fun a x => (if (a =? to) && (x =? d) then amt else 0) - (if (a =? from) && (x =? d) then amt else 0).
Definition at1 (d amt : Z) : Z -> Z := fun x => if x =? d then amt else 0.
Definition at2 (a0 d amt : Z) : Z -> Z -> Z := fun a x => if (a =? a0) && (x =? d) then amt else 0.

Definition send (s : state) (from to d amt : Z) : outcome state :=
  if amt <? 0 then Panic
  else if amt =? 0 then Ok s
  else if bal s from d <? amt then Err E_FUNDS
  else Ok (set_bal s (fun a x => bal s a x + xfer from to d amt a x)).

(* MintCoins / BurnCoins on the vault module account *)
Definition mint (s : state) (d amt : Z) : outcome state :=
  if amt <? 0 then Panic
  else Ok (set_sup (set_bal s (fun a x => bal s a x + at2 VAULT d amt a x)) (fun x => sup s x + at1 d amt x)).
Definition burn (s : state) (d amt : Z) : outcome state :=
  if amt <? 0 then Panic
  else if bal s VAULT d <? amt then Err E_FUNDS
  else Ok (set_sup (set_bal s (fun a x => bal s a x - at2 VAULT d amt a x)) (fun x => sup s x - at1 d amt x)).

(* collector.UpdateCollector: fails only through SetNetFeeCollectedData on a negative fee *)
Definition update_collector (s : state) (fee : Z) : outcome state :=
  if fee <? 0 then Err E_INVALID else Ok s.

(* ---------- the per-product record ---------- *)
Definition prod0 := mkP 0 0 [].
(* CheckAppExtendedPairVaultMapping: initialises the record when absent; returns TokenMintedAmount *)
Definition ensure_prod (s : state) (app pair : Z) : state :=
  match prods s app pair with Some _ => s | None => set_prods s (upd2 (prods s) app pair (Some prod0)) end.
Definition prod_mint (s : state) (app pair : Z) : Z :=
  match prods s app pair with Some p => p_mint p | None => 0 end.
Definition prod_nids (s : state) (app pair : Z) : Z :=
  match prods s app pair with Some p => zlen (p_ids p) | None => 0 end.
(* UpdateAppExtendedPairVaultMappingDataOnMsgCreate / ...OnMsgCreateStableMintVault *)
Definition prod_on_create (s : state) (app pair ain aout id : Z) : state :=
  let p := match prods s app pair with Some p => p | None => prod0 end in
  set_prods s (upd2 (prods s) app pair (Some (mkP (p_coll p + ain) (p_mint p + aout) (p_ids p ++ [id])))).
(* UpdateCollateralLockedAmountLockerMapping / UpdateTokenMintedAmountLockerMapping: no-op when
   the record is absent *)
Definition upd_coll (s : state) (app pair amt : Z) (add : bool) : state :=
  match prods s app pair with
  | Some p => set_prods s (upd2 (prods s) app pair
                (Some (mkP (if add then p_coll p + amt else p_coll p - amt) (p_mint p) (p_ids p))))
  | None => s end.
Definition upd_mint (s : state) (app pair amt : Z) (add : bool) : state :=
  match prods s app pair with
  | Some p => set_prods s (upd2 (prods s) app pair
                (Some (mkP (p_coll p) (if add then p_mint p + amt else p_mint p - amt) (p_ids p))))
  | None => s end.

(* sort.Search(n, func(i) ids[i] >= v): the bisection of the Go standard library *)
Fixpoint bsearch (fuel : nat) (l : list Z) (v : Z) (i j : Z) : Z :=
  match fuel with
  | O => i
  | S f =>
      if i <? j then
        let h := (i + j) / 2 in
        match nth_z l (Z.to_nat h) with
        | Some x => if x >=? v then bsearch f l v i h else bsearch f l v (h + 1) j
        | None => i
        end
      else i
  end.
(* DeleteAddressFromAppExtendedPairVaultMapping on the id slice *)
Definition del_id (l : list Z) (v : Z) : list Z :=
  let n := zlen l in
  let k := bsearch (S (length l)) l v 0 n in
  if (k <? n) && (match nth_z l (Z.to_nat k) with Some x => x =? v | None => false end)
  then firstn (Z.to_nat k) l ++ skipn (S (Z.to_nat k)) l else l.
Definition prod_del_id (s : state) (app pair id : Z) : state :=
  match prods s app pair with
  | Some p => set_prods s (upd2 (prods s) app pair (Some (mkP (p_coll p) (p_mint p) (del_id (p_ids p) id))))
  | None => s end.

(* ---------- prices and the collateralization ratio ---------- *)
(* NewDecFromInt(amt).Mul(NewDecFromInt(p)).Quo(NewDecFromInt(dec)) *)
Definition total_value (amt p dec : Z) : outcome Z :=
  match dmul_c (dec_of_int amt) (dec_of_int p) with None => Panic | Some n =>
  match dquo_c n (dec_of_int dec) with None => Panic | Some q => Ok q end end.

(* market.CalcAssetPrice *)
Definition calc_asset_price (s : state) (asset dec amt : Z) : outcome Z :=
  match price s asset with
  | Some twa => total_value amt twa dec
  | None => Err E_PRICE
  end.

(* CalculateCollateralizationRatio.  The collateral value stays an uninitialised Dec (nil) when
   ESM is executed without a price snapshot: the comparison below then panics. *)
Definition calc_cr (s : state) (ep : epair) (ain aout : Z) : outcome Z :=
  let e := esm s (ep_app ep) in
  let st := e_status e in
  obind (if st && e_snap e then
           match snap s (ep_app ep) (ep_in ep) with
           | None => Err E_PRICE
           | Some p => obind (total_value ain p (ep_dec_in ep)) (fun x => Ok (Some x))
           end
         else if negb st then obind (calc_asset_price s (ep_in ep) (ep_dec_in ep) ain) (fun x => Ok (Some x))
         else Ok None) (fun in_total =>
  obind (if ep_oracle_out ep then
           if st && e_snap e then
             match snap s (ep_app ep) (ep_out ep) with
             | None => Err E_PRICE
             | Some p => total_value aout p (ep_dec_out ep)
             end
           else calc_asset_price s (ep_out ep) (ep_dec_out ep) aout
         else total_value aout (ep_out_price ep) (ep_dec_out ep)) (fun out_total =>
  match in_total with
  | None => Panic
  | Some it =>
      if it <=? 0 then Err E_INVALID
      else if out_total <=? 0 then Err E_INVALID
      else match dquo_c it out_total with None => Panic | Some r => Ok r end
  end)).

(* VerifyCollaterlizationRatio *)
Definition verify_cr (s : state) (ep : epair) (ain aout : Z) (status : bool) : outcome unit :=
  obind (calc_cr s ep ain aout) (fun r =>
  if (r <? ep_min_cr ep) && negb status then Err E_CR
  else if (r <? P18) && status then Err E_CR
  else Ok tt).

(* GetAmountOfOtherToken(id1, rate1, amt1, id2, rate2), second result *)
Definition other_token_gen (dec1 rate1 amt dec2 rate2 : Z) : option Z :=
  match dmul_c (dec_of_int amt) rate1 with None => None | Some num =>
  match dquo_c num (dec_of_int dec1) with None => None | Some t1 =>
  match dquo_c t1 rate2 with None => None | Some na =>
  match dmul_c na (dec_of_int dec2) with None => None | Some tok => dtrunc_int_c tok
  end end end end.
Definition other_token (dec1 amt dec2 : Z) : option Z := other_token_gen dec1 P18 amt dec2 P18.

(* the draw-down fee share: NewDecFromInt(x).Mul(fee).TruncateInt() *)
Definition fee_share (x fee : Z) : option Z :=
  match dmul_c (dec_of_int x) fee with None => None | Some m => dtrunc_int_c m end.

(* the opening-fee block shared by Create, Draw, stable Create/Deposit (non-zero-fee branch):
   share to the collector, the rest to the user *)
Definition pay_out (s : state) (from out_denom x fee : Z) : outcome state :=
  match fee_share x fee with
  | None => Panic
  | Some share =>
      obind (if share >? 0
             then obind (send s VAULT COLL out_denom share) (fun s1 => update_collector s1 share)
             else Ok s) (fun s2 =>
      let to_user := x - share in
      if to_user >? 0 then send s2 VAULT from out_denom to_user else Ok s2)
  end.

(* rewards.CalculateVaultInterest as seen by the vault: the env value is added to the record *)
Definition with_int (v : vault) (x : Z) := mkV (v_id v) (v_owner v) (v_app v) (v_pair v) (v_in v) (v_out v) x (v_fee v).
Definition with_in (v : vault) (x : Z) := mkV (v_id v) (v_owner v) (v_app v) (v_pair v) x (v_out v) (v_int v) (v_fee v).
Definition with_out (v : vault) (x : Z) := mkV (v_id v) (v_owner v) (v_app v) (v_pair v) (v_in v) x (v_int v) (v_fee v).
Definition accrue (s : state) (id ienv : Z) : outcome state :=
  if ienv =? -2 then Panic
  else if ienv <? 0 then Err E_INTEREST
  else match find_v (vaults s) id with
       | Some v => Ok (set_vaults s (put_v (vaults s) (with_int v (v_int v + ienv))))
       | None => Ok s
       end.

(* ---------- handlers (ValidateBasic of x/vault/types/msg.go first, as baseapp runs it) ---------- *)

Definition create_h (c : cfg) (s : state) (from app epid ain aout : Z) : outcome state :=
  let status := e_status (esm s app) in
  if status then Err E_ESM else
  if brk s app then Err E_BREAKER else
  match get_ep c epid with None => Err E_NOTFOUND | Some ep =>
  if negb (app_exists c app) then Err E_NOTFOUND else
  if negb (app =? ep_app ep) then Err E_MISMATCH else
  if ep_stable ep then Err E_STATE else
  if negb (ep_active ep) then Err E_STATE else
  match umap s from app epid with Some _ => Err E_STATE | None =>
  let s1 := ensure_prod s app epid in
  let minted := prod_mint s1 app epid in
  if negb (aout >=? ep_floor ep) then Err E_FLOOR else
  if minted + aout >? ep_ceiling ep then Err E_CEIL else
  obind (verify_cr s1 ep ain aout status) (fun _ =>
  obind (if ain >? 0 then send s1 from VAULT (ep_in ep) ain else Ok s1) (fun s2 =>
  if aout =? 0 then Err E_INVALID else
  obind (mint s2 (ep_out ep) aout) (fun s3 =>
  obind (if (ep_ddf ep =? 0) && (aout >? 0)
         then send s3 VAULT from (ep_out ep) aout
         else pay_out s3 from (ep_out ep) aout (ep_ddf ep)) (fun s4 =>
  (* closingFeeVal := NewDec(AmountOut.Int64()).Mul(ClosingFee).TruncateInt(): Int64() panics
     above 2^63-1 *)
  match int64_c aout with None => Panic | Some a64 =>
  match fee_share a64 (ep_closing ep) with None => Panic | Some closing =>
  let id := vid s4 + 1 in
  let nv := mkV id from app epid ain aout 0 closing in
  let s5 := set_vaults s4 (put_v (vaults s4) nv) in
  let s6 := set_vid s5 id in
  let s7 := set_vlen s6 (vlen s6 + 1) in
  let s8 := prod_on_create s7 app epid ain aout id in
  Ok (set_umap s8 (upd3 (umap s8) from app epid (Some id)))
  end end)))) end end.

Definition msg_create c s from app epid ain aout : outcome state :=
  if ain <=? 0 then Err E_INVALID else
  if aout <=? 0 then Err E_INVALID else
  create_h c s from app epid ain aout.

Definition deposit_h (c : cfg) (s : state) (from app epid id amt ienv : Z) : outcome state :=
  if e_status (esm s app) then Err E_ESM else
  if brk s app then Err E_BREAKER else
  match get_ep c epid with None => Err E_NOTFOUND | Some ep =>
  if negb (app_exists c app) then Err E_NOTFOUND else
  if negb (ep_active ep) then Err E_STATE else
  if negb (app =? ep_app ep) then Err E_MISMATCH else
  match find_v (vaults s) id with None => Err E_NOTFOUND | Some v0 =>
  if negb (v_owner v0 =? from) then Err E_UNAUTH else
  if negb (app =? v_app v0) then Err E_MISMATCH else
  if negb (ep_id ep =? v_pair v0) then Err E_MISMATCH else
  obind (accrue s id ienv) (fun s1 =>
  match find_v (vaults s1) id with None => Err E_NOTFOUND | Some v =>
  let nin := v_in v + amt in
  if negb (nin >? 0) then Err E_INVALID else
  obind (if amt >? 0 then send s1 from VAULT (ep_in ep) amt else Ok s1) (fun s2 =>
  let s3 := set_vaults s2 (put_v (vaults s2) (with_in v nin)) in
  Ok (upd_coll s3 app epid amt true))
  end) end end.

Definition msg_deposit c s from app epid id amt ienv : outcome state :=
  if id =? 0 then Err E_INVALID else
  if amt <=? 0 then Err E_INVALID else
  deposit_h c s from app epid id amt ienv.

Definition withdraw_h (c : cfg) (s : state) (from app epid id amt ienv : Z) : outcome state :=
  if brk s app then Err E_BREAKER else
  let e := esm s app in
  let status := e_status e in
  if (now s >? e_end e) && status then Err E_ESM else
  match get_ep c epid with None => Err E_NOTFOUND | Some ep =>
  if negb (app_exists c app) then Err E_NOTFOUND else
  if negb (ep_active ep) then Err E_STATE else
  if negb (app =? ep_app ep) then Err E_MISMATCH else
  match find_v (vaults s) id with None => Err E_NOTFOUND | Some v0 =>
  if negb (v_owner v0 =? from) then Err E_UNAUTH else
  if negb (app =? v_app v0) then Err E_MISMATCH else
  if negb (ep_id ep =? v_pair v0) then Err E_MISMATCH else
  obind (accrue s id ienv) (fun s1 =>
  match find_v (vaults s1) id with None => Err E_NOTFOUND | Some v =>
  let nin := v_in v - amt in
  if negb (nin >? 0) then Err E_INVALID else
  let debt := if status then v_out v else v_out v + v_int v + v_fee v in
  obind (verify_cr s1 ep nin debt status) (fun _ =>
  obind (if amt >? 0 then send s1 VAULT from (ep_in ep) amt else Ok s1) (fun s2 =>
  let s3 := set_vaults s2 (put_v (vaults s2) (with_in v nin)) in
  Ok (upd_coll s3 app epid amt false)))
  end) end end.

Definition msg_withdraw c s from app epid id amt ienv : outcome state :=
  if id =? 0 then Err E_INVALID else
  if amt <=? 0 then Err E_INVALID else
  withdraw_h c s from app epid id amt ienv.

Definition draw_h (c : cfg) (s : state) (from app epid id amt ienv : Z) : outcome state :=
  let status := e_status (esm s app) in
  if status then Err E_ESM else
  if brk s app then Err E_BREAKER else
  match get_ep c epid with None => Err E_NOTFOUND | Some ep =>
  if negb (app_exists c app) then Err E_NOTFOUND else
  if negb (ep_active ep) then Err E_STATE else
  if negb (app =? ep_app ep) then Err E_MISMATCH else
  match find_v (vaults s) id with None => Err E_NOTFOUND | Some v0 =>
  if negb (v_owner v0 =? from) then Err E_UNAUTH else
  if negb (app =? v_app v0) then Err E_MISMATCH else
  if negb (ep_id ep =? v_pair v0) then Err E_MISMATCH else
  if amt <=? 0 then Err E_INVALID else
  obind (accrue s id ienv) (fun s1 =>
  match find_v (vaults s1) id with None => Err E_NOTFOUND | Some v =>
  let debt := v_out v + amt + v_int v + v_fee v in
  let s2 := ensure_prod s1 app epid in
  let minted := prod_mint s2 app epid in
  if minted + amt >=? ep_ceiling ep then Err E_CEIL else
  obind (verify_cr s2 ep (v_in v) debt status) (fun _ =>
  if amt =? 0 then Err E_INVALID else
  obind (mint s2 (ep_out ep) amt) (fun s3 =>
  obind (if (ep_ddf ep =? 0) && (amt >? 0)
         then send s3 VAULT from (ep_out ep) amt
         else pay_out s3 from (ep_out ep) amt (ep_ddf ep)) (fun s4 =>
  let s5 := set_vaults s4 (put_v (vaults s4) (with_out v (v_out v + amt))) in
  Ok (upd_mint s5 app epid amt true))))
  end) end end.

Definition msg_draw c s from app epid id amt ienv : outcome state :=
  if id =? 0 then Err E_INVALID else
  if amt <=? 0 then Err E_INVALID else
  draw_h c s from app epid id amt ienv.

Definition msg_repay (c : cfg) (s : state) (from app epid id amt ienv : Z) : outcome state :=
  if id =? 0 then Err E_INVALID else
  if amt <=? 0 then Err E_INVALID else
  if e_status (esm s app) then Err E_ESM else
  if brk s app then Err E_BREAKER else
  match get_ep c epid with None => Err E_NOTFOUND | Some ep =>
  if negb (app_exists c app) then Err E_NOTFOUND else
  if negb (app =? ep_app ep) then Err E_MISMATCH else
  match find_v (vaults s) id with None => Err E_NOTFOUND | Some v0 =>
  if negb (v_owner v0 =? from) then Err E_UNAUTH else
  if negb (app =? v_app v0) then Err E_MISMATCH else
  if negb (ep_id ep =? v_pair v0) then Err E_MISMATCH else
  if amt <=? 0 then Err E_INVALID else
  obind (accrue s id ienv) (fun s1 =>
  match find_v (vaults s1) id with None => Err E_NOTFOUND | Some v =>
  if v_out v + v_int v - amt <? 0 then Err E_INVALID else
  if amt <=? v_int v then
    (* interest only: everything goes to the collector, nothing is burnt *)
    let v1 := with_int v (v_int v - amt) in
    obind (if amt >? 0
           then obind (send s1 from VAULT (ep_out ep) amt) (fun a =>
                obind (send a VAULT COLL (ep_out ep) amt) (fun b => update_collector b amt))
           else Ok s1) (fun s2 =>
    Ok (set_vaults s2 (put_v (vaults s2) v1)))
  else
    let sent := amt - v_int v in
    let ndebt := v_out v - sent in
    if negb (ndebt >=? ep_floor ep) then Err E_FLOOR else
    obind (if amt >? 0 then send s1 from VAULT (ep_out ep) amt else Ok s1) (fun s2 =>
    obind (if sent >? 0 then burn s2 (ep_out ep) sent else Ok s2) (fun s3 =>
    obind (if v_int v >? 0
           then obind (send s3 VAULT COLL (ep_out ep) (v_int v)) (fun a => update_collector a (v_int v))
           else Ok s3) (fun s4 =>
    let v1 := with_int (with_out v ndebt) 0 in
    let s5 := set_vaults s4 (put_v (vaults s4) v1) in
    Ok (upd_mint s5 app epid sent false))))
  end) end end.

Definition msg_close (c : cfg) (s : state) (from app epid id ienv : Z) : outcome state :=
  if id =? 0 then Err E_INVALID else
  if e_status (esm s app) then Err E_ESM else
  if brk s app then Err E_BREAKER else
  match get_ep c epid with None => Err E_NOTFOUND | Some ep =>
  if negb (app_exists c app) then Err E_NOTFOUND else
  if negb (app =? ep_app ep) then Err E_MISMATCH else
  match find_v (vaults s) id with None => Err E_NOTFOUND | Some v0 =>
  if negb (v_owner v0 =? from) then Err E_UNAUTH else
  if negb (app =? v_app v0) then Err E_MISMATCH else
  if negb (ep_id ep =? v_pair v0) then Err E_MISMATCH else
  obind (accrue s id ienv) (fun s1 =>
  match find_v (vaults s1) id with None => Err E_NOTFOUND | Some v =>
  let total := v_out v + v_int v + v_fee v in
  obind (if total >? 0 then send s1 from VAULT (ep_out ep) total else Ok s1) (fun s2 =>
  obind (update_collector s2 (v_int v + v_fee v)) (fun s3 =>
  obind (if v_int v >? 0 then send s3 VAULT COLL (ep_out ep) (v_int v) else Ok s3) (fun s4 =>
  obind (if v_fee v >? 0 then send s4 VAULT COLL (ep_out ep) (v_fee v) else Ok s4) (fun s5 =>
  obind (if v_out v >? 0 then burn s5 (ep_out ep) (v_out v) else Ok s5) (fun s6 =>
  obind (if v_in v >? 0 then send s6 VAULT from (ep_in ep) (v_in v) else Ok s6) (fun s7 =>
  let s8 := upd_coll s7 app epid (v_in v) false in
  let s9 := upd_mint s8 app epid (v_out v) false in
  let s10 := prod_del_id s9 app epid (v_id v) in
  let s11 := set_umap s10 (upd3 (umap s10) from app epid None) in
  let s12 := set_vaults s11 (del_v (vaults s11) (v_id v)) in
  Ok (set_vlen s12 (if vlen s12 =? 0 then two64 - 1 else vlen s12 - 1))))))))
  end) end end.

(* MsgDepositAndDraw: GetVault and calculateUserToken come before every other check; the two
   inner handlers are called directly (no ValidateBasic of their own) *)
Definition msg_deposit_draw (c : cfg) (s : state) (from app epid id amt i1 i2 : Z) : outcome state :=
  if id =? 0 then Err E_INVALID else
  if amt <=? 0 then Err E_INVALID else
  match find_v (vaults s) id with None => Err E_NOTFOUND | Some v =>
  match imul_c (v_out v) amt with None => Panic | Some nume =>
  match iquo_c nume (v_in v) with None => Panic | Some newamt =>
  obind (deposit_h c s from app epid id amt i1) (fun s1 =>
  draw_h c s1 from app epid id newamt i2)
  end end end.

Definition msg_stable_create (c : cfg) (s : state) (from app epid amt : Z) : outcome state :=
  if amt <=? 0 then Err E_INVALID else
  if e_status (esm s app) then Err E_ESM else
  if brk s app then Err E_BREAKER else
  match get_ep c epid with None => Err E_NOTFOUND | Some ep =>
  if negb (app_exists c app) then Err E_NOTFOUND else
  if negb (app =? ep_app ep) then Err E_MISMATCH else
  if negb (ep_stable ep) then Err E_STATE else
  if negb (ep_active ep) then Err E_STATE else
  match other_token (ep_dec_in ep) amt (ep_dec_out ep) with None => Panic | Some tout =>
  if negb (tout >=? ep_floor ep) then Err E_FLOOR else
  let s1 := ensure_prod s app epid in
  let minted := prod_mint s1 app epid in
  if prod_nids s1 app epid >=? 1 then Err E_STATE else
  if minted + tout >=? ep_ceiling ep then Err E_CEIL else
  obind (if amt >? 0
         then obind (send s1 from VAULT (ep_in ep) amt) (fun a =>
              if tout =? 0 then Err E_INVALID else mint a (ep_out ep) tout)
         else Ok s1) (fun s2 =>
  obind (if (ep_ddf ep =? 0) && (amt >? 0)
         then send s2 VAULT from (ep_out ep) tout    (* tokenOutAmount since fix C02-F1 (before: msg.Amount) *)
         else pay_out s2 from (ep_out ep) tout (ep_ddf ep)) (fun s3 =>
  let id := sid s3 + 1 in
  let s4 := set_svaults s3 (put_sv (svaults s3) (mkSV id app epid amt tout)) in
  let s5 := set_sid s4 id in
  Ok (prod_on_create s5 app epid amt tout id)))
  end end.

Definition msg_stable_deposit (c : cfg) (s : state) (from app epid id amt : Z) : outcome state :=
  if amt <=? 0 then Err E_INVALID else
  if e_status (esm s app) then Err E_ESM else
  if brk s app then Err E_BREAKER else
  match get_ep c epid with None => Err E_NOTFOUND | Some ep =>
  if negb (app_exists c app) then Err E_NOTFOUND else
  if negb (ep_active ep) then Err E_STATE else
  if negb (ep_stable ep) then Err E_STATE else
  if negb (app =? ep_app ep) then Err E_MISMATCH else
  match find_sv (svaults s) id with None => Err E_NOTFOUND | Some sv =>
  if negb (app =? sv_app sv) then Err E_MISMATCH else
  if negb (ep_id ep =? sv_pair sv) then Err E_MISMATCH else
  if negb (sv_in sv + amt >? 0) then Err E_INVALID else
  let s1 := ensure_prod s app epid in
  let minted := prod_mint s1 app epid in
  match other_token (ep_dec_in ep) amt (ep_dec_out ep) with None => Panic | Some tout =>
  if negb (tout >=? ep_floor ep) then Err E_FLOOR else
  if minted + tout >=? ep_ceiling ep then Err E_CEIL else
  obind (if amt >? 0
         then obind (send s1 from VAULT (ep_in ep) amt) (fun a =>
              if tout =? 0 then Err E_INVALID else mint a (ep_out ep) tout)
         else Ok s1) (fun s2 =>
  obind (if (ep_ddf ep =? 0) && (amt >? 0)
         then send s2 VAULT from (ep_out ep) tout
         else pay_out s2 from (ep_out ep) tout (ep_ddf ep)) (fun s3 =>
  let s4 := set_svaults s3 (put_sv (svaults s3) (mkSV (sv_id sv) (sv_app sv) (sv_pair sv) (sv_in sv + amt) (sv_out sv + tout))) in
  let s5 := upd_coll s4 app epid amt true in
  Ok (upd_mint s5 app epid tout true)))
  end end end.

Definition msg_stable_withdraw (c : cfg) (s : state) (from app epid id amt : Z) : outcome state :=
  if amt <=? 0 then Err E_INVALID else
  if e_status (esm s app) then Err E_ESM else
  if brk s app then Err E_BREAKER else
  match get_ep c epid with None => Err E_NOTFOUND | Some ep =>
  if negb (app_exists c app) then Err E_NOTFOUND else
  if negb (ep_stable ep) then Err E_STATE else
  if negb (app =? ep_app ep) then Err E_MISMATCH else
  if negb (amt >=? ep_floor ep) then Err E_FLOOR else
  match find_sv (svaults s) id with None => Err E_NOTFOUND | Some sv =>
  if negb (app =? sv_app sv) then Err E_MISMATCH else
  if negb (ep_id ep =? sv_pair sv) then Err E_MISMATCH else
  match other_token (ep_dec_out ep) amt (ep_dec_in ep) with None => Panic | Some tout0 =>
  if sv_in sv - tout0 <? 0 then Err E_INVALID else
  obind (if amt >? 0 then send s from VAULT (ep_out ep) amt else Ok s) (fun s1 =>
  obind (if (ep_ddf ep =? 0) && (amt >? 0)
         then obind (burn s1 (ep_out ep) amt) (fun a =>
              obind (send a VAULT from (ep_in ep) tout0) (fun b => Ok (b, tout0, amt)))
         else
           match fee_share amt (ep_ddf ep) with None => Panic | Some share =>
           obind (if share >? 0
                  then obind (send s1 VAULT COLL (ep_out ep) share) (fun a => update_collector a share)
                  else Ok s1) (fun s2 =>
           let updated := amt - share in
           if updated >? 0 then
             obind (burn s2 (ep_out ep) updated) (fun a =>
             match other_token (ep_dec_out ep) updated (ep_dec_in ep) with None => Panic | Some nout =>
             obind (send a VAULT from (ep_in ep) nout) (fun b => Ok (b, nout, updated)) end)
           else Ok (s2, tout0, updated))
           end) (fun r =>
  let '(s3, tout, updated) := r in
  let s4 := set_svaults s3 (put_sv (svaults s3) (mkSV (sv_id sv) (sv_app sv) (sv_pair sv) (sv_in sv - tout) (sv_out sv - updated))) in
  let s5 := upd_coll s4 app epid tout false in
  Ok (upd_mint s5 app epid updated false)))
  end end end.

Definition msg_interest_calc (c : cfg) (s : state) (app id ienv : Z) : outcome state :=
  if negb (app_exists c app) then Err E_NOTFOUND else
  match find_v (vaults s) id with None => Err E_NOTFOUND | Some _ => accrue s id ienv end.

(* a plain bank transfer of a user to the custody account: unsolicited coins *)
Definition donate (s : state) (from d amt : Z) : outcome state :=
  if amt <=? 0 then Err E_INVALID else
  obind (send s from VAULT d amt) (fun s1 => Ok (set_unsol s1 (fun x => unsol s1 x + at1 d amt x))).

(* ---------- operations ---------- *)
Inductive op :=
| Create (from app epid ain aout : Z)
| Deposit (from app epid id amt ienv : Z)
| Withdraw (from app epid id amt ienv : Z)
| Draw (from app epid id amt ienv : Z)
| Repay (from app epid id amt ienv : Z)
| Close (from app epid id ienv : Z)
| DepositDraw (from app epid id amt i1 i2 : Z)
| StableCreate (from app epid amt : Z)
| StableDeposit (from app epid id amt : Z)
| StableWithdraw (from app epid id amt : Z)
| InterestCalc (app id ienv : Z)
| Donate (from d amt : Z)
(* environment *)
| AdvanceTime (dt : Z)
| SetPrice (asset : Z) (p : option Z)
| SetEsm (app : Z) (status : bool) (end_time : Z) (snapshot : bool)
| SetSnap (app asset : Z) (p : option Z)
| SetBreaker (app : Z) (b : bool).

Definition run (c : cfg) (s : state) (o : op) : outcome state :=
  match o with
  | Create f a e i o' => msg_create c s f a e i o'
  | Deposit f a e i m ie => msg_deposit c s f a e i m ie
  | Withdraw f a e i m ie => msg_withdraw c s f a e i m ie
  | Draw f a e i m ie => msg_draw c s f a e i m ie
  | Repay f a e i m ie => msg_repay c s f a e i m ie
  | Close f a e i ie => msg_close c s f a e i ie
  | DepositDraw f a e i m i1 i2 => msg_deposit_draw c s f a e i m i1 i2
  | StableCreate f a e m => msg_stable_create c s f a e m
  | StableDeposit f a e i m => msg_stable_deposit c s f a e i m
  | StableWithdraw f a e i m => msg_stable_withdraw c s f a e i m
  | InterestCalc a i ie => msg_interest_calc c s a i ie
  | Donate f d m => donate s f d m
  | AdvanceTime dt => Ok (set_now s (now s + dt))
  | SetPrice a p => Ok (set_price s (upd1 (price s) a p))
  | SetEsm a st en sn => Ok (set_esm s (upd1 (esm s) a (mkEsm st en sn)))
  | SetSnap a x p => Ok (set_snap s (upd2 (snap s) a x p))
  | SetBreaker a b => Ok (set_brk s (upd1 (brk s) a b))
  end.

(* a message runs on a cache context: its writes are kept only when it returns no error and
   does not panic (Lib/Atomic.v) *)
Definition uow (c : cfg) (o : op) : unit_of_work state :=
  fun s => match run c s o with Ok s' => RunOk s' | Err e => RunErr s e | Panic => RunPanic s end.
Definition step (c : cfg) (s : state) (o : op) : state := apply (uow c o) s.
Definition result_class (c : cfg) (s : state) (o : op) : Z :=     (* 0 ok, 1 err, 2 panic *)
  match run c s o with Ok _ => 0 | Err _ => 1 | Panic => 2 end.
Definition run_all (c : cfg) (ops : list op) (s : state) : state := fold_left (step c) ops s.

(* ---------- sums over the books ---------- *)
Definition wsum {A} (w : A -> Z) (l : list A) : Z := zsum (map w l).
Definition denom_in (c : cfg) (pair : Z) : Z := match get_ep c pair with Some e => ep_in e | None => -1 end.
Definition denom_out (c : cfg) (pair : Z) : Z := match get_ep c pair with Some e => ep_out e | None => -1 end.
Definition inprod (app pair : Z) (v : vault) : bool := (v_app v =? app) && (v_pair v =? pair).
Definition sinprod (app pair : Z) (v : svault) : bool := (sv_app v =? app) && (sv_pair v =? pair).

(* collateral recorded for denom d on open vaults and stable-mint vaults *)
Definition coll_sum (c : cfg) (s : state) (d : Z) : Z :=
  wsum (fun v => if denom_in c (v_pair v) =? d then v_in v else 0) (vaults s) +
  wsum (fun v => if denom_in c (sv_pair v) =? d then sv_in v else 0) (svaults s).
(* principal recorded for debt denom d *)
Definition debt_sum (c : cfg) (s : state) (d : Z) : Z :=
  wsum (fun v => if denom_out c (v_pair v) =? d then v_out v else 0) (vaults s) +
  wsum (fun v => if denom_out c (sv_pair v) =? d then sv_out v else 0) (svaults s).
Definition prod_coll_sum (s : state) (app pair : Z) : Z :=
  wsum (fun v => if inprod app pair v then v_in v else 0) (vaults s) +
  wsum (fun v => if sinprod app pair v then sv_in v else 0) (svaults s).
Definition prod_mint_sum (s : state) (app pair : Z) : Z :=
  wsum (fun v => if inprod app pair v then v_out v else 0) (vaults s) +
  wsum (fun v => if sinprod app pair v then sv_out v else 0) (svaults s).
Definition prod_ids (s : state) (app pair : Z) : list Z :=
  map v_id (filter (inprod app pair) (vaults s)) ++ map sv_id (filter (sinprod app pair) (svaults s)).

Fixpoint ascending (l : list Z) : bool :=
  match l with
  | [] => true
  | x :: r => match r with [] => true | y :: _ => (x <? y) && ascending r end
  end.
Fixpoint list_eqb (a b : list Z) : bool :=
  match a, b with
  | [], [] => true
  | x :: r, y :: t => (x =? y) && list_eqb r t
  | _, _ => false
  end.

(* ---------- C01: the property predicate on an observed state ---------- *)
(* [denoms]: the denominations to check (every asset of the configuration) *)
Definition c01_custody (c : cfg) (s : state) (d : Z) : bool := bal s VAULT d =? coll_sum c s d + unsol s d.
Definition c01_count (s : state) : bool := vlen s =? zlen (vaults s).
Definition c01_product (s : state) (app pair : Z) : bool :=
  match prods s app pair with
  | Some p => (p_coll p =? prod_coll_sum s app pair) && (p_mint p =? prod_mint_sum s app pair)
              && list_eqb (p_ids p) (prod_ids s app pair) && ascending (p_ids p)
  | None => match prod_ids s app pair with [] => true | _ => false end
  end.
Definition holds_C01 (c : cfg) (denoms : list Z) (s : state) : bool :=
  forallb (c01_custody c s) denoms && c01_count s &&
  forallb (fun e => c01_product s (ep_app e) (ep_id e)) (epairs c).

(* ---------- C02 ---------- *)
(* supply that did not come from vaults = supply of the initial state [ext] *)
Definition c02_backing (c : cfg) (ext : Z -> Z) (s : state) (d : Z) : bool :=
  sup s d - ext d =? debt_sum c s d.
Definition holds_C02 (c : cfg) (ext : Z -> Z) (denoms : list Z) (s : state) : bool :=
  forallb (c02_backing c ext s) denoms.

(* the draw-down fee the code charges on a mint of [x] *)
Definition ddf_fee (ep : epair) (x : Z) : Z :=
  match fee_share x (ep_ddf ep) with Some f => f | None => 0 end.

(* per-operation laws, evaluated on the observation before ([s]) and after ([s']) a SUCCESSFUL
   message: delivery of mints, exact burns, fees never minted *)
Definition find_ep_of_vault (c : cfg) (s : state) (id : Z) : option (vault * epair) :=
  match find_v (vaults s) id with
  | Some v => match get_ep c (v_pair v) with Some e => Some (v, e) | None => None end
  | None => None end.

Definition mint_law (ep : epair) (s s' : state) (from dprin : Z) : bool :=
  let d := ep_out ep in
  let fee := ddf_fee ep dprin in
  (sup s' d - sup s d =? dprin) && (bal s' from d - bal s from d =? dprin - fee) &&
  (bal s' COLL d - bal s COLL d =? fee).

Definition holds_C02_step (c : cfg) (s : state) (o : op) (s' : state) : bool :=
  match o with
  | Create f a e i aout =>
      match get_ep c e with Some ep => mint_law ep s s' f aout | None => false end
  | Draw f a e id m ie =>
      match get_ep c e with Some ep => mint_law ep s s' f m | None => false end
  | DepositDraw f a e id m i1 i2 =>
      match get_ep c e, find_v (vaults s) id, find_v (vaults s') id with
      | Some ep, Some v, Some v' => mint_law ep s s' f (v_out v' - v_out v)
      | _, _, _ => false end
  | StableCreate f a e m =>
      match get_ep c e with
      | Some ep => mint_law ep s s' f (debt_sum c s' (ep_out ep) - debt_sum c s (ep_out ep))
      | None => false end
  | StableDeposit f a e id m =>
      match get_ep c e with
      | Some ep => mint_law ep s s' f (debt_sum c s' (ep_out ep) - debt_sum c s (ep_out ep))
      | None => false end
  | Repay f a e id m ie =>
      (* burns exactly the principal retired; the interest part goes to the collector *)
      match get_ep c e, find_v (vaults s) id, find_v (vaults s') id with
      | Some ep, Some v, Some v' =>
          let d := ep_out ep in
          (sup s d - sup s' d =? v_out v - v_out v') &&
          (bal s' COLL d - bal s COLL d =? m - (v_out v - v_out v')) &&
          (bal s f d - bal s' f d =? m)
      | _, _, _ => false end
  | Close f a e id ie =>
      match get_ep c e, find_v (vaults s) id with
      | Some ep, Some v =>
          let d := ep_out ep in
          let i := if ie >? 0 then ie else 0 in
          (sup s d - sup s' d =? v_out v) &&
          (bal s' COLL d - bal s COLL d =? v_int v + i + v_fee v) &&
          (bal s f d - bal s' f d =? v_out v + v_int v + i + v_fee v)
      | _, _ => false end
  | StableWithdraw f a e id m =>
      match get_ep c e with
      | Some ep =>
          let d := ep_out ep in
          (sup s d - sup s' d =? debt_sum c s d - debt_sum c s' d) &&
          (bal s' COLL d - bal s COLL d =? m - (sup s d - sup s' d))
      | None => false end
  | Deposit _ _ _ _ _ _ | Withdraw _ _ _ _ _ _ | InterestCalc _ _ _ =>
      (* interest accrual and collateral moves mint nothing *)
      forallb (fun e => sup s' (ep_out e) =? sup s (ep_out e)) (epairs c)
  | _ => true
  end.

(* ---------- C03 ---------- *)
(* the three Quo roundings made explicit: an accepted ratio r >= min_cr gives, on the exact
   values, (min_cr - 1ulp) * (a_out*p_out*10^18 - dec_out) * dec_in
            <= (a_in*p_in*10^18 + dec_in) * 10^18 * dec_out *)
Definition cr_exact_ok (min_cr ain pin dec_in aout pout dec_out : Z) : bool :=
  (min_cr - 1) * (aout * pout * P18 - dec_out) * dec_in <=? (ain * pin * P18 + dec_in) * P18 * dec_out.

Definition out_price (s : state) (ep : epair) : option Z :=
  if ep_oracle_out ep then price s (ep_out ep) else Some (ep_out_price ep).

(* the vault [v] meets the risk rule of its product at the prices of [s], counting [debt] *)
Definition cr_ok (s : state) (ep : epair) (ain debt : Z) : bool :=
  match calc_cr s ep ain debt with
  | Ok r => (ep_min_cr ep <=? r) &&
            match price s (ep_in ep), out_price s ep with
            | Some pin, Some pout => cr_exact_ok (ep_min_cr ep) ain pin (ep_dec_in ep) debt pout (ep_dec_out ep)
            | _, _ => false end
  | _ => false
  end.

Definition price_required_missing (s : state) (ep : epair) : bool :=
  match price s (ep_in ep) with None => true | Some _ =>
  ep_oracle_out ep && match price s (ep_out ep) with None => true | Some _ => false end end.

(* state clauses: debt floor on every open vault, debt ceiling on every product *)
Definition c03_floor_ok (c : cfg) (s : state) : bool :=
  forallb (fun v => match get_ep c (v_pair v) with Some ep => ep_floor ep <=? v_out v | None => false end) (vaults s).
Definition c03_ceiling_ok (c : cfg) (s : state) : bool :=
  forallb (fun e => match prods s (ep_app e) (ep_id e) with Some p => p_mint p <=? ep_ceiling e | None => true end) (epairs c).
Definition holds_C03 (c : cfg) (s : state) : bool := c03_floor_ok c s && c03_ceiling_ok c s.

(* step clause: [ok] = the message succeeded; [s] before, [s'] after (prices of [s'] = of [s]) *)
Definition holds_C03_step (c : cfg) (s : state) (o : op) (ok : bool) (s' : state) : bool :=
  let risk f a e id (create : bool) :=
    match get_ep c e with
    | None => negb ok
    | Some ep =>
        if e_status (esm s a) then true          (* emergency shutdown: outside the property *)
        else if price_required_missing s ep then negb ok
        else if ok then
          match (if create then find_v (vaults s') (vid s') else find_v (vaults s') id) with
          | Some v => cr_ok s' ep (v_in v) (if create then v_out v else v_out v + v_int v + v_fee v)
          | None => false end
        else true
    end in
  match o with
  | Create f a e i aout => risk f a e 0 true
  | Draw f a e id m ie => risk f a e id false
  | Withdraw f a e id m ie => risk f a e id false
  | DepositDraw f a e id m i1 i2 => risk f a e id false
  | _ => true
  end.
