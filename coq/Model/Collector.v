(* Model of x/collector/keeper/collector.go (net-fee book keeping, GetAmountFromCollector,
   DecreaseNetFeeCollectedData, UpdateCollector, SetNetFeeCollectedData, WasmMsgGetSurplusFund,
   SetAuctionMappingForApp) plus the bank ledger the locker / collector custody accounts live in,
   statement by statement.  Definitions only; proofs live in Proofs/CollectorProofs.v.

   Keyed stores are functions (key -> option record); a missing record is None, exactly the
   "found = false" of the Go getters.  Denoms are identified with asset ids (every asset has one
   denom).  Accounts are small integers. *)
From Comdex Require Import Lib.Base Lib.DecArith.

Definition key := (Z * Z)%type.
Definition keq (a b : key) : bool := (fst a =? fst b) && (snd a =? snd b).
Definition kupd {V : Type} (m : key -> V) (k : key) (v : V) : key -> V :=
  fun k' => if keq k' k then v else m k'.

(* ---- accounts ---- *)
Definition A_LOCKER : Z := 0.       (* module account lockerV1 *)
Definition A_COLLECTOR : Z := 1.    (* module account collectorV1 *)
Definition A_EXT : Z := 4.          (* everything outside the two custody accounts and the users:
                                       vault / tokenmint / both auction modules / bidders; its
                                       solvency is the subject of other properties, so a payment
                                       out of it never fails here *)
Definition user (u : Z) : Z := 10 + u.

(* ---- bank: (account, denom) -> amount ---- *)
Definition bank := key -> Z.

(* SendCoins of one coin.  sdk.NewCoin panics on a negative amount; a zero coin is sanitised away
   by sdk.NewCoins (no-op); insufficient funds is an error. *)
Definition bsend (b : bank) (from to d amt : Z) : outcome bank :=
  if amt <? 0 then Panic
  else if amt =? 0 then Ok b
  else if (from =? A_EXT) || (amt <=? b (from, d)) then
    let b1 := kupd b (from, d) (b (from, d) - amt) in
    Ok (kupd b1 (to, d) (b1 (to, d) + amt))
  else Err 5.

(* ---- collector records ---- *)
Record clookup := mkCL {           (* CollectorLookupTableData, the fields that are read *)
  cl_lsr : Z;                      (* LockerSavingRate (Dec, scaled) *)
  cl_surplus_thr : Z; cl_debt_thr : Z; cl_lot : Z; cl_debt_lot : Z;
  cl_secondary : Z;                (* SecondaryAssetId *)
  cl_app : Z; cl_asset : Z         (* AppId, CollectorAssetId as STORED in the record (0 when the
                                      record was first written by WasmUpdateCollectorLookupTable) *)
}.

Record aflags := mkAF {            (* AppAssetIdToAuctionLookupTable *)
  af_surplus : bool; af_debt : bool; af_distributor : bool; af_active : bool
}.

Record cstate := mkC {
  nf : key -> option Z;            (* NetFeeCollectedData (app, asset) *)
  bnk : bank;
  clk : key -> option clookup;     (* CollectorLookupTable (app, collector asset) *)
  amp : key -> option aflags;      (* auction mapping (app, asset) *)
  has_asset : Z -> bool;           (* asset.HasAsset / GetAsset found *)
  has_app : Z -> bool;             (* asset.GetApp found *)
  esm_on : Z -> bool;              (* esm.GetESMStatus(app).Status *)
  brk_on : Z -> bool               (* esm.GetKillSwitchData(app).BreakerEnable *)
}.

Definition set_nf (c : cstate) (f : key -> option Z) : cstate :=
  mkC f (bnk c) (clk c) (amp c) (has_asset c) (has_app c) (esm_on c) (brk_on c).
Definition set_bnk (c : cstate) (b : bank) : cstate :=
  mkC (nf c) b (clk c) (amp c) (has_asset c) (has_app c) (esm_on c) (brk_on c).
Definition set_clk (c : cstate) (f : key -> option clookup) : cstate :=
  mkC (nf c) (bnk c) f (amp c) (has_asset c) (has_app c) (esm_on c) (brk_on c).
Definition set_amp (c : cstate) (f : key -> option aflags) : cstate :=
  mkC (nf c) (bnk c) (clk c) f (has_asset c) (has_app c) (esm_on c) (brk_on c).
Definition set_esm (c : cstate) (f : Z -> bool) : cstate :=
  mkC (nf c) (bnk c) (clk c) (amp c) (has_asset c) (has_app c) f (brk_on c).
Definition set_brk (c : cstate) (f : Z -> bool) : cstate :=
  mkC (nf c) (bnk c) (clk c) (amp c) (has_asset c) (has_app c) (esm_on c) f.

Definition csend (c : cstate) (from to d amt : Z) : outcome cstate :=
  match bsend (bnk c) from to d amt with
  | Ok b => Ok (set_bnk c b) | Err e => Err e | Panic => Panic
  end.

(* SetNetFeeCollectedData: ADDS fee to the record (creates it when missing) *)
Definition set_net_fee (c : cstate) (app asset fee : Z) : outcome cstate :=
  if fee <? 0 then Err 1
  else match nf c (app, asset) with
       | None => Ok (set_nf c (kupd (nf c) (app, asset) (Some fee)))
       | Some x => Ok (set_nf c (kupd (nf c) (app, asset) (Some (x + fee))))
       end.

(* DecreaseNetFeeCollectedData *)
Definition decrease_net_fee (c : cstate) (app asset amt : Z) : outcome cstate :=
  match nf c (app, asset) with
  | None => Err 2
  | Some x =>
      let y := x - amt in
      if y <? 0 then Err 3
      else Ok (set_nf c (kupd (nf c) (app, asset) (Some y)))
  end.

(* UpdateCollector: both branches (CollectorData record found / not found) pass the same sum
   closing + opening + stability + liquidation to SetNetFeeCollectedData; the CollectorData
   record itself is never read by anything the property talks about and is not modelled. *)
Definition update_collector (c : cstate) (app asset stab closing opening liq : Z) : outcome cstate :=
  if negb (has_asset c asset) then Err 4
  else set_net_fee c app asset (closing + opening + stab + liq).

(* GetAmountFromCollector: the lot goes to the GENERATION-1 auction module account (whoever the
   caller is), which is part of A_EXT here. *)
Definition get_amount_from_collector (c : cstate) (app asset amt : Z) : outcome cstate :=
  match nf c (app, asset) with
  | None => Err 2
  | Some x =>
      if amt <? 0 then Err 6
      else if negb (x - amt >? 0) then Err 7
      else obind (csend c A_COLLECTOR A_EXT asset amt)
                 (fun c1 => decrease_net_fee c1 app asset amt)
  end.

(* WasmMsgGetSurplusFund(app, asset, addr, coin): the coin's denom is whatever the contract sent *)
Definition surplus_fund (c : cstate) (app asset to denom amt : Z) : outcome cstate :=
  obind (csend c A_COLLECTOR to denom amt)
        (fun c1 => decrease_net_fee c1 app asset amt).

(* SetAuctionMappingForApp, as used by the auction modules to flip IsAuctionActive *)
Definition set_auction_mapping (c : cstate) (app asset : Z) (f : aflags) : outcome cstate :=
  if negb (has_app c app) then Err 8
  else if negb (has_asset c asset) then Err 4
  else if af_surplus f && af_distributor f then Err 9
  else if af_surplus f && af_debt f then Err 9
  else Ok (set_amp c (kupd (amp c) (app, asset) (Some f))).

Definition with_active (f : aflags) (b : bool) : aflags :=
  mkAF (af_surplus f) (af_debt f) (af_distributor f) b.

(* ---- sums over a finite list of apps ---- *)
Definition nf_val (c : cstate) (app asset : Z) : Z :=
  match nf c (app, asset) with Some x => x | None => 0 end.

Fixpoint sum_over (l : list Z) (f : Z -> Z) : Z :=
  match l with [] => 0 | a :: r => f a + sum_over r f end.

Definition nf_total (c : cstate) (apps : list Z) (asset : Z) : Z :=
  sum_over apps (fun a => nf_val c a asset).
