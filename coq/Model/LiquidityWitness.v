(* Concrete histories of Model/Liquidity.v used as non-vacuity examples and regression witnesses by
   Properties/C04.v and Properties/C07.v.  Definitions only. *)
From Comdex Require Import Lib.Base Lib.DecArith Model.Liquidity.

(* app 1: swap fee 0.3 %, tick precision 4, price limit ratio 10 %, batch size 1 *)
Definition wP : params := mkParams 3000000000000000 4 100000000000000000 86400 10 9 1 1 1000000 1000000 20 1 86400.

Definition w_setup (app : Z) : list op :=
  [OAddApp app wP; OAddAsset 1; OAddAsset 2; OAddAsset 3;
   OFund 50 1 1000000000; OFund 50 2 1000000000; OFund 51 1 1000000000; OFund 51 2 1000000000;
   OFund 90 9 100; OFund 90 1 1000000000; OFund 90 2 1000000000; OFund 90 3 1000000000].

(* a limit buy of 1000 base at price 1.0 (offer 1000 quote + fee reserve 3), left unmatched for one
   batch, then cancelled by its owner *)
Definition w_buy (app pair : Z) : order_msg := mkOMsg app 50 pair true true 2 1003 1 1000000000000000000 1000 100.
Definition w_cancel_ops : list op :=
  [OCreatePair 1 90 1 2; OLimit (w_buy 1 1) 10; OEnd 2 11 []; OBegin; OCancel 1 50 1 1].
Definition w_cancel_state : state := fold_left apply_op w_cancel_ops (fold_left apply_op (w_setup 1) init).
