(* Concrete histories of Model/Liquidity.v used as non-vacuity examples and regression witnesses by
   Properties/C04.v and Properties/C07.v.  Definitions only. *)
From Comdex Require Import Lib.Base Lib.DecArith Model.Liquidity.

(* app 1: swap fee 0.3 %, tick precision 4, price limit ratio 10 %, batch size 1 *)
Definition wP : params := mkParams 3000000000000000 4 100000000000000000 86400 10 9 1 1 1000000 1000000 20 1 86400.

Definition w_setup (app : Z) : list op :=
  [OAddApp app wP; OAddAsset 1; OAddAsset 2; OAddAsset 3;
   OFund 50 1 1000000000; OFund 50 2 1000000000; OFund 51 1 1000000000; OFund 51 2 1000000000;
   OFund 90 9 100; OFund 90 1 1000000000; OFund 90 2 1000000000; OFund 90 3 1000000000].

(* a limit buy of 1000 base at price 1.0 (offer 1000 quote + fee reserve 3), left unmatched for one
   batch, then cancelled by its owner *)
Definition w_buy (app pair : Z) : order_msg := mkOMsg app 50 pair true true 2 1003 1 1000000000000000000 1000 100.
Definition w_cancel_ops : list op :=
  [OCreatePair 1 90 1 2; OLimit (w_buy 1 1) 10; OEnd 2 11 []; OBegin; OCancel 1 50 1 1].
Definition w_cancel_state : state := fold_left apply_op w_cancel_ops (fold_left apply_op (w_setup 1) init).

(* two limit buys by different owners; the first is cancelled after one batch, the second stays live *)
Definition w_buy2 : order_msg := mkOMsg 1 51 1 true true 2 2006 1 1000000000000000000 2000 100.
Definition w_two_ops : list op :=
  [OCreatePair 1 90 1 2; OLimit (w_buy 1 1) 10; OLimit w_buy2 10; OEnd 2 11 []; OBegin].
Definition w_two_state : state := fold_left apply_op w_two_ops (fold_left apply_op (w_setup 1) init).
Definition w_two_cancelled : state := apply_op w_two_state (OCancel 1 50 1 1).

(* the witness of C07-F1 (repaired): app 2 / pair 1, ten market-making sell ticks, cancelled in the next batch *)
Definition w_mm : mm_msg := mkMMsg 2 50 1 1200000000000000000 1000000000000000000 3000 0 0 0 100.
Definition w_mm_ops : list op := [OCreatePair 2 90 1 2; OMM w_mm 10; OEnd 2 11 []; OBegin].
Definition w_mm_state : state := fold_left apply_op w_mm_ops (fold_left apply_op (w_setup 2) init).
Definition w_mm_cancelled : state := apply_op w_mm_state (OCancelMM 2 50 1).

(* the escrow clause depends on the recorded fills conserving coins: an ENV batch in which a buy order
   receives 500 base coins while paying nothing takes them out of the seller's escrowed offer *)
Definition w_sell : order_msg := mkOMsg 1 51 1 false true 1 1003 2 1000000000000000000 1000 100.
Definition w_bad_batch : batch_env := mkBatch 1 true 1000000000000000000 [(1, 500, 0, 500)] [] 0.
Definition w_bad_ops : list op :=
  [OCreatePair 1 90 1 2; OLimit (w_buy 1 1) 10; OLimit w_sell 10; OEnd 2 11 [mkAppEnv 1 [w_bad_batch] [] []]].
Definition w_bad_state : state := fold_left apply_op w_bad_ops (fold_left apply_op (w_setup 1) init).

(* custody: a basic pool (pool coin denom 1101, initial supply 1000000 to the creator 90), a deposit
   request by 50 that is pending, then executed (accepted 1000000 / 1000000, 500000 pool coins minted),
   200000 of them farmed *)
Definition w_pool_ops : list op :=
  [OCreatePair 1 90 1 2; OCreatePool 1 90 1 2000000 2000000 true 1000000; ODeposit 1 50 1 [(1, 1000000); (2, 1000000)]].
Definition w_pool_pending : state := fold_left apply_op w_pool_ops (fold_left apply_op (w_setup 1) init).
Definition w_pool_ops2 : list op :=
  w_pool_ops ++ [OEnd 2 11 [mkAppEnv 1 [] [(1, 1, 1000000, 1000000, 500000)] []]; OBegin; OFarm 1 50 1 1101 200000 20].
Definition w_pool_farmed : state := fold_left apply_op w_pool_ops2 (fold_left apply_op (w_setup 1) init).
(* the whole supply of a pool is withdrawn: the pool is disabled *)
Definition w_drain_ops : list op :=
  [OCreatePair 1 90 1 2; OCreatePool 1 90 1 2000000 2000000 true 1000000; OWithdraw 1 90 1 1101 1000000;
   OEnd 2 11 [mkAppEnv 1 [] [] [(1, 1, 2000000, 2000000)]]].
Definition w_drained : state := fold_left apply_op w_drain_ops (fold_left apply_op (w_setup 1) init).
