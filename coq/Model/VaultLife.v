(* The full life cycle of a CDP vault on the WIRED generation-2 path, on top of Model/Vault.v
   (the vault messages), STATEMENT BY STATEMENT in the order of the Go code, defects included:

     x/liquidationsV2/keeper/liquidate.go   LiquidateVaults (the loop over the visited ids, each
                                            under ApplyFuncIfNoError), LiquidateIndividualVault,
                                            CreateLockedVault, MsgLiquidate (liqType 0),
                                            WithdrawAppReserveFundsFn
     x/auctionsV2/keeper/auctions.go        DutchAuctionActivator (the record it creates),
                                            AuctionIterator (dutch branch: ESM / restart / update),
                                            RestartDutchAuction (EndTime), TriggerEsm
     x/auctionsV2/keeper/bid.go             PlaceDutchAuctionBid: what a successful bid does to the
                                            bank, the auction / locked-vault records and the vault
                                            module's product totals (closing bid: bid.go:73-236,
                                            partial bid: 260-292)
     x/vault/keeper/vault.go                CreateNewVault, Update*LockerMapping (Vault.upd_coll / upd_mint),
                                            DeleteAddressFromAppExtendedPairVaultMapping (Vault.prod_del_id)
     x/esm/keeper/esm.go                    SetUpCollateralRedemptionForVault

   ENVIRONMENT (recorded by the harness from the implementation's own run, not recomputed here):
   - the interest rewards.CalculateVaultInterest adds inside LiquidateIndividualVault ([ienv], as in Vault.v);
   - the auction's internal arithmetic, which is C10's subject (Model/DutchV2.v): for a SUCCESSFUL bid the
     debt taken from the bidder [paid], the collateral handed to him [recv], whether the bid closed the
     auction, whether the collateral-exhausted branch ran [exh] and the amount it drew from the app reserve
     [topup].  The constraints C10 proves for them (Properties/C10.v c10_bid_amounts, c10_close_complete)
     are the hypotheses [bid_env_ok] of the theorems, not of the model;
   - which vault ids a LiquidateVaults sweep visits (the offset window is C09's subject);
   - oracle prices, time, ESM status / snapshots, breaker: the env ops of Vault.v.
   Ghost fields (never compared with the implementation; they name the known-finding classes):
   [lk_prin] the principal (AmountOut) a seized vault had; [drift], [er_mint], [er_coll], [er_short].
   Not modelled: english auctions, lend / external / surplus / debt initiators (no such locked vault is
   created from a CDP vault), limit bids (LimitOrderBid finds none), the price fields of the auction
   record (C10), esm stable-mint redemption and the later ESM steps.  Definitions only. *)
From Comdex Require Import Lib.Base Lib.DecArith Lib.Atomic Model.Vault.

(* module accounts besides VAULT (0) and COLL (1) *)
Definition AUC : Z := -1.     (* auctionsV2 *)
Definition ESMA : Z := -2.    (* esm *)
Definition LIQ : Z := -3.     (* liquidationsV2: holds the app reserve funds *)

Record lcfg := mkLC {
  lc_pen : Z -> Z;            (* ExtendedPairVault.LiquidationPenalty (Dec), by extended pair id *)
  lc_wl : Z -> bool;          (* app: GetLiquidationWhiteListing found *)
  lc_dutch : Z -> bool;       (* app: IsDutchActivated *)
  lc_ki : Z -> Z;             (* app: KeeeperIncentive (Dec) *)
  lc_dur : Z;                 (* AuctionParams.AuctionDurationSeconds *)
  lc_rate : Z -> Z -> Z       (* ESMTriggerParams.AssetsRates: app asset -> rate, 0 = none *)
}.

(* liquidationsV2 LockedVault (InitiatorType "vault") *)
Record lockedv := mkLK {
  lk_id : Z; lk_app : Z; lk_pair : Z; lk_owner : Z;
  lk_coll : Z;                (* CollateralToken.Amount = the vault's AmountIn *)
  lk_debt : Z;                (* DebtToken.Amount = AmountOut + InterestAccumulated + ClosingFeeAccumulated *)
  lk_fee : Z;                 (* FeeToBeCollected; TargetDebt = lk_debt + lk_fee *)
  lk_intk : bool; lk_keeper : Z;   (* IsInternalKeeper, InternalKeeperAddress *)
  lk_prin : Z                 (* ghost: the vault's AmountOut when it was seized *)
}.

(* auctionsV2 Auction (dutch), the fields the vault side depends on *)
Record auct := mkAU {
  au_id : Z; au_app : Z; au_lock : Z;
  au_cin : Z; au_cout : Z;    (* CollateralAssetId, DebtAssetId (= denoms) *)
  au_coll : Z; au_debt : Z;   (* CollateralToken.Amount left, DebtToken.Amount still to collect *)
  au_end : Z                  (* EndTime *)
}.

Record lstate := mkL {
  vs : state;
  lks : list lockedv; aus : list auct;
  lkid : Z; auid : Z;                   (* LockedVaultID, AuctionID counters *)
  ereg : Z -> Z -> Z;                   (* esm AssetToAmount(app, asset).Amount *)
  edebt : Z -> Z;                       (* per asset: what ereg holds as DEBT, summed over apps *)
  rsv : Z -> Z -> option Z;             (* AppReserveFunds(app, asset).TokenQuantity.Amount *)
  (* ghosts *)
  drift : Z -> Z -> Z;                  (* per product: sum over settled locked vaults of lk_debt - lk_prin *)
  er_mint : Z -> Z -> Z;                (* per product: principal re-recorded by TriggerEsm without a total update *)
  er_coll : Z -> Z -> Z;                (* per product: collateral subtracted by TriggerEsm while the locked vault stays *)
  er_short : Z -> Z;                    (* per denom: collateral recorded on returned vaults but left in the auction account *)
  over : Z -> Z                         (* per denom: supply burnt beyond the principal retired *)
}.

Definition set_vs l x := mkL x (lks l) (aus l) (lkid l) (auid l) (ereg l) (edebt l) (rsv l) (drift l) (er_mint l) (er_coll l) (er_short l) (over l).
Definition lift (s : state) : lstate :=
  mkL s [] [] 0 0 (fun _ _ => 0) (fun _ => 0) (fun _ _ => None) (fun _ _ => 0) (fun _ _ => 0) (fun _ _ => 0) (fun _ => 0) (fun _ => 0).

Definition find_lk := gfind lk_id.
Definition put_lk := gput lk_id.
Definition del_lk := gdel lk_id.
Definition find_au := gfind au_id.
Definition put_au := gput au_id.
Definition del_au := gdel au_id.

Definition add2 (f : Z -> Z -> Z) (a p x : Z) : Z -> Z -> Z := fun a' p' => f a' p' + (if (a' =? a) && (p' =? p) then x else 0).
Definition add1 (f : Z -> Z) (d x : Z) : Z -> Z := fun d' => f d' + (if d' =? d then x else 0).

(* BurnCoins on a module account *)
Definition burn_from (s : state) (acct d amt : Z) : outcome state :=
  if amt <? 0 then Panic
  else if bal s acct d <? amt then Err E_FUNDS
  else Ok (set_sup (set_bal s (fun a x => bal s a x - at2 acct d amt a x)) (fun x => sup s x - at1 d amt x)).

Definition dec_len (s : state) : state := set_vlen s (if vlen s =? 0 then two64 - 1 else vlen s - 1).

(* ---------- liquidationsV2: LiquidateIndividualVault ---------- *)
Definition liquidate (c : cfg) (lc : lcfg) (l : lstate) (id ienv : Z) (intk : bool) (keeper : Z) : outcome lstate :=
  let s := vs l in
  match find_v (vaults s) id with None => Err E_NOTFOUND | Some v0 =>
  if e_status (esm s (v_app v0)) || brk s (v_app v0) then Err E_ESM else
  if negb (lc_wl lc (v_app v0)) then Err E_STATE else
  match get_ep c (v_pair v0) with None => Err E_NOTFOUND | Some ep =>
  let total0 := v_out v0 + v_int v0 + v_fee v0 in
  obind (calc_cr s ep (v_in v0) total0) (fun r0 =>
  if negb (r0 <? ep_min_cr ep) then Ok l else
  obind (accrue s id ienv) (fun s1 =>
  match find_v (vaults s1) id with None => Err E_NOTFOUND | Some v =>
  let total := v_out v + v_int v + v_fee v in
  obind (calc_cr s1 ep (v_in v) total) (fun _ =>
  match fee_share total (lc_pen lc (v_pair v)) with None => Panic | Some fee =>
  if negb (lc_dutch lc (v_app v)) then Err E_STATE else
  obind (if v_in v >? 0 then send s1 VAULT AUC (ep_in ep) (v_in v) else Ok s1) (fun s2 =>
  (* CreateLockedVault: NewCoin / Coin.Add; then AuctionActivator -> DutchAuctionActivator: both Twa records
     found and active, the start price is premium * NewDec(twa.Int64()) *)
  if (total <? 0) || (fee <? 0) then Panic else
  match price s2 (ep_in ep), price s2 (ep_out ep) with
  | Some pc, Some _ =>
      match int64_c pc with None => Panic | Some _ =>
      let lid := lkid l + 1 in
      let aid := auid l + 1 in
      let lk := mkLK lid (v_app v) (v_pair v) (v_owner v) (v_in v) total fee intk keeper (v_out v) in
      let au := mkAU aid (v_app v) lid (ep_in ep) (ep_out ep) (v_in v) (total + fee) (now s2 + lc_dur lc) in
      let s3 := dec_len s2 in
      let s4 := prod_del_id s3 (v_app v) (v_pair v) (v_id v) in
      let s5 := set_umap s4 (upd3 (umap s4) (v_owner v) (v_app v) (v_pair v) None) in
      let s6 := set_vaults s5 (del_v (vaults s5) (v_id v)) in
      Ok (mkL s6 (put_lk (lks l) lk) (put_au (aus l) au) lid aid (ereg l) (edebt l) (rsv l)
              (drift l) (er_mint l) (er_coll l) (er_short l) (over l))
      end
  | _, _ => Err E_PRICE
  end)
  end)
  end)) end end.

Definition keep (x : outcome lstate) (l : lstate) : lstate := match x with Ok l' => l' | _ => l end.

(* LiquidateVaults: every visited vault under ApplyFuncIfNoError (liquidator "", not a keeper) *)
Definition sweep (c : cfg) (lc : lcfg) (l : lstate) (items : list (Z * Z)) : lstate :=
  fold_left (fun acc it => keep (liquidate c lc acc (fst it) (snd it) false 0) acc) items l.

(* ---------- vault.CreateNewVault ---------- *)
Definition prod_add_id (s : state) (app pair id : Z) : state :=
  match prods s app pair with
  | Some p => set_prods s (upd2 (prods s) app pair (Some (mkP (p_coll p) (p_mint p) (p_ids p ++ [id]))))
  | None => s   (* unreachable: the product of a seized vault exists (the Go code would write a record under key (0,0)) *)
  end.

Definition create_new_vault (s : state) (owner app pair ain aout : Z) : outcome state :=
  match umap s owner app pair with
  | Some vid0 =>
      match find_v (vaults s) vid0 with
      | Some v => Ok (set_vaults s (put_v (vaults s) (with_out (with_in v (v_in v + ain)) (v_out v + aout))))
      | None => Panic      (* the zero-valued Vault: Add on a nil sdk.Int *)
      end
  | None =>
      let id := vid s + 1 in
      let s1 := set_vaults s (put_v (vaults s) (mkV id owner app pair ain aout 0 0)) in
      let s2 := set_vid s1 id in
      let s3 := set_vlen s2 (vlen s2 + 1) in
      let s4 := prod_add_id s3 app pair id in
      Ok (set_umap s4 (upd3 (umap s4) owner app pair (Some id)))
  end.

(* ---------- auctionsV2: TriggerEsm ---------- *)
Definition trigger_esm (l : lstate) (a : auct) (lk : lockedv) : outcome lstate :=
  let s := vs l in
  let target := lk_debt lk + lk_fee lk in
  if target - au_debt a <? 0 then Panic else            (* Coin.Sub going negative *)
  let collected := target - au_debt a in
  let auctioned := lk_coll lk - au_coll a in
  obind (if collected >? lk_fee lk then
           let tb := collected - lk_fee lk in
           obind (if tb >? 0 then burn_from s AUC (au_cout a) tb else Ok s) (fun s1 =>
           Ok (upd_mint s1 (au_app a) (lk_pair lk) tb false, lk_fee lk, tb))
         else Ok (s, collected, 0)) (fun r =>
  let '(s2, tr, tb) := r in
  obind (send s2 AUC COLL (au_cout a) tr) (fun s3 =>
  obind (update_collector s3 tr) (fun s4 =>
  obind (create_new_vault s4 (lk_owner lk) (au_app a) (lk_pair lk) (au_coll a) (au_debt a)) (fun s5 =>
  let s6 := upd_coll s5 (au_app a) (lk_pair lk) auctioned false in
  (* neither the auction nor the locked vault is deleted *)
  Ok (mkL s6 (lks l) (aus l) (lkid l) (auid l) (ereg l) (edebt l) (rsv l) (drift l)
          (add2 (er_mint l) (au_app a) (lk_pair lk) (au_debt a + tb))
          (add2 (er_coll l) (au_app a) (lk_pair lk) (lk_coll lk))
          (add1 (er_short l) (au_cin a) (au_coll a))
          (add1 (over l) (au_cout a) (au_debt a + tb))))))).

(* ---------- auctionsV2 BeginBlocker: AuctionIterator, one dutch auction ---------- *)
Definition tick_one (lc : lcfg) (l : lstate) (aid : Z) : outcome lstate :=
  match find_au (aus l) aid with None => Ok l | Some a =>
  let s := vs l in
  if e_status (esm s (au_app a)) then
    if now s >? au_end a then
      match find_lk (lks l) (au_lock a) with
      | Some lk => trigger_esm l a lk
      | None => Ok l               (* zero-valued LockedVault: InitiatorType is not "vault" *)
      end
    else Ok l                       (* UpdateDutchAuction: price fields only *)
  else
    if now s >? au_end a then
      (* RestartDutchAuction *)
      match price s (au_cin a), price s (au_cout a) with
      | Some pc, Some _ =>
          match int64_c pc with None => Panic | Some _ =>
          Ok (mkL s (lks l) (put_au (aus l) (mkAU (au_id a) (au_app a) (au_lock a) (au_cin a) (au_cout a) (au_coll a) (au_debt a) (now s + lc_dur lc)))
                  (lkid l) (auid l) (ereg l) (edebt l) (rsv l) (drift l) (er_mint l) (er_coll l) (er_short l) (over l))
          end
      | _, _ => Err E_PRICE
      end
    else Ok l
  end.

Definition auc_tick (lc : lcfg) (l : lstate) : lstate :=
  fold_left (fun acc aid => keep (tick_one lc acc aid) acc) (map au_id (aus l)) l.

(* ---------- liquidationsV2: WithdrawAppReserveFundsFn ---------- *)
Definition withdraw_reserve (l : lstate) (app asset amt : Z) : outcome lstate :=
  match rsv l app asset with None => Err E_NOTFOUND | Some r =>
  if negb (r - amt >=? 0) then Err E_FUNDS else
  obind (if amt >? 0 then send (vs l) LIQ AUC asset amt else Ok (vs l)) (fun s1 =>
  Ok (mkL s1 (lks l) (aus l) (lkid l) (auid l) (ereg l) (edebt l) (upd2 (rsv l) app asset (Some (r - amt)))
          (drift l) (er_mint l) (er_coll l) (er_short l) (over l)))
  end.

(* ---------- auctionsV2: a successful PlaceDutchAuctionBid ---------- *)
Definition bid (lc : lcfg) (l : lstate) (aid who paid recv : Z) (closed exh : bool) (topup : Z) : outcome lstate :=
  match find_au (aus l) aid with None => Err E_NOTFOUND | Some a =>
  match find_lk (lks l) (au_lock a) with None => Err E_NOTFOUND | Some lk =>
  if closed then
    obind (if exh then withdraw_reserve l (au_app a) (au_cout a) topup else Ok l) (fun l1 =>
    let s := vs l1 in
    obind (if paid >? 0 then send s who AUC (au_cout a) paid else Ok s) (fun s1 =>
    obind (if recv >? 0 then send s1 AUC who (au_cin a) recv else Ok s1) (fun s2 =>
    let tb := lk_debt lk in                        (* TargetDebt - liquidationPenalty *)
    if tb <? 0 then Panic else
    obind (if tb >? 0 then burn_from s2 AUC (au_cout a) tb else Ok s2) (fun s3 =>
    let left := au_coll a - recv in
    obind (if left >? 0 then send s3 AUC (lk_owner lk) (au_cin a) left else Ok s3) (fun s4 =>
    if (recv <? 0) || (paid <? 0) then Panic else   (* CreateUserBid: NewCoin *)
    obind (if lk_intk lk then
             match fee_share (lk_fee lk) (lc_ki lc (au_app a)) with None => Panic | Some ki =>
             if ki >? 0 then
               if lk_fee lk - ki <? 0 then Panic
               else obind (send s4 AUC (lk_keeper lk) (au_cout a) ki) (fun x => Ok (x, lk_fee lk - ki))
             else Ok (s4, lk_fee lk) end
           else Ok (s4, lk_fee lk)) (fun r =>
    let '(s5, pen) := r in
    obind (if pen >? 0 then send s5 AUC COLL (au_cout a) pen else Ok s5) (fun s6 =>
    obind (update_collector s6 pen) (fun s7 =>
    let s8 := upd_mint s7 (au_app a) (lk_pair lk) tb false in
    let s9 := upd_coll s8 (au_app a) (lk_pair lk) (lk_coll lk) false in
    Ok (mkL s9 (del_lk (lks l1) (lk_id lk)) (del_au (aus l1) aid) (lkid l1) (auid l1) (ereg l1) (edebt l1) (rsv l1)
            (add2 (drift l1) (au_app a) (lk_pair lk) (lk_debt lk - lk_prin lk))
            (er_mint l1) (er_coll l1) (er_short l1)
            (add1 (over l1) (au_cout a) (lk_debt lk - lk_prin lk)))))))))))
  else
    let s := vs l in
    obind (if paid >? 0 then send s who AUC (au_cout a) paid else Ok s) (fun s1 =>
    obind (if recv >? 0 then send s1 AUC who (au_cin a) recv else Ok s1) (fun s2 =>
    if (recv <? 0) || (paid <? 0) then Panic else
    Ok (mkL s2 (lks l) (put_au (aus l) (mkAU (au_id a) (au_app a) (au_lock a) (au_cin a) (au_cout a) (au_coll a - recv) (au_debt a - paid) (au_end a)))
            (lkid l) (auid l) (ereg l) (edebt l) (rsv l) (drift l) (er_mint l) (er_coll l) (er_short l) (over l))))
  end end.

(* ---------- esm: SetUpCollateralRedemptionForVault ---------- *)
Definition esm_redeem_one (c : cfg) (lc : lcfg) (app : Z) (l : lstate) (v : vault) : outcome lstate :=
  if negb (v_app v =? app) then Ok l else
  let s := vs l in
  match get_ep c (v_pair v) with None => Err E_NOTFOUND | Some ep =>
  match snap s app (ep_in ep) with None => Err E_PRICE | Some _ =>
  if (lc_rate lc app (ep_out ep) =? 0) && (match snap s app (ep_out ep) with None => true | Some _ => false end) then Err E_PRICE else
  obind (send s VAULT ESMA (ep_in ep) (v_in v)) (fun s1 =>
  let s2 := set_vaults s1 (del_v (vaults s1) (v_id v)) in
  let s3 := prod_del_id s2 app (v_pair v) (v_id v) in
  let s4 := set_umap s3 (upd3 (umap s3) (v_owner v) app (v_pair v) None) in
  let s5 := upd_mint s4 app (v_pair v) (v_out v) false in
  let s6 := upd_coll s5 app (v_pair v) (v_in v) false in
  let s7 := dec_len s6 in
  Ok (mkL s7 (lks l) (aus l) (lkid l) (auid l)
          (add2 (add2 (ereg l) app (ep_in ep) (v_in v)) app (ep_out ep) (v_out v))
          (add1 (edebt l) (ep_out ep) (v_out v)) (rsv l)
          (drift l) (er_mint l) (er_coll l) (er_short l) (over l)))
  end end.

Fixpoint esm_redeem_loop (c : cfg) (lc : lcfg) (app : Z) (vl : list vault) (l : lstate) : outcome lstate :=
  match vl with
  | [] => Ok l
  | v :: r => obind (esm_redeem_one c lc app l v) (fun l1 => esm_redeem_loop c lc app r l1)
  end.

Definition esm_redeem (c : cfg) (lc : lcfg) (l : lstate) (app : Z) : outcome lstate :=
  esm_redeem_loop c lc app (vaults (vs l)) l.

(* known-finding class C01-F4, on the state in which the auctionsV2 BeginBlocker runs: some auction of an
   app under emergency shutdown is past its end time, so AuctionIterator calls TriggerEsm for it *)
Definition esm_return_due (l : lstate) : bool :=
  existsb (fun a => e_status (esm (vs l) (au_app a)) && (now (vs l) >? au_end a)) (aus l).
Definition kf_C01_4 (l : lstate) (o_is_tick : bool) : bool := o_is_tick && esm_return_due l.

(* ---------- operations ---------- *)
Inductive lop :=
| VOp (o : op)                                            (* a vault message or environment change (Vault.v) *)
| Liquidate (id ienv : Z) (keeper : Z)                    (* MsgLiquidateInternalKeeper, liqType 0 *)
| Sweep (items : list (Z * Z))                            (* liquidationsV2 BeginBlocker: LiquidateVaults *)
| Bid (aid who paid recv : Z) (closed exh : bool) (topup : Z)   (* a successful MsgPlaceMarketBid *)
| AucTick                                                 (* auctionsV2 BeginBlocker: AuctionIterator *)
| EsmRedeem (app : Z).                                    (* esm BeginBlocker step, under ApplyFuncIfNoError *)

Definition lrun (c : cfg) (lc : lcfg) (l : lstate) (o : lop) : outcome lstate :=
  match o with
  | VOp o' => match run c (vs l) o' with Ok s' => Ok (set_vs l s') | Err e => Err e | Panic => Panic end
  | Liquidate id ie k => liquidate c lc l id ie true k
  | Sweep items => Ok (sweep c lc l items)
  | Bid aid who paid recv closed exh topup => bid lc l aid who paid recv closed exh topup
  | AucTick => Ok (auc_tick lc l)
  | EsmRedeem app => esm_redeem c lc l app
  end.

Definition lstep (c : cfg) (lc : lcfg) (l : lstate) (o : lop) : lstate := keep (lrun c lc l o) l.
Definition lresult_class (c : cfg) (lc : lcfg) (l : lstate) (o : lop) : Z :=
  match lrun c lc l o with Ok _ => 0 | Err _ => 1 | Panic => 2 end.
Definition lrun_all (c : cfg) (lc : lcfg) (ops : list lop) (l : lstate) : lstate := fold_left (lstep c lc) ops l.

(* ---------- vaults awaiting auction settlement: the locked-vault records ---------- *)
Definition lkin (a p : Z) (k : lockedv) : bool := (lk_app k =? a) && (lk_pair k =? p).
Definition lock_coll (l : lstate) (a p : Z) : Z := wsum (fun k => if lkin a p k then lk_coll k else 0) (lks l).
Definition lock_prin (l : lstate) (a p : Z) : Z := wsum (fun k => if lkin a p k then lk_prin k else 0) (lks l).
Definition lock_prin_d (c : cfg) (l : lstate) (d : Z) : Z :=
  wsum (fun k => if denom_out c (lk_pair k) =? d then lk_prin k else 0) (lks l).

(* ---------- C01 over the full life ---------- *)
Definition c01l_custody (c : cfg) (l : lstate) (d : Z) : bool := c01_custody c (vs l) d.
Definition c01l_count (l : lstate) : bool := c01_count (vs l).
Definition c01l_coll (l : lstate) (a p : Z) : bool :=
  match prods (vs l) a p with
  | Some pr => p_coll pr =? prod_coll_sum (vs l) a p + lock_coll l a p
  | None => (prod_coll_sum (vs l) a p + lock_coll l a p =? 0) end.
Definition c01l_mint (l : lstate) (a p : Z) : bool :=
  match prods (vs l) a p with
  | Some pr => p_mint pr =? prod_mint_sum (vs l) a p + lock_prin l a p
  | None => (prod_mint_sum (vs l) a p + lock_prin l a p =? 0) end.
Definition c01l_ids (l : lstate) (a p : Z) : bool :=
  match prods (vs l) a p with
  | Some pr => list_eqb (p_ids pr) (prod_ids (vs l) a p) && ascending (p_ids pr)
  | None => match prod_ids (vs l) a p with [] => true | _ => false end end.
Definition holds_C01_life (c : cfg) (denoms : list Z) (l : lstate) : bool :=
  forallb (c01l_custody c l) denoms && c01l_count l &&
  forallb (fun e => c01l_coll l (ep_app e) (ep_id e) && c01l_mint l (ep_app e) (ep_id e) && c01l_ids l (ep_app e) (ep_id e)) (epairs c).

(* known-finding classes (functions of the history through the ghosts) *)
(* C01-F2: a settled auction retired a seized vault whose debt (principal + interest + closing fee)
   exceeded its principal: TokenMintedAmount was reduced by the debt *)
Definition kf_C01_2 (l : lstate) (a p : Z) : bool := negb (drift l a p =? 0).
(* C01-F4: TriggerEsm returned an auction's remainder into a vault (ESM, auction past its end time) *)
Definition kf_C01_4_prod (l : lstate) (a p : Z) : bool := negb (er_mint l a p =? 0) || negb (er_coll l a p =? 0).
Definition kf_C01_4_denom (l : lstate) (d : Z) : bool := negb (er_short l d =? 0).
Definition kf_C01_life (c : cfg) (denoms : list Z) (l : lstate) : bool :=
  existsb (kf_C01_4_denom l) denoms ||
  existsb (fun e => kf_C01_2 l (ep_app e) (ep_id e) || kf_C01_4_prod l (ep_app e) (ep_id e)) (epairs c).

(* the same identities corrected by the ghosts: they hold in EVERY history (Properties/C01.v
   c01_adjusted_predicate_holds); where they hold and the plain identity fails, the failure is inside the
   known-finding class whose ghost is not zero *)
Definition c01l_custody_adj (c : cfg) (l : lstate) (d : Z) : bool :=
  bal (vs l) VAULT d =? coll_sum c (vs l) d + unsol (vs l) d - er_short l d.
Definition c01l_coll_adj (l : lstate) (a p : Z) : bool :=
  (match prods (vs l) a p with Some pr => p_coll pr | None => 0 end) =? prod_coll_sum (vs l) a p + lock_coll l a p - er_coll l a p.
Definition c01l_mint_adj (l : lstate) (a p : Z) : bool :=
  (match prods (vs l) a p with Some pr => p_mint pr | None => 0 end) =? prod_mint_sum (vs l) a p + lock_prin l a p - drift l a p - er_mint l a p.
Definition holds_C01_adj (c : cfg) (denoms : list Z) (l : lstate) : bool :=
  forallb (c01l_custody_adj c l) denoms && c01l_count l &&
  forallb (fun e => c01l_coll_adj l (ep_app e) (ep_id e) && c01l_mint_adj l (ep_app e) (ep_id e) && c01l_ids l (ep_app e) (ep_id e)) (epairs c).

(* ---------- C02 over the full life ---------- *)
(* recorded principal: open vaults + stable-mint vaults + vaults awaiting auction + debt registered for
   emergency redemption *)
Definition recorded_d (c : cfg) (l : lstate) (d : Z) : Z := debt_sum c (vs l) d + lock_prin_d c l d + edebt l d.
Definition c02l_backing (c : cfg) (ext : Z -> Z) (l : lstate) (d : Z) : bool :=
  sup (vs l) d - ext d <=? recorded_d c l d.
Definition c02l_exact (c : cfg) (ext : Z -> Z) (l : lstate) (d : Z) : bool :=
  sup (vs l) d - ext d =? recorded_d c l d.
Definition holds_C02_life (c : cfg) (ext : Z -> Z) (denoms : list Z) (l : lstate) : bool :=
  forallb (c02l_backing c ext l) denoms.

(* the law of a settlement, on the observation before and after a successful closing bid: the supply of
   the debt denom falls by exactly the locked vault's debt (target - penalty), no other supply moves,
   the vault custody account is untouched *)
Definition is_liq (o : lop) : bool := match o with Liquidate _ _ _ | Sweep _ => true | _ => false end.
Definition holds_C02_settle (denoms : list Z) (l : lstate) (aid : Z) (closed : bool) (l' : lstate) : bool :=
  match find_au (aus l) aid with None => false | Some a =>
  match find_lk (lks l) (au_lock a) with None => false | Some lk =>
  forallb (fun d => (sup (vs l) d - sup (vs l') d =? (if closed && (d =? au_cout a) then lk_debt lk else 0)) &&
                    (bal (vs l') VAULT d =? bal (vs l) VAULT d)) denoms
  end end.
