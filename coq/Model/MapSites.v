(* C16 - one model per place where the code enumerates a Go map (iteration order unspecified and
   randomised per process).  Each site: the loop body as  body : key -> val -> acc -> acc  and the
   site result as a fold over the list of (key, value) pairs in the order Go happened to produce.
   Definitions only; permutation invariance is proved in Proofs/MapSitesProofs.v. *)
From Coq Require Import String.
From Comdex Require Import Lib.Base Lib.DecArith Gen.MapRangeTable Gen.AmbientTable.
Local Open Scope Z_scope.

Definition fold_map {K V Acc : Type} (body : K -> V -> Acc -> Acc) (l : list (K * V)) (a : Acc) : Acc :=
  fold_left (fun a kv => body (fst kv) (snd kv) a) l a.

(* ---- sites "collect, then sort":
     app/app.go ModuleAccountAddrs:   for name := range perms { names = append(names, name) }; sort.Strings(names)
     amm/orderbook.go String():       for _, price := range priceSet { prices = append(prices, price) };
                                      sort.Slice(prices, GT) in stringRepresentation (orderbook.go:95)
   The loop appends; the site result is the sorted slice.  [leb] is the order used by the sort. *)
Section CollectSort.
  Variable K : Type.
  Variable leb : K -> K -> bool.
  Fixpoint insert (x : K) (l : list K) : list K :=
    match l with
    | [] => [x]
    | y :: r => if leb x y then x :: y :: r else y :: insert x r
    end.
  Definition sort_keys (l : list K) : list K := fold_right insert [] l.
  Definition collect_body {V : Type} (k : K) (_ : V) (acc : list K) : list K := acc ++ [k].
  Definition collect_sorted {V : Type} (l : list (K * V)) : list K := sort_keys (fold_map (@collect_body V) l []).
End CollectSort.
Arguments insert {K} leb x l.
Arguments sort_keys {K} leb l.
Arguments collect_body {K V} k _ acc.
Arguments collect_sorted {K} leb {V} l.

(* for orderbook.go the collected elements are the VALUES (prices) of a map keyed by their string *)
Definition collect_val_body {K V : Type} (_ : K) (v : V) (acc : list V) : list V := acc ++ [v].

(* ---- site amm/match.go:392  for order, matchedAmt := range matchedAmtByOrder {
                                   quoteCoinDiff = quoteCoinDiff.Add(FillOrder(order, matchedAmt, price)) }
   Orders are pointers: the key is the order's identity, FillOrder mutates that order only. ---- *)
Record order := mkOrder { o_buy : bool; o_offer : Z; o_paid : Z; o_recv : Z; o_open : Z }.

(* amm/util.go:33 MatchableAmount; None = a Dec operation panics (price 0, overflow) *)
Definition matchable (o : order) (price : Z) : option Z :=
  let m := if o_buy o
           then match dquo_trunc_c (dec_of_int (o_offer o - o_paid o)) price with
                | Some q => Some (Z.min (o_open o) (dtrunc_int q))
                | None => None
                end
           else Some (o_open o) in
  match m with
  | None => None
  | Some m => match dmul_int_c price m with
              | None => None
              | Some pm => Some (if dtrunc_int pm =? 0 then 0 else m)
              end
  end.

(* amm/match.go:32 FillOrder: the new order state and the quote-coin difference; None = panic *)
Definition fill_order (price : Z) (o : order) (amt : Z) : option (order * Z) :=
  match matchable o price with
  | None => None
  | Some m =>
      if amt >? m then None
      else match dmul_int_c price amt with
           | None => None
           | Some pa =>
               if o_buy o
               then let paid := dceil_int pa in
                    Some (mkOrder true (o_offer o) (o_paid o + paid) (o_recv o + amt) (o_open o - amt), paid)
               else let received := dtrunc_int pa in
                    Some (mkOrder false (o_offer o) (o_paid o + amt) (o_recv o + received) (o_open o - amt), - received)
           end
  end.

Definition book := list (Z * order).
Fixpoint find_order (k : Z) (b : book) : option order :=
  match b with [] => None | (k', o) :: r => if k' =? k then Some o else find_order k r end.
Definition upd_order (k : Z) (o : order) (b : book) : book :=
  map (fun e => if fst e =? k then (k, o) else e) b.

(* generic in the per-order step [f] so that the commutation proof does not depend on arithmetic *)
Definition fill_body_gen (f : order -> Z -> option (order * Z)) (k : Z) (amt : Z) (acc : option (book * Z)) : option (book * Z) :=
  match acc with
  | None => None
  | Some (b, diff) =>
      match find_order k b with
      | None => None
      | Some o => match f o amt with
                  | None => None
                  | Some (o', q) => Some (upd_order k o' b, diff + q)
                  end
      end
  end.
Definition fill_body (price : Z) := fill_body_gen (fill_order price).

(* ---- site keeper/pool.go:736  for _, pLiquidity := range poolLiquidityMap {
                                     totalLiquidity = totalLiquidity.Add(pLiquidity) }
   Dec addition panics above 315 bits; every stored value is positive (pool.go:732 returns
   before the insertion otherwise). ---- *)
Definition sum_body (_ : Z) (v : Z) (acc : option Z) : option Z :=
  match acc with None => None | Some a => dadd_c a v end.

(* ---- registration: the hash of each loop's source text as found on the current tree ---- *)
Inductive site_model := SCollectSort | SFill | SDecSum.
Definition site_registry : list (string * site_model) := [
  ("e933756366ccafa3"%string, SCollectSort);   (* app/app.go ModuleAccountAddrs *)
  ("6c92a058a90f21a6"%string, SFill);          (* x/liquidity/amm/match.go DistributeOrderAmountToOrders *)
  ("1d0011a1896de10d"%string, SCollectSort);   (* x/liquidity/amm/orderbook.go OrderBook.String *)
  ("44a7c9db4ab024f8"%string, SDecSum)         (* x/liquidity/keeper/pool.go TransferFundsForSwapFeeDistribution *)
].

Definition site_has_theorem (s : map_site) : bool :=
  String.eqb (ms_kind s) "range" && existsb (fun r => String.eqb (fst r) (ms_hash s)) site_registry.

(* the registry holds nothing stale either: every registered hash is still in the source *)
Definition registry_live (t : list map_site) : bool :=
  forallb (fun r => existsb (fun s => String.eqb (fst r) (ms_hash s)) t) site_registry.

(* ---- ambient sources: only these simulation / test helpers may touch randomness or the clock,
   and nothing outside this list may (transitively) refer to them ---- *)
Definition ambient_helpers : list string := [
  "types.RandomInt"; "types.RandomDec"; "types.GenAndDeliverTx"; "types.GenAndDeliverTxWithFees";
  "types.ShuffleSimAccounts"; "liquidity/amm.RandomTick"; "liquidity/amm.TickPrecision.RandomTick"]%string.
Definition is_helper (n : string) : bool := existsb (String.eqb n) ambient_helpers.
Definition is_classic_kind (k : string) : bool :=
  String.eqb k "random" || String.eqb k "clock" || String.eqb k "environment".
(* goroutine / select rows are never accepted; randomness, wall clock and environment only in a
   registered helper all of whose transitive callers are registered helpers *)
Definition classic_row_ok (r : ambient_site) : bool :=
  is_classic_kind (am_kind r) && is_helper (am_func r) && forallb is_helper (am_callers r).

(* ---- process-local mutable state (rows emitted by tools/goextract/emit_maprange_state.go).
   The state of the chain is the multistore: it is branched for CheckTx / simulation / every
   transaction and rolled back on failure.  Memory a keeper keeps beside it is neither rolled back
   nor shared between processes, so a result that depends on it depends on the history of the
   PROCESS.  Kinds:
     procstate               a write (assign / append / incdec / delete / Store ... / in-place Dec or
                             big.Int operation) through a field of a state-machine struct or a
                             package-level variable, outside init and outside the object a New*
                             function is building
     procstate-ext           a type of another module held by a field of a state-machine struct
     procstate-local         a type with sdk.Context methods whose values the translator found only
                             in local variables / parameters / results
     procstate-unrecognised  an alias of a map / slice / channel / sync field the scan cannot follow ---- *)

(* types of other modules that state-machine structs hold.  All are objects of the SDK / IBC /
   wasmd whose chain state is in the multistore (keepers, the params subspace), or the immutable
   handles of the multistore itself (store keys), the codec, BaseApp (owns the multistore and
   does the branching) and the module manager (filled in app.New).  Their determinism is the
   SDK's, not this repository's: trusted base.  A type that is not here (sync.Map, an LRU cache,
   bytes.Buffer, big.Int ...) fails. *)
Definition procstate_ext_ok : list string := [
  "github.com/CosmWasm/wasmd/x/wasm/keeper.Keeper";
  "github.com/CosmWasm/wasmd/x/wasm/keeper.PermissionedKeeper";
  "github.com/cosmos/cosmos-sdk/baseapp.BaseApp";
  "github.com/cosmos/cosmos-sdk/codec.LegacyAmino";
  "github.com/cosmos/cosmos-sdk/store/types.KVStoreKey";
  "github.com/cosmos/cosmos-sdk/store/types.MemoryStoreKey";
  "github.com/cosmos/cosmos-sdk/store/types.TransientStoreKey";
  "github.com/cosmos/cosmos-sdk/types/module.Manager";
  "github.com/cosmos/cosmos-sdk/x/auth/keeper.AccountKeeper";
  "github.com/cosmos/cosmos-sdk/x/authz/keeper.Keeper";
  "github.com/cosmos/cosmos-sdk/x/bank/keeper.BaseKeeper";
  "github.com/cosmos/cosmos-sdk/x/capability/keeper.Keeper";
  "github.com/cosmos/cosmos-sdk/x/capability/keeper.ScopedKeeper";
  "github.com/cosmos/cosmos-sdk/x/consensus/keeper.Keeper";
  "github.com/cosmos/cosmos-sdk/x/crisis/keeper.Keeper";
  "github.com/cosmos/cosmos-sdk/x/distribution/keeper.Keeper";
  "github.com/cosmos/cosmos-sdk/x/evidence/keeper.Keeper";
  "github.com/cosmos/cosmos-sdk/x/feegrant/keeper.Keeper";
  "github.com/cosmos/cosmos-sdk/x/gov/keeper.Keeper";
  "github.com/cosmos/cosmos-sdk/x/mint/keeper.Keeper";
  "github.com/cosmos/cosmos-sdk/x/params/keeper.Keeper";
  "github.com/cosmos/cosmos-sdk/x/params/types.Subspace";
  "github.com/cosmos/cosmos-sdk/x/slashing/keeper.Keeper";
  "github.com/cosmos/cosmos-sdk/x/staking/keeper.Keeper";
  "github.com/cosmos/cosmos-sdk/x/upgrade/keeper.Keeper";
  "github.com/cosmos/ibc-apps/middleware/packet-forward-middleware/v7/packetforward/keeper.Keeper";
  "github.com/cosmos/ibc-apps/modules/async-icq/v7/keeper.Keeper";
  "github.com/cosmos/ibc-apps/modules/ibc-hooks/v7.ICS4Middleware";
  "github.com/cosmos/ibc-apps/modules/ibc-hooks/v7.WasmHooks";
  "github.com/cosmos/ibc-apps/modules/ibc-hooks/v7/keeper.Keeper";
  "github.com/cosmos/ibc-go/v7/modules/apps/27-interchain-accounts/host/keeper.Keeper";
  "github.com/cosmos/ibc-go/v7/modules/apps/29-fee/keeper.Keeper";
  "github.com/cosmos/ibc-go/v7/modules/apps/transfer/keeper.Keeper";
  "github.com/cosmos/ibc-go/v7/modules/core/keeper.Keeper"]%string.

(* types with sdk.Context methods that never leave the call stack (the translator checks: no field,
   package variable or named type of the repository holds one, none is converted to an interface,
   passed outside the repository, stored, captured by a function literal or sent):
     x/asset/keeper.Migrator                    built by NewMigrator, only used in tests today
     x/liquidity/types.BulkSendCoinsOperation   the per-call batch of bank sends: made by
        NewBulkSendCoinsOperation inside the keeper function that uses it, filled (QueueSendCoins),
        run (Run) and dropped before that function returns; it dies with the call, so its fields
        are not process state *)
Definition procstate_local_types : list string := [
  "x/asset/keeper.Migrator"; "x/liquidity/types.BulkSendCoinsOperation"]%string.

(* a registered site: function ("" = any function), the exact text of the row, and whether all
   transitive callers must be wiring / helper functions (a field set once while the application
   is put together, a helper nothing refers to) *)
Record site_entry := mkEntry { se_func : string; se_what : string; se_callers_wiring : bool }.
Definition procstate_wiring : list string := ["app.New"]%string.
Definition is_wiring (n : string) : bool := existsb (String.eqb n) procstate_wiring || is_helper n.
Definition entry_matches (r : ambient_site) (e : site_entry) : bool :=
  (String.eqb (se_func e) "" || String.eqb (se_func e) (am_func r)) && String.eqb (se_what e) (am_what r) &&
  (negb (se_callers_wiring e) || forallb is_wiring (am_callers r)).
Definition registered (reg : list site_entry) (r : ambient_site) : bool := existsb (entry_matches r) reg.

(* the procstate sites of the unchanged tree, each read and found harmless:
   - every module's types.RegisterInterfaces hands the address of the GENERATED gRPC service
     descriptor (_Msg_serviceDesc, tx.pb.go) to the SDK's msgservice.RegisterMsgServiceDesc, which
     reads the method list to register the request types; nothing writes through the pointer;
   - app.ModuleBasics is a module.BasicManager (a named map of another module); the four methods
     called on it (RegisterGRPCGatewayRoutes, RegisterLegacyAminoCodec, RegisterInterfaces,
     DefaultGenesis) range over the map and call the per-module function; none inserts or deletes.
     The map is filled by its composite literal at package initialisation only. *)
Definition procstate_registry : list site_entry := [
  mkEntry "" "msgservice.RegisterMsgServiceDesc of the address of a package variable" false;
  mkEntry "app.App.RegisterAPIRoutes"
    "external method github.com/cosmos/cosmos-sdk/types/module.BasicManager.RegisterGRPCGatewayRoutes on package variable app.ModuleBasics" false;
  mkEntry "app.MakeEncodingConfig"
    "external method github.com/cosmos/cosmos-sdk/types/module.BasicManager.RegisterLegacyAminoCodec on package variable app.ModuleBasics" false;
  mkEntry "app.MakeEncodingConfig"
    "external method github.com/cosmos/cosmos-sdk/types/module.BasicManager.RegisterInterfaces on package variable app.ModuleBasics" false;
  mkEntry "app.NewDefaultGenesisState"
    "external method github.com/cosmos/cosmos-sdk/types/module.BasicManager.DefaultGenesis on package variable app.ModuleBasics" false]%string.

Definition is_procstate_kind (k : string) : bool :=
  String.eqb k "procstate" || String.eqb k "procstate-ext" || String.eqb k "procstate-local" || String.eqb k "procstate-unrecognised".
Definition procstate_row_ok_with (reg : list site_entry) (r : ambient_site) : bool :=
  let k := am_kind r in
  if String.eqb k "procstate" then registered reg r
  else if String.eqb k "procstate-ext" then existsb (String.eqb (am_what r)) procstate_ext_ok
  else if String.eqb k "procstate-local" then existsb (String.eqb (am_func r)) procstate_local_types
  else false.   (* procstate-unrecognised: never *)
Definition procstate_row_ok := procstate_row_ok_with procstate_registry.

(* ---- local time zone: a Time made by time.Unix / UnixMilli / UnixMicro / Parse / ParseInLocation /
   Date(non-UTC) on which a zone-dependent method is called, or which leaves the function, before
   .UTC() / .In(time.UTC); time.Local, Time.Local(), time.LoadLocation.  The one site of the unchanged
   tree: types.ParseTime (types/utils.go:108) returns time.Parse(time.RFC3339, s) as it is; a test
   helper - no non-test code refers to it (the row's caller list must consist of wiring / helper
   functions; it is empty today). ---- *)
Definition localtime_registry : list site_entry := [
  mkEntry "types.ParseTime" "time.Parse value returned before a UTC conversion" true]%string.
Definition localtime_row_ok_with (reg : list site_entry) (r : ambient_site) : bool :=
  String.eqb (am_kind r) "localtime" && registered reg r.
Definition localtime_row_ok := localtime_row_ok_with localtime_registry.

(* ---- aliases of process-wide pointer-carrying values (rows emitted by
   tools/goextract/emit_maprange_alias.go).  sdk.Dec / Int / Uint / Coin(s) / DecCoin(s) / big.Int
   values are structs around a *big.Int: a COPY of a package-level variable (or of a field of a
   state-machine struct) of such a type shares the big.Int with the original.  The value API never
   writes through the pointer; Unmarshal / UnmarshalJSON / Set* / *Mut / the mutating math/big methods
   and every decoder handed the address of the copy do, and then the default of the whole process
   has changed.  The translator follows every copy through locals, fields, literals, parameters and
   results of the repository's functions (whole-program, flow- and field-insensitive).  Kinds:
     procstate-alias      an alias handed by address to a function the scan cannot look into and
                          that is not known to only read it, or used as the receiver of an in-place /
                          pointer-receiver method: accepted only when registered below
     procstate-alias-src  one row per variable / field the analysis follows, am_callers = the
                          functions whose RESULT is an alias of it (listed under the first source they
                          alias): informational, always accepted ---- *)

(* the alias sites of the unchanged tree, each read and found harmless:
   - asset.SetParams(ctx, params): k.params.SetParamSet(ctx, &params) with params possibly
     types.DefaultParams() (InitGenesis of the default genesis, the v11 upgrade handlers).
     x/params/types/subspace.go SetParamSet: for every pair of params.ParamSetPairs() it takes
     reflect.Indirect(reflect.ValueOf(pair.Value)).Interface() - a COPY of the field -, runs the
     validator on it and stores its amino-JSON encoding (Subspace.Set -> legacyAmino.MarshalJSON);
     nothing is decoded into or assigned through the pointer;
   - liquidity.UpdateGenericParams: genericParams is the result of GetGenericParams (DefaultGenericParams
     when the app has none yet); reflect.ValueOf(&genericParams).Elem().FieldByName(k).Set(v) ASSIGNS the
     field of the local copy (for a Dec / Int / Coins field: replaces the struct holding the pointer by the
     freshly parsed one); the big.Int the old field value pointed to is not written. *)
Definition procstate_alias_registry : list site_entry := [
  mkEntry "asset.SetParams"
    "passed by address to github.com/cosmos/cosmos-sdk/x/params/types.Subspace.SetParamSet: an alias of package variable x/asset/types.DefaultAssetRegistrationFee" false;
  mkEntry "liquidity.UpdateGenericParams"
    "passed by address to reflect.ValueOf: an alias of package variable x/liquidity/types.DefaultMinInitialPoolCoinSupply" false]%string.
Definition is_alias_kind (k : string) : bool := String.eqb k "procstate-alias" || String.eqb k "procstate-alias-src".
Definition alias_row_ok_with (reg : list site_entry) (r : ambient_site) : bool :=
  if String.eqb (am_kind r) "procstate-alias" then registered reg r
  else String.eqb (am_kind r) "procstate-alias-src".
Definition alias_row_ok := alias_row_ok_with procstate_alias_registry.
(* nothing registered is stale, and the analysis ranged over something *)
Definition alias_registry_live (t : list ambient_site) : bool :=
  forallb (fun e => existsb (fun r => String.eqb (am_kind r) "procstate-alias" && entry_matches r e) t) procstate_alias_registry &&
  existsb (fun r => String.eqb (am_kind r) "procstate-alias-src") t.

(* a row of a kind this file does not know fails *)
Definition ambient_row_ok (r : ambient_site) : bool :=
  let k := am_kind r in
  if is_procstate_kind k then procstate_row_ok r
  else if is_alias_kind k then alias_row_ok r
  else if String.eqb k "localtime" then localtime_row_ok r
  else classic_row_ok r.

(* nothing registered is stale: every entry still matches a row of the table *)
Definition registries_live (t : list ambient_site) : bool :=
  forallb (fun e => existsb (fun r => String.eqb (am_kind r) "procstate" && entry_matches r e) t) procstate_registry &&
  forallb (fun e => existsb (fun r => String.eqb (am_kind r) "localtime" && entry_matches r e) t) localtime_registry &&
  forallb (fun n => existsb (fun r => String.eqb (am_kind r) "procstate-ext" && String.eqb (am_what r) n) t) procstate_ext_ok &&
  forallb (fun n => existsb (fun r => String.eqb (am_kind r) "procstate-local" && String.eqb (am_func r) n) t) procstate_local_types.

(* ---- the predicate evaluated on the harness observations: all replays of one block agree ---- *)
Fixpoint all_equal (l : list string) : bool :=
  match l with
  | a :: ((b :: _) as r) => String.eqb a b && all_equal r
  | _ => true
  end.
Definition holds_C16 (digests : list string) : bool := all_equal digests.
