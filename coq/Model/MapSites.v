(* C16 - one model per place where the code enumerates a Go map (iteration order unspecified and
   randomised per process).  Each site: the loop body as  body : key -> val -> acc -> acc  and the
   site result as a fold over the list of (key, value) pairs in the order Go happened to produce.
   Definitions only; permutation invariance is proved in Proofs/MapSitesProofs.v. *)
From Coq Require Import String.
From Comdex Require Import Lib.Base Lib.DecArith Gen.MapRangeTable Gen.AmbientTable.
Local Open Scope Z_scope.

Definition fold_map {K V Acc : Type} (body : K -> V -> Acc -> Acc) (l : list (K * V)) (a : Acc) : Acc :=
  fold_left (fun a kv => body (fst kv) (snd kv) a) l a.

(* ---- sites "collect, then sort":
     app/app.go ModuleAccountAddrs:   for name := range perms { names = append(names, name) }; sort.Strings(names)
     amm/orderbook.go String():       for _, price := range priceSet { prices = append(prices, price) };
                                      sort.Slice(prices, GT) in stringRepresentation (orderbook.go:95)
   The loop appends; the site result is the sorted slice.  [leb] is the order used by the sort. *)
Section CollectSort.
  Variable K : Type.
  Variable leb : K -> K -> bool.
  Fixpoint insert (x : K) (l : list K) : list K :=
    match l with
    | [] => [x]
    | y :: r => if leb x y then x :: y :: r else y :: insert x r
    end.
  Definition sort_keys (l : list K) : list K := fold_right insert [] l.
  Definition collect_body {V : Type} (k : K) (_ : V) (acc : list K) : list K := acc ++ [k].
  Definition collect_sorted {V : Type} (l : list (K * V)) : list K := sort_keys (fold_map (@collect_body V) l []).
End CollectSort.
Arguments insert {K} leb x l.
Arguments sort_keys {K} leb l.
Arguments collect_body {K V} k _ acc.
Arguments collect_sorted {K} leb {V} l.

(* for orderbook.go the collected elements are the VALUES (prices) of a map keyed by their string *)
Definition collect_val_body {K V : Type} (_ : K) (v : V) (acc : list V) : list V := acc ++ [v].

(* ---- site amm/match.go:392  for order, matchedAmt := range matchedAmtByOrder {
                                   quoteCoinDiff = quoteCoinDiff.Add(FillOrder(order, matchedAmt, price)) }
   Orders are pointers: the key is the order's identity, FillOrder mutates that order only. ---- *)
Record order := mkOrder { o_buy : bool; o_offer : Z; o_paid : Z; o_recv : Z; o_open : Z }.

(* amm/util.go:33 MatchableAmount; None = a Dec operation panics (price 0, overflow) *)
Definition matchable (o : order) (price : Z) : option Z :=
  let m := if o_buy o
           then match dquo_trunc_c (dec_of_int (o_offer o - o_paid o)) price with
                | Some q => Some (Z.min (o_open o) (dtrunc_int q))
                | None => None
                end
           else Some (o_open o) in
  match m with
  | None => None
  | Some m => match dmul_int_c price m with
              | None => None
              | Some pm => Some (if dtrunc_int pm =? 0 then 0 else m)
              end
  end.

(* amm/match.go:32 FillOrder: the new order state and the quote-coin difference; None = panic *)
Definition fill_order (price : Z) (o : order) (amt : Z) : option (order * Z) :=
  match matchable o price with
  | None => None
  | Some m =>
      if amt >? m then None
      else match dmul_int_c price amt with
           | None => None
           | Some pa =>
               if o_buy o
               then let paid := dceil_int pa in
                    Some (mkOrder true (o_offer o) (o_paid o + paid) (o_recv o + amt) (o_open o - amt), paid)
               else let received := dtrunc_int pa in
                    Some (mkOrder false (o_offer o) (o_paid o + amt) (o_recv o + received) (o_open o - amt), - received)
           end
  end.

Definition book := list (Z * order).
Fixpoint find_order (k : Z) (b : book) : option order :=
  match b with [] => None | (k', o) :: r => if k' =? k then Some o else find_order k r end.
Definition upd_order (k : Z) (o : order) (b : book) : book :=
  map (fun e => if fst e =? k then (k, o) else e) b.

(* generic in the per-order step [f] so that the commutation proof does not depend on arithmetic *)
Definition fill_body_gen (f : order -> Z -> option (order * Z)) (k : Z) (amt : Z) (acc : option (book * Z)) : option (book * Z) :=
  match acc with
  | None => None
  | Some (b, diff) =>
      match find_order k b with
      | None => None
      | Some o => match f o amt with
                  | None => None
                  | Some (o', q) => Some (upd_order k o' b, diff + q)
                  end
      end
  end.
Definition fill_body (price : Z) := fill_body_gen (fill_order price).

(* ---- site keeper/pool.go:736  for _, pLiquidity := range poolLiquidityMap {
                                     totalLiquidity = totalLiquidity.Add(pLiquidity) }
   Dec addition panics above 315 bits; every stored value is positive (pool.go:732 returns
   before the insertion otherwise). ---- *)
Definition sum_body (_ : Z) (v : Z) (acc : option Z) : option Z :=
  match acc with None => None | Some a => dadd_c a v end.

(* ---- registration: the hash of each loop's source text as found on the current tree ---- *)
Inductive site_model := SCollectSort | SFill | SDecSum.
Definition site_registry : list (string * site_model) := [
  ("e933756366ccafa3"%string, SCollectSort);   (* app/app.go ModuleAccountAddrs *)
  ("6c92a058a90f21a6"%string, SFill);          (* x/liquidity/amm/match.go DistributeOrderAmountToOrders *)
  ("1d0011a1896de10d"%string, SCollectSort);   (* x/liquidity/amm/orderbook.go OrderBook.String *)
  ("44a7c9db4ab024f8"%string, SDecSum)         (* x/liquidity/keeper/pool.go TransferFundsForSwapFeeDistribution *)
].

Definition site_has_theorem (s : map_site) : bool :=
  String.eqb (ms_kind s) "range" && existsb (fun r => String.eqb (fst r) (ms_hash s)) site_registry.

(* the registry holds nothing stale either: every registered hash is still in the source *)
Definition registry_live (t : list map_site) : bool :=
  forallb (fun r => existsb (fun s => String.eqb (fst r) (ms_hash s)) t) site_registry.

(* ---- ambient sources: only these simulation / test helpers may touch randomness or the clock,
   and nothing outside this list may (transitively) refer to them ---- *)
Definition ambient_helpers : list string := [
  "types.RandomInt"; "types.RandomDec"; "types.GenAndDeliverTx"; "types.GenAndDeliverTxWithFees";
  "types.ShuffleSimAccounts"; "liquidity/amm.RandomTick"; "liquidity/amm.TickPrecision.RandomTick"]%string.
Definition is_helper (n : string) : bool := existsb (String.eqb n) ambient_helpers.
Definition ambient_row_ok (r : ambient_site) : bool :=
  is_helper (am_func r) && forallb is_helper (am_callers r) &&
  negb (String.eqb (am_kind r) "goroutine") && negb (String.eqb (am_kind r) "select").

(* ---- the predicate evaluated on the harness observations: all replays of one block agree ---- *)
Fixpoint all_equal (l : list string) : bool :=
  match l with
  | a :: ((b :: _) as r) => String.eqb a b && all_equal r
  | _ => true
  end.
Definition holds_C16 (digests : list string) : bool := all_equal digests.
