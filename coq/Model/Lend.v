(* Model of x/lend/keeper (keeper.go: LendAsset, WithdrawAsset, DepositAsset, CloseLend,
   BorrowAsset, RepayAsset, DepositBorrowAsset, DrawAsset, CloseBorrow, BorrowAlternate,
   MsgCalculateInterestAndRewards; iter.go: IterateLends / IterateBorrow bookkeeping; funds.go;
   rates.go), statement by statement: same checks in the same order, same Dec arithmetic, same
   early returns, including the defects.  Definitions only; proofs live in Proofs/LendProofs*.v.

   What is an ENV input (recorded by the harness, arbitrary in the theorems):
   - oracle prices (OSetPrice ops between messages),
   - the result of CalculateLendReward (the Dec [ipb] added to the lend-reward tracker),
   - the result of IterateBorrow's rate arithmetic: (error class, interest delta, reserve delta).
   The interest ARITHMETIC is property C18's subject; what IterateLends / IterateBorrow do with the
   amounts (tracker, truncation, reserve-or-pool funding of the reward, cToken mint, stats) is
   modelled here as coded.

   Conventions: a denom is identified with the id of the asset that carries it; accounts are
   integers (users > 0, the lend module "reserve" account = 0, pool module accounts = p_mod).
   - of a generation-2 auction of a handed-over position: whether a market bid is accepted and whether
     it closes the auction, the auction's target debt (checked against [target_of] by the runner), the
     owner and the part of the seized collateral the closing bid returns to the owner (auction
     internals, property C10's subject).
   The ESM kill switch of an app (esm MsgKillSwitch) and the depreciation of a pool (governance
   AddPoolDepreciateProposal) are state: the handlers' early returns on them are modelled in place.
   Not modelled (the generator never issues them / never enables them):
   DeletePoolAndTransferInterest (block hook that deletes pool records), the generation-1 liquidation / auction modules
   (x/auction lend auctions and bids, x/liquidation UnLiquidateLockedBorrows, CreteNewBorrow, RemoveFaultyAuctions;
   the generation-1 hand-over message x/liquidation MsgLiquidateBorrow IS modelled, with its sell-off amounts as ENV),
   sdk.Int 256-bit overflow of book totals (amounts are bank coins), Int64() conversions inside
   the rate arithmetic. *)
From Comdex Require Import Lib.Base Lib.DecArith.

Notation "x <- e ;; k" := (obind e (fun x => k)) (at level 61, e at next level, right associativity).

(* ---------- finite maps as association lists (first insertion order is kept) ---------- *)
Section FMap.
  Variables (K A : Type) (keqb : K -> K -> bool).
  Fixpoint fget (m : list (K * A)) (k : K) : option A :=
    match m with [] => None | (k', v) :: r => if keqb k' k then Some v else fget r k end.
  Fixpoint fset (m : list (K * A)) (k : K) (v : A) : list (K * A) :=
    match m with
    | [] => [(k, v)]
    | (k', v') :: r => if keqb k' k then (k, v) :: r else (k', v') :: fset r k v
    end.
  Fixpoint fdel (m : list (K * A)) (k : K) : list (K * A) :=
    match m with
    | [] => []
    | (k', v') :: r => if keqb k' k then fdel r k else (k', v') :: fdel r k
    end.
End FMap.
Arguments fget {K A}. Arguments fset {K A}. Arguments fdel {K A}.

Definition peqb (a b : Z * Z) : bool := (fst a =? fst b) && (snd a =? snd b).
Definition zget {A} (m : list (Z * A)) (k : Z) := fget Z.eqb m k.
Definition zset {A} (m : list (Z * A)) (k : Z) (v : A) := fset Z.eqb m k v.
Definition zdel {A} (m : list (Z * A)) (k : Z) := fdel Z.eqb m k.
Definition pget {A} (m : list ((Z * Z) * A)) (k : Z * Z) := fget peqb m k.
Definition pset {A} (m : list ((Z * Z) * A)) (k : Z * Z) (v : A) := fset peqb m k v.

(* ---------- configuration (governance-set records, constant during a history) ---------- *)
Record asset := mkAsset { a_id : Z; a_dec : Z }.
Record poolasset := mkPA { pa_asset : Z; pa_transit : Z; pa_cap : Z }.          (* SupplyCap: Dec *)
Record pool := mkPool { p_id : Z; p_mod : Z; p_assets : list poolasset }.
Record pair := mkPair { pr_id : Z; pr_in : Z; pr_out : Z; pr_inter : bool; pr_out_pool : Z; pr_emode : bool }.
Record rates := mkRates { r_asset : Z; r_ltv : Z; r_eltv : Z; r_casset : Z; r_stable : bool; r_isolated : bool;
                          r_pen : Z; r_epen : Z }.                (* LiquidationPenalty, ELiquidationPenalty (Dec) *)
Record config := mkCfg {
  c_assets : list (Z * asset);
  c_pools : list (Z * pool);
  c_pairs : list (Z * pair);
  c_rates : list (Z * rates);
  c_a2p : list ((Z * Z) * list Z);       (* AssetToPairMapping (asset, pool) -> pair ids *)
  c_apps : list (Z * bool)               (* app id -> its name is types.AppName *)
}.

(* ---------- state ---------- *)
Record stats := mkStats {
  s_lend : Z; s_bor : Z; s_sbor : Z; s_tia : Z;      (* TotalLend, TotalBorrowed, TotalStableBorrowed, TotalInterestAccumulated *)
  s_lids : list Z; s_bids : list Z }.
Record lendpos := mkLend {
  l_id : Z; l_owner : Z; l_pool : Z; l_asset : Z; l_in : Z; l_avail : Z; l_app : Z;
  l_rewards : Z;            (* TotalRewards *)
  l_tracker : Z;            (* LendRewardsTracker.RewardsAccumulated (Dec) *)
  l_bids : list Z }.        (* UserAssetLendBorrowMapping.BorrowId of (owner, lend id) *)
Record borrowpos := mkBorrow {
  b_id : Z; b_lend : Z; b_pair : Z;
  b_in_denom : Z; b_in : Z;                             (* AmountIn (cToken coin) *)
  b_out : Z;                                            (* AmountOut; its denom is the pair's asset out *)
  b_brd_denom : Z; b_brd : Z;                           (* BridgedAssetAmount *)
  b_int : Z;                (* InterestAccumulated (Dec) *)
  b_res : Z;                (* BorrowInterestTracker.ReservePoolInterest (Dec) *)
  b_stable : bool; b_liq : bool }.
Record bank := mkBank { bal : list ((Z * Z) * Z); sup : list (Z * Z) }.
Record state := mkSt {
  lends : list (Z * lendpos); borrows : list (Z * borrowpos); sstats : list ((Z * Z) * stats);
  bnk : bank; lctr : Z; bctr : Z;
  prices : list (Z * Z);                                (* active Twa per asset; absent = no active price *)
  killed : list Z;                                      (* apps whose ESM kill switch (BreakerEnable) is on *)
  depr : list Z;                                        (* pool ids in the pool-depreciation records *)
  v1 : list Z }.                                        (* borrow ids flagged by the GENERATION-1 liquidation (no generation-2 auction) *)

Definition with_bank (st : state) (b : bank) : state :=
  mkSt (lends st) (borrows st) (sstats st) b (lctr st) (bctr st) (prices st) (killed st) (depr st) (v1 st).
Definition with_books (st : state) (L : list (Z * lendpos)) (B : list (Z * borrowpos)) (S : list ((Z * Z) * stats)) : state :=
  mkSt L B S (bnk st) (lctr st) (bctr st) (prices st) (killed st) (depr st) (v1 st).
(* esm GetKillSwitchData(app).BreakerEnable and lend IsPoolDepreciated(pool): both early returns of the handlers *)
Definition is_killed (st : state) (app : Z) : bool := existsb (Z.eqb app) (killed st).
Definition is_depr (st : state) (poolid : Z) : bool := existsb (Z.eqb poolid) (depr st).

Definition set_s_lend (s : stats) v := mkStats v (s_bor s) (s_sbor s) (s_tia s) (s_lids s) (s_bids s).
Definition set_s_bor (s : stats) v := mkStats (s_lend s) v (s_sbor s) (s_tia s) (s_lids s) (s_bids s).
Definition set_s_sbor (s : stats) v := mkStats (s_lend s) (s_bor s) v (s_tia s) (s_lids s) (s_bids s).
Definition set_s_tia (s : stats) v := mkStats (s_lend s) (s_bor s) (s_sbor s) v (s_lids s) (s_bids s).
Definition set_s_lids (s : stats) v := mkStats (s_lend s) (s_bor s) (s_sbor s) (s_tia s) v (s_bids s).
Definition set_s_bids (s : stats) v := mkStats (s_lend s) (s_bor s) (s_sbor s) (s_tia s) (s_lids s) v.

(* the fields of a lend position that handlers rewrite *)
Definition upd_lend (l : lendpos) (amt_in avail rewards tracker : Z) (bids : list Z) : lendpos :=
  mkLend (l_id l) (l_owner l) (l_pool l) (l_asset l) amt_in avail (l_app l) rewards tracker bids.
Definition upd_borrow (b : borrowpos) (amt_in amt_out brd intr res : Z) (liq : bool) : borrowpos :=
  mkBorrow (b_id b) (b_lend b) (b_pair b) (b_in_denom b) amt_in amt_out (b_brd_denom b) brd intr res (b_stable b) liq.

(* ---------- bank (x/bank as used through SendCoins*, MintCoins, BurnCoins) ---------- *)
Definition RESERVE : Z := 0.                                  (* module account "lendV2" *)
Definition balance (b : bank) (acct denom : Z) : Z :=
  match pget (bal b) (acct, denom) with Some v => v | None => 0 end.
Definition supply (b : bank) (denom : Z) : Z :=
  match zget (sup b) denom with Some v => v | None => 0 end.

(* sdk.NewCoin panics on a negative amount; sdk.NewCoins drops a zero coin (sending nothing) *)
Definition send (b : bank) (from to denom amt : Z) : outcome bank :=
  if amt <? 0 then Panic
  else if amt =? 0 then Ok b
  else if balance b from denom <? amt then Err 90
  else let b1 := mkBank (pset (bal b) (from, denom) (balance b from denom - amt)) (sup b) in
       Ok (mkBank (pset (bal b1) (to, denom) (balance b1 to denom + amt)) (sup b)).
Definition mint (b : bank) (acct denom amt : Z) : outcome bank :=
  if amt <? 0 then Panic
  else if amt =? 0 then Ok b
  else Ok (mkBank (pset (bal b) (acct, denom) (balance b acct denom + amt)) (zset (sup b) denom (supply b denom + amt))).
Definition burn (b : bank) (acct denom amt : Z) : outcome bank :=
  if amt <? 0 then Panic
  else if amt =? 0 then Ok b
  else if balance b acct denom <? amt then Err 91
  else Ok (mkBank (pset (bal b) (acct, denom) (balance b acct denom - amt)) (zset (sup b) denom (supply b denom - amt))).

(* ---------- market.CalcAssetPrice and rates.go ---------- *)
Definition calc_price (cfg : config) (st : state) (id amt : Z) : outcome Z :=
  match zget (c_assets cfg) id with
  | None => Err 20
  | Some a =>
      match zget (prices st) id with
      | None => Err 21
      | Some twa =>
          match dmul_c (dec_of_int amt) (dec_of_int twa) with
          | None => Panic
          | Some n => match dquo_c n (dec_of_int (a_dec a)) with None => Panic | Some v => Ok v end
          end
      end
  end.

(* CalculateCollateralizationRatio: totalOut.Quo(totalIn) *)
Definition calc_cr (cfg : config) (st : state) (amt_in asset_in amt_out asset_out : Z) : outcome Z :=
  tin <- calc_price cfg st asset_in amt_in ;;
  tout <- calc_price cfg st asset_out amt_out ;;
  match dquo_c tout tin with None => Panic | Some r => Ok r end.

(* VerifyCollateralizationRatio *)
Definition verify_cr (cfg : config) (st : state) (amt_in asset_in amt_out asset_out ltv : Z) : outcome unit :=
  r <- calc_cr cfg st amt_in asset_in amt_out asset_out ;;
  if r >? ltv then Err 30 else Ok tt.

(* ---------- funds.go ---------- *)
Definition upd_lend_stats (S : list ((Z * Z) * stats)) (k : Z * Z) (delta : Z) : outcome (list ((Z * Z) * stats)) :=
  match pget S k with
  | None => Panic                                  (* zero-value stats: nil Int arithmetic panics *)
  | Some s => Ok (pset S k (set_s_lend s (s_lend s + delta)))
  end.
Definition upd_borrow_stats (S : list ((Z * Z) * stats)) (k : Z * Z) (stable : bool) (delta : Z) : outcome (list ((Z * Z) * stats)) :=
  match pget S k with
  | None => Panic
  | Some s => Ok (pset S k (if stable then set_s_sbor s (s_sbor s + delta) else set_s_bor s (s_bor s + delta)))
  end.

(* DeleteIDFromAssetStatsMapping / DeleteBorrowIDFromUserMapping: sort.Search for the first index
   with ids[i] >= id, removal when the element there equals id.  sort.Search is a binary search;
   on the ascending lists the module maintains (ids come from increasing counters and are
   appended) it returns the first such index, which is what is modelled. *)
Fixpoint remove_sorted (id : Z) (l : list Z) : list Z :=
  match l with
  | [] => []
  | x :: r => if x >=? id then (if x =? id then r else l) else x :: remove_sorted id r
  end.

(* CheckSupplyCap *)
Definition find_cap (pl : pool) (asset : Z) : option Z :=
  fold_left (fun acc v => if pa_asset v =? asset then Some (pa_cap v) else acc) (p_assets pl) None.
Definition check_supply_cap (cfg : config) (st : state) (asset poolid amt : Z) : outcome bool :=
  match pget (sstats st) (poolid, asset) with
  | None => Panic
  | Some s =>
      cur <- calc_price cfg st asset (s_lend s + amt) ;;
      match zget (c_pools cfg) poolid with
      | None => Err 2
      | Some pl => match find_cap pl asset with None => Panic | Some cap => Ok (cur <=? cap) end
      end
  end.

(* the cToken denom of an asset, through GetAssetRatesParams(..).CAssetID; a missing record gives
   the empty denom and sdk.NewCoin panics *)
Definition cdenom_of (cfg : config) (asset : Z) : option Z :=
  match zget (c_rates cfg) asset with
  | None => None
  | Some r => match zget (c_assets cfg) (r_casset r) with Some c => Some (a_id c) | None => None end
  end.

(* ---------- iter.go: IterateLends, given the Dec returned by CalculateLendReward ---------- *)
Definition iterate_lends (cfg : config) (st : state) (lid ipb : Z) : outcome state :=
  match zget (lends st) lid with
  | None => Panic
  | Some l =>
      let acc := l_tracker l + ipb in
      let newint := if acc >=? P18 then dtrunc_int acc else 0 in
      let tracker := if acc >=? P18 then acc - dec_of_int newint else acc in
      let l1 := upd_lend l (l_in l) (l_avail l) (l_rewards l) tracker (l_bids l) in
      let st1 := with_books st (zset (lends st) lid l1) (borrows st) (sstats st) in
      if newint >? 0 then
        match zget (c_pools cfg) (l_pool l), pget (sstats st) (l_pool l, l_asset l), cdenom_of cfg (l_asset l) with
        | Some pl, Some s, Some cden =>
            if newint >? s_tia s then
              if balance (bnk st) RESERVE (l_asset l) <? newint then Err 40 else
              b1 <- send (bnk st) RESERVE (p_mod pl) (l_asset l) newint ;;
              b2 <- mint b1 (p_mod pl) cden newint ;;
              b3 <- send b2 (p_mod pl) (l_owner l) cden newint ;;
              let l2 := upd_lend l (l_in l) (l_avail l + newint) (l_rewards l + newint) tracker (l_bids l) in
              Ok (with_bank (with_books st (zset (lends st) lid l2) (borrows st)
                               (pset (sstats st) (l_pool l, l_asset l) (set_s_lend s (s_lend s + newint)))) b3)
            else
              b1 <- send (bnk st) (p_mod pl) (l_owner l) cden newint ;;
              let l2 := upd_lend l (l_in l) (l_avail l + newint) (l_rewards l + newint) tracker (l_bids l) in
              Ok (with_bank (with_books st (zset (lends st) lid l2) (borrows st)
                               (pset (sstats st) (l_pool l, l_asset l)
                                     (set_s_lend (set_s_tia s (s_tia s - newint)) (s_lend s + newint)))) b1)
        | _, _, _ => Panic
        end
      else Ok st1
  end.

(* IterateBorrow, given (error class, interest delta, reserve delta) *)
Record biter := mkBI { bi_res : Z; bi_int : Z; bi_rsv : Z }.
Definition iterate_borrow (st : state) (bid : Z) (e : biter) : outcome state :=
  match zget (borrows st) bid with
  | None => Panic
  | Some b =>
      if bi_res e =? 1 then Err 41 else if bi_res e =? 2 then Panic else
      let b1 := upd_borrow b (b_in b) (b_out b) (b_brd b) (b_int b + bi_int e)
                           (if bi_rsv e >? 0 then b_res b + bi_rsv e else b_res b) (b_liq b) in
      Ok (with_books st (lends st) (zset (borrows st) bid b1) (sstats st))
  end.

(* ---------- user mapping walks ---------- *)
Definition is_nil (l : list Z) : bool := match l with [] => true | _ => false end.
Definition user_lends (st : state) (user : Z) : list lendpos :=
  filter (fun l => l_owner l =? user) (map snd (lends st)).
Definition has_lend_for (st : state) (user asset poolid : Z) : bool :=
  existsb (fun l => (l_pool l =? poolid) && (l_asset l =? asset)) (user_lends st user).
Definition lend_id_for (st : state) (user asset poolid : Z) : option Z :=
  match find (fun l => (l_asset l =? asset) && (l_pool l =? poolid)) (user_lends st user) with
  | Some l => if l_id l =? 0 then None else Some (l_id l)
  | None => None
  end.
Definition borrow_has_pair (st : state) (pid j : Z) : bool :=
  match zget (borrows st) j with Some b => b_pair b =? pid | None => 0 =? pid end.
Definition has_borrow_for_pair (st : state) (user pid : Z) : bool :=
  existsb (fun l => existsb (borrow_has_pair st pid) (l_bids l)) (user_lends st user).
Definition borrow_id_for_pair (st : state) (user pid : Z) : option Z :=
  match find (borrow_has_pair st pid) (flat_map l_bids (user_lends st user)) with
  | Some j => Some (match zget (borrows st) j with Some b => b_id b | None => 0 end)
  | None => None
  end.
(* CheckIsolatedModeForBorrow *)
Definition isolated_blocked (st : state) (user asset : Z) : bool :=
  existsb (fun l => (l_asset l =? asset) && negb (is_nil (l_bids l))) (user_lends st user).

(* ---------- keeper.go handlers ---------- *)
Definition deposit_asset (cfg : config) (st : state) (user lid denom amt ipb : Z) : outcome state :=
  match zget (lends st) lid with
  | None => Err 1
  | Some l0 =>
      if is_depr st (l_pool l0) then Err 31 else
      if is_killed st (l_app l0) then Err 32 else
      st1 <- iterate_lends cfg st lid ipb ;;
      match zget (lends st1) lid with
      | None => Panic
      | Some l =>
          if negb (l_owner l =? user) then Err 3 else
          if negb (denom =? l_asset l) then Err 7 else
          match zget (c_pools cfg) (l_pool l) with
          | None => Panic
          | Some pl =>
              okc <- check_supply_cap cfg st1 (l_asset l) (l_pool l) amt ;;
              if negb okc then Err 14 else
              match zget (c_rates cfg) (l_asset l) with
              | None => Err 6
              | Some _ =>
                  match cdenom_of cfg (l_asset l) with
                  | None => Panic
                  | Some cden =>
                      b1 <- send (bnk st1) user (p_mod pl) denom amt ;;
                      b2 <- mint b1 (p_mod pl) cden amt ;;
                      b3 <- send b2 (p_mod pl) user cden amt ;;
                      S1 <- upd_lend_stats (sstats st1) (l_pool l, l_asset l) amt ;;
                      let l1 := upd_lend l (l_in l + amt) (l_avail l + amt) (l_rewards l) (l_tracker l) (l_bids l) in
                      Ok (with_bank (with_books st1 (zset (lends st1) lid l1) (borrows st1) S1) b3)
                  end
              end
          end
      end
  end.

Definition lend_asset (cfg : config) (st : state) (user asset denom amt poolid app ipb : Z) : outcome state :=
  if is_depr st poolid then Err 31 else
  if is_killed st app then Err 32 else
  match zget (c_assets cfg) asset with
  | None => Err 5
  | Some a =>
  match zget (c_pools cfg) poolid with
  | None => Err 2
  | Some pl =>
  match zget (c_apps cfg) app with
  | None => Err 15
  | Some isapp =>
      if negb isapp then Err 16 else
      if negb (denom =? a_id a) then Err 7 else
      if negb (existsb (fun v => pa_asset v =? asset) (p_assets pl)) then Err 17 else
      okc <- check_supply_cap cfg st asset poolid amt ;;
      if negb okc then Err 14 else
      if has_lend_for st user asset poolid then
        match lend_id_for st user asset poolid with
        | None => Err 1
        | Some lid => deposit_asset cfg st user lid denom amt ipb
        end
      else
        match zget (c_rates cfg) asset with
        | None => Err 6
        | Some r =>
            match zget (c_assets cfg) (r_casset r) with
            | None => Err 5
            | Some c =>
                b1 <- send (bnk st) user (p_mod pl) denom amt ;;
                b2 <- mint b1 (p_mod pl) (a_id c) amt ;;
                b3 <- send b2 (p_mod pl) user (a_id c) amt ;;
                let id := lctr st + 1 in
                let l := mkLend id user poolid asset amt amt app 0 0 [] in
                S1 <- upd_lend_stats (sstats st) (poolid, asset) amt ;;
                match pget S1 (poolid, asset) with
                | None => Err 18
                | Some s =>
                    Ok (mkSt (zset (lends st) id l) (borrows st) (pset S1 (poolid, asset) (set_s_lids s (s_lids s ++ [id])))
                             b3 id (bctr st) (prices st) (killed st) (depr st) (v1 st))
                end
            end
        end
  end end end.

Definition close_lend (cfg : config) (st : state) (user lid ipb : Z) : outcome state :=
  match zget (lends st) lid with
  | None => Err 1
  | Some l0 =>
      if is_killed st (l_app l0) then Err 32 else
      st1 <- iterate_lends cfg st lid ipb ;;
      match zget (lends st1) lid with
      | None => Panic
      | Some l =>
          match zget (c_pools cfg) (l_pool l) with
          | None => Panic
          | Some pl =>
              if negb (l_owner l =? user) then Err 3 else
              if negb (is_nil (l_bids l)) then Err 19 else
              if l_avail l >? balance (bnk st1) (p_mod pl) (l_asset l) then Err 13 else
              match zget (c_rates cfg) (l_asset l) with
              | None => Err 6
              | Some _ =>
                  match cdenom_of cfg (l_asset l) with
                  | None => Panic
                  | Some cden =>
                      b1 <- send (bnk st1) user (p_mod pl) cden (l_avail l) ;;
                      b2 <- burn b1 (p_mod pl) cden (l_avail l) ;;
                      b3 <- send b2 (p_mod pl) user (l_asset l) (l_avail l) ;;
                      S1 <- upd_lend_stats (sstats st1) (l_pool l, l_asset l) (- l_avail l) ;;
                      match pget S1 (l_pool l, l_asset l) with
                      | None => Panic
                      | Some s =>
                          Ok (with_bank (with_books st1 (zdel (lends st1) lid) (borrows st1)
                                           (pset S1 (l_pool l, l_asset l) (set_s_lids s (remove_sorted lid (s_lids s))))) b3)
                      end
                  end
              end
          end
      end
  end.

Definition withdraw_asset (cfg : config) (st : state) (user lid denom amt ipb : Z) : outcome state :=
  match zget (lends st) lid with
  | None => Err 1
  | Some l0 =>
      if (amt =? l_avail l0) && (l_avail l0 >=? l_in l0) then close_lend cfg st user lid ipb else
      if is_killed st (l_app l0) then Err 32 else
      st1 <- iterate_lends cfg st lid ipb ;;
      match zget (lends st1) lid with
      | None => Panic
      | Some l =>
          match zget (c_pools cfg) (l_pool l) with
          | None => Panic
          | Some pl =>
              if negb (l_owner l =? user) then Err 3 else
              if amt >? l_avail l then Err 10 else
              if negb (denom =? l_asset l) then Err 7 else
              if amt >? balance (bnk st1) (p_mod pl) denom then Err 13 else
              match zget (c_rates cfg) (l_asset l) with
              | None => Err 6
              | Some _ =>
                  match cdenom_of cfg (l_asset l) with
                  | None => Panic
                  | Some cden =>
                      b1 <- send (bnk st1) user (p_mod pl) cden amt ;;
                      b2 <- burn b1 (p_mod pl) cden amt ;;
                      b3 <- send b2 (p_mod pl) user denom amt ;;
                      S1 <- upd_lend_stats (sstats st1) (l_pool l, l_asset l) (- amt) ;;
                      let l1 := upd_lend l (if amt <? l_in l then l_in l - amt else 0) (l_avail l - amt)
                                         (l_rewards l) (l_tracker l) (l_bids l) in
                      Ok (with_bank (with_books st1 (zset (lends st1) lid l1) (borrows st1) S1) b3)
                  end
              end
          end
      end
  end.

(* transit assets of a pool: the last entry of each type wins, 0 when absent *)
Definition transit_of (pl : pool) (ty : Z) : Z :=
  fold_left (fun acc v => if pa_transit v =? ty then pa_asset v else acc) (p_assets pl) 0.

Definition MIN_USD : Z := 1000000 * P18.                      (* types.DollarOneValue *)

(* GetBorrowAPRByAssetID can only fail through missing records; the rate itself is not projected *)
Definition stable_rate_lookup (cfg : config) (st : state) (pr : pair) : outcome unit :=
  match zget (c_rates cfg) (pr_out pr) with
  | None => Err 6
  | Some _ => match pget (sstats st) (pr_out_pool pr, pr_out pr) with None => Err 22 | Some _ => Ok tt end
  end.

Definition deposit_borrow_asset (cfg : config) (st : state) (bid user denom amt : Z) (e : biter) : outcome state :=
  match zget (borrows st) bid with
  | None => Err 9
  | Some b0 =>
      if b_liq b0 then Err 23 else
      match zget (lends st) (b_lend b0) with
      | None => Err 1
      | Some l =>
          if is_depr st (l_pool l) then Err 31 else
          if is_killed st (l_app l) then Err 32 else
          if negb (l_owner l =? user) then Err 3 else
          st1 <- iterate_borrow st bid e ;;
          match zget (borrows st1) bid with
          | None => Err 9
          | Some b =>
              match zget (c_rates cfg) (l_asset l) with
              | None => Err 6
              | Some rl =>
              match zget (c_assets cfg) (r_casset rl) with
              | None => Err 5
              | Some c =>
                  if negb (denom =? a_id c) then Err 7 else
                  if amt >? l_avail l then Err 10 else
                  match zget (c_pairs cfg) (b_pair b) with
                  | None => Err 4
                  | Some pr =>
                  match zget (c_pools cfg) (l_pool l), zget (c_pools cfg) (pr_out_pool pr) with
                  | Some pin, Some pout =>
                      let l1 := upd_lend l (l_in l) (l_avail l - amt) (l_rewards l) (l_tracker l) (l_bids l) in
                      if negb (pr_inter pr) then
                        b1 <- send (bnk st1) user (p_mod pin) denom amt ;;
                        if negb (denom =? b_in_denom b) then Panic else          (* Coin.Add on different denoms *)
                        let b' := upd_borrow b (b_in b + amt) (b_out b) (b_brd b) (b_int b) (b_res b) (b_liq b) in
                        Ok (with_bank (with_books st1 (zset (lends st1) (b_lend b0) l1) (zset (borrows st1) bid b') (sstats st1)) b1)
                      else
                        match dmul_c (dec_of_int amt) (r_ltv rl) with
                        | None => Panic
                        | Some scaled =>
                        v <- calc_price cfg st1 (pr_in pr) (dtrunc_int scaled) ;;
                        let t1 := transit_of pin 2 in
                        let t2 := transit_of pin 3 in
                        u1 <- calc_price cfg st1 t1 1 ;;
                        u2 <- calc_price cfg st1 t2 1 ;;
                        match dquo_c v u1, dquo_c v u2 with
                        | Some q1, Some q2 =>
                            if (b_brd_denom b =? t1) && (q1 <? dec_of_int (balance (bnk st1) (p_mod pin) t1)) then
                              b1 <- send (bnk st1) user (p_mod pin) denom amt ;;
                              b2 <- send b1 (p_mod pin) (p_mod pout) t1 (dtrunc_int q1) ;;
                              if negb (denom =? b_in_denom b) then Panic else
                              let b' := upd_borrow b (b_in b + amt) (b_out b) (b_brd b + dtrunc_int q1) (b_int b) (b_res b) (b_liq b) in
                              Ok (with_bank (with_books st1 (zset (lends st1) (b_lend b0) l1) (zset (borrows st1) bid b') (sstats st1)) b2)
                            else if q2 <? dec_of_int (balance (bnk st1) (p_mod pin) t2) then
                              b1 <- send (bnk st1) user (p_mod pin) denom amt ;;
                              b2 <- send b1 (p_mod pin) (p_mod pout) t2 (dtrunc_int q2) ;;
                              if negb (denom =? b_in_denom b) then Panic else
                              let b' := upd_borrow b (b_in b + amt) (b_out b) (b_brd b + dtrunc_int q2) (b_int b) (b_res b) (b_liq b) in
                              Ok (with_bank (with_books st1 (zset (lends st1) (b_lend b0) l1) (zset (borrows st1) bid b') (sstats st1)) b2)
                            else Err 24
                        | _, _ => Panic
                        end
                        end
                  | _, _ => Err 2
                  end
                  end
              end
              end
          end
      end
  end.

Definition draw_asset (cfg : config) (st : state) (bid user denom amt : Z) (e : biter) : outcome state :=
  match zget (borrows st) bid with
  | None => Err 9
  | Some b0 =>
      if b_liq b0 then Err 23 else
      match zget (c_pairs cfg) (b_pair b0) with
      | None => Err 4
      | Some pr =>
      match zget (c_pools cfg) (pr_out_pool pr) with
      | None => Err 2
      | Some pout =>
      match zget (lends st) (b_lend b0) with
      | None => Err 1
      | Some l =>
          if is_depr st (l_pool l) then Err 31 else
          if is_killed st (l_app l) then Err 32 else
          if negb (l_owner l =? user) then Err 3 else
          st1 <- iterate_borrow st bid e ;;
          match zget (borrows st1) bid with
          | None => Err 9
          | Some b =>
              if negb (denom =? pr_out pr) then Err 7 else
              match zget (c_assets cfg) (l_asset l), zget (c_assets cfg) (pr_out pr) with
              | Some _, Some _ =>
                  match zget (c_rates cfg) (pr_in pr) with
                  | None => Err 6
                  | Some rin =>
                      if amt >? balance (bnk st1) (p_mod pout) (pr_out pr) then Err 13 else
                      let ltv := if pr_emode pr then r_eltv rin else r_ltv rin in
                      _ <- verify_cr cfg st1 (b_in b) (l_asset l) (b_out b + dtrunc_int (b_int b) + amt) (pr_out pr) ltv ;;
                      b1 <- send (bnk st1) (p_mod pout) user denom amt ;;
                      let b' := upd_borrow b (b_in b) (b_out b + amt) (b_brd b) (b_int b) (b_res b) (b_liq b) in
                      S1 <- upd_borrow_stats (sstats st1) (pr_out_pool pr, pr_out pr) (b_stable b) amt ;;
                      Ok (with_bank (with_books st1 (lends st1) (zset (borrows st1) bid b') S1) b1)
                  end
              | _, _ => Err 5
              end
          end
      end end end
  end.


(* the three branches of RepayAsset and CloseBorrow send the reserve share to the lend module
   account through UpdateReserveBalances (the reserve / buy-back records are not projected) *)
Definition close_borrow (cfg : config) (st : state) (user bid : Z) (e : biter) : outcome state :=
  match zget (borrows st) bid with
  | None => Err 9
  | Some b0 =>
      if b_liq b0 then Err 23 else
      match zget (c_pairs cfg) (b_pair b0) with
      | None => Err 4
      | Some pr =>
      match zget (c_rates cfg) (pr_out pr) with
      | None => Err 6
      | Some rout =>
      match zget (c_assets cfg) (r_casset rout) with
      | None => Err 5
      | Some c =>
      match zget (c_pools cfg) (pr_out_pool pr) with
      | None => Err 2
      | Some pout =>
      match zget (lends st) (b_lend b0) with
      | None => Err 1
      | Some l =>
          if is_killed st (l_app l) then Err 32 else
          if negb (l_owner l =? user) then Err 3 else
          st1 <- iterate_borrow st bid e ;;
          match zget (borrows st1) bid with
          | None => Err 9
          | Some b =>
              match zget (c_pools cfg) (l_pool l) with
              | None => Err 2
              | Some pin =>
              match zget (c_assets cfg) (pr_out pr) with
              | None => Err 5
              | Some _ =>
                  b1 <- send (bnk st1) user (p_mod pout) (pr_out pr) (b_out b + dtrunc_int (b_int b)) ;;
                  b2 <- send b1 (p_mod pin) (l_owner l) (b_in_denom b) (b_in b) ;;
                  let tr := dtrunc_int (b_res b) in
                  if tr <? 0 then Err 25 else
                  b3 <- (if tr >? 0 then send b2 (p_mod pout) RESERVE (pr_out pr) tr else Ok b2) ;;
                  let tomint := dtrunc_int (b_int b - b_res b) in
                  b4 <- (if tomint >? 0 then mint b3 (p_mod pout) (a_id c) tomint else Ok b3) ;;
                  match pget (sstats st1) (pr_out_pool pr, pr_out pr) with
                  | None => Panic
                  | Some s0 =>
                      let S0 := if tomint >? 0 then pset (sstats st1) (pr_out_pool pr, pr_out pr) (set_s_tia s0 (s_tia s0 + tomint))
                                else sstats st1 in
                      b5 <- (if pr_inter pr then send b4 (p_mod pout) (p_mod pin) (b_brd_denom b) (b_brd b) else Ok b4) ;;
                      S1 <- upd_borrow_stats S0 (pr_out_pool pr, pr_out pr) (b_stable b) (- b_out b) ;;
                      match pget S1 (pr_out_pool pr, pr_out pr) with
                      | None => Panic
                      | Some s1 =>
                          let l1 := upd_lend l (l_in l) (l_avail l + b_in b) (l_rewards l) (l_tracker l) (remove_sorted bid (l_bids l)) in
                          Ok (with_bank (with_books st1 (zset (lends st1) (b_lend b0) l1) (zdel (borrows st1) bid)
                                           (pset S1 (pr_out_pool pr, pr_out pr) (set_s_bids s1 (remove_sorted bid (s_bids s1))))) b5)
                      end
                  end
              end
              end
          end
      end end end end end
  end.

Definition repay_asset (cfg : config) (st : state) (bid user denom pay : Z) (e : biter) : outcome state :=
  match zget (borrows st) bid with
  | None => Err 9
  | Some b0 =>
      if b_liq b0 then Err 23 else
      if pay =? b_out b0 + dtrunc_int (b_int b0) then close_borrow cfg st user bid e else
      match zget (c_pairs cfg) (b_pair b0) with
      | None => Err 4
      | Some pr =>
      match zget (c_rates cfg) (pr_out pr) with
      | None => Err 6
      | Some rout =>
      match zget (c_assets cfg) (r_casset rout) with
      | None => Err 5
      | Some c =>
      match zget (c_pools cfg) (pr_out_pool pr) with
      | None => Err 2
      | Some pout =>
      match zget (lends st) (b_lend b0) with
      | None => Err 1
      | Some l =>
          if is_killed st (l_app l) then Err 32 else
          if negb (l_owner l =? user) then Err 3 else
          st1 <- iterate_borrow st bid e ;;
          match zget (borrows st1) bid with
          | None => Err 9
          | Some b =>
              if negb (pr_out pr =? denom) then Err 7 else
              if pay >=? b_out b + dceil_int (b_int b) then Err 26 else
              let tr := dtrunc_int (b_res b) in
              let k := (pr_out_pool pr, pr_out pr) in
              if pay <=? tr then
                b1 <- send (bnk st1) user (p_mod pout) denom pay ;;
                b2 <- send b1 (p_mod pout) RESERVE denom pay ;;
                let b' := upd_borrow b (b_in b) (b_out b) (b_brd b) (b_int b - dec_of_int pay) (b_res b - dec_of_int pay) (b_liq b) in
                Ok (with_bank (with_books st1 (lends st1) (zset (borrows st1) bid b') (sstats st1)) b2)
              else if (pay >? tr) && (pay <=? dtrunc_int (b_int b)) then
                b1 <- send (bnk st1) user (p_mod pout) denom pay ;;
                b2 <- send b1 (p_mod pout) RESERVE denom tr ;;
                let ctok := pay - tr in
                if ctok <? 0 then Err 25 else
                b3 <- (if ctok >? 0 then mint b2 (p_mod pout) (a_id c) ctok else Ok b2) ;;
                match pget (sstats st1) k with
                | None => Panic
                | Some s0 =>
                    let S0 := if ctok >? 0 then pset (sstats st1) k (set_s_tia s0 (s_tia s0 + ctok)) else sstats st1 in
                    let b' := upd_borrow b (b_in b) (b_out b) (b_brd b) (b_int b - dec_of_int pay) (b_res b - dec_of_int tr) (b_liq b) in
                    Ok (with_bank (with_books st1 (lends st1) (zset (borrows st1) bid b') S0) b3)
                end
              else
                b1 <- send (bnk st1) user (p_mod pout) denom pay ;;
                b2 <- send b1 (p_mod pout) RESERVE denom tr ;;
                let ctok := dtrunc_int (b_int b - b_res b) in
                if ctok <? 0 then Err 25 else
                b3 <- (if ctok >? 0 then mint b2 (p_mod pout) (a_id c) ctok else Ok b2) ;;
                match pget (sstats st1) k with
                | None => Panic
                | Some s0 =>
                    let S0 := if ctok >? 0 then pset (sstats st1) k (set_s_tia s0 (s_tia s0 + ctok)) else sstats st1 in
                    let sub := pay - dtrunc_int (b_int b) in
                    let b' := upd_borrow b (b_in b) (b_out b - sub) (b_brd b) (b_int b - dec_of_int (dtrunc_int (b_int b)))
                                         (b_res b - dec_of_int tr) (b_liq b) in
                    S1 <- upd_borrow_stats S0 k (b_stable b) (- sub) ;;
                    Ok (with_bank (with_books st1 (lends st1) (zset (borrows st1) bid b') S1) b3)
                end
          end
      end end end end end
  end.

(* a new borrow position with its books: UpdateBorrowStats, the BorrowIds append, the lend
   position's AvailableToBorrow, the counters and the user mapping *)
Definition open_borrow (st : state) (bk : bank) (lid : Z) (l : lendpos) (pr : pair) (pid : Z) (stable : bool)
           (din ain aout brd_denom brd : Z) : outcome state :=
  let id := bctr st + 1 in
  let k := (pr_out_pool pr, pr_out pr) in
  let bp := mkBorrow id lid pid din ain aout brd_denom brd 0 0 stable false in
  S1 <- upd_borrow_stats (sstats st) k stable aout ;;
  match pget S1 k with
  | None => Panic
  | Some s =>
      let l1 := upd_lend l (l_in l) (l_avail l - ain) (l_rewards l) (l_tracker l) (l_bids l ++ [id]) in
      Ok (mkSt (zset (lends st) lid l1) (zset (borrows st) id bp) (pset S1 k (set_s_bids s (s_bids s ++ [id])))
               bk (lctr st) id (prices st) (killed st) (depr st) (v1 st))
  end.

Definition borrow_asset (cfg : config) (st : state) (user lid pid : Z) (stable : bool) (din ain dout aout : Z)
           (e1 e2 : biter) : outcome state :=
  match zget (lends st) lid with
  | None => Err 1
  | Some l =>
  if is_depr st (l_pool l) then Err 31 else
  if is_killed st (l_app l) then Err 32 else
  if negb (l_owner l =? user) then Err 3 else
  match zget (c_pairs cfg) pid with
  | None => Err 4
  | Some pr =>
  if negb (existsb (Z.eqb pid) (match pget (c_a2p cfg) (pr_in pr, l_pool l) with Some ps => ps | None => [] end)) then Err 4 else
  match zget (c_assets cfg) (l_asset l) with
  | None => Err 5
  | Some _ =>
  match zget (c_assets cfg) (pr_out pr) with
  | None => Err 5
  | Some assetOut =>
  match zget (c_rates cfg) (pr_in pr) with
  | None => Err 6
  | Some rin =>
  match zget (c_assets cfg) (r_casset rin) with
  | None => Err 5
  | Some c =>
  if negb (din =? a_id c) then Err 7 else
  if negb (pr_in pr =? l_asset l) then Err 28 else      (* fix C08-F1: the pair's asset in is the lend position's asset *)
  lv <- (match calc_price cfg st (pr_out pr) aout with Ok v => Ok (Some v) | Err _ => Ok None | Panic => Panic end) ;;
  if (match lv with Some v => v <? MIN_USD | None => true end) then Err 8 else
  if has_borrow_for_pair st user pid then
    match borrow_id_for_pair st user pid with
    | None => Err 9
    | Some bid =>
        st1 <- deposit_borrow_asset cfg st bid user din ain e1 ;;
        draw_asset cfg st1 bid user dout aout e2
    end
  else
  if r_isolated rin && isolated_blocked st user (pr_in pr) then Err 27 else
  let ltv := if pr_emode pr then r_eltv rin else r_ltv rin in
  if ain >? l_avail l then Err 10 else
  if negb (dout =? a_id assetOut) then Err 11 else
  match zget (c_pools cfg) (l_pool l), zget (c_pools cfg) (pr_out_pool pr) with
  | Some pin, Some pout =>
      if stable && negb (r_stable rin) then Err 12 else
      _ <- verify_cr cfg st ain (l_asset l) aout (pr_out pr) ltv ;;
      if aout >? balance (bnk st) (p_mod pout) dout then Err 13 else
      if negb (pr_inter pr) then
        b1 <- send (bnk st) user (p_mod pin) din ain ;;
        b2 <- send b1 (p_mod pout) user dout aout ;;
        _ <- (if r_stable rin && stable then stable_rate_lookup cfg st pr else Ok tt) ;;
        open_borrow st b2 lid l pr pid stable din ain aout dout 0
      else
        match int64_c ain with
        | None => Panic
        | Some _ =>
        match dmul_c (dec_of_int ain) ltv with
        | None => Panic
        | Some scaled =>
        v <- calc_price cfg st (l_asset l) (dtrunc_int scaled) ;;
        let t1 := transit_of pin 2 in
        let t2 := transit_of pin 3 in
        u1 <- calc_price cfg st t1 1 ;;
        u2 <- calc_price cfg st t2 1 ;;
        match dquo_c v u1, dquo_c v u2 with
        | Some q1, Some q2 =>
            match zget (c_rates cfg) t1, zget (c_rates cfg) t2 with
            | Some r1, Some r2 =>
                if q1 <? dec_of_int (balance (bnk st) (p_mod pin) t1) then
                  _ <- verify_cr cfg st (dtrunc_int q1) t1 aout (pr_out pr) (r_ltv r1) ;;
                  b1 <- send (bnk st) user (p_mod pin) din ain ;;
                  b2 <- send b1 (p_mod pin) (p_mod pout) t1 (dtrunc_int q1) ;;
                  b3 <- send b2 (p_mod pout) user dout aout ;;
                  _ <- (if r_stable rin && stable then stable_rate_lookup cfg st pr else Ok tt) ;;
                  open_borrow st b3 lid l pr pid stable din ain aout t1 (dtrunc_int q1)
                else if q2 <? dec_of_int (balance (bnk st) (p_mod pin) t2) then
                  _ <- verify_cr cfg st (dtrunc_int q2) t2 aout (pr_out pr) (r_ltv r2) ;;
                  b1 <- send (bnk st) user (p_mod pin) din ain ;;
                  b2 <- send b1 (p_mod pin) (p_mod pout) t2 (dtrunc_int q2) ;;
                  b3 <- send b2 (p_mod pout) user dout aout ;;
                  _ <- (if r_stable rin && stable then stable_rate_lookup cfg st pr else Ok tt) ;;
                  open_borrow st b3 lid l pr pid stable din ain aout t2 (dtrunc_int q2)
                else Err 13
            | _, _ => Err 6
            end
        | _, _ => Panic
        end
        end end
  | _, _ => Err 2
  end
  end end end end end
  end.

Definition borrow_alternate (cfg : config) (st : state) (user asset poolid din ain pid : Z) (stable : bool)
           (dout aout app ipb : Z) (e1 e2 : biter) : outcome state :=
  if is_killed st app then Err 32 else
  if is_depr st poolid then Err 31 else
  match zget (c_assets cfg) asset with
  | None => Err 5
  | Some a =>
  match zget (c_pools cfg) poolid with
  | None => Err 2
  | Some pl =>
  match zget (c_apps cfg) app with
  | None => Err 15
  | Some isapp =>
      if negb isapp then Err 16 else
      if negb (din =? a_id a) then Err 7 else
      if negb (existsb (fun v => pa_asset v =? asset) (p_assets pl)) then Err 17 else
      okc <- check_supply_cap cfg st asset poolid ain ;;
      if negb okc then Err 14 else
      match zget (c_rates cfg) asset with
      | None => Err 6
      | Some _ =>
          match cdenom_of cfg asset with
          | None => Panic            (* empty cToken denom: sdk.NewCoin panics *)
          | Some cden =>
              if has_lend_for st user asset poolid then
                match lend_id_for st user asset poolid with
                | None => Err 1
                | Some lid =>
                    st1 <- deposit_asset cfg st user lid din ain ipb ;;
                    borrow_asset cfg st1 user lid pid stable cden ain dout aout e1 e2
                end
              else
                b1 <- send (bnk st) user (p_mod pl) din ain ;;
                b2 <- mint b1 (p_mod pl) cden ain ;;
                b3 <- send b2 (p_mod pl) user cden ain ;;
                let id := lctr st + 1 in
                let l := mkLend id user poolid asset ain ain app 0 0 [] in
                S1 <- upd_lend_stats (sstats st) (poolid, asset) ain ;;
                match pget S1 (poolid, asset) with
                | None => Panic
                | Some s =>
                    let st1 := mkSt (zset (lends st) id l) (borrows st) (pset S1 (poolid, asset) (set_s_lids s (s_lids s ++ [id])))
                                    b3 id (bctr st) (prices st) (killed st) (depr st) (v1 st) in
                    borrow_asset cfg st1 user id pid stable cden ain dout aout e1 e2
                end
          end
      end
  end end end.

(* MsgCalculateBorrowInterest / MsgCalculateLendRewards / MsgCalculateInterestAndRewards *)
Definition calc_borrow_interest (st : state) (user bid : Z) (e : biter) : outcome state :=
  match zget (borrows st) bid with
  | None => Err 9
  | Some b0 =>
      if b_liq b0 then Err 23 else
      match zget (lends st) (b_lend b0) with
      | None => Err 1
      | Some l =>
          if is_killed st (l_app l) then Err 32 else
          if negb (l_owner l =? user) then Err 3 else
          st1 <- iterate_borrow st bid e ;;
          match zget (borrows st1) bid with None => Err 9 | Some _ => Ok st1 end
      end
  end.
Definition calc_lend_rewards (cfg : config) (st : state) (user lid ipb : Z) : outcome state :=
  match zget (lends st) lid with
  | None => Err 1
  | Some l0 =>
      if is_killed st (l_app l0) then Err 32 else
      st1 <- iterate_lends cfg st lid ipb ;;
      match zget (lends st1) lid with
      | None => Panic
      | Some l => if negb (l_owner l =? user) then Err 3 else Ok st1
      end
  end.

Definition bi0 : biter := mkBI 0 0 0.
(* errors of a borrow are skipped ("continue"), a panic is not *)
Fixpoint calc_borrows (st : state) (user : Z) (ids : list Z) (es : list biter) : outcome state :=
  match ids with
  | [] => Ok st
  | j :: r =>
      let e := match es with x :: _ => x | [] => bi0 end in
      let es' := match es with _ :: t => t | [] => [] end in
      match calc_borrow_interest st user j e with
      | Ok st1 => calc_borrows st1 user r es'
      | Err _ => calc_borrows st user r es'
      | Panic => Panic
      end
  end.
Fixpoint calc_lends (cfg : config) (st : state) (user : Z) (ids : list Z) (ipbs : list Z) : outcome state :=
  match ids with
  | [] => Ok st
  | i :: r =>
      let x := match ipbs with x :: _ => x | [] => 0 end in
      let xs := match ipbs with _ :: t => t | [] => [] end in
      st1 <- calc_lend_rewards cfg st user i x ;;
      calc_lends cfg st1 user r xs
  end.
Definition calc_all (cfg : config) (st : state) (user : Z) (es : list biter) (ipbs : list Z) : outcome state :=
  let ls := user_lends st user in
  match ls with
  | [] => Err 1
  | _ =>
      st1 <- calc_borrows st user (flat_map l_bids ls) es ;;
      calc_lends cfg st1 user (map l_id ls) ipbs
  end.

(* ---------- liquidationsV2: LiquidateIndividualBorrow -> UpdateLockedBorrows ---------- *)
(* Reached through MsgLiquidateInternalKeeper{LiqType: 1}.  The DECISION (is the collateralisation
   ratio above the liquidation threshold) is property C09's subject and enters, like the interest
   IterateBorrowForLiq computes, as an ENV value: d = 0 not liquidatable (nothing is written),
   1 handed over, 2 an error / 3 a panic before any write.  What the hand-over DOES to the lend books is
   modelled as coded: the position is flagged and its interest stored, the collateral leaves the
   pool for the auction module and its cTokens are burnt, the principal leaves the borrow totals,
   the collateral leaves TotalLend and the lend record's AmountIn; the lend record is DELETED when
   AmountIn is exhausted - whatever its AvailableToBorrow and its other positions (finding C08-F2).
   CreateLockedVault / AuctionActivator write liquidation / auction state only (not projected);
   liquidation is enabled for the app (whitelisting present). *)
Definition AUCTION : Z := 200.                                (* module account "auctionsV2" *)
Definition hand_over (cfg : config) (st : state) (bid d dint : Z) : outcome state :=
  match zget (borrows st) bid with
  | None => Err 9
  | Some b0 =>
      if b_liq b0 then Ok st else
      match zget (c_pairs cfg) (b_pair b0) with
      | None => Err 4                                         (* pairs are never deleted *)
      | Some pr =>
      match zget (lends st) (b_lend b0) with
      | None => Err 1
      | Some l =>
          if is_killed st (l_app l) then Err 43 else         (* "kill Switch is enabled in Liquidation" *)
          if d =? 2 then Err 42 else if d =? 3 then Panic else
          if negb (d =? 1) then Ok st else
          match zget (c_pools cfg) (l_pool l), cdenom_of cfg (pr_in pr) with
          | Some pin, Some cden =>
              let b := upd_borrow b0 (b_in b0) (b_out b0) (b_brd b0) (b_int b0 + dint) (b_res b0) true in
              b1 <- send (bnk st) (p_mod pin) AUCTION (pr_in pr) (b_in b0) ;;
              b2 <- burn b1 (p_mod pin) cden (b_in b0) ;;
              S1 <- upd_borrow_stats (sstats st) (pr_out_pool pr, pr_out pr) (b_stable b0) (- b_out b0) ;;
              S2 <- upd_lend_stats S1 (l_pool l, l_asset l) (- b_in b0) ;;
              let lin := l_in l - b_in b0 in
              if lin >? 0 then
                let l1 := upd_lend l lin (l_avail l) (l_rewards l) (l_tracker l) (l_bids l) in
                Ok (with_bank (with_books st (zset (lends st) (b_lend b0) l1) (zset (borrows st) bid b) S2) b2)
              else
                match pget S2 (l_pool l, l_asset l) with
                | None => Panic
                | Some s =>
                    Ok (with_bank (with_books st (zdel (lends st) (b_lend b0)) (zset (borrows st) bid b)
                                     (pset S2 (l_pool l, l_asset l) (set_s_lids s (remove_sorted (b_lend b0) (s_lids s))))) b2)
                end
          | _, _ => Panic
          end
      end end
  end.

(* ---------- MsgRepayWithdraw: CloseBorrow, then WithdrawAsset of the released collateral ---------- *)
(* RepayWithdraw reads the borrow record BEFORE the close (its AmountIn is the amount withdrawn) and the
   lend record AFTER it (its AmountIn.Denom is the denom withdrawn); [ipb] is the Dec CalculateLendReward
   returns inside that WithdrawAsset *)
Definition repay_withdraw (cfg : config) (st : state) (user bid : Z) (e : biter) (ipb : Z) : outcome state :=
  st1 <- close_borrow cfg st user bid e ;;
  match zget (borrows st) bid with
  | None => Panic                                             (* CloseBorrow fails on a missing record *)
  | Some b0 =>
      match zget (lends st1) (b_lend b0) with
      | None => Panic                                         (* zero-value lend: empty denom, sdk.NewCoin panics *)
      | Some l => withdraw_asset cfg st1 user (b_lend b0) (l_asset l) (b_in b0) ipb
      end
  end.

(* ---------- MsgFundModuleAccounts (FundModAcc) / MsgFundReserveAccounts (FundReserveAcc) ---------- *)
(* anybody may fund a pool: the coins go to the pool's module account FIRST (whatever their denom; a later
   check fails the message and baseapp drops the transfer), cTokens of the asset are minted to the pool;
   the FundModBal records are not projected.  No stats, no position changes. *)
Definition fund_mod (cfg : config) (st : state) (user poolid asset denom amt : Z) : outcome state :=
  match zget (c_pools cfg) poolid with
  | None => Err 2
  | Some pl =>
      b1 <- send (bnk st) user (p_mod pl) denom amt ;;
      match zget (c_assets cfg) asset with
      | None => Err 1
      | Some a =>
          if negb (a_id a =? denom) then Err 7 else
          match zget (c_rates cfg) asset with
          | None => Err 6
          | Some r =>
              match zget (c_assets cfg) (r_casset r) with
              | None => Err 5
              | Some c => b2 <- mint b1 (p_mod pl) (a_id c) amt ;; Ok (with_bank st b2)
              end
          end
      end
  end.
(* the reserve / buy-back / FundReserveBal records are not projected; RemoveFaultyAuctions walks the
   generation-1 lend auctions of app 3, of which none exist (generation 1 is not modelled) *)
Definition fund_reserve (cfg : config) (st : state) (user asset denom amt : Z) : outcome state :=
  match zget (c_assets cfg) asset with
  | None => Err 1
  | Some a =>
      if negb (a_id a =? denom) then Err 7 else
      b1 <- send (bnk st) user RESERVE denom amt ;; Ok (with_bank st b1)
  end.

(* ---------- auctionsV2 PlaceDutchAuctionBid -> liquidationsV2 MsgCloseDutchAuctionForBorrow ---------- *)
(* A generation-2 auction exists exactly for the positions that are flagged (created by the hand-over,
   deleted together with the borrow record by the close).  A market bid that does not close the auction
   moves coins between the bidder and the auction module account only (property C10's subject; both
   accounts are outside the projection): nothing of the lend state changes. *)
Definition auc_bid (st : state) (bid d : Z) : outcome state :=      (* d (ENV): 1 accepted, 2 panic, else rejected *)
  match zget (borrows st) bid with
  | None => Err 51
  | Some b => if negb (b_liq b) || existsb (Z.eqb bid) (v1 st) then Err 51
              else if d =? 1 then Ok st else if d =? 2 then Panic else Err 50
  end.

(* coins that arrive from an account whose ledger is not modelled (the debt coins the bidders paid into
   the auction module account) *)
Definition credit (b : bank) (to denom amt : Z) : outcome bank :=
  if amt <? 0 then Panic
  else if amt =? 0 then Ok b
  else Ok (mkBank (pset (bal b) (to, denom) (balance b to denom + amt)) (sup b)).

(* the liquidation penalty MsgCloseDutchAuctionForBorrow forwards to the reserve: recomputed at the close
   from the asset-in rates, with the E-MODE penalty for an e-mode pair *)
Definition close_penalty (cfg : config) (pr : pair) (b : borrowpos) : outcome Z :=
  match zget (c_rates cfg) (pr_in pr) with
  | None => Panic                                             (* zero-value params: nil Dec *)
  | Some rin =>
      match dmul_c (dec_of_int (b_out b)) (if pr_emode pr then r_epen rin else r_pen rin) with
      | None => Panic
      | Some x => Ok (dtrunc_int x)
      end
  end.
(* the target debt the hand-over (UpdateLockedBorrows -> CreateLockedVault) gave the auction: principal +
   principal x the ORDINARY liquidation penalty of the asset in; accrued interest is not part of it *)
Definition target_of (cfg : config) (b : borrowpos) : option Z :=
  match zget (c_pairs cfg) (b_pair b) with
  | None => None
  | Some pr =>
      match zget (c_rates cfg) (pr_in pr) with
      | None => None
      | Some rin =>
          match dmul_c (dec_of_int (b_out b)) (r_pen rin) with
          | None => None
          | Some x => Some (b_out b + dtrunc_int x)
          end
      end
  end.

(* the closing bid: [back] of the seized collateral goes from the auction module account to [owner]
   (PlaceDutchAuctionBid, before the close), then MsgCloseDutchAuctionForBorrow as coded: the target debt
   goes to the asset-out pool, penalty and reserve share of the interest from the pool to the reserve,
   cTokens are minted for the rest of the interest (TotalInterestAccumulated), bridged transit coins go
   back to the pool of the lend position (GetLend without a found check: a deleted lend record gives pool
   id 0, module account "" and the bank keeper panics - finding C10-F7), the borrow record, its tracker
   and its ids in the pool-asset stats and in the user mapping are deleted.  The lend position gets
   nothing back (its AmountIn was reduced at the hand-over). *)
Definition auc_close (cfg : config) (st : state) (bid target owner back : Z) : outcome state :=
  match zget (borrows st) bid with
  | None => Err 51
  | Some b =>
      if negb (b_liq b) || existsb (Z.eqb bid) (v1 st) then Err 51 else
      match zget (c_pairs cfg) (b_pair b) with
      | None => Panic
      | Some pr =>
      match zget (c_pools cfg) (pr_out_pool pr) with
      | None => Panic                                         (* module account "" *)
      | Some pout =>
          let k := (pr_out_pool pr, pr_out pr) in
          b0 <- send (bnk st) AUCTION owner (pr_in pr) back ;;
          b1 <- credit b0 (p_mod pout) (pr_out pr) target ;;
          pen <- close_penalty cfg pr b ;;
          b2 <- send b1 (p_mod pout) RESERVE (pr_out pr) pen ;;
          let tr := dtrunc_int (b_res b) in
          b3 <- (if tr >? 0 then send b2 (p_mod pout) RESERVE (pr_out pr) tr else Ok b2) ;;
          let tomint := dtrunc_int (b_int b - b_res b) in
          b4 <- (if tomint >? 0 then
                   match cdenom_of cfg (pr_out pr) with
                   | None => Panic
                   | Some cden => mint b3 (p_mod pout) cden tomint
                   end
                 else Ok b3) ;;
          S0 <- (if tomint >? 0 then
                   match pget (sstats st) k with
                   | None => Panic
                   | Some s0 => Ok (pset (sstats st) k (set_s_tia s0 (s_tia s0 + tomint)))
                   end
                 else Ok (sstats st)) ;;
          b5 <- (if b_brd b >? 0 then
                   match zget (lends st) (b_lend b) with
                   | None => Panic                            (* C10-F7 *)
                   | Some l =>
                       match zget (c_pools cfg) (l_pool l) with
                       | None => Panic
                       | Some pin => send b4 (p_mod pout) (p_mod pin) (b_brd_denom b) (b_brd b)
                       end
                   end
                 else Ok b4) ;;
          let S1 := match pget S0 k with
                    | Some s1 => pset S0 k (set_s_bids s1 (remove_sorted bid (s_bids s1)))
                    | None => S0
                    end in
          let L1 := match zget (lends st) (b_lend b) with
                    | Some l => zset (lends st) (b_lend b)
                                     (upd_lend l (l_in l) (l_avail l) (l_rewards l) (l_tracker l) (remove_sorted bid (l_bids l)))
                    | None => lends st
                    end in
          Ok (with_bank (with_books st L1 (zdel (borrows st) bid) S1) b5)
      end end
  end.

(* ---------- generation 1: x/liquidation MsgLiquidateBorrow (still routed) ---------- *)
(* CreateLockedBorrow + UpdateLockedBorrows of x/liquidation/keeper.  ENV (measured on the real run): the result
   d of everything that is not lend bookkeeping - interest for liquidation, the liquidation decision, the sell-off
   arithmetic, the generation-1 auction activator (0 not liquidatable: NOTHING is written, not even the interest;
   1 handed over; 2 error; 3 panic) - the interest added, and the three amounts of the sell-off: coins sent to
   the generation-1 auction module account (sell-off + bonus), penalty sent to the reserve, total deduction.
   As coded: the position is flagged and keeps the part of its collateral that was not deducted; the deduction
   leaves the lend record's AmountIn and TotalLend (capped by the collateral) and its cTokens are burnt (the
   UNCAPPED deduction); the lend record is never deleted; TotalBorrowed is NOT touched although the position is
   now under liquidation (the block-hook variant LiquidateBorrows subtracts the principal, and CreteNewBorrow
   adds it back when an unsold position returns) - finding C08-F4. *)
Definition AUCTION1 : Z := 201.                               (* module account "auctionV1" *)
Definition hand_over_v1 (cfg : config) (st : state) (bid d dint toauc pen ded : Z) : outcome state :=
  match zget (borrows st) bid with
  | None => Err 9
  | Some b0 =>
      if b_liq b0 then Err 23 else
      match zget (lends st) (b_lend b0) with
      | None => Err 1
      | Some l =>
          if d =? 3 then Panic else
          if is_killed st (l_app l) then Err 32 else
          if d =? 2 then Err 44 else
          if negb (d =? 1) then Ok st else
          match zget (c_pairs cfg) (b_pair b0) with
          | None => Panic
          | Some pr =>
          match zget (c_pools cfg) (l_pool l), cdenom_of cfg (pr_in pr) with
          | Some pin, Some cden =>
              b1 <- send (bnk st) (p_mod pin) AUCTION1 (pr_in pr) toauc ;;
              b2 <- send b1 (p_mod pin) RESERVE (pr_in pr) pen ;;
              let take := if ded >=? b_in b0 then b_in b0 else ded in
              S1 <- upd_lend_stats (sstats st) (l_pool l, l_asset l) (- take) ;;
              b3 <- burn b2 (p_mod pin) cden ded ;;
              let b := upd_borrow b0 (b_in b0 - take) (b_out b0) (b_brd b0) (b_int b0 + dint) (b_res b0) true in
              let l1 := upd_lend l (l_in l - take) (l_avail l) (l_rewards l) (l_tracker l) (l_bids l) in
              Ok (mkSt (zset (lends st) (b_lend b0) l1) (zset (borrows st) bid b) S1 b3 (lctr st) (bctr st) (prices st)
                       (killed st) (depr st) (bid :: v1 st))
          | _, _ => Panic
          end end
      end
  end.

(* ---------- messages (ValidateBasic, then the handler) ---------- *)
Inductive op :=
| OLend (user asset denom amt poolid app ipb : Z)
| OWithdraw (user lid denom amt ipb : Z)
| ODeposit (user lid denom amt ipb : Z)
| OCloseLend (user lid ipb : Z)
| OBorrow (user lid pid : Z) (stable : bool) (din ain dout aout : Z) (e1 e2 : biter)
| ORepay (user bid denom amt : Z) (e : biter)
| ODepositBorrow (user bid denom amt : Z) (e : biter)
| ODraw (user bid denom amt : Z) (e : biter)
| OCloseBorrow (user bid : Z) (e : biter)
| OBorrowAlt (user asset poolid din ain pid : Z) (stable : bool) (dout aout app ipb : Z) (e1 e2 : biter)
| OCalc (user : Z) (es : list biter) (ipbs : list Z)
| OSetPrice (asset : Z) (p : option Z)             (* oracle: the active Twa, or none *)
| OHandOver (bid d dint : Z)                       (* MsgLiquidateInternalKeeper{LiqType 1, Id bid} *)
| OAucBid (bid d : Z)                              (* MsgPlaceMarketBid on the auction of position bid that does not close it *)
| OAucClose (bid target owner back : Z)            (* the closing MsgPlaceMarketBid: MsgCloseDutchAuctionForBorrow *)
| ORepayWithdraw (user bid : Z) (e : biter) (ipb : Z)
| OFundMod (user poolid asset denom amt : Z)       (* MsgFundModuleAccounts *)
| OFundReserve (user asset denom amt : Z)          (* MsgFundReserveAccounts *)
| OKill (admin : bool) (app : Z) (on : bool)       (* esm MsgKillSwitch{AppId, BreakerEnable} *)
| ODepreciate (poolid : Z)                         (* governance: AddPoolDepreciateProposal for one pool *)
| OHandOverV1 (bid d dint toauc pen ded : Z).      (* x/liquidation MsgLiquidateBorrow{BorrowId bid} (generation 1) *)

Definition step (cfg : config) (st : state) (o : op) : outcome state :=
  match o with
  | OLend u a d amt p app ipb =>
      if (a =? 0) || (amt <=? 0) || (p =? 0) || (app =? 0) then Err 100 else lend_asset cfg st u a d amt p app ipb
  | OWithdraw u lid d amt ipb =>
      if (lid =? 0) || (amt <=? 0) then Err 100 else withdraw_asset cfg st u lid d amt ipb
  | ODeposit u lid d amt ipb =>
      if (lid =? 0) || (amt <=? 0) then Err 100 else deposit_asset cfg st u lid d amt ipb
  | OCloseLend u lid ipb => if lid =? 0 then Err 100 else close_lend cfg st u lid ipb
  | OBorrow u lid pid stable din ain dout aout e1 e2 =>
      if (lid =? 0) || (pid =? 0) || (ain <=? 0) || (aout <=? 0) then Err 100
      else borrow_asset cfg st u lid pid stable din ain dout aout e1 e2
  | ORepay u bid d amt e => if (bid =? 0) || (amt <=? 0) then Err 100 else repay_asset cfg st bid u d amt e
  | ODepositBorrow u bid d amt e => if (bid =? 0) || (amt <=? 0) then Err 100 else deposit_borrow_asset cfg st bid u d amt e
  | ODraw u bid d amt e => if (bid =? 0) || (amt <=? 0) then Err 100 else draw_asset cfg st bid u d amt e
  | OCloseBorrow u bid e => if bid =? 0 then Err 100 else close_borrow cfg st u bid e
  | OBorrowAlt u a p din ain pid stable dout aout app ipb e1 e2 =>
      if (a =? 0) || (p =? 0) || (pid =? 0) || (app =? 0) || (ain <=? 0) || (aout <=? 0) then Err 100
      else borrow_alternate cfg st u a p din ain pid stable dout aout app ipb e1 e2
  | OCalc u es ipbs => calc_all cfg st u es ipbs
  | OSetPrice a p =>
      Ok (mkSt (lends st) (borrows st) (sstats st) (bnk st) (lctr st) (bctr st)
               (match p with Some v => zset (prices st) a v | None => zdel (prices st) a end) (killed st) (depr st) (v1 st))
  | OHandOver bid d dint => if bid =? 0 then Err 100 else hand_over cfg st bid d dint
  | OAucBid bid d => auc_bid st bid d
  | OAucClose bid target owner back => auc_close cfg st bid target owner back
  | ORepayWithdraw u bid e ipb => if bid =? 0 then Err 100 else repay_withdraw cfg st u bid e ipb
  | OFundMod u p a d amt => if (p =? 0) || (a =? 0) || (amt <=? 0) then Err 100 else fund_mod cfg st u p a d amt
  | OFundReserve u a d amt => if (a =? 0) || (amt <=? 0) then Err 100 else fund_reserve cfg st u a d amt
  | OKill admin app on =>
      (* esm msg server: the sender is one of the admins; SetKillSwitchData: the app exists *)
      if negb admin then Err 60 else
      match zget (c_apps cfg) app with
      | None => Err 61
      | Some _ =>
          let ks := filter (fun x => negb (x =? app)) (killed st) in
          Ok (mkSt (lends st) (borrows st) (sstats st) (bnk st) (lctr st) (bctr st) (prices st) (if on then app :: ks else ks) (depr st) (v1 st))
      end
  | ODepreciate p =>
      (* AddPoolDepreciate: the pool exists; the record is appended (IsPoolDepreciated looks at the pool id only) *)
      match zget (c_pools cfg) p with
      | None => Err 2
      | Some _ => Ok (mkSt (lends st) (borrows st) (sstats st) (bnk st) (lctr st) (bctr st) (prices st) (killed st) (depr st ++ [p]) (v1 st))
      end
  | OHandOverV1 bid d dint toauc pen ded => if bid =? 0 then Err 100 else hand_over_v1 cfg st bid d dint toauc pen ded
  end.

(* baseapp: the writes of a message are kept only when it returns no error and does not panic *)
Definition apply_op (cfg : config) (st : state) (o : op) : state :=
  match step cfg st o with Ok st' => st' | _ => st end.
Definition run (cfg : config) (st : state) (ops : list op) : state := fold_left (apply_op cfg) ops st.

(* ------------------------------------------------------------------------------------------ *)
(* Property C08: the book sums, as functions of the books only.                                *)
Fixpoint sumz (f : Z -> Z) (n : nat) : Z :=
  match n with O => 0 | S m => sumz f m + f (Z.of_nat n) end.               (* f 1 + ... + f n *)
Definition zseq (n : nat) : list Z := map Z.of_nat (seq 1 n).

Section Books.
  Variable cfg : config.
  Variables (L : list (Z * lendpos)) (B : list (Z * borrowpos)).
  Variables (nl nb : nat).

  (* collateral of lend i pledged to open borrows that has not been handed to an auction *)
  Definition bterm (i j : Z) : Z :=
    match zget B j with
    | Some b => if (b_lend b =? i) && negb (b_liq b) then b_in b else 0
    | None => 0
    end.
  Definition pledged (i : Z) : Z := sumz (bterm i) nb.
  Definition lkey (l : lendpos) : Z * Z := (l_pool l, l_asset l).
  Definition lterm (k : Z * Z) (i : Z) : Z :=
    match zget L i with
    | Some l => if peqb (lkey l) k then l_avail l + pledged i else 0
    | None => 0
    end.
  Definition lend_sum (k : Z * Z) : Z := sumz (lterm k) nl.

  Definition bkey (b : borrowpos) : option (Z * Z) :=
    match zget (c_pairs cfg) (b_pair b) with Some pr => Some (pr_out_pool pr, pr_out pr) | None => None end.
  Definition b_in_key (k : Z * Z) (j : Z) : bool :=
    match zget B j with
    | Some b => match bkey b with Some k' => peqb k' k | None => false end
    | None => false
    end.
  Definition oterm (stable : bool) (k : Z * Z) (j : Z) : Z :=
    match zget B j with
    | Some b => if b_in_key k j && negb (b_liq b) && Bool.eqb (b_stable b) stable then b_out b else 0
    | None => 0
    end.
  Definition bor_sum (stable : bool) (k : Z * Z) : Z := sumz (oterm stable k) nb.
  Definition l_in_key (k : Z * Z) (i : Z) : bool :=
    match zget L i with Some l => peqb (lkey l) k | None => false end.
End Books.

Fixpoint zlist_eqb (a b : list Z) : bool :=
  match a, b with
  | [], [] => true
  | x :: r, y :: s => (x =? y) && zlist_eqb r s
  | _, _ => false
  end.

Definition nlends (st : state) : nat := Z.to_nat (lctr st).
Definition nborrows (st : state) : nat := Z.to_nat (bctr st).

Definition check_lend (st : state) (k : Z * Z) (s : stats) : bool :=
  s_lend s =? lend_sum (lends st) (borrows st) (nlends st) (nborrows st) k.
Definition check_borrow (cfg : config) (st : state) (k : Z * Z) (s : stats) : bool :=
  (s_bor s =? bor_sum cfg (borrows st) (nborrows st) false k) &&
  (s_sbor s =? bor_sum cfg (borrows st) (nborrows st) true k) &&
  zlist_eqb (s_lids s) (filter (l_in_key (lends st) k) (zseq (nlends st))) &&
  zlist_eqb (s_bids s) (filter (b_in_key cfg (borrows st) k) (zseq (nborrows st))).

(* the executable property predicates: the runner evaluates them on the IMPLEMENTATION's books *)
Definition holds_C08_lend (st : state) : bool :=
  forallb (fun ks => match pget (sstats st) (fst ks) with Some s => check_lend st (fst ks) s | None => true end) (sstats st).
Definition holds_C08_borrow (cfg : config) (st : state) : bool :=
  forallb (fun ks => match pget (sstats st) (fst ks) with Some s => check_borrow cfg st (fst ks) s | None => true end) (sstats st).

(* loan-to-value on position j at the prices in force: the collateral is the pledged cToken
   amount valued as its underlying asset (the pair's asset in); [+ 1] is the one-ulp slack of
   the Quo that forms the ratio *)
Definition debt_of (b : borrowpos) : Z := b_out b + dtrunc_int (b_int b).
Definition ltv_of (cfg : config) (pr : pair) : option Z :=
  match zget (c_rates cfg) (pr_in pr) with
  | Some rin => Some (if pr_emode pr then r_eltv rin else r_ltv rin)
  | None => None
  end.
Definition holds_C08_ltv (cfg : config) (st : state) (j : Z) : bool :=
  match zget (borrows st) j with
  | None => false
  | Some b =>
      match zget (c_pairs cfg) (b_pair b) with
      | None => false
      | Some pr =>
          match ltv_of cfg pr, calc_price cfg st (pr_in pr) (b_in b), calc_price cfg st (pr_out pr) (debt_of b) with
          | Some ltv, Ok vin, Ok vout => vout * P18 <=? (ltv + 1) * vin
          | _, _, _ => false
          end
      end
  end.
(* a NEW cross-pool position: besides the rule above, BorrowAsset checks the loan against the
   bridged transit coins with the transit asset's Ltv (the bridged quantity itself is the value of
   Ltv * collateral) *)
Definition holds_C08_ltv_brd (cfg : config) (st : state) (j : Z) : bool :=
  match zget (borrows st) j with
  | None => false
  | Some b =>
      match zget (c_pairs cfg) (b_pair b) with
      | None => false
      | Some pr =>
          match zget (c_rates cfg) (b_brd_denom b), calc_price cfg st (b_brd_denom b) (b_brd b), calc_price cfg st (pr_out pr) (debt_of b) with
          | Some rt, Ok vin, Ok vout => vout * P18 <=? (r_ltv rt + 1) * vin
          | _, _, _ => false
          end
      end
  end.
(* what BorrowAsset guarantees for the position it opens *)
Definition holds_C08_ltv_new (cfg : config) (st : state) (j : Z) : bool :=
  match zget (borrows st) j with
  | None => false
  | Some b =>
      match zget (c_pairs cfg) (b_pair b) with
      | None => false
      | Some pr => holds_C08_ltv cfg st j && (if pr_inter pr then holds_C08_ltv_brd cfg st j else true)
      end
  end.
(* finding C08-F1 (repaired): a position that hangs on a lend position of ANOTHER asset than the
   pair's asset in.  BorrowAsset did not compare lendPos.AssetID with pair.AssetIn; with the guard no
   such position exists (Proofs: Side invariant).  Kept as the regression predicate of the witness. *)
Definition mismatched_lend (cfg : config) (st : state) (j : Z) : bool :=
  match zget (borrows st) j with
  | None => false
  | Some b =>
      if b_liq b then false else
      match zget (c_pairs cfg) (b_pair b), zget (lends st) (b_lend b) with
      | Some pr, Some l => negb (l_asset l =? pr_in pr)
      | _, _ => false
      end
  end.

(* the pool held the loan before the transfer *)
Definition holds_C08_pool (cfg : config) (pre : state) (pid aout : Z) : bool :=
  match zget (c_pairs cfg) pid with
  | None => false
  | Some pr =>
      match zget (c_pools cfg) (pr_out_pool pr) with
      | None => false
      | Some pout => aout <=? balance (bnk pre) (p_mod pout) (pr_out pr)
      end
  end.

(* Withdraw / CloseLend: pledged collateral untouched; paid out of AvailableToBorrow only *)
Definition holds_C08_pledged (pre post : state) (lid amt : Z) : bool :=
  forallb (fun i => pledged (borrows post) (nborrows post) i =? pledged (borrows pre) (nborrows pre) i) (zseq (nlends pre)) &&
  match zget (lends pre) lid, zget (lends post) lid with
  | Some l0, Some l1 =>
      (0 <=? l_avail l1) && (l_avail l1 =? l_avail l0 + (l_rewards l1 - l_rewards l0) - amt)
  | Some l0, None => pledged (borrows pre) (nborrows pre) lid =? 0
  | None, _ => false
  end.

(* ------------------------------------------------------------------------------------------ *)
(* The per-message rules of C08 as statements about (state before, message, state after).     *)

(* BorrowAsset: an existing position of this user and pair is topped up and drawn on (DepositDraw),
   otherwise a new position is opened under the next id *)
Definition borrow_rule (cfg : config) (st st' : state) (u pid : Z) : Prop :=
  if has_borrow_for_pair st u pid
  then exists j, borrow_id_for_pair st u pid = Some j /\ holds_C08_ltv cfg st' j = true
  else bctr st' = bctr st + 1 /\ holds_C08_ltv_new cfg st' (bctr st') = true.
Definition ltv_rule (cfg : config) (st : state) (o : op) (st' : state) : Prop :=
  match o with
  | ODraw _ j _ _ _ => holds_C08_ltv cfg st' j = true
  | OBorrow u _ pid _ _ _ _ _ _ _ => borrow_rule cfg st st' u pid
  | OBorrowAlt u _ _ _ _ pid _ _ _ _ _ _ _ =>
      (* [st1]: the state after the lend / deposit half of the message *)
      exists st1, prices st1 = prices st /\ borrow_rule cfg st1 st' u pid
  | _ => True
  end.

Definition borrow_pool_rule (cfg : config) (st : state) (u pid din ain aout : Z) (e1 : biter) : Prop :=
  if has_borrow_for_pair st u pid
  then exists bid st1 b0, borrow_id_for_pair st u pid = Some bid /\ deposit_borrow_asset cfg st bid u din ain e1 = Ok st1 /\
                          zget (borrows st1) bid = Some b0 /\ holds_C08_pool cfg st1 (b_pair b0) aout = true
  else holds_C08_pool cfg st pid aout = true.
Definition pool_rule (cfg : config) (st : state) (o : op) : Prop :=
  match o with
  | ODraw _ j _ amt _ => exists b0, zget (borrows st) j = Some b0 /\ holds_C08_pool cfg st (b_pair b0) amt = true
  | OBorrow u _ pid _ din ain _ aout e1 _ => borrow_pool_rule cfg st u pid din ain aout e1
  | OBorrowAlt u _ _ _ ain pid _ _ aout _ _ e1 _ => exists st1 din, borrow_pool_rule cfg st1 u pid din ain aout e1
  | _ => True
  end.

Definition pledged_rule (cfg : config) (st : state) (o : op) (st' : state) : Prop :=
  match o with
  | OWithdraw _ lid _ amt _ => holds_C08_pledged st st' lid amt = true
  | ORepayWithdraw u bid e _ =>
      (* RepayWithdraw withdraws exactly the collateral its CloseBorrow half released: [st1] is the state
         after that half, in which the position is closed and its collateral is available again *)
      exists st1 b0, zget (borrows st) bid = Some b0 /\ close_borrow cfg st u bid e = Ok st1 /\
                     zget (borrows st1) bid = None /\ (holds_C08_pledged st1 st' (b_lend b0) (b_in b0) = true)
  | OCloseLend _ lid _ =>
      zget (lends st') lid = None /\
      match zget (lends st) lid with Some l0 => holds_C08_pledged st st' lid (l_avail l0) = true | None => False end
  | _ => True
  end.

(* executable forms of the hypotheses (for the examples) *)
Definition empty_booksb (st : state) : bool :=
  is_nil (map fst (lends st)) && is_nil (map fst (borrows st)) && (lctr st =? 0) && (bctr st =? 0) &&
  forallb (fun ks => let s := snd ks in
                     (s_lend s =? 0) && (s_bor s =? 0) && (s_sbor s =? 0) && is_nil (s_lids s) && is_nil (s_bids s)) (sstats st).
Definition cfg_wfb (cfg : config) : bool :=
  forallb (fun ia => (0 <? a_dec (snd ia)) && (a_id (snd ia) =? fst ia)) (c_assets cfg) &&
  forallb (fun ir => (0 <=? r_ltv (snd ir)) && (0 <=? r_eltv (snd ir))) (c_rates cfg).
Definition prices_okb (P : list (Z * Z)) : bool := forallb (fun ap => 0 <=? snd ap) P.
Definition op_saneb (o : op) : bool := match o with OSetPrice _ (Some p) => 0 <=? p | _ => true end.

(* AvailableToBorrow is an amount: never negative (ids 1 .. counter) *)
Definition holds_C08_avail (st : state) : bool :=
  forallb (fun i => match zget (lends st) i with Some l => 0 <=? l_avail l | None => true end) (zseq (nlends st)).

(* known-finding class 2 (C08-F2): a hand-over that exhausts the lend record's AmountIn deletes the
   record although it still has AvailableToBorrow (accrued rewards raise AvailableToBorrow, not
   AmountIn; withdrawals lower AmountIn first) or other open positions: their amounts stay in the
   published TotalLend but belong to no lend position any more *)
Definition other_open_on (st : state) (lid bid : Z) : bool :=
  existsb (fun j => negb (j =? bid) &&
                    match zget (borrows st) j with Some b => (b_lend b =? lid) && negb (b_liq b) | None => false end)
          (zseq (nborrows st)).
Definition kf_C08_2 (st : state) (o : op) : bool :=
  match o with
  | OHandOver bid d _ =>
      match zget (borrows st) bid with
      | Some b0 =>
          if b_liq b0 then false else
          match zget (lends st) (b_lend b0) with
          | Some l => (d =? 1) && (l_in l - b_in b0 <=? 0) && (negb (l_avail l =? 0) || other_open_on st (b_lend b0) bid)
          | None => false
          end
      | None => false
      end
  | _ => false
  end.
(* known-finding class 4 (C08-F4): a generation-1 hand-over (x/liquidation MsgLiquidateBorrow) that goes through:
   the position is flagged but its principal stays in the published totals borrowed *)
Definition kf_C08_4 (st : state) (o : op) : bool :=
  match o with
  | OHandOverV1 j d _ _ _ _ => (d =? 1) && match zget (borrows st) j with Some b => negb (b_liq b) | None => false end
  | _ => false
  end.
Definition kf_books (st : state) (o : op) : bool := kf_C08_2 st o || kf_C08_4 st o.
(* a history none of whose messages falls into a class that breaks the book identities *)
Fixpoint clean (cfg : config) (st : state) (ops : list op) : Prop :=
  match ops with
  | [] => True
  | o :: r => kf_books st o = false /\ clean cfg (apply_op cfg st o) r
  end.
Fixpoint cleanb (cfg : config) (st : state) (ops : list op) : bool :=
  match ops with
  | [] => true
  | o :: r => negb (kf_books st o) && cleanb cfg (apply_op cfg st o) r
  end.

(* ------------------------------------------------------------------------------------------ *)
(* The close of a handed-over position (generation-2 auction): what the pools receive against   *)
(* what the close books and forwards.                                                          *)

(* the coins of asset [a] held by all lending pools together (bridged transit coins move between pools) *)
Definition ptotal (cfg : config) (b : bank) (a : Z) : Z :=
  fold_right (fun ip acc => balance b (p_mod (snd ip)) a + acc) 0 (c_pools cfg).
Definition tia_of (st : state) (k : Z * Z) : Z := match pget (sstats st) k with Some s => s_tia s | None => 0 end.

(* the runner checks the auction's target debt (an ENV value of the close) against the hand-over's formula *)
Definition holds_C08_target (cfg : config) (pre : state) (j target : Z) : bool :=
  match zget (borrows pre) j with
  | Some b => match target_of cfg b with Some t => t =? target | None => false end
  | None => false
  end.

(* the close rule: the pools' holdings of the asset out grow by at least the principal that returns (it left
   the published totals borrowed at the hand-over) plus what the close adds to TotalInterestAccumulated -
   the coins lenders will be paid from *)
Definition holds_C08_close (cfg : config) (pre post : state) (j : Z) : bool :=
  match zget (borrows pre) j with
  | None => false
  | Some b =>
      match zget (c_pairs cfg) (b_pair b) with
      | None => false
      | Some pr =>
          let k := (pr_out_pool pr, pr_out pr) in
          b_out b + (tia_of post k - tia_of pre k) <=? ptotal cfg (bnk post) (pr_out pr) - ptotal cfg (bnk pre) (pr_out pr)
      end
  end.

(* known-finding class 3 (C08-F3): the close books or forwards more than the auction recovered.  The
   target debt is principal + ordinary penalty; the close (a) forwards the reserve share of the ACCRUED
   INTEREST to the reserve and mints cTokens / raises TotalInterestAccumulated for the rest of it although
   no interest was recovered, (b) forwards the E-MODE penalty although the ordinary one was collected *)
Definition kf_C08_3 (cfg : config) (st : state) (o : op) : bool :=
  match o with
  | OAucClose j _ _ _ =>
      match zget (borrows st) j with
      | Some b =>
          b_liq b &&
          match zget (c_pairs cfg) (b_pair b) with
          | Some pr =>
              match zget (c_rates cfg) (pr_in pr) with
              | Some rin => (dtrunc_int (b_res b) >? 0) || (dtrunc_int (b_int b - b_res b) >? 0) || (pr_emode pr && (r_epen rin >? r_pen rin))
              | None => false
              end
          | None => false
          end
      | None => false
      end
  | _ => false
  end.

(* pool module accounts are pairwise different and none of them is the reserve or the auction account *)
Definition pools_wfb (cfg : config) : bool :=
  let ms := map (fun ip => p_mod (snd ip)) (c_pools cfg) in
  (fix nodup (l : list Z) : bool := match l with [] => true | x :: r => negb (existsb (Z.eqb x) r) && nodup r end) ms &&
  negb (existsb (Z.eqb RESERVE) ms) && negb (existsb (Z.eqb AUCTION) ms) &&
  forallb (fun ir => (0 <=? r_pen (snd ir)) && (0 <=? r_epen (snd ir))) (c_rates cfg).
