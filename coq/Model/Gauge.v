(* C19.  x/rewards/keeper/utils.go SplitTotalAmountPerEpoch; gauge.go InitateGaugesForDuration
   (non-swap-fee branch, 224-255) with distribution.go BeginRewardDistributions (63-93: the
   "sum of calculated rewards <= allocation" check, sends whose errors are ignored);
   epochs.go TriggerAndUpdateEpochInfos (24-60: fresh epoch, skipped epochs, trigger);
   liquidity/keeper/rewards.go GetFarmingRewardsData share formula (243-262 master/child min
   rule, 278-292 plain).  Definitions only.  One reward denom; swap-fee gauges, external reward
   programs (rewards/keeper/iter.go) are not modelled. *)
From Comdex Require Import Lib.Base Lib.DecArith Lib.F64.

(* ---------------- SplitTotalAmountPerEpoch (uint64 arguments) ---------------- *)
Fixpoint split_loop (n : nat) (i zp pp : Z) : list Z :=
  match n with
  | O => []
  | S m => (if zp <=? i then pp + 1 else pp) :: split_loop m (i + 1) zp pp
  end.

(* Panic = integer divide by zero (totalEpochs = 0: "total < 0" is false, then total % 0) *)
Definition split (total epochs : Z) : outcome (list Z) :=
  if total <? epochs then Ok []
  else if epochs =? 0 then Panic
  else if total mod epochs =? 0 then Ok (repeat (total / epochs) (Z.to_nat epochs))
  else Ok (split_loop (Z.to_nat epochs) 0 (epochs - total mod epochs) (total / epochs)).

(* ---------------- gauge ---------------- *)
Record gauge := mkGauge {
  g_deposit : Z; g_distributed : Z; g_triggered : Z; g_total : Z; g_active : bool; g_start : Z }.

(* sends of doDistributionSends: a send that the module balance cannot cover is logged and
   skipped; returns the new balance and what each receiver actually got *)
Fixpoint do_sends (bal : Z) (rewards : list Z) : Z * list Z :=
  match rewards with
  | [] => (bal, [])
  | r :: rest =>
      if r <=? bal then let '(b, ps) := do_sends (bal - r) rest in (b, r :: ps)
      else let '(b, ps) := do_sends bal rest in (b, 0 :: ps)
  end.

(* one pass of the loop body for one non-swap-fee gauge.
   [calc]: what GetFarmingRewardsData returns for the coin to distribute (Err = it fails: pool
   disabled / depleted, no oracle price, ...), an arbitrary input here.  Negative entries cannot
   be built (sdk.NewCoin panics).  Result: gauge, module balance, amounts received. *)
Definition trigger (now : Z) (calc : outcome (list Z)) (bal : Z) (g : gauge) : outcome (gauge * Z * list Z) :=
  if (now <? g_start g) || negb (g_active g) then Ok (g, bal, [])
  else if g_triggered g =? g_total g then
    Ok (mkGauge (g_deposit g) (g_distributed g) (g_triggered g) (g_total g) false (g_start g), bal, [])
  else match uint64_c (g_deposit g) with
  | None => Panic                                            (* Int.Uint64() out of bounds *)
  | Some d =>
    match split d (g_total g) with
    | Panic => Panic | Err c => Err c
    | Ok sp =>
      if zlen sp <=? g_triggered g then Ok (g, bal, [])
      else match nth_z sp (Z.to_nat (g_triggered g)) with
      | None => Panic
      | Some amount =>
        if g_deposit g - g_distributed g <? amount then Ok (g, bal, [])
        else match calc with
        | Panic => Panic
        | Err _ => Ok (g, bal, [])
        | Ok rewards =>
          if existsb (fun r => r <? 0) rewards then Panic else
          let tot := zsum rewards in
          if amount <? tot then Ok (g, bal, [])                (* ErrInvalidCalculatedAMount *)
          else let '(bal', paid) := do_sends bal rewards in
               Ok (mkGauge (g_deposit g) (g_distributed g + tot) (g_triggered g + 1) (g_total g)
                           (g_active g) (g_start g), bal', paid)
        end
      end
    end
  end.

(* the allocation of the epoch about to be triggered (what c19_epoch_cap compares with) *)
Definition epoch_allocation (g : gauge) : Z :=
  match split (g_deposit g) (g_total g) with
  | Ok sp => match nth_z sp (Z.to_nat (g_triggered g)) with Some a => a | None => 0 end
  | _ => 0
  end.

(* ---------------- a rewards module with several gauges sharing one custody balance ------------ *)
Record rstate := mkR { r_bal : Z; r_gauges : list gauge }.

Inductive gop :=
| Create (deposit total start now : Z) (funds : Z)    (* MsgCreateGauge; funds = creator's balance *)
| Trig (idx : nat) (now : Z) (calc : outcome (list Z))  (* the epoch trigger reaching gauge idx *)
| Donate (amt : Z).                                    (* any other credit to the module account *)

Fixpoint set_gauge (l : list gauge) (i : nat) (g : gauge) : list gauge :=
  match l, i with
  | [], _ => []
  | _ :: r, O => g :: r
  | x :: r, S j => x :: set_gauge r j g
  end.

(* ValidateMsgCreateGauge (gauge.go 14-44) + CreateNewGauge (179-207); Err 1 = rejected *)
Definition rstep (s : rstate) (o : gop) : outcome rstate :=
  match o with
  | Create dep total start now funds =>
      if (dep <=? 0) || (dep <? total) || (start <? now) || (funds <? dep) then Err 1
      else Ok (mkR (r_bal s + dep) (r_gauges s ++ [mkGauge dep 0 0 total true start]))
  | Trig i now calc =>
      match nth_z (r_gauges s) i with
      | None => Ok s
      | Some g => match trigger now calc (r_bal s) g with
                  | Ok (g', b', _) => Ok (mkR b' (set_gauge (r_gauges s) i g'))
                  | Err c => Err c | Panic => Panic
                  end
      end
  | Donate a => if a <? 0 then Err 1 else Ok (mkR (r_bal s + a) (r_gauges s))
  end.

(* a failed step leaves the state unchanged (ApplyFuncIfNoError / baseapp message cache) *)
Definition rapply (s : rstate) (o : gop) : rstate := match rstep s o with Ok s' => s' | _ => s end.
Definition rrun (s : rstate) (ops : list gop) : rstate := fold_left rapply ops s.

Definition undistributed (gs : list gauge) : Z := zsum (map (fun g => g_deposit g - g_distributed g) gs).

(* ---------------- epochs.go: when does the trigger fire ---------------- *)
Record epoch := mkEpoch { e_fresh : bool (* StartTime is the zero time *); e_cur : Z; e_cest : Z; e_dur : Z }.
Inductive tick_result := TFresh | TSkipped | TTrigger | TNothing.
(* times in nanoseconds; Before / After are strict *)
Definition epoch_tick (now : Z) (e : epoch) : epoch * tick_result :=
  if e_fresh e && (e_cur e =? 0) then (mkEpoch false (e_cur e) (e_cest e - e_dur e) (e_dur e), TFresh)
  else if e_cest e + 2 * e_dur e <? now then
    let missed := Z.quot (now - e_cest e) (e_dur e) in
    (mkEpoch (e_fresh e) (e_cur e) (e_cest e + e_dur e * missed) (e_dur e), TSkipped)
  else if e_cest e + e_dur e <? now then
    (mkEpoch (e_fresh e) (e_cur e + 1) (e_cest e + e_dur e) (e_dur e), TTrigger)
  else (e, TNothing).

(* ---------------- farmer shares (GetFarmingRewardsData) ---------------- *)
(* multiplier := NewDecFromInt(coins).Quo(total); reward_i := int64(floor(float64(supply_i.Mul(multiplier)))) *)
Definition share_dec (coins total s : Z) : Z := dmul s (dquo (dec_of_int coins) total).
Definition share_reward (coins total s : Z) : Z := floor64 (to64 (share_dec coins total s)).
(* plain pool: every active farmer gets an entry (zero supply gives a zero coin) *)
Definition farm_rewards (coins : Z) (supplies : list Z) : list Z :=
  let total := zsum supplies in
  if total =? 0 then [] else map (share_reward coins total) supplies.
(* master pool with child pools: eligible supply = min(master, child); zero entries are dropped *)
Definition min_supplies (master child : list Z) : list Z :=
  map (fun mc => if fst mc <=? snd mc then fst mc else snd mc) (combine master child).
Definition farm_rewards_master (coins : Z) (master child : list Z) : list Z :=
  let ms := min_supplies master child in
  let total := zsum ms in
  if total =? 0 then [] else map (share_reward coins total) (filter (fun s => negb (s =? 0)) ms).

(* known-finding class C19-F1: the multiplier coins/total is rounded to 18 decimals before it is
   multiplied by the farmer's value, so when the farmed value is large against the allocation the
   multiplier has few significant digits: total (scaled) > coins * 4*10^23, i.e. total farmed
   value in units > 400 000 * the epoch allocation *)
Definition kf_C19_1 (coins total : Z) : bool := coins * 400000 * P18 <? total.

(* ---------------- property predicates on the IMPLEMENTATION's observations ---------------- *)
Definition holds_C19_split (total epochs : Z) (sp : list Z) : bool :=
  if (1 <=? epochs) && (epochs <=? total) then
    (zsum sp =? total) && (zlen sp =? epochs) &&
    forallb (fun x => (x =? total / epochs) || (x =? total / epochs + 1)) sp
  else if total <? epochs then match sp with [] => true | _ => false end else true.

(* one trigger: before/after gauge records, the amounts received, the custody balance *)
Definition holds_C19_trigger (g g' : gauge) (paid : list Z) (bal bal' : Z) : bool :=
  let p := zsum paid in
  (0 <=? p) && (p <=? g_distributed g' - g_distributed g) &&
  (g_distributed g' - g_distributed g <=? (if g_triggered g' =? g_triggered g then 0 else epoch_allocation g)) &&
  (g_distributed g' <=? g_deposit g') && (g_triggered g' <=? g_total g') &&
  (bal' =? bal - p).

Definition holds_C19_custody (bal : Z) (gs : list gauge) : bool := undistributed gs <=? bal.

(* payout_i <= pro-rata share * (1 + 10^-12):  payout * total * 10^12 <= coins * s_i * (10^12 + 1)
   (total, s_i scaled Decs, their ratio is scale-free; coins integer) *)
Definition holds_C19_share (coins total s payout : Z) : bool :=
  (0 <=? payout) && (payout * total * 1000000000000 <=? coins * s * 1000000000001).
