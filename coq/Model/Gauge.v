(* C19.  x/rewards/keeper/utils.go SplitTotalAmountPerEpoch; gauge.go ValidateMsgCreateGauge (14-44),
   CreateNewGauge (179-207), InitateGaugesForDuration (210-300: the non-swap-fee branch 222-256 and
   the swap-fee branch 257-296) with distribution.go BeginRewardDistributions (63-93: the "sum of
   calculated rewards <= allocation" check, sends whose errors are ignored); epochs.go
   TriggerAndUpdateEpochInfos (24-60: fresh epoch, skipped epochs, trigger); liquidity/keeper/
   rewards.go GetFarmingRewardsData share formula (243-276 master/child min rule, 280-298 plain);
   rewards/keeper/iter.go DistributeExtRewardLocker (15-95) / DistributeExtRewardVault (97-175) with
   keeper.go ActExternalRewardsLockers / ActExternalRewardsVaults (122-223); abci.go BeginBlocker.
   Definitions only.  Times are whole seconds.  The farmed values (lpSupplies), the child-pool
   contributions, the amount TransferFundsForSwapFeeDistribution hands over, and the locker / vault
   populations and the kill switch of the programs' apps enter as recorded environment values.
   DistributeExtRewardLend (230-314) with AddLendExternalRewards.  abci.go as repaired by b2d3331
   (each distribution in its own ApplyFuncIfNoError); gauge.go / iter.go as repaired by
   fixes/C19-F2 and fixes/C19-F3.  Stable-mint external programs (CombinePSMUserPositions 345-384,
   DistributeExtRewardStableVault 390-487, keeper.go ActExternalRewardsStableVaults) are added at the end of
   this file as an extension of the state (rstate2 / gop2): the definitions above are unchanged. *)
From Comdex Require Import Lib.Base Lib.DecArith Lib.F64.

(* ---------------- SplitTotalAmountPerEpoch (uint64 arguments) ---------------- *)
Fixpoint split_loop (n : nat) (i zp pp : Z) : list Z :=
  match n with
  | O => []
  | S m => (if zp <=? i then pp + 1 else pp) :: split_loop m (i + 1) zp pp
  end.

(* Panic = integer divide by zero (totalEpochs = 0: "total < 0" is false, then total % 0) *)
Definition split (total epochs : Z) : outcome (list Z) :=
  if total <? epochs then Ok []
  else if epochs =? 0 then Panic
  else if total mod epochs =? 0 then Ok (repeat (total / epochs) (Z.to_nat epochs))
  else Ok (split_loop (Z.to_nat epochs) 0 (epochs - total mod epochs) (total / epochs)).

(* ---------------- gauge ---------------- *)
(* g_swap: ForSwapFee (created by liquidity CreatePool); for those DepositAmount is the amount
   waiting to be distributed, not a total *)
Record gauge := mkGauge {
  g_deposit : Z; g_distributed : Z; g_triggered : Z; g_total : Z; g_active : bool; g_start : Z;
  g_dur : Z; g_swap : bool; g_denom : Z }.

Definition pays := list (Z * Z).                  (* (receiver account, amount) *)
Definition pay_total (l : pays) : Z := zsum (map snd l).

(* sends of doDistributionSends: a send that the module balance cannot cover is logged and
   skipped; returns the new balance and what each receiver actually got *)
Fixpoint do_sends (bal : Z) (rewards : pays) : Z * pays :=
  match rewards with
  | [] => (bal, [])
  | (a, r) :: rest =>
      if r <=? bal then let '(b, ps) := do_sends (bal - r) rest in (b, (a, r) :: ps)
      else let '(b, ps) := do_sends bal rest in (b, (a, 0) :: ps)
  end.

(* BeginRewardDistributions for [coins].  [calc]: what GetFarmingRewardsData returns for the coin
   to distribute (Err = it fails: pool disabled / depleted, no oracle price, ...), arbitrary here.
   Negative entries cannot be built (sdk.NewCoin panics).
   Ok None = it returned an error (the caller logs and continues);
   Ok (Some (total booked, new module balance, amounts received)). *)
Definition distribute (calc : Z -> outcome pays) (coins bal : Z) : outcome (option (Z * Z * pays)) :=
  match calc coins with
  | Panic => Panic
  | Err _ => Ok None
  | Ok rewards =>
      if existsb (fun r => snd r <? 0) rewards then Panic else
      let tot := pay_total rewards in
      if coins <? tot then Ok None                           (* ErrInvalidCalculatedAMount *)
      else let '(bal', paid) := do_sends bal rewards in Ok (Some (tot, bal', paid))
  end.

Definition g_set_active (g : gauge) (a : bool) : gauge :=
  mkGauge (g_deposit g) (g_distributed g) (g_triggered g) (g_total g) a (g_start g) (g_dur g) (g_swap g) (g_denom g).
Definition g_paid (g : gauge) (tot : Z) : gauge :=
  mkGauge (g_deposit g) (g_distributed g + tot) (g_triggered g + 1) (g_total g) (g_active g) (g_start g)
          (g_dur g) (g_swap g) (g_denom g).
Definition g_swap_paid (g : gauge) (tot recv : Z) : gauge :=
  mkGauge (g_deposit g - tot + recv) (g_distributed g + tot) (g_triggered g + 1) (g_total g) (g_active g) (g_start g)
          (g_dur g) (g_swap g) (g_denom g).

(* one pass of the loop body for one non-swap-fee gauge.  Result: gauge, module balance (of the
   gauge's denom), amounts received. *)
Definition trigger (now : Z) (calc : Z -> outcome pays) (bal : Z) (g : gauge) : outcome (gauge * Z * pays) :=
  if (now <? g_start g) || negb (g_active g) then Ok (g, bal, [])
  else if g_triggered g =? g_total g then Ok (g_set_active g false, bal, [])
  else match uint64_c (g_deposit g) with
  | None => Panic                                            (* Int.Uint64() out of bounds *)
  | Some d =>
    match split d (g_total g) with
    | Panic => Panic | Err c => Err c
    | Ok sp =>
      if zlen sp <=? g_triggered g then Ok (g, bal, [])
      else match nth_z sp (Z.to_nat (g_triggered g)) with
      | None => Panic
      | Some amount =>
        if g_deposit g - g_distributed g <? amount then Ok (g, bal, [])
        else match distribute calc amount bal with
        | Panic => Panic | Err c => Err c
        | Ok None => Ok (g, bal, [])
        | Ok (Some (tot, bal', paid)) => Ok (g_paid g tot, bal', paid)
        end
      end
    end
  end.

(* the swap-fee branch: distribute what was accumulated at the previous epoch, then fetch this
   epoch's fees.  [recv]: what TransferFundsForSwapFeeDistribution returns (the coins are credited
   to the module account by that call).  When the transfer fails after a successful distribution
   the gauge is stored with the distribution booked (DepositAmount reduced, DistributedAmount
   raised, TriggeredCount unchanged) and the loop continues (fix C19-F2: SetGauge before continue). *)
Definition trigger_swap (calc : Z -> outcome pays) (recv : outcome Z) (bal : Z) (g : gauge) : outcome (gauge * Z * pays) :=
  let dist := if 0 <? g_deposit g then distribute calc (g_deposit g) bal else Ok (Some (0, bal, [])) in
  match dist with
  | Panic => Panic | Err c => Err c
  | Ok None => Ok (g, bal, [])
  | Ok (Some (tot, bal', paid)) =>
    match recv with
    | Panic => Panic
    | Err _ => Ok (mkGauge (g_deposit g - tot) (g_distributed g + tot) (g_triggered g) (g_total g) (g_active g) (g_start g) (g_dur g) (g_swap g) (g_denom g), bal', paid)
    | Ok r => Ok (g_swap_paid g tot r, bal' + r, paid)
    end
  end.

Definition trigger_any (now : Z) (calc : Z -> outcome pays) (recv : outcome Z) (bal : Z) (g : gauge) :=
  if g_swap g then trigger_swap calc recv bal g else trigger now calc bal g.

(* the allocation of the epoch about to be triggered (what c19_epoch_cap compares with) *)
Definition epoch_allocation (g : gauge) : Z :=
  match split (g_deposit g) (g_total g) with
  | Ok sp => match nth_z sp (Z.to_nat (g_triggered g)) with Some a => a | None => 0 end
  | _ => 0
  end.

(* what a gauge still owes: deposit - distributed, for a swap-fee gauge its waiting deposit *)
Definition g_rem (g : gauge) : Z := if g_swap g then g_deposit g else g_deposit g - g_distributed g.

(* ---------------- epochs.go: when does the trigger fire ---------------- *)
Record epoch := mkEpoch { e_fresh : bool (* StartTime is the zero time *); e_cur : Z; e_cest : Z; e_dur : Z }.
Inductive tick_result := TFresh | TSkipped | TTrigger | TNothing.
(* Before / After are strict *)
Definition epoch_tick (now : Z) (e : epoch) : epoch * tick_result :=
  if e_fresh e && (e_cur e =? 0) then (mkEpoch false (e_cur e) (e_cest e - e_dur e) (e_dur e), TFresh)
  else if e_cest e + 2 * e_dur e <? now then
    let missed := Z.quot (now - e_cest e) (e_dur e) in
    (mkEpoch (e_fresh e) (e_cur e) (e_cest e + e_dur e * missed) (e_dur e), TSkipped)
  else if e_cest e + e_dur e <? now then
    (mkEpoch (e_fresh e) (e_cur e + 1) (e_cest e + e_dur e) (e_dur e), TTrigger)
  else (e, TNothing).

(* ---------------- farmer shares (GetFarmingRewardsData) ---------------- *)
(* multiplier := NewDecFromInt(coins).Quo(total); reward_i := int64(floor(float64(supply_i.Mul(multiplier)))) *)
Definition share_dec (coins total s : Z) : Z := dmul s (dquo (dec_of_int coins) total).
Definition share_reward (coins total s : Z) : Z := floor64 (to64 (share_dec coins total s)).
(* plain pool: every active farmer gets an entry (zero supply gives a zero coin) *)
Definition farm_rewards (coins : Z) (supplies : list Z) : list Z :=
  let total := zsum supplies in
  if total =? 0 then [] else map (share_reward coins total) supplies.
(* master pool with child pools: eligible supply = min(master, child); zero entries are dropped *)
Definition min_supplies (master child : list Z) : list Z :=
  map (fun mc => if fst mc <=? snd mc then fst mc else snd mc) (combine master child).
Definition farm_rewards_master (coins : Z) (master child : list Z) : list Z :=
  let ms := min_supplies master child in
  let total := zsum ms in
  if total =? 0 then [] else map (share_reward coins total) (filter (fun s => negb (s =? 0)) ms).

(* the same with the receivers attached; the environment of one gauge *)
Inductive farm_env :=
| FarmErr                                              (* GetFarmingRewardsData returns an error *)
| FarmPlain (fs : list (Z * Z))                        (* (account, farmed value as a Dec) per active farmer *)
| FarmMaster (fs : list (Z * Z)) (child : list Z).     (* + aggregated child-pool value, positional *)

Definition two63 : Z := 9223372036854775808.
(* int64(x) of a float >= 2^63 is the minimum int64 on amd64; sdk.NewCoin then panics *)
Definition coin_of_float (a r : Z) : outcome (Z * Z) := if two63 <=? r then Panic else Ok (a, r).
Fixpoint collect (l : list (outcome (Z * Z))) : outcome pays :=
  match l with
  | [] => Ok []
  | Ok p :: r => match collect r with Ok ps => Ok (p :: ps) | Err c => Err c | Panic => Panic end
  | Err c :: _ => Err c
  | Panic :: _ => Panic
  end.
Definition farm_calc (e : farm_env) (coins : Z) : outcome pays :=
  match e with
  | FarmErr => Err 1
  | FarmPlain fs =>
      let total := zsum (map snd fs) in
      if total =? 0 then Ok [] else collect (map (fun f => coin_of_float (fst f) (share_reward coins total (snd f))) fs)
  | FarmMaster fs child =>
      let ms := combine (map fst fs) (min_supplies (map snd fs) child) in
      let total := zsum (map snd ms) in
      if total =? 0 then Ok []
      else collect (map (fun f => coin_of_float (fst f) (share_reward coins total (snd f)))
                        (filter (fun f => negb (snd f =? 0)) ms))
  end.

(* (account, eligible farmed value) of an environment: what "pro rata by farmed value" refers to *)
Definition eligible (e : farm_env) : list (Z * Z) :=
  match e with
  | FarmErr => []
  | FarmPlain fs => fs
  | FarmMaster fs child => combine (map fst fs) (min_supplies (map snd fs) child)
  end.

(* known-finding class C19-F1: the multiplier coins/total is rounded to 18 decimals before it is
   multiplied by the farmer's value, so when the farmed value is large against the allocation the
   multiplier has few significant digits: total (scaled) > coins * 4*10^23, i.e. total farmed
   value in units > 400 000 * the epoch allocation *)
Definition kf_C19_1 (coins total : Z) : bool := coins * 400000 * P18 <? total.

(* ---------------- external reward programs (lockers: kind 0, vaults: kind 1) ---------------- *)
(* x_next: StartingTime of the program's EpochTime record, x_count its Count *)
Record ext := mkExt { x_kind : Z; x_denom : Z; x_avail : Z; x_active : bool; x_days : Z; x_count : Z;
                      x_next : Z; x_minlock : Z }.
(* population: the lockers of the (app, asset) lookup / the vaults of the (app, extended pair)
   mapping as (owner, NetBalance / AmountOut, CreatedAt) and the lookup's DepositedAmount /
   TokenMintedAmount;
   and xe_halt: the kill switch (BreakerEnable) or the ESM status of the program's app is on *)
Record xenv := mkXenvH { xe_total : Z; xe_pop : list (Z * Z * Z); xe_halt : bool }.
Definition mkXenv (total : Z) (pop : list (Z * Z * Z)) : xenv := mkXenvH total pop false.
Definition DAY : Z := 86400.

(* finalDailyRewards of one locker / vault (fix C19-F3: the owner's balance is multiplied into the
   epoch rewards BEFORE dividing by the recorded total -
   epochRewards.MulInt64(net).QuoInt64(total) / .QuoInt(total), then TruncateInt - instead of
   rounding the share net/total to 18 decimals first).  Int64() panics out of range, QuoInt panics
   on zero. *)
Definition ext_final (kind avail dleft total net : Z) : outcome Z :=
  match int64_c net, (if kind =? 0 then int64_c total else Some total), int64_c avail with
  | Some n, Some t, Some a =>
      if t =? 0 then Panic else
      let er := dquo (dec_of_int a) (dec_of_int dleft) in
      Ok (dtrunc_int (dquo_int (dmul_int er n) t))
  | _, _, _ => Panic
  end.

(* the loop over the population: module balance, amountRewardedTracker, amounts received *)
Fixpoint ext_loop (x : ext) (now total : Z) (pop : list (Z * Z * Z)) (bal tracker : Z) : outcome (Z * Z * pays) :=
  match pop with
  | [] => Ok (bal, tracker, [])
  | (a, net, created) :: rest =>
      if negb (x_count x =? x_days x - 1) && (now - created <? x_minlock x) then ext_loop x now total rest bal tracker
      else match ext_final (x_kind x) (x_avail x) (x_days x - x_count x) total net with
      | Panic => Panic | Err c => Err c
      | Ok f =>
          if 0 <? f then
            let '(bal1, got) := if f <=? bal then (bal - f, f) else (bal, 0) in
            match ext_loop x now total rest bal1 (tracker + f) with
            | Ok (b, t, ps) => Ok (b, t, (a, got) :: ps)
            | Err c => Err c | Panic => Panic
            end
          else ext_loop x now total rest bal tracker
      end
  end.

Definition ext_tick (now : Z) (e : xenv) (bal : Z) (x : ext) : outcome (ext * Z * pays) :=
  if negb (x_active x) then Ok (x, bal, [])
  else if negb (x_next x <? now) then Ok (x, bal, [])
  else if x_count x <? x_days x then
    match ext_loop x now (xe_total e) (xe_pop e) bal 0 with
    | Panic => Panic | Err c => Err c
    | Ok (bal', tracker, paid) =>
        Ok (mkExt (x_kind x) (x_denom x) (x_avail x - tracker) true (x_days x) (x_count x + 1) (now + DAY) (x_minlock x),
            bal', paid)
    end
  else Ok (mkExt (x_kind x) (x_denom x) (x_avail x) false (x_days x) (x_count x) (x_next x) (x_minlock x), bal, []).

(* ---------------- lend external reward programs (kind 2): DistributeExtRewardLend ---------------- *)
(* environment of one program: le_ok = the asset statistics of (pool, asset) were found (otherwise the
   whole function returns); le_new = (lend owner, min(farmed master-pool value, borrowed value)) of the
   borrow positions it walks, as Decs; le_price = (Twa, Decimals) of the reward asset when the asset
   and its price are found; le_halt = the kill switch of the program's app is on *)
Record lenv := mkLenvH { le_ok : bool; le_new : list (Z * Z); le_price : option (Z * Z); le_halt : bool }.
Definition mkLenv (ok : bool) (new : list (Z * Z)) (price : option (Z * Z)) : lenv := mkLenvH ok new price false.

(* the loop over ALL borrowers collected so far (the slices are declared outside the loop over the
   programs and never reset): finalDailyRewardsPerUser = amount_i.Mul(totalAPR), truncated *)
Fixpoint lend_loop (apr : Z) (arr : list (Z * Z)) (bal tracker : Z) : Z * Z * pays :=
  match arr with
  | [] => (bal, tracker, [])
  | (a, amt) :: rest =>
      let f := dtrunc_int (dmul amt apr) in
      if 0 <? f then
        let '(bal1, got) := if f <=? bal then (bal - f, f) else (bal, 0) in
        let '(b, t, ps) := lend_loop apr rest bal1 (tracker + f) in (b, t, (a, got) :: ps)
      else lend_loop apr rest bal tracker
  end.

(* result of one program: None = the function returns (no further program is processed) *)
Definition lend_tick (now : Z) (e : lenv) (arr : list (Z * Z)) (tot bal : Z) (x : ext)
  : outcome (option (ext * Z * pays * list (Z * Z) * Z)) :=
  if negb (x_active x) then Ok (Some (x, bal, [], arr, tot))
  else if negb (x_next x <? now) then Ok (Some (x, bal, [], arr, tot))
  else if x_count x <? x_days x then
    if negb (le_ok e) then Ok None
    else
      let arr' := arr ++ le_new e in
      let tot' := tot + zsum (map (fun p => dtrunc_int (snd p)) (le_new e)) in
      match le_price e with
      | None => Ok (Some (x, bal, [], arr', tot'))
      | Some (twa, decimals) =>
          if decimals =? 0 then Panic else
          let value := dquo (dmul (dec_of_int (x_avail x)) (dec_of_int twa)) (dec_of_int decimals) in
          if tot' <=? 0 then Ok (Some (x, bal, [], arr', tot'))
          else
            let daily := dquo value (dec_of_int (x_days x - x_count x)) in
            let apr := dquo daily (dec_of_int tot') in
            let '(bal', tracker, paid) := lend_loop apr arr' bal 0 in
            Ok (Some (mkExt (x_kind x) (x_denom x) (x_avail x - tracker) true (x_days x) (x_count x + 1) (now + DAY) (x_minlock x),
                      bal', paid, arr', tot'))
      end
  else Ok (Some (mkExt (x_kind x) (x_denom x) (x_avail x) false (x_days x) (x_count x) (x_next x) (x_minlock x), bal, [], arr, tot)).

(* known-finding class C19-F4: a lend program books more than it has left (the daily reward is computed
   as a VALUE - amount times oracle price - and paid out as an AMOUNT of the reward denom) *)
Definition kf_C19_4 (now : Z) (e : lenv) (arr : list (Z * Z)) (tot : Z) (x : ext) : bool :=
  match lend_tick now e arr tot 0 x with
  | Ok (Some (x', _, _, _, _)) => x_avail x' <? 0
  | _ => false
  end.

(* well-formed population of a locker / vault program: the owners' balances are not negative and add
   up to at most the recorded total (the locker lookup's DepositedAmount is the sum of the lockers'
   NetBalance, the vault mapping's TokenMintedAmount the sum of the vaults' AmountOut: what the
   locker / vault books guarantee) *)
Definition pop_net (pop : list (Z * Z * Z)) : Z := zsum (map (fun u => snd (fst u)) pop).
Definition xenv_wf (e : xenv) : bool :=
  forallb (fun u => 0 <=? snd (fst u)) (xe_pop e) && (pop_net (xe_pop e) <=? xe_total e).

(* ---------------- the rewards module: gauges, epochs, programs, one custody account ----------- *)
Definition bank := Z -> Z.                        (* denom -> balance of the rewards module account *)
Definition bset (b : bank) (d v : Z) : bank := fun x => if x =? d then v else b x.

Record rstate := mkR { r_bal : bank; r_gauges : list gauge; r_epochs : list epoch; r_exts : list ext }.

(* environment of one BeginBlocker: per gauge (positional) the farming data and the swap-fee
   transfer result, per program (positional) its population *)
Record benv := mkBenv4 { be_farm : list farm_env; be_recv : list (outcome Z); be_ext : list xenv; be_lend : list lenv }.
Definition mkBenv (f : list farm_env) (r : list (outcome Z)) (x : list xenv) : benv := mkBenv4 f r x [].

Definition dpays := list (Z * Z * Z).             (* (denom, receiver, amount) *)
Definition tag (d : Z) (l : pays) : dpays := map (fun p => (d, fst p, snd p)) l.

Definition hd_farm (l : list farm_env) : farm_env := match l with e :: _ => e | [] => FarmErr end.
Definition hd_recv (l : list (outcome Z)) : outcome Z := match l with e :: _ => e | [] => Err 1 end.
Definition hd_xenv (l : list xenv) : xenv := match l with e :: _ => e | [] => mkXenv 0 [] end.
Definition hd_lenv (l : list lenv) : lenv := match l with e :: _ => e | [] => mkLenv false [] None end.

(* InitateGaugesForDuration: the gauges of one duration in id order *)
Fixpoint run_gauges (now dur : Z) (gs : list gauge) (fe : list farm_env) (rv : list (outcome Z)) (b : bank)
  : outcome (list gauge * bank * dpays) :=
  match gs with
  | [] => Ok ([], b, [])
  | g :: rest =>
      if g_dur g =? dur then
        match trigger_any now (farm_calc (hd_farm fe)) (hd_recv rv) (b (g_denom g)) g with
        | Panic => Panic | Err c => Err c
        | Ok (g', bal', paid) =>
            match run_gauges now dur rest (tl fe) (tl rv) (bset b (g_denom g) bal') with
            | Ok (gs', b', ps) => Ok (g' :: gs', b', tag (g_denom g) paid ++ ps)
            | Err c => Err c | Panic => Panic
            end
        end
      else match run_gauges now dur rest (tl fe) (tl rv) b with
           | Ok (gs', b', ps) => Ok (g :: gs', b', ps)
           | Err c => Err c | Panic => Panic
           end
  end.

(* TriggerAndUpdateEpochInfos: the epochs in store order (ascending duration) *)
Fixpoint run_epochs (now : Z) (es : list epoch) (gs : list gauge) (fe : list farm_env) (rv : list (outcome Z)) (b : bank)
  : outcome (list epoch * list gauge * bank * dpays) :=
  match es with
  | [] => Ok ([], gs, b, [])
  | e :: rest =>
      let '(e', r) := epoch_tick now e in
      match (match r with TTrigger => run_gauges now (e_dur e) gs fe rv b | _ => Ok (gs, b, []) end) with
      | Panic => Panic | Err c => Err c
      | Ok (gs1, b1, ps1) =>
          match run_epochs now rest gs1 fe rv b1 with
          | Ok (es', gs2, b2, ps2) => Ok (e' :: es', gs2, b2, ps1 ++ ps2)
          | Err c => Err c | Panic => Panic
          end
      end
  end.

(* DistributeExtRewardLocker (kind 0) / DistributeExtRewardVault (kind 1): the programs of one kind in
   id order.  At the top of the loop body, for EVERY program of the kind (active or not): when the
   kill switch or the ESM status of its app is on the function returns an error - after the programs
   before it have been paid; the caller's ApplyFuncIfNoError then drops the whole step. *)
Fixpoint run_exts (kind now : Z) (xs : list ext) (xe : list xenv) (b : bank) : outcome (list ext * bank * dpays) :=
  match xs with
  | [] => Ok ([], b, [])
  | x :: rest =>
      if x_kind x =? kind then
        if xe_halt (hd_xenv xe) then Err 2 else        (* return ErrCircuitBreakerEnabled / ErrESMAlreadyExecuted *)
        match ext_tick now (hd_xenv xe) (b (x_denom x)) x with
        | Panic => Panic | Err c => Err c
        | Ok (x', bal', paid) =>
            match run_exts kind now rest (tl xe) (bset b (x_denom x) bal') with
            | Ok (xs', b', ps) => Ok (x' :: xs', b', tag (x_denom x) paid ++ ps)
            | Err c => Err c | Panic => Panic
            end
        end
      else match run_exts kind now rest (tl xe) b with
           | Ok (xs', b', ps) => Ok (x :: xs', b', ps)
           | Err c => Err c | Panic => Panic
           end
  end.

(* DistributeExtRewardLend: the programs of kind 2 in id order, the borrower slices carried along *)
Fixpoint run_lends (now : Z) (xs : list ext) (le : list lenv) (arr : list (Z * Z)) (tot : Z) (b : bank)
  : outcome (list ext * bank * dpays) :=
  match xs with
  | [] => Ok ([], b, [])
  | x :: rest =>
      if x_kind x =? 2 then
        if le_halt (hd_lenv le) then Err 2 else        (* return ErrCircuitBreakerEnabled *)
        match lend_tick now (hd_lenv le) arr tot (b (x_denom x)) x with
        | Panic => Panic | Err c => Err c
        | Ok None => Ok (xs, b, [])
        | Ok (Some (x', bal', paid, arr', tot')) =>
            match run_lends now rest (tl le) arr' tot' (bset b (x_denom x) bal') with
            | Ok (xs', b', ps) => Ok (x' :: xs', b', tag (x_denom x) paid ++ ps)
            | Err c => Err c | Panic => Panic
            end
        end
      else match run_lends now rest (tl le) arr tot b with
           | Ok (xs', b', ps) => Ok (x :: xs', b', ps)
           | Err c => Err c | Panic => Panic
           end
  end.

(* rewards.BeginBlocker (stable-mint programs absent), abci.go after fix b2d3331.  ONE outer
   ApplyFuncIfNoError around everything; inside it, in this order:
     1. k.TriggerAndUpdateEpochInfos(ctx)          - directly on the outer cache context
     2. ApplyFuncIfNoError(DistributeExtRewardLocker)   - own cache context
     3. ApplyFuncIfNoError(DistributeExtRewardVault)    - own cache context
     4. ApplyFuncIfNoError(DistributeExtRewardLend)     - own cache context
     (5. CombinePSMUserPositions, 6. DistributeExtRewardStableVault: own cache contexts, not modelled)
   and the outer closure returns nil.  So: a panic in step 1 (the gauges) is recovered by the OUTER
   wrapper and nothing at all is written, steps 2-4 do not run.  An error or panic in one of the
   steps 2-4 is recovered by that step's own wrapper: the writes and coin movements of THAT step are
   dropped as a whole, the epoch bookkeeping and gauge payouts of step 1 and the writes of the other
   steps stay, and the steps after it still run on the state the failed step started from. *)
Definition sub_step {A : Type} (r : outcome (A * bank * dpays)) (xs : A) (b : bank) : A * bank * dpays :=
  match r with Ok v => v | _ => (xs, b, []) end.

Definition begin_block (now : Z) (e : benv) (s : rstate) : outcome (rstate * dpays) :=
  match run_epochs now (r_epochs s) (r_gauges s) (be_farm e) (be_recv e) (r_bal s) with
  | Panic => Panic | Err c => Err c
  | Ok (es, gs, b1, p1) =>
    let '(xs1, b2, p2) := sub_step (run_exts 0 now (r_exts s) (be_ext e) b1) (r_exts s) b1 in
    let '(xs2, b3, p3) := sub_step (run_exts 1 now xs1 (be_ext e) b2) xs1 b2 in
    let '(xs3, b4, p4) := sub_step (run_lends now xs2 (be_lend e) [] 0 b3) xs2 b3 in
    Ok (mkR b4 gs es xs3, p1 ++ p2 ++ p3 ++ p4)
  end.

(* which of the steps 2-4 kept their writes (the harness cannot see the step results - abci.go only logs
   them - so this is for the runner's histogram only) *)
Definition begin_steps_ok (now : Z) (e : benv) (s : rstate) : list bool :=
  match run_epochs now (r_epochs s) (r_gauges s) (be_farm e) (be_recv e) (r_bal s) with
  | Ok (_, _, b1, _) =>
    let r2 := run_exts 0 now (r_exts s) (be_ext e) b1 in
    let '(xs1, b2, _) := sub_step r2 (r_exts s) b1 in
    let r3 := run_exts 1 now xs1 (be_ext e) b2 in
    let '(xs2, b3, _) := sub_step r3 xs1 b2 in
    [true; is_ok r2; is_ok r3; is_ok (run_lends now xs2 (be_lend e) [] 0 b3)]
  | _ => [false; false; false; false]
  end.

Inductive gop :=
| Create (denom dep total start now dur funds : Z) (meta_ok : bool)
    (* MsgCreateGauge; funds = creator's balance; meta_ok = app, pool, oracle price, child pools are fine *)
| CreateSwap (denom now dur : Z)                      (* liquidity CreatePool -> CreateNewGauge(forSwapFee) *)
| ExtCreate (kind denom total days minlock now funds : Z) (ok : bool)
    (* ActivateExternalRewardsLockers / Vault / Lend (kind 0 / 1 / 2); ok = the lookups of the handler succeed *)
| Begin (now : Z) (e : benv)
| Donate (denom amt : Z).                              (* any other credit to the module account *)

Definition MIN_EPOCH_DUR : Z := 43200.
(* AddLendExternalRewards: StartingTime = now + 84600 (sic) *)
Definition LEND_FIRST : Z := 84600.

Fixpoint has_epoch (dur : Z) (es : list epoch) : bool :=
  match es with [] => false | e :: r => (e_dur e =? dur) || has_epoch dur r end.
Fixpoint insert_epoch (n : epoch) (es : list epoch) : list epoch :=
  match es with
  | [] => [n]
  | e :: r => if e_dur n <? e_dur e then n :: es else e :: insert_epoch n r
  end.
(* NewEpochInfo when the duration has none yet *)
Definition ensure_epoch (now dur : Z) (es : list epoch) : list epoch :=
  if has_epoch dur es then es else insert_epoch (mkEpoch true 0 now dur) es.

(* Err 1 = rejected *)
Definition rstep (s : rstate) (o : gop) : outcome (rstate * dpays) :=
  match o with
  | Create d dep total start now dur funds meta_ok =>
      if (dur <=? 0) || (dep <=? 0) || (dep <? total) || (dur <? MIN_EPOCH_DUR) || (start <? now) || negb meta_ok
         || (funds <? dep) then Err 1
      else Ok (mkR (bset (r_bal s) d (r_bal s d + dep))
                   (r_gauges s ++ [mkGauge dep 0 0 total true start dur false d])
                   (ensure_epoch now dur (r_epochs s)) (r_exts s), [])
  | CreateSwap d now dur =>
      Ok (mkR (r_bal s) (r_gauges s ++ [mkGauge 0 0 0 1 true now dur true d])
              (ensure_epoch now dur (r_epochs s)) (r_exts s), [])
  | ExtCreate kind d total days minlock now funds ok =>
      if (total <=? 0) || (days <=? 0) || ((kind <? 2) && (minlock <=? 0)) || negb ok || (funds <? total) then Err 1
      else Ok (mkR (bset (r_bal s) d (r_bal s d + total)) (r_gauges s) (r_epochs s)
                   (r_exts s ++ [mkExt kind d total true days 0 (now + (if kind =? 2 then LEND_FIRST else DAY)) minlock]), [])
  | Begin now e => begin_block now e s
  | Donate d a => if a <? 0 then Err 1 else Ok (mkR (bset (r_bal s) d (r_bal s d + a)) (r_gauges s) (r_epochs s) (r_exts s), [])
  end.

(* a failed step leaves the state unchanged (ApplyFuncIfNoError / baseapp message cache) *)
Definition rapply (s : rstate) (o : gop) : rstate := match rstep s o with Ok (s', _) => s' | _ => s end.
Definition rrun (s : rstate) (ops : list gop) : rstate := fold_left rapply ops s.
Definition rinit : rstate := mkR (fun _ => 0) [] [] [].

(* what the module owes in one denom: every gauge's remainder and every program's available rewards *)
Definition owed_g (d : Z) (gs : list gauge) : Z := zsum (map (fun g => if g_denom g =? d then g_rem g else 0) gs).
Definition owed_x (d : Z) (xs : list ext) : Z := zsum (map (fun x => if x_denom x =? d then x_avail x else 0) xs).
Definition owed (d : Z) (s : rstate) : Z := owed_g d (r_gauges s) + owed_x d (r_exts s).
(* the same restricted to what the property names: the ACTIVE gauges and programs *)
Definition owed_active (d : Z) (gs : list gauge) (xs : list ext) : Z :=
  zsum (map (fun g => if (g_denom g =? d) && g_active g then g_rem g else 0) gs) +
  zsum (map (fun x => if (x_denom x =? d) && x_active x then x_avail x else 0) xs).

(* does a BeginBlocker meet the known-finding class C19-F4: evaluated along the run, on each lend
   program in the state in which it is processed *)
Fixpoint kf4_pass (now : Z) (xs : list ext) (le : list lenv) (arr : list (Z * Z)) (tot : Z) : bool :=
  match xs with
  | [] => false
  | x :: rest =>
      if x_kind x =? 2 then
        kf_C19_4 now (hd_lenv le) arr tot x ||
        match lend_tick now (hd_lenv le) arr tot 0 x with
        | Ok (Some (_, _, _, arr', tot')) => kf4_pass now rest (tl le) arr' tot'
        | _ => false
        end
      else kf4_pass now rest (tl le) arr tot
  end.
(* a class met inside a step that fails as a whole has no effect (the step is rolled back): the
   class predicate of a BeginBlocker counts the lend step only when it keeps its writes *)
Definition kf4_begin (now : Z) (e : benv) (s : rstate) : bool :=
  match run_epochs now (r_epochs s) (r_gauges s) (be_farm e) (be_recv e) (r_bal s) with
  | Ok (_, _, b1, _) =>
      let '(xs1, b2, _) := sub_step (run_exts 0 now (r_exts s) (be_ext e) b1) (r_exts s) b1 in
      let '(xs2, b3, _) := sub_step (run_exts 1 now xs1 (be_ext e) b2) xs1 b2 in
      is_ok (run_lends now xs2 (be_lend e) [] 0 b3) && kf4_pass now xs2 (be_lend e) [] 0
  | _ => false
  end.
Definition kf_step (s : rstate) (o : gop) : bool :=
  match o with
  | Begin now e => kf4_begin now e s
  | _ => false
  end.
(* no step of the history meets a class *)
Fixpoint run_clean (s : rstate) (ops : list gop) : bool :=
  match ops with
  | [] => true
  | o :: rest => negb (kf_step s o) && run_clean (rapply s o) rest
  end.

(* well-formed environment values: a coin handed over by the fee transfer is not negative
   (sdk.Coin cannot hold a negative amount); the populations of the locker / vault programs are
   consistent with their recorded totals (xenv_wf) *)
Definition recv_wf (r : outcome Z) : bool := match r with Ok v => 0 <=? v | _ => true end.
Definition op_wf (o : gop) : bool :=
  match o with
  | Begin _ e => forallb recv_wf (be_recv e) && forallb xenv_wf (be_ext e)
  | _ => true
  end.

(* histories without lend programs (the only program kind with a known-finding class left) *)
Definition no_lend_op (o : gop) : bool :=
  match o with
  | ExtCreate kind _ _ _ _ _ _ _ => negb (kind =? 2)
  | _ => true
  end.

(* ---------------- the life of one gauge: any sequence of trigger attempts ---------------- *)
(* state: gauge, module balance, total received so far; an attempt that fails changes nothing *)
Definition life_step (st : gauge * Z * Z) (ev : Z * (Z -> outcome pays)) : gauge * Z * Z :=
  let '(g, bal, acc) := st in
  match trigger (fst ev) (snd ev) bal g with
  | Ok (g', bal', paid) => (g', bal', acc + pay_total paid)
  | _ => st
  end.
Definition fresh_gauge (dep total start dur denom : Z) : gauge := mkGauge dep 0 0 total true start dur false denom.
Definition alloc_sum (sp : list Z) (k : Z) : Z := zsum (firstn (Z.to_nat k) sp).

(* ---------------- property predicates on the IMPLEMENTATION's observations ---------------- *)
Definition holds_C19_split (total epochs : Z) (sp : list Z) : bool :=
  if (1 <=? epochs) && (epochs <=? total) then
    (zsum sp =? total) && (zlen sp =? epochs) &&
    forallb (fun x => (x =? total / epochs) || (x =? total / epochs + 1)) sp
  else if total <? epochs then match sp with [] => true | _ => false end else true.

(* one gauge over one BeginBlocker: before / after records; [alloc] = the allocation of the epoch
   that was due (for a swap-fee gauge: the deposit it started with) *)
Definition holds_C19_trigger (g g' : gauge) (alloc : Z) : bool :=
  let d := g_distributed g' - g_distributed g in
  (0 <=? d) &&
  (d <=? (if negb (g_swap g) && (g_triggered g' =? g_triggered g) then 0 else alloc)) &&
  ((g_triggered g' =? g_triggered g) || (g_triggered g' =? g_triggered g + 1)) &&
  (if g_swap g then 0 <=? g_deposit g'
   else (g_distributed g' <=? g_deposit g') && (g_triggered g' <=? g_total g') && (g_deposit g' =? g_deposit g)).

(* one BeginBlocker, one denom: what the receivers got (sum of balance deltas) is covered by what
   the gauges / programs booked, and the custody balance moved by exactly that (plus the swap fees
   it received) *)
Definition holds_C19_paid (paid booked recv bal bal' : Z) : bool :=
  (0 <=? paid) && (paid <=? booked) && (bal' =? bal - paid + recv).

Definition holds_C19_custody (d bal : Z) (gs : list gauge) (xs : list ext) : bool :=
  forallb (fun x => negb (x_denom x =? d) || (0 <=? x_avail x)) xs && (owed_active d gs xs <=? bal).

(* payout_i <= pro-rata share * (1 + 10^-12):  payout * total * 10^12 <= coins * s_i * (10^12 + 1)
   (total, s_i scaled Decs, their ratio is scale-free; coins integer); when nobody has an eligible
   value (total = 0) there is no pro-rata share and nothing may be paid *)
Definition holds_C19_share (coins total s payout : Z) : bool :=
  (0 <=? payout) &&
  (if total <=? 0 then payout =? 0 else payout * total * 1000000000000 <=? coins * s * 1000000000001).

(* ==================================================================================================== *)
(* Stable-mint external reward programs (additive extension).                                            *)
(* x/rewards/keeper/iter.go CombinePSMUserPositions (345-384), DistributeExtRewardStableVault (390-487),  *)
(* keeper.go ActExternalRewardsStableVaults (351-394), msg_server.go ExternalRewardsStableMint (120-142), *)
(* abci.go steps 5 and 6.  Heights are block heights.                                                     *)
(* ==================================================================================================== *)

(* sx_next / sx_count: StartingTime / Count of the program's EpochTime record; sx_accept: AcceptedBlockHeight *)
Record sext := mkSExt { sx_app : Z; sx_denom : Z; sx_avail : Z; sx_active : bool; sx_days : Z; sx_count : Z;
                        sx_next : Z; sx_accept : Z }.
(* one StableMintVaultRewards entry (user, BlockHeight, Amount) of the program's app, and - environment -
   what the user holds of the minted asset: bank balance + amount farmed in the cswap app + amount lent
   + locker balance (the four lookups of 431-446) *)
Record srec := mkSRec { sr_acct : Z; sr_height : Z; sr_amount : Z; sr_hold : Z }.
Definition srec_key_eq (a b : srec) : bool := (sr_acct a =? sr_acct b) && (sr_height a =? sr_height b).

(* CombinePSMUserPositions, one program (its AcceptedBlockHeight) over the entries of its app at height h:
   for every entry of the list read at the start that is older than [accept] and still stored, every OTHER
   entry of the same user that is older than [accept] is added to it and deleted; the entry is stored with
   the amount it had in the list plus what was added *)
Definition mergeable (h accept : Z) (r i : srec) : bool :=
  (sr_acct i =? sr_acct r) && (accept <? h - sr_height i) && negb (sr_height i =? sr_height r).
Fixpoint combine_loop (h accept : Z) (snapshot store : list srec) : list srec :=
  match snapshot with
  | [] => store
  | r :: rest =>
      if (accept <? h - sr_height r) && existsb (srec_key_eq r) store then
        let extra := zsum (map sr_amount (filter (mergeable h accept r) store)) in
        let kept := filter (fun i => negb (mergeable h accept r i)) store in
        combine_loop h accept rest
          (map (fun i => if srec_key_eq r i then mkSRec (sr_acct r) (sr_height r) (sr_amount r + extra) (sr_hold i) else i) kept)
      else combine_loop h accept rest store
  end.
Definition combine_psm (h accept : Z) (recs : list srec) : list srec := combine_loop h accept recs recs.

(* the entries program-by-program: every program (active or not) whose app is [app] makes one pass *)
Definition combined_for (h : Z) (all : list sext) (app : Z) (recs : list srec) : list srec :=
  fold_left (fun rs x => if sx_app x =? app then combine_psm h (sx_accept x) rs else rs) all recs.

(* finalDailyRewards of one entry: share = NewDec(eligible.Int64()).Quo(NewDecFromInt(totalMinted)),
   epochRewards = NewDec(available.Int64()).Quo(NewDec(daysLeft)), share.Mul(epochRewards).TruncateInt().
   The share is rounded to 18 decimals before it is multiplied (the pattern of the former C19-F3); here
   that cannot overdraw because every entry is paid out of what the entries before it left. *)
Definition stable_final (avail dleft total elig : Z) : outcome Z :=
  match int64_c elig, int64_c avail with
  | Some e, Some a =>
      if total =? 0 then Panic else
      Ok (dtrunc_int (dmul (dquo (dec_of_int e) (dec_of_int total)) (dquo (dec_of_int a) (dec_of_int dleft))))
  | _, _ => Panic
  end.

(* eligibleRewardAmt: the entry's amount, or the user's holdings when they are smaller - and never more
   than the total minted (fix C19-F5: redemptions by OTHER holders lower the total but not this entry,
   and the share eligible / total was then more than the whole) *)
Definition stable_elig (total : Z) (r : srec) : Z :=
  let e := if sr_amount r <=? sr_hold r then sr_amount r else sr_hold r in
  if total <? e then total else e.

(* the loop over the entries of the program's app.  AvailableRewards is lowered and stored entry by entry,
   and the NEXT entry's epoch rewards are computed from the lowered amount; a send that the module account
   cannot cover is skipped together with the bookkeeping of that entry; once Count >= DurationDays the
   first entry deactivates the program.  Result: module balance, AvailableRewards, IsActive, receipts. *)
Fixpoint stable_loop (x : sext) (h total : Z) (recs : list srec) (bal avail : Z) (active : bool) : outcome (Z * Z * bool * pays) :=
  match recs with
  | [] => Ok (bal, avail, active, [])
  | r :: rest =>
      if negb active then stable_loop x h total rest bal avail active
      else if sx_count x <? sx_days x then
        if negb (sx_count x =? sx_days x - 1) && (h - sr_height r <? sx_accept x) then stable_loop x h total rest bal avail active
        else
          match stable_final avail (sx_days x - sx_count x) total (stable_elig total r) with
          | Panic => Panic | Err c => Err c
          | Ok f =>
              if (0 <? f) && (f <=? bal) then
                match stable_loop x h total rest (bal - f) (avail - f) active with
                | Ok (b, a, act, ps) => Ok (b, a, act, (sr_acct r, f) :: ps)
                | Err c => Err c | Panic => Panic
                end
              else stable_loop x h total rest bal avail active
          end
      else stable_loop x h total rest bal avail false
  end.

(* one program.  The EpochTime record is advanced for EVERY program at EVERY call (Count + 1,
   StartingTime = now + one day), whether or not anything was due *)
Definition stable_tick (now h total : Z) (recs : list srec) (bal : Z) (x : sext) : outcome (sext * Z * pays) :=
  match (if sx_active x && (sx_next x <? now) then stable_loop x h total recs bal (sx_avail x) true
         else Ok (bal, sx_avail x, sx_active x, [])) with
  | Ok (bal', avail', act', paid) =>
      Ok (mkSExt (sx_app x) (sx_denom x) avail' act' (sx_days x) (sx_count x + 1) (now + DAY) (sx_accept x), bal', paid)
  | Err c => Err c
  | Panic => Panic
  end.

(* DistributeExtRewardStableVault: the programs in id order; [se]: per program (positional) the total
   TokenMintedAmount of the app's stable-mint pairs and the entries of its app as they were BEFORE the
   hook (CombinePSMUserPositions, step 5, has run on them when step 6 reads them).  No kill-switch / ESM check. *)
Definition hd_senv (l : list (Z * list srec)) : Z * list srec := match l with e :: _ => e | [] => (0, []) end.
Fixpoint run_stables (now h : Z) (all xs : list sext) (se : list (Z * list srec)) (b : bank) : outcome (list sext * bank * dpays) :=
  match xs with
  | [] => Ok ([], b, [])
  | x :: rest =>
      let '(total, recs) := hd_senv se in
      match stable_tick now h total (combined_for h all (sx_app x) recs) (b (sx_denom x)) x with
      | Panic => Panic | Err c => Err c
      | Ok (x', bal', paid) =>
          match run_stables now h all rest (tl se) (bset b (sx_denom x) bal') with
          | Ok (xs', b', ps) => Ok (x' :: xs', b', tag (sx_denom x) paid ++ ps)
          | Err c => Err c | Panic => Panic
          end
      end
  end.

(* the rewards module with stable-mint programs *)
Record rstate2 := mkR2 { r2_base : rstate; r2_sx : list sext }.
Inductive gop2 :=
| Base (o : gop)                                        (* every op of [gop] except Begin *)
| SCreate (app denom total days accept now funds : Z) (ok : bool)
    (* ActivateExternalRewardsStableMint; ok = neither the kill switch nor the ESM status of the app is on *)
| Begin2 (now : Z) (e : benv) (h : Z) (se : list (Z * list srec)).

(* rewards.BeginBlocker in full: steps 1-4 as [begin_block]; step 5 (CombinePSMUserPositions) changes only
   the vault module's entries (computed by [combined_for] where they are read); step 6 in its own wrapper *)
Definition begin_block2 (now : Z) (e : benv) (h : Z) (se : list (Z * list srec)) (s : rstate2) : outcome (rstate2 * dpays) :=
  match begin_block now e (r2_base s) with
  | Panic => Panic | Err c => Err c
  | Ok (s1, p1) =>
      let '(sx', b', p2) := sub_step (run_stables now h (r2_sx s) (r2_sx s) se (r_bal s1)) (r2_sx s) (r_bal s1) in
      Ok (mkR2 (mkR b' (r_gauges s1) (r_epochs s1) (r_exts s1)) sx', p1 ++ p2)
  end.

Definition rstep2 (s : rstate2) (o : gop2) : outcome (rstate2 * dpays) :=
  match o with
  | Base (Begin _ _) => Err 1
  | Base o' => match rstep (r2_base s) o' with
               | Ok (b', ps) => Ok (mkR2 b' (r2_sx s), ps) | Err c => Err c | Panic => Panic end
  | SCreate app d total days accept now funds ok =>
      if (app <=? 0) || (total <=? 0) || (days <=? 0) || (accept <=? 0) || negb ok || (funds <? total) then Err 1
      else let b := r2_base s in
           Ok (mkR2 (mkR (bset (r_bal b) d (r_bal b d + total)) (r_gauges b) (r_epochs b) (r_exts b))
                    (r2_sx s ++ [mkSExt app d total true days 0 (now + DAY) accept]), [])
  | Begin2 now e h se => begin_block2 now e h se s
  end.
Definition rapply2 (s : rstate2) (o : gop2) : rstate2 := match rstep2 s o with Ok (s', _) => s' | _ => s end.
Definition rrun2 (s : rstate2) (ops : list gop2) : rstate2 := fold_left rapply2 ops s.
Definition rinit2 : rstate2 := mkR2 rinit [].

Definition owed_sx (d : Z) (xs : list sext) : Z := zsum (map (fun x => if sx_denom x =? d then sx_avail x else 0) xs).
Definition owed2 (d : Z) (s : rstate2) : Z := owed d (r2_base s) + owed_sx d (r2_sx s).
Definition owed_sx_active (d : Z) (xs : list sext) : Z :=
  zsum (map (fun x => if (sx_denom x =? d) && sx_active x then sx_avail x else 0) xs).
Definition holds_C19_custody2 (d bal : Z) (gs : list gauge) (xs : list ext) (sxs : list sext) : bool :=
  forallb (fun x => negb (x_denom x =? d) || (0 <=? x_avail x)) xs &&
  forallb (fun x => negb (sx_denom x =? d) || (0 <=? sx_avail x)) sxs &&
  (owed_active d gs xs + owed_sx_active d sxs <=? bal).

(* well-formed stable-mint environment: entry amounts and holdings are not negative (sdk.Int amounts of
   coins and balances) and the recorded total is not negative *)
Definition senv_wf (e : Z * list srec) : bool :=
  (0 <=? fst e) && forallb (fun r => (0 <=? sr_amount r) && (0 <=? sr_hold r)) (snd e).
Definition op_wf2 (o : gop2) : bool :=
  match o with
  | Base o' => op_wf o'
  | SCreate _ _ _ _ _ _ _ _ => true
  | Begin2 now e h se => op_wf (Begin now e) && forallb senv_wf se
  end.

(* the known-finding class C19-F4 (lend programs) lifted to the extended histories *)
Definition kf_step2 (s : rstate2) (o : gop2) : bool :=
  match o with Begin2 now e _ _ => kf4_begin now e (r2_base s) | _ => false end.
Fixpoint run_clean2 (s : rstate2) (ops : list gop2) : bool :=
  match ops with
  | [] => true
  | o :: rest => negb (kf_step2 s o) && run_clean2 (rapply2 s o) rest
  end.

(* ==================================================================================================== *)
(* The liquidity metadata of a gauge and the eligibility it defines.                                     *)
(* x/rewards/keeper/gauge.go NewGauge (stores the PoolId / IsMasterPool / ChildPoolIds the message       *)
(* carried), x/liquidity/keeper/rewards.go GetFarmingRewardsData (212-232: the child pools of a master   *)
(* gauge), GetAggregatedChildPoolContributions (117-162).                                                *)
(* ==================================================================================================== *)

(* what MsgCreateGauge carried: the gauge is created with exactly this *)
Record gmeta := mkMeta { m_pool : Z; m_master : bool; m_child : list Z }.

(* the child pools GetFarmingRewardsData uses: the listed ones other than the gauge's own pool; an EMPTY
   list means "every other enabled pool of the app" ([others]: recorded environment) *)
Definition child_ids (m : gmeta) (others : list Z) : list Z :=
  match m_child m with
  | [] => others
  | l => filter (fun p => negb (p =? m_pool m)) l
  end.

(* one active farmer of the gauge's pool as observed: (account, farmed value in the gauge's pool, farmed
   values in the app's other pools as (pool id, value)) *)
Definition fobs := (Z * Z * list (Z * Z))%type.
Definition fo_acct (o : fobs) : Z := fst (fst o).
Definition fo_value (o : fobs) : Z := snd (fst o).
Definition fo_others (o : fobs) : list (Z * Z) := snd o.

(* GetAggregatedChildPoolContributions: the pool ids are visited in order (a pool listed twice counts twice) *)
Definition child_value (ids : list Z) (vals : list (Z * Z)) : Z :=
  zsum (map (fun pid => zsum (map snd (filter (fun pv => fst pv =? pid) vals))) ids).

(* the environment of one gauge computed from ITS metadata and the per-pool observations: a master gauge with
   at least one child pool pays by min(master value, value in the child pools); otherwise by the master value *)
Definition farm_env_of (m : gmeta) (others : list Z) (obs : list fobs) : farm_env :=
  let fs := map (fun o => (fo_acct o, fo_value o)) obs in
  if m_master m then
    match child_ids m others with
    | [] => FarmPlain fs
    | ids => FarmMaster fs (map (fun o => child_value ids (fo_others o)) obs)
    end
  else FarmPlain fs.

(* the stored record against the message: same pool, same flag, same child list *)
Definition meta_eqb (a b : gmeta) : bool :=
  (m_pool a =? m_pool b) && Bool.eqb (m_master a) (m_master b) &&
  (zlen (m_child a) =? zlen (m_child b)) && forallb (fun pq => fst pq =? snd pq) (combine (m_child a) (m_child b)).

(* ==================================================================================================== *)
(* The swap-fee branch with the DENOMS of the deposited / distributed coins (additive extension).        *)
(* x/rewards/keeper/gauge.go InitateGaugesForDuration 257-297 when the liquidity parameter                *)
(* SwapFeeDistrDenom changes between epochs: TransferFundsForSwapFeeDistribution hands over a coin of     *)
(* the CURRENT parameter's denom; the gauge's DepositAmount / DistributedAmount are sdk.Coins:            *)
(*   272  DepositAmount = DepositAmount.Sub(coinsDistributed)        (always, in the deposit's denom)     *)
(*   275  DistributedAmount.Denom == coinsDistributed.Denom ? add the amount : REPLACE the coin           *)
(*   291  DepositAmount.Denom == receivedAmount.Denom ? add : REPLACE (what was left of the old denom is  *)
(*        dropped from the books and stays in the module account)                                         *)
(* g_denom of the wrapped record is DepositAmount.Denom, dg_ddenom is DistributedAmount.Denom.            *)
(* ==================================================================================================== *)
Record dgauge := mkDG { dg_g : gauge; dg_ddenom : Z }.

(* 272-279: the distribution is booked *)
Definition dg_booked (dg : dgauge) (tot : Z) : dgauge :=
  let g := dg_g dg in
  mkDG (mkGauge (g_deposit g - tot) (if dg_ddenom dg =? g_denom g then g_distributed g + tot else tot) (g_triggered g)
                (g_total g) (g_active g) (g_start g) (g_dur g) (g_swap g) (g_denom g)) (g_denom g).
(* 291-296: the fees of this epoch are taken in *)
Definition dg_received (dg : dgauge) (rd r : Z) : dgauge :=
  let g := dg_g dg in
  mkDG (mkGauge (if g_denom g =? rd then g_deposit g + r else r) (g_distributed g) (g_triggered g + 1)
                (g_total g) (g_active g) (g_start g) (g_dur g) (g_swap g) rd) (dg_ddenom dg).

(* [recv]: (denom, amount) of the coin TransferFundsForSwapFeeDistribution returns (credited to the module
   account by that call).  Nothing is booked when the deposit is not positive (265) *)
Definition trigger_swap_d (calc : Z -> outcome pays) (recv : outcome (Z * Z)) (b : bank) (dg : dgauge)
  : outcome (dgauge * bank * dpays) :=
  let g := dg_g dg in
  let dd := g_denom g in
  let dist :=
    if 0 <? g_deposit g then
      match distribute calc (g_deposit g) (b dd) with
      | Panic => Panic | Err c => Err c
      | Ok None => Ok None
      | Ok (Some (tot, bal', paid)) => Ok (Some (dg_booked dg tot, bset b dd bal', tag dd paid))
      end
    else Ok (Some (dg, b, [])) in
  match dist with
  | Panic => Panic | Err c => Err c
  | Ok None => Ok (dg, b, [])
  | Ok (Some (dg1, b1, paid)) =>
      match recv with
      | Panic => Panic
      | Err _ => Ok (dg1, b1, paid)
      | Ok (rd, r) => Ok (dg_received dg1 rd r, bset b1 rd (b1 rd + r), paid)
      end
  end.

(* one pass of the loop body: an ordinary gauge keeps its denoms *)
Definition trigger_d (now : Z) (calc : Z -> outcome pays) (recv : outcome (Z * Z)) (b : bank) (dg : dgauge)
  : outcome (dgauge * bank * dpays) :=
  if g_swap (dg_g dg) then trigger_swap_d calc recv b dg
  else match trigger now calc (b (g_denom (dg_g dg))) (dg_g dg) with
       | Ok (g', bal', paid) => Ok (mkDG g' (dg_ddenom dg), bset b (g_denom (dg_g dg)) bal', tag (g_denom (dg_g dg)) paid)
       | Err c => Err c | Panic => Panic
       end.

Definition hd_recvd (l : list (outcome (Z * Z))) : outcome (Z * Z) := match l with e :: _ => e | [] => Err 1 end.

Fixpoint run_gauges_d (now dur : Z) (gs : list dgauge) (fe : list farm_env) (rv : list (outcome (Z * Z))) (b : bank)
  : outcome (list dgauge * bank * dpays) :=
  match gs with
  | [] => Ok ([], b, [])
  | g :: rest =>
      if g_dur (dg_g g) =? dur then
        match trigger_d now (farm_calc (hd_farm fe)) (hd_recvd rv) b g with
        | Panic => Panic | Err c => Err c
        | Ok (g', b1, paid) =>
            match run_gauges_d now dur rest (tl fe) (tl rv) b1 with
            | Ok (gs', b', ps) => Ok (g' :: gs', b', paid ++ ps)
            | Err c => Err c | Panic => Panic
            end
        end
      else match run_gauges_d now dur rest (tl fe) (tl rv) b with
           | Ok (gs', b', ps) => Ok (g :: gs', b', ps)
           | Err c => Err c | Panic => Panic
           end
  end.

Record dstate := mkD { d_bal : bank; d_gauges : list dgauge }.
Inductive dop :=
| DCreate (denom dep total start now dur funds : Z) (meta_ok : bool)      (* MsgCreateGauge, as [Create] *)
| DCreateSwap (denom now dur : Z)                                          (* CreatePool: denom = SwapFeeDistrDenom then *)
| DTrigger (now dur : Z) (fe : list farm_env) (rv : list (outcome (Z * Z)))  (* InitateGaugesForDuration *)
| DDonate (denom amt : Z).

Definition dstep (s : dstate) (o : dop) : outcome (dstate * dpays) :=
  match o with
  | DCreate d dep total start now dur funds meta_ok =>
      if (dur <=? 0) || (dep <=? 0) || (dep <? total) || (dur <? MIN_EPOCH_DUR) || (start <? now) || negb meta_ok
         || (funds <? dep) then Err 1
      else Ok (mkD (bset (d_bal s) d (d_bal s d + dep)) (d_gauges s ++ [mkDG (mkGauge dep 0 0 total true start dur false d) d]), [])
  | DCreateSwap d now dur => Ok (mkD (d_bal s) (d_gauges s ++ [mkDG (mkGauge 0 0 0 1 true now dur true d) d]), [])
  | DTrigger now dur fe rv =>
      match run_gauges_d now dur (d_gauges s) fe rv (d_bal s) with
      | Ok (gs, b, ps) => Ok (mkD b gs, ps)
      | Err c => Err c | Panic => Panic
      end
  | DDonate d a => if a <? 0 then Err 1 else Ok (mkD (bset (d_bal s) d (d_bal s d + a)) (d_gauges s), [])
  end.
Definition dapply (s : dstate) (o : dop) : dstate := match dstep s o with Ok (s', _) => s' | _ => s end.
Definition drun (s : dstate) (ops : list dop) : dstate := fold_left dapply ops s.
Definition dinit : dstate := mkD (fun _ => 0) [].

(* a coin handed over by the fee transfer is not negative *)
Definition recvd_wf (r : outcome (Z * Z)) : bool := match r with Ok (_, v) => 0 <=? v | _ => true end.
Definition dop_wf (o : dop) : bool := match o with DTrigger _ _ _ rv => forallb recvd_wf rv | _ => true end.

(* one gauge over one InitateGaugesForDuration, with the denoms: what was booked is read off the distributed
   coin (a REPLACED coin is what was booked), it is at most the deposit the gauge started with, and what is
   left of the deposit is the old deposit minus what was booked - in the old denom - or, after a denom change,
   exactly what was received *)
Definition dg_booked_amt (dg dg' : dgauge) : Z :=
  if dg_ddenom dg' =? dg_ddenom dg then g_distributed (dg_g dg') - g_distributed (dg_g dg) else g_distributed (dg_g dg').
Definition holds_C19_trigger_d (dg dg' : dgauge) (recv : Z) : bool :=
  let g := dg_g dg in let g' := dg_g dg' in
  if g_swap g then
    let bk := dg_booked_amt dg dg' in
    (0 <=? bk) && (bk <=? Z.max 0 (g_deposit g)) && (0 <=? g_deposit g') &&
    ((g_triggered g' =? g_triggered g) || (g_triggered g' =? g_triggered g + 1)) &&
    (if g_denom g' =? g_denom g then g_deposit g' =? g_deposit g - bk + recv else g_deposit g' =? recv)
  else (g_denom g' =? g_denom g) && (dg_ddenom dg' =? dg_ddenom dg) &&
       holds_C19_trigger g g' (epoch_allocation g).
