(* The book the keeper hands to the matching engine (keeper/swap.go:606-666 ExecuteMatching): every stored order
   of the pair that is put on the book becomes the amm order types.NewUserOrder builds from its record
   ([Liquidity.user_order_amm]: amount = min(open amount, what the REMAINING offer coin buys), offer coin bound
   = the REMAINING offer coin, nothing paid / received yet), followed by the pool orders (amm.PoolOrders; an
   input here, as in Model/AMM.v).  Definitions only; proofs in Proofs/LiquidityMatchProofs.v. *)
From Comdex Require Import Lib.Base Lib.DecArith.
From Comdex Require Model.AMM Model.Liquidity.

Definition amm_order (pos : nat) (o : Liquidity.order) : AMM.order :=
  let a := Liquidity.user_order_amm o in
  AMM.mkOrder pos (if Liquidity.ai_buy a then AMM.Buy else AMM.Sell) (Liquidity.ai_price a) (Liquidity.ai_amt a)
              (Liquidity.ai_offer a) (Liquidity.ai_amt a) 0 0 (Liquidity.ai_batch a) (Liquidity.ai_key a).

Fixpoint amm_orders (pos : nat) (os : list Liquidity.order) : list AMM.order :=
  match os with [] => [] | o :: r => amm_order pos o :: amm_orders (S pos) r end.

(* the user part of the book: the stored orders that ExecuteMatching's first loop puts on it, in store order *)
Definition book_orders (now : Z) (os : list Liquidity.order) : list Liquidity.order := filter (Liquidity.on_book now) os.
Definition keeper_book (now : Z) (os : list Liquidity.order) (pool_orders : list AMM.order) : list AMM.order :=
  amm_orders O (book_orders now os) ++ pool_orders.

(* the fill of a stored order read off the engine's result for it: (matched amount, paid offer coin, received) *)
Definition fill_of (o : Liquidity.order) (a' : AMM.order) : Z * Z * Z :=
  (Liquidity.ai_amt (Liquidity.user_order_amm o) - AMM.o_open a', AMM.o_paid a', AMM.o_recv a').

(* the same record handed over with its ORIGINAL offer coin as the bound (what a construction that ignores the
   fills of earlier batches would do): used only by the counter-example that the remaining offer coin is needed *)
Definition amm_order_original (pos : nat) (o : Liquidity.order) : AMM.order :=
  let a := Liquidity.user_order_amm o in
  AMM.mkOrder pos (if Liquidity.ai_buy a then AMM.Buy else AMM.Sell) (Liquidity.ai_price a) (Liquidity.ai_amt a)
              (Liquidity.o_offer o) (Liquidity.ai_amt a) 0 0 (Liquidity.ai_batch a) (Liquidity.ai_key a).
