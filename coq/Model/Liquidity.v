(* Model of x/liquidity: order life cycle (keeper/swap.go, batch.go, store.go, types/order.go,
   types/util.go, amm/tick.go, amm/util.go) and custody (keeper/pool.go, rewards.go, abci.go),
   statement by statement.  The matching engine (amm.Match / FindMatchPrice, property C05) and the
   pool share arithmetic (amm.Deposit / Withdraw / Create*Pool, property C06) are NOT modelled here:
   their results enter as ENV inputs recorded from the implementation ([batch_env], [dep_env] ...).
   Definitions only; proofs in Proofs/LiquidityProofs*.v. *)
From Comdex Require Import Lib.Base Lib.DecArith.

(* ------------------------------------------------------------------------------------------ *)
(* accounts, ledger                                                                             *)
Inductive acct :=
| User (n : Z) | Escrow (app pair : Z) | SwapFee (app pair : Z) | GlobalEscrow | Module
| Reserve (app pool : Z) | Dust (app : Z) | FeeColl (app : Z).

Definition acct_eqb (a b : acct) : bool :=
  match a, b with
  | User x, User y => x =? y
  | Escrow a1 p1, Escrow a2 p2 => (a1 =? a2) && (p1 =? p2)
  | SwapFee a1 p1, SwapFee a2 p2 => (a1 =? a2) && (p1 =? p2)
  | GlobalEscrow, GlobalEscrow => true
  | Module, Module => true
  | Reserve a1 p1, Reserve a2 p2 => (a1 =? a2) && (p1 =? p2)
  | Dust a1, Dust a2 => a1 =? a2
  | FeeColl a1, FeeColl a2 => a1 =? a2
  | _, _ => false
  end.

Definition is_escrow (a : acct) : bool := match a with Escrow _ _ => true | _ => false end.
(* accounts outside the custody accounts of the order / request / farming flows *)
Definition is_outside (a : acct) : bool := match a with User _ | Reserve _ _ | Dust _ => true | _ => false end.

Definition ledger := acct -> Z -> Z.                 (* account -> denom -> amount *)
Definition ladd (l : ledger) (a : acct) (d x : Z) : ledger :=
  fun a' d' => if acct_eqb a a' && (d =? d') then l a' d' + x else l a' d'.

(* bankKeeper.SendCoins of one coin.  sdk.NewCoin panics on a negative amount; sdk.NewCoins drops a
   zero coin (sending nothing succeeds); insufficient funds is an error. *)
Definition send (l : ledger) (from to : acct) (d x : Z) : outcome ledger :=
  if x <? 0 then Panic
  else if x =? 0 then Ok l
  else if l from d <? x then Err 5
  else Ok (ladd (ladd l from d (- x)) to d x).

Definition pool_denom (app pool : Z) : Z := 1000 + app * 100 + pool.   (* "pool<app>-<pool>" *)

(* ------------------------------------------------------------------------------------------ *)
(* amm/tick.go                                                                                  *)
Fixpoint ndigits (fuel : nat) (x : Z) : Z :=
  match fuel with
  | O => 1
  | S f => if x <? 10 then 1 else 1 + ndigits f (x / 10)
  end.
Definition char (x : Z) : Z := ndigits 120 x - 1.               (* char(); x > 0 *)

Definition pdown (price prec : Z) : Z :=                        (* PriceToDownTick *)
  let d := char price - prec in
  if d >? 0 then (price / 10 ^ d) * 10 ^ d else price.
Definition pup (price prec : Z) : Z :=                          (* PriceToUpTick *)
  let t := pdown price prec in
  if t =? price then t else t + 10 ^ (char t - prec).
Definition highest_tick (prec : Z) : Z := pdown (2 ^ 300 - 1) prec.
Definition lowest_tick (prec : Z) : Z := 10 ^ prec.
Definition price_limits (last ratio prec : Z) : Z * Z :=        (* types.PriceLimits *)
  (pup (dmul last (P18 - ratio)) prec, pdown (dmul last (P18 + ratio)) prec).

Definition min_coin : Z := 100.
Definition max_coin : Z := 10 ^ 40.

(* amm.OfferCoinAmount *)
Definition offer_amt (buy : bool) (price amt : Z) : Z :=
  if buy then dceil_int (dmul_int price amt) else amt.
(* types.IsTooSmallOrderAmount *)
Definition too_small (amt price : Z) : bool :=
  (amt <? min_coin) || (dmul_int price amt <? dec_of_int min_coin).
(* CalculateSwapFeeAmount *)
Definition fee_amt (rate amt : Z) : Z := dtrunc_int (dmul_trunc (dec_of_int amt) rate).

(* ------------------------------------------------------------------------------------------ *)
(* records                                                                                      *)
Record params := mkParams {
  pr_fee_rate : Z; pr_tick : Z; pr_ratio : Z; pr_max_life : Z; pr_mm_ticks : Z;
  pr_fee_denom : Z; pr_pair_fee : Z; pr_pool_fee : Z; pr_min_pc : Z; pr_min_dep : Z;
  pr_max_pools : Z; pr_batch : Z; pr_queue_dur : Z }.

Record pair := mkPair {
  p_app : Z; p_id : Z; p_base : Z; p_quote : Z; p_last_order : Z; p_last_price : option Z; p_batch : Z }.

(* status: 1 NotExecuted 2 NotMatched 3 PartiallyMatched 4 Completed 5 Canceled 6 Expired
   type:   1 limit 2 market 3 market-making *)
Record order := mkOrder {
  o_app : Z; o_pair : Z; o_id : Z; o_owner : Z; o_buy : bool; o_type : Z;
  o_odenom : Z; o_ddenom : Z; o_offer : Z; o_rem : Z; o_recv : Z; o_price : Z;
  o_amt : Z; o_open : Z; o_batch : Z; o_expire : Z; o_status : Z }.

(* ghost per order: what was taken from / returned to the orderer, forwarded to the fee collector,
   and the fills applied so far (matched amount, paid offer coin, received demand coin) *)
Record ghost := mkGhost {
  g_taken : Z; g_ret_offer : Z; g_ret_fee : Z; g_recv : Z; g_fee_fwd : Z; g_fills : list (Z * Z * Z) }.

Definition entry := (order * ghost)%type.

Record mmindex := mkMM { mi_app : Z; mi_owner : Z; mi_pair : Z; mi_ids : list Z }.

Record pool := mkPool {
  pl_app : Z; pl_id : Z; pl_pair : Z; pl_ranged : bool; pl_disabled : bool; pl_last_dep : Z; pl_last_wd : Z }.

(* request status: 1 NotExecuted 2 Succeeded 3 Failed *)
(* [d_x] of denom [d_xd] (the pair's quote coin) and [d_y] of denom [d_yd] (base coin) = msg.DepositCoins *)
Record depreq := mkDep {
  d_app : Z; d_pool : Z; d_id : Z; d_owner : Z; d_x : Z; d_y : Z; d_xd : Z; d_yd : Z;
  d_ax : Z; d_ay : Z; d_pc : Z; d_status : Z }.
Record wdreq := mkWd {
  w_app : Z; w_pool : Z; w_id : Z; w_owner : Z; w_pc : Z; w_x : Z; w_y : Z; w_status : Z }.
Record qfarmer := mkQF { q_app : Z; q_pool : Z; q_owner : Z; q_coins : list (Z * Z) }.  (* amount, created-at *)
Record afarmer := mkAF { a_app : Z; a_pool : Z; a_owner : Z; a_amt : Z }.

Record state := mkState {
  apps : list (Z * params); assets : list Z;
  pairs : list pair; last_pair : list (Z * Z);
  orders : list entry; mmidx : list mmindex;
  pools : list pool; last_pool : list (Z * Z);
  deps : list depreq; wds : list wdreq; qfs : list qfarmer; afs : list afarmer;
  led : ledger; sup : Z -> Z -> Z;                    (* supply of the pool coin of pool (app, id) *)
  (* ghost: what each pair escrow owes to its live orders (remaining offer + unreleased fee
     reserve), and the net of the recorded fills that went through it *)
  owed : Z -> Z -> Z -> Z; surplus : Z -> Z -> Z -> Z;
  (* ghost: coins of the pending deposit / withdrawal requests per denom; pool coins recorded as farmed per pool-coin denom *)
  ge_owed : Z -> Z; farmed : Z -> Z }.

Definition init : state :=
  mkState [] [] [] [] [] [] [] [] [] [] [] [] (fun _ _ => 0) (fun _ _ => 0) (fun _ _ _ => 0) (fun _ _ _ => 0) (fun _ => 0) (fun _ => 0).

Definition set_apps (s : state) v := mkState v (assets s) (pairs s) (last_pair s) (orders s) (mmidx s) (pools s) (last_pool s) (deps s) (wds s) (qfs s) (afs s) (led s) (sup s) (owed s) (surplus s) (ge_owed s) (farmed s).
Definition set_assets (s : state) v := mkState (apps s) v (pairs s) (last_pair s) (orders s) (mmidx s) (pools s) (last_pool s) (deps s) (wds s) (qfs s) (afs s) (led s) (sup s) (owed s) (surplus s) (ge_owed s) (farmed s).
Definition set_pairs (s : state) v := mkState (apps s) (assets s) v (last_pair s) (orders s) (mmidx s) (pools s) (last_pool s) (deps s) (wds s) (qfs s) (afs s) (led s) (sup s) (owed s) (surplus s) (ge_owed s) (farmed s).
Definition set_last_pair (s : state) v := mkState (apps s) (assets s) (pairs s) v (orders s) (mmidx s) (pools s) (last_pool s) (deps s) (wds s) (qfs s) (afs s) (led s) (sup s) (owed s) (surplus s) (ge_owed s) (farmed s).
Definition set_orders (s : state) v := mkState (apps s) (assets s) (pairs s) (last_pair s) v (mmidx s) (pools s) (last_pool s) (deps s) (wds s) (qfs s) (afs s) (led s) (sup s) (owed s) (surplus s) (ge_owed s) (farmed s).
Definition set_mmidx (s : state) v := mkState (apps s) (assets s) (pairs s) (last_pair s) (orders s) v (pools s) (last_pool s) (deps s) (wds s) (qfs s) (afs s) (led s) (sup s) (owed s) (surplus s) (ge_owed s) (farmed s).
Definition set_pools (s : state) v := mkState (apps s) (assets s) (pairs s) (last_pair s) (orders s) (mmidx s) v (last_pool s) (deps s) (wds s) (qfs s) (afs s) (led s) (sup s) (owed s) (surplus s) (ge_owed s) (farmed s).
Definition set_last_pool (s : state) v := mkState (apps s) (assets s) (pairs s) (last_pair s) (orders s) (mmidx s) (pools s) v (deps s) (wds s) (qfs s) (afs s) (led s) (sup s) (owed s) (surplus s) (ge_owed s) (farmed s).
Definition set_deps (s : state) v := mkState (apps s) (assets s) (pairs s) (last_pair s) (orders s) (mmidx s) (pools s) (last_pool s) v (wds s) (qfs s) (afs s) (led s) (sup s) (owed s) (surplus s) (ge_owed s) (farmed s).
Definition set_wds (s : state) v := mkState (apps s) (assets s) (pairs s) (last_pair s) (orders s) (mmidx s) (pools s) (last_pool s) (deps s) v (qfs s) (afs s) (led s) (sup s) (owed s) (surplus s) (ge_owed s) (farmed s).
Definition set_qfs (s : state) v := mkState (apps s) (assets s) (pairs s) (last_pair s) (orders s) (mmidx s) (pools s) (last_pool s) (deps s) (wds s) v (afs s) (led s) (sup s) (owed s) (surplus s) (ge_owed s) (farmed s).
Definition set_afs (s : state) v := mkState (apps s) (assets s) (pairs s) (last_pair s) (orders s) (mmidx s) (pools s) (last_pool s) (deps s) (wds s) (qfs s) v (led s) (sup s) (owed s) (surplus s) (ge_owed s) (farmed s).
Definition set_led (s : state) v := mkState (apps s) (assets s) (pairs s) (last_pair s) (orders s) (mmidx s) (pools s) (last_pool s) (deps s) (wds s) (qfs s) (afs s) v (sup s) (owed s) (surplus s) (ge_owed s) (farmed s).
Definition set_sup (s : state) v := mkState (apps s) (assets s) (pairs s) (last_pair s) (orders s) (mmidx s) (pools s) (last_pool s) (deps s) (wds s) (qfs s) (afs s) (led s) v (owed s) (surplus s) (ge_owed s) (farmed s).
Definition set_owed (s : state) v := mkState (apps s) (assets s) (pairs s) (last_pair s) (orders s) (mmidx s) (pools s) (last_pool s) (deps s) (wds s) (qfs s) (afs s) (led s) (sup s) v (surplus s) (ge_owed s) (farmed s).
Definition set_surplus (s : state) v := mkState (apps s) (assets s) (pairs s) (last_pair s) (orders s) (mmidx s) (pools s) (last_pool s) (deps s) (wds s) (qfs s) (afs s) (led s) (sup s) (owed s) v (ge_owed s) (farmed s).
Definition set_ge_owed (s : state) v := mkState (apps s) (assets s) (pairs s) (last_pair s) (orders s) (mmidx s) (pools s) (last_pool s) (deps s) (wds s) (qfs s) (afs s) (led s) (sup s) (owed s) (surplus s) v (farmed s).
Definition set_farmed (s : state) v := mkState (apps s) (assets s) (pairs s) (last_pair s) (orders s) (mmidx s) (pools s) (last_pool s) (deps s) (wds s) (qfs s) (afs s) (led s) (sup s) (owed s) (surplus s) (ge_owed s) v.

Definition fadd3 (f : Z -> Z -> Z -> Z) (a p d x : Z) : Z -> Z -> Z -> Z :=
  fun a' p' d' => if (a =? a') && (p =? p') && (d =? d') then f a' p' d' + x else f a' p' d'.
Definition fadd1 (f : Z -> Z) (d x : Z) : Z -> Z := fun d' => if d =? d' then f d' + x else f d'.
Definition fadd2 (f : Z -> Z -> Z) (a p x : Z) : Z -> Z -> Z :=
  fun a' p' => if (a =? a') && (p =? p') then f a' p' + x else f a' p'.

(* a bank transfer on the state; [osend] = out of a pair escrow with the owed/surplus ghosts *)
Definition ssend (s : state) (from to : acct) (d x : Z) : outcome state :=
  match send (led s) from to d x with Ok l => Ok (set_led s l) | Err c => Err c | Panic => Panic end.

Notation "'do' x <- e ; f" := (obind e (fun x => f)) (at level 200, x name, e at level 100, f at level 200).

(* coins that enter / leave a pair escrow outside order placement and termination (fill proceeds,
   pool order legs, dust), with the ghost of the net recorded fills *)
Definition esc_in (s : state) (app pair : Z) (from : acct) (d x : Z) : outcome state :=
  do s' <- ssend s from (Escrow app pair) d x;
  Ok (set_surplus s' (fadd3 (surplus s') app pair d x)).
Definition esc_out (s : state) (app pair : Z) (to : acct) (d x : Z) : outcome state :=
  do s' <- ssend s (Escrow app pair) to d x;
  Ok (set_surplus s' (fadd3 (surplus s') app pair d (- x))).

(* ------------------------------------------------------------------------------------------ *)
(* small keyed stores (association lists; the KV store iterates in ascending key order)          *)
Fixpoint aget {A} (l : list (Z * A)) (k : Z) : option A :=
  match l with [] => None | (k', v) :: r => if k' =? k then Some v else aget r k end.
Fixpoint aset {A} (l : list (Z * A)) (k : Z) (v : A) : list (Z * A) :=
  match l with
  | [] => [(k, v)]
  | (k', w) :: r => if k' =? k then (k, v) :: r else if k <? k' then (k, v) :: (k', w) :: r else (k', w) :: aset r k v
  end.

Definition get_params (s : state) (app : Z) : option params := aget (apps s) app.

Definition key3 := (Z * Z * Z)%type.
Definition k3_eqb (a b : key3) : bool :=
  let '(a1, a2, a3) := a in let '(b1, b2, b3) := b in (a1 =? b1) && (a2 =? b2) && (a3 =? b3).
Definition k3_ltb (a b : key3) : bool :=
  let '(a1, a2, a3) := a in let '(b1, b2, b3) := b in
  (a1 <? b1) || ((a1 =? b1) && ((a2 <? b2) || ((a2 =? b2) && (a3 <? b3)))).

Definition okey (o : order) : key3 := (o_app o, o_pair o, o_id o).
Definition ekey (e : entry) : key3 := okey (fst e).

Fixpoint find_order (k : key3) (st : list entry) : option entry :=
  match st with [] => None | e :: r => if k3_eqb (ekey e) k then Some e else find_order k r end.
Fixpoint ins_order (e : entry) (st : list entry) : list entry :=
  match st with
  | [] => [e]
  | x :: r => if k3_eqb (ekey x) (ekey e) then e :: r
              else if k3_ltb (ekey e) (ekey x) then e :: x :: r else x :: ins_order e r
  end.
Definition upd_order (k : key3) (f : entry -> entry) (st : list entry) : list entry :=
  map (fun e => if k3_eqb (ekey e) k then f e else e) st.

Definition pkey (p : pair) : Z * Z := (p_app p, p_id p).
Fixpoint find_pair (app id : Z) (l : list pair) : option pair :=
  match l with [] => None | p :: r => if (p_app p =? app) && (p_id p =? id) then Some p else find_pair app id r end.
Fixpoint ins_pair (p : pair) (l : list pair) : list pair :=
  match l with
  | [] => [p]
  | x :: r => if (p_app x =? p_app p) && (p_id x =? p_id p) then p :: r
              else if (p_app p <? p_app x) || ((p_app p =? p_app x) && (p_id p <? p_id x)) then p :: x :: r
              else x :: ins_pair p r
  end.
Fixpoint find_pool (app id : Z) (l : list pool) : option pool :=
  match l with [] => None | p :: r => if (pl_app p =? app) && (pl_id p =? id) then Some p else find_pool app id r end.
Fixpoint ins_pool (p : pool) (l : list pool) : list pool :=
  match l with
  | [] => [p]
  | x :: r => if (pl_app x =? pl_app p) && (pl_id x =? pl_id p) then p :: r
              else if (pl_app p <? pl_app x) || ((pl_app p =? pl_app x) && (pl_id p <? pl_id x)) then p :: x :: r
              else x :: ins_pool p r
  end.

(* ------------------------------------------------------------------------------------------ *)
(* order status predicates (types/request.go)                                                   *)
Definition is_term (st : Z) : bool := (st =? 4) || (st =? 5) || (st =? 6).   (* ShouldBeDeleted *)
Definition is_live (st : Z) : bool := (st =? 1) || (st =? 2) || (st =? 3).   (* CanBeCanceled / CanBeExpired *)

Definition set_status (o : order) (st : Z) : order :=
  mkOrder (o_app o) (o_pair o) (o_id o) (o_owner o) (o_buy o) (o_type o) (o_odenom o) (o_ddenom o)
          (o_offer o) (o_rem o) (o_recv o) (o_price o) (o_amt o) (o_open o) (o_batch o) (o_expire o) st.

Definition fee_reserve (rate : Z) (o : order) : Z := if o_type o =? 3 then 0 else fee_amt rate (o_offer o).

(* FinishOrder / FinishMMOrder (swap.go:825-927) on one record: the new record and ghost, the coin
   refunded to the orderer and the coin forwarded to the pair's swap-fee collector *)
Definition finish_calc (rate : Z) (e : entry) (status : Z) : entry * Z * Z :=
  let (o, g) := e in
  if is_term (o_status o) then (e, 0, 0)                      (* sanity check: nothing happens *)
  else if o_type o =? 3 then
    let refund := if o_rem o >? 0 then o_rem o else 0 in
    ((set_status o status,
      mkGhost (g_taken g) (g_ret_offer g + refund) (g_ret_fee g) (g_recv g) (g_fee_fwd g) (g_fills g)), refund, 0)
  else
    let collected := fee_amt rate (o_offer o) in
    if o_rem o >? 0 then
      if o_rem o =? o_offer o then
        ((set_status o status,
          mkGhost (g_taken g) (g_ret_offer g + o_rem o) (g_ret_fee g + collected) (g_recv g) (g_fee_fwd g) (g_fills g)),
         o_rem o + collected, 0)
      else
        let swapfee := fee_amt rate (o_offer o - o_rem o) in
        ((set_status o status,
          mkGhost (g_taken g) (g_ret_offer g + o_rem o) (g_ret_fee g + (collected - swapfee)) (g_recv g)
                  (g_fee_fwd g + swapfee) (g_fills g)),
         o_rem o + (collected - swapfee), swapfee)
    else
      ((set_status o status,
        mkGhost (g_taken g) (g_ret_offer g) (g_ret_fee g) (g_recv g) (g_fee_fwd g + collected) (g_fills g)),
       0, collected).

(* FinishOrder on the stored order [e] *)
Definition finish_entry (s : state) (e : entry) (status : Z) : outcome state :=
  let o := fst e in
  if is_term (o_status o) then Ok s
  else
    match (if o_type o =? 3 then Some 0 else option_map pr_fee_rate (get_params s (o_app o))) with
    | None => Err 1                                        (* params retrieval failed *)
    | Some rate =>
        let '(e', refund, fee) := finish_calc rate e status in
        let esc := Escrow (o_app o) (o_pair o) in
        do s1 <- ssend s esc (User (o_owner o)) (o_odenom o) refund;
        do s2 <- ssend s1 esc (SwapFee (o_app o) (o_pair o)) (o_odenom o) fee;
        Ok (set_owed (set_orders s2 (upd_order (ekey e) (fun _ => e') (orders s2)))
                     (fadd3 (owed s2) (o_app o) (o_pair o) (o_odenom o) (- (refund + fee))))
    end.

Definition finish_at (s : state) (k : key3) (status : Z) : outcome state :=
  match find_order k (orders s) with
  | None => Ok s
  | Some e => finish_entry s e status
  end.

(* ------------------------------------------------------------------------------------------ *)
(* order placement                                                                              *)
Record order_msg := mkOMsg {
  m_app : Z; m_owner : Z; m_pair : Z; m_buy : bool; m_dir_ok : bool;
  m_odenom : Z; m_oamt : Z; m_ddenom : Z; m_price : Z; m_amt : Z; m_life : Z }.

(* MsgLimitOrder.ValidateBasic *)
Definition vb_limit (m : order_msg) : bool :=
  negb (m_pair m =? 0) && m_dir_ok m && (m_price m >? 0)
  && (min_coin <=? m_oamt m) && (m_oamt m <=? max_coin) && (min_coin <=? m_amt m) && (m_amt m <=? max_coin)
  && (offer_amt (m_buy m) (m_price m) (m_amt m) <=? m_oamt m)
  && negb (m_odenom m =? m_ddenom m) && (0 <=? m_life m).
(* MsgMarketOrder.ValidateBasic *)
Definition vb_market (m : order_msg) : bool :=
  negb (m_pair m =? 0) && m_dir_ok m
  && (min_coin <=? m_oamt m) && (m_oamt m <=? max_coin) && (min_coin <=? m_amt m) && (m_amt m <=? max_coin)
  && negb (m_odenom m =? m_ddenom m) && (0 <=? m_life m).

Definition new_ghost (taken : Z) : ghost := mkGhost taken 0 0 0 0 [].

(* the common tail of LimitOrder / MarketOrder once price, offer coin and fee are known *)
Definition place (s : state) (m : order_msg) (typ : Z) (pr : pair) (price offer fee now : Z) : outcome state :=
  if offer <? 0 then Panic else                               (* sdk.NewCoin panics on a negative amount *)
  do s1 <- ssend s (User (m_owner m)) (Escrow (m_app m) (m_pair m)) (m_odenom m) (offer + fee);
  let id := p_last_order pr + 1 in
  let pr' := mkPair (p_app pr) (p_id pr) (p_base pr) (p_quote pr) id (p_last_price pr) (p_batch pr) in
  let o := mkOrder (m_app m) (p_id pr) id (m_owner m) (m_buy m) typ (m_odenom m) (m_ddenom m)
                   offer offer 0 price (m_amt m) (m_amt m) (p_batch pr) (now + m_life m) 1 in
  Ok (set_owed (set_orders (set_pairs s1 (ins_pair pr' (pairs s1))) (ins_order (o, new_ghost (offer + fee)) (orders s1)))
               (fadd3 (owed s1) (m_app m) (m_pair m) (m_odenom m) (offer + fee))).

(* ValidateMsgLimitOrder + LimitOrder (swap.go:27-153) *)
Definition limit_order (s : state) (m : order_msg) (now : Z) : outcome state :=
  if negb (vb_limit m) then Err 9 else
  match get_params s (m_app m) with
  | None => Err 1
  | Some P =>
    if led s (User (m_owner m)) (m_odenom m) <? m_oamt m then Err 5
    else if m_life m >? pr_max_life P then Err 2
    else match find_pair (m_app m) (m_pair m) (pairs s) with
    | None => Err 3
    | Some pr =>
      let '(lo, hi) := match p_last_price pr with
                       | Some lp => price_limits lp (pr_ratio P) (pr_tick P)
                       | None => (lowest_tick (pr_tick P), highest_tick (pr_tick P)) end in
      if m_price m >? hi then Err 4
      else if m_price m <? lo then Err 4
      else
        let denoms_ok := if m_buy m then (m_odenom m =? p_quote pr) && (m_ddenom m =? p_base pr)
                         else (m_odenom m =? p_base pr) && (m_ddenom m =? p_quote pr) in
        if negb denoms_ok then Err 6
        else
          let price := if m_buy m then pdown (m_price m) (pr_tick P) else pup (m_price m) (pr_tick P) in
          let offer := offer_amt (m_buy m) price (m_amt m) in
          let fee := fee_amt (pr_fee_rate P) offer in
          if m_oamt m <? offer + fee then Err 7
          else if too_small (m_amt m) price then Err 8
          else place s m 1 pr price offer fee now
    end
  end.

(* ValidateMsgMarketOrder + MarketOrder (swap.go:157-270) *)
Definition market_order (s : state) (m : order_msg) (now : Z) : outcome state :=
  if negb (vb_market m) then Err 9 else
  match get_params s (m_app m) with
  | None => Err 1
  | Some P =>
    if led s (User (m_owner m)) (m_odenom m) <? m_oamt m then Err 5
    else if m_life m >? pr_max_life P then Err 2
    else match find_pair (m_app m) (m_pair m) (pairs s) with
    | None => Err 3
    | Some pr =>
      match p_last_price pr with
      | None => Err 4
      | Some lp =>
        let denoms_ok := if m_buy m then (m_odenom m =? p_quote pr) && (m_ddenom m =? p_base pr)
                         else (m_odenom m =? p_base pr) && (m_ddenom m =? p_quote pr) in
        if negb denoms_ok then Err 6
        else
          let price := if m_buy m then pdown (dmul lp (P18 + pr_ratio P)) (pr_tick P)
                       else pup (dmul lp (P18 - pr_ratio P)) (pr_tick P) in
          let offer := offer_amt (m_buy m) price (m_amt m) in
          let fee := fee_amt (pr_fee_rate P) offer in
          if m_oamt m <? offer + fee then Err 7
          else if too_small (m_amt m) price then Err 8
          else place s m 2 pr price offer fee now
      end
    end
  end.

(* ------------------------------------------------------------------------------------------ *)
(* cancellation                                                                                 *)
Definition has_app (s : state) (app : Z) : bool := match get_params s app with Some _ => true | None => false end.

(* ValidateMsgCancelOrder + CancelOrder (swap.go:443-491) *)
Definition cancel_order (s : state) (app owner pair id : Z) : outcome state :=
  if (pair =? 0) || (id =? 0) then Err 9 else
  if negb (has_app s app) then Err 1 else
  match find_order (app, pair, id) (orders s) with
  | None => Err 3
  | Some e =>
    let o := fst e in
    if negb (o_owner o =? owner) then Err 10
    else if o_status o =? 5 then Err 11
    else match find_pair app pair (pairs s) with
         | None => Panic     (* zero-valued pair: CurrentBatchId 0; then FinishOrder's GetEscrowAddress panics *)
         | Some pr => if o_batch o =? p_batch pr then Err 12 else finish_entry s e 5
         end
  end.

Fixpoint nodupz (l : list Z) : bool :=
  match l with [] => true | x :: r => negb (existsb (Z.eqb x) r) && nodupz r end.

Fixpoint fold_m {A} (f : state -> A -> outcome state) (l : list A) (s : state) : outcome state :=
  match l with [] => Ok s | x :: r => do s' <- f s x; fold_m f r s' end.

(* CancelAllOrders (swap.go:503-553): orders of the orderer in this app through the orderer index *)
Definition cancel_all (s : state) (app owner : Z) (pids : list Z) : outcome state :=
  if existsb (Z.eqb 0) pids || negb (nodupz pids) then Err 9 else
  if negb (has_app s app) then Err 1 else
  if existsb (fun p => match find_pair app p (pairs s) with None => true | Some _ => false end) pids then Err 3 else
  let keys := map ekey (filter (fun e => (o_app (fst e) =? app) && (o_owner (fst e) =? owner)) (orders s)) in
  fold_m (fun s k =>
            match find_order k (orders s) with
            | None => Ok s
            | Some e =>
              let o := fst e in
              if (match pids with [] => true | _ => false end) || existsb (Z.eqb (o_pair o)) pids then
                match find_pair app (o_pair o) (pairs s) with
                | None => Ok s       (* zero pair: CurrentBatchId 0, nothing is below it *)
                | Some pr => if negb (o_status o =? 5) && (o_batch o <? p_batch pr) then finish_entry s e 5 else Ok s
                end
              else Ok s
            end) keys s.

Fixpoint find_mm (app owner pair : Z) (l : list mmindex) : option mmindex :=
  match l with
  | [] => None
  | x :: r => if (mi_app x =? app) && (mi_owner x =? owner) && (mi_pair x =? pair) then Some x else find_mm app owner pair r
  end.
Definition del_mm (app owner pair : Z) (l : list mmindex) : list mmindex :=
  filter (fun x => negb ((mi_app x =? app) && (mi_owner x =? owner) && (mi_pair x =? pair))) l.

(* cancelMMOrder (swap.go:555-579).  Since the fix of C07-F1 the lookup is GetOrder(ctx, appID, pair.Id, id)
   (before: GetOrder(ctx, pair.Id, appID, id), which found nothing whenever app id <> pair id) *)
Definition drop_mm (s : state) (app owner pair : Z) : state := set_mmidx s (del_mm app owner pair (mmidx s)).
Definition cancel_mm_inner (s : state) (app owner : Z) (pr : pair) (skip : bool) : outcome state :=
  match find_mm app owner (p_id pr) (mmidx s) with
  | Some ix =>
    do s' <- fold_m (fun s id =>
               match find_order (app, p_id pr, id) (orders s) with
               | None => Ok s
               | Some e =>
                 if o_batch (fst e) =? p_batch pr then Err 12
                 else if is_live (o_status (fst e)) then finish_entry s e 5 else Ok s
               end) (mi_ids ix) s;
    Ok (drop_mm s' app owner (p_id pr))
  | None => if skip then Ok s else Err 3
  end.

(* CancelMMOrder (swap.go:583-604) *)
Definition cancel_mm (s : state) (app owner pair : Z) : outcome state :=
  if pair =? 0 then Err 9 else
  match find_pair app pair (pairs s) with
  | None => Err 3
  | Some pr => cancel_mm_inner s app owner pr false
  end.

(* ------------------------------------------------------------------------------------------ *)
(* market-making orders: types.MMOrderTicks (util.go:146-207) and Keeper.MMOrder (swap.go:272-440)   *)
Record mm_msg := mkMMsg {
  mm_app : Z; mm_owner : Z; mm_pair : Z;
  mm_max_sell : Z; mm_min_sell : Z; mm_sell_amt : Z;
  mm_max_buy : Z; mm_min_buy : Z; mm_buy_amt : Z; mm_life : Z }.

Definition vb_mm (m : mm_msg) : bool :=
  negb (mm_pair m =? 0)
  && (0 <=? mm_sell_amt m) && (0 <=? mm_buy_amt m)
  && negb ((mm_sell_amt m =? 0) && (mm_buy_amt m =? 0))
  && ((mm_sell_amt m =? 0) ||
      ((min_coin <=? mm_sell_amt m) && (mm_max_sell m >? 0) && (mm_min_sell m >? 0) && (mm_min_sell m <=? mm_max_sell m)))
  && ((mm_buy_amt m =? 0) ||
      ((min_coin <=? mm_buy_amt m) && (mm_min_buy m >? 0) && (mm_max_buy m >? 0) && (mm_min_buy m <=? mm_max_buy m)))
  && (0 <=? mm_life m).

(* the distinct intermediate tick prices, i = 0 .. n-2 *)
Fixpoint mm_prices (buy : bool) (minp maxp gap prec : Z) (n : nat) (i : Z) (prev : option Z) : list Z :=
  match n with
  | O => []
  | S k =>
    let p := if buy then pdown (minp + gap * i) prec else pup (maxp - gap * i) prec in
    let rest := mm_prices buy minp maxp gap prec k (i + 1) (Some p) in
    match prev with
    | Some q => if p =? q then rest else p :: rest
    | None => p :: rest
    end
  end.

(* ticks as (price, amount, offer coin amount); None = integer division by zero (maxNumTicks = 1) *)
Definition mm_ticks (buy : bool) (minp maxp amt maxn prec : Z) : option (list (Z * Z * Z)) :=
  if minp =? maxp then Some [(minp, amt, offer_amt buy minp amt)]
  else if maxn - 1 =? 0 then None
  else
    let gap := Z.quot (maxp - minp) (maxn - 1) in
    let ps := mm_prices buy minp maxp gap prec (Z.to_nat (maxn - 1)) 0 None in
    let tick_amt := Z.quot amt (zlen ps + 1) in
    let rest := amt - tick_amt * zlen ps in
    let lastp := if buy then maxp else minp in
    Some (map (fun p => (p, tick_amt, offer_amt buy p tick_amt)) ps ++ [(lastp, rest, offer_amt buy lastp rest)]).

Definition sum_offer (l : list (Z * Z * Z)) : Z := zsum (map (fun t => snd t) l).

Fixpoint mm_place (app owner now life : Z) (pr : pair) (buy : bool) (ticks : list (Z * Z * Z)) (id : Z)
         (st : list entry) : list entry * list Z * Z :=
  match ticks with
  | [] => (st, [], id)
  | (price, amt, off) :: r =>
    let id' := id + 1 in
    let od := if buy then p_quote pr else p_base pr in
    let dd := if buy then p_base pr else p_quote pr in
    let o := mkOrder app (p_id pr) id' owner buy 3 od dd off off 0 price amt amt (p_batch pr) (now + life) 1 in
    let '(st', ids, last) := mm_place app owner now life pr buy r id' (ins_order (o, new_ghost off) st) in
    (st', id' :: ids, last)
  end.

(* the part of MMOrder after the cancellation of the previous orders: escrow the offer coins, store
   the new orders, write the pair back (the value read BEFORE the cancellations), replace the index *)
Definition mm_tail (s1 : state) (m : mm_msg) (pr : pair) (bt st : list (Z * Z * Z)) (now : Z) : outcome state :=
  let oq := sum_offer bt in
  let ob := sum_offer st in
  do s2 <- ssend s1 (User (mm_owner m)) (Escrow (mm_app m) (p_id pr)) (p_base pr) ob;
  do s3 <- ssend s2 (User (mm_owner m)) (Escrow (mm_app m) (p_id pr)) (p_quote pr) oq;
  let '(st1, ids1, last1) := mm_place (mm_app m) (mm_owner m) now (mm_life m) pr true bt (p_last_order pr) (orders s3) in
  let '(st2, ids2, last2) := mm_place (mm_app m) (mm_owner m) now (mm_life m) pr false st last1 st1 in
  let pr' := mkPair (p_app pr) (p_id pr) (p_base pr) (p_quote pr) last2 (p_last_price pr) (p_batch pr) in
  let s4 := set_pairs (set_orders s3 st2) (ins_pair pr' (pairs s3)) in
  let s5 := set_owed s4 (fadd3 (fadd3 (owed s4) (mm_app m) (p_id pr) (p_base pr) ob) (mm_app m) (p_id pr) (p_quote pr) oq) in
  Ok (set_mmidx s5 (mkMM (mm_app m) (mm_owner m) (p_id pr) (ids1 ++ ids2)
                    :: del_mm (mm_app m) (mm_owner m) (p_id pr) (mmidx s5))).

Definition mm_order (s : state) (m : mm_msg) (now : Z) : outcome state :=
  if negb (vb_mm m) then Err 9 else
  match get_params s (mm_app m) with
  | None => Err 1
  | Some P =>
    let prec := pr_tick P in
    let sellp := mm_sell_amt m >? 0 in
    let buyp := mm_buy_amt m >? 0 in
    if sellp && negb ((pdown (mm_min_sell m) prec =? mm_min_sell m) && (pdown (mm_max_sell m) prec =? mm_max_sell m)) then Err 13
    else if buyp && negb ((pdown (mm_min_buy m) prec =? mm_min_buy m) && (pdown (mm_max_buy m) prec =? mm_max_buy m)) then Err 13
    else match find_pair (mm_app m) (mm_pair m) (pairs s) with
    | None => Err 3
    | Some pr =>
      let '(lo, hi) := match p_last_price pr with
                       | Some lp => price_limits lp (pr_ratio P) prec
                       | None => (lowest_tick prec, highest_tick prec) end in
      let inr := fun x => (lo <=? x) && (x <=? hi) in
      if sellp && negb (inr (mm_min_sell m) && inr (mm_max_sell m)) then Err 4
      else if buyp && negb (inr (mm_min_buy m) && inr (mm_max_buy m)) then Err 4
      else
        match (if buyp then mm_ticks true (mm_min_buy m) (mm_max_buy m) (mm_buy_amt m) (pr_mm_ticks P) prec else Some []),
              (if sellp then mm_ticks false (mm_min_sell m) (mm_max_sell m) (mm_sell_amt m) (pr_mm_ticks P) prec else Some []) with
        | Some bt, Some st =>
          let oq := sum_offer bt in
          let ob := sum_offer st in
          if existsb (fun t => snd t <? 0) (bt ++ st) then Panic          (* sdk.NewCoin / NewCoins on a negative amount *)
          else if led s (User (mm_owner m)) (p_base pr) <? ob then Err 5
          else if led s (User (mm_owner m)) (p_quote pr) <? oq then Err 5
          else if mm_life m >? pr_max_life P then Err 2
          else
            do s1 <- cancel_mm_inner s (mm_app m) (mm_owner m) pr true;
            mm_tail s1 m pr bt st now
        | _, _ => Panic
        end
    end
  end.

(* ------------------------------------------------------------------------------------------ *)
(* batch execution: ExecuteMatching with the matching result as ENV (swap.go:606-823)             *)
Record batch_env := mkBatch {
  b_pair : Z; b_matched : bool; b_price : Z;
  b_fills : list (Z * Z * Z * Z);          (* order id, matched amount, paid offer coin, received demand coin *)
  b_pools : list (Z * Z * Z);              (* pool id, net quote-coin change of the reserve, net base-coin change *)
  b_dust : Z }.                            (* quoteCoinDiff sent to the dust collector *)

Definition set_fill (o : order) (matched paid recv : Z) (st : Z) : order :=
  mkOrder (o_app o) (o_pair o) (o_id o) (o_owner o) (o_buy o) (o_type o) (o_odenom o) (o_ddenom o)
          (o_offer o) (o_rem o - paid) (o_recv o + recv) (o_price o) (o_amt o) (o_open o - matched)
          (o_batch o) (o_expire o) st.

Definition fill_ghost (g : ghost) (matched paid recv : Z) : ghost :=
  mkGhost (g_taken g) (g_ret_offer g) (g_ret_fee g) (g_recv g + recv) (g_fee_fwd g) ((matched, paid, recv) :: g_fills g).
(* the bookkeeping of one fill on the stored record; the paid offer coin stays in the escrow: it
   moves from "owed to the order" to "net of the recorded fills" *)
Definition fill_book (s : state) (k : key3) (o : order) (g : ghost) (matched paid recv : Z) : state :=
  let '(app, pair, _) := k in
  let s1 := set_orders s (upd_order k (fun _ => (set_fill o matched paid recv (o_status o), fill_ghost g matched paid recv)) (orders s)) in
  set_surplus (set_owed s1 (fadd3 (owed s1) app pair (o_odenom o) (- paid))) (fadd3 (surplus s1) app pair (o_odenom o) paid).
Definition mark_status (s : state) (k : key3) (o : order) (g : ghost) (st : Z) : state :=
  set_orders s (upd_order k (fun _ => (set_status o st, g)) (orders s)).

(* ApplyMatchResult, the UserOrder case for one matched order *)
Definition apply_fill (s : state) (app pair : Z) (f : Z * Z * Z * Z) : outcome state :=
  let '(id, matched, paid, recv) := f in
  match find_order (app, pair, id) (orders s) with
  | None => Panic                                            (* zero-valued order: nil Int arithmetic *)
  | Some (o, g) =>
    if negb (is_live (o_status o)) then Err 99      (* ENV inconsistent: the order book only holds live orders *)
    else if (o_rem o - paid <? 0) || (paid <? 0) || (recv <? 0) then Panic      (* Coin.Sub / NewCoin negative *)
    else
      let o1 := set_fill o matched paid recv (o_status o) in
      let g1 := fill_ghost g matched paid recv in
      let s2 := fill_book s (app, pair, id) o g matched paid recv in
      do s3 <- (if o_open o1 =? 0 then finish_entry s2 (o1, g1) 4
                else Ok (mark_status s2 (app, pair, id) o1 g1 3));
      esc_out s3 app pair (User (o_owner o)) (o_ddenom o) recv
  end.

(* ------------------------------------------------------------------------------------------ *)
(* what the matching engine is given for a stored order: types.NewUserOrder (types/order.go:34-61), called by
   ExecuteMatching for every order it puts on the book.  A FRESH amm.BaseOrder (nothing paid, nothing
   received) whose amount is min(open amount, floor(REMAINING offer coin / price)) for a buy (SafeMath: the
   open amount when the quotient overflows) and the open amount for a sell, and whose offer coin bound is
   the REMAINING offer coin - so a partially matched order carried over from an earlier batch is bounded by
   what it has left, not by its original offer *)
Record amm_in := mkAmmIn { ai_buy : bool; ai_price : Z; ai_amt : Z; ai_offer : Z; ai_batch : Z; ai_key : Z }.
Definition user_order_amm (o : order) : amm_in :=
  let amt := if o_buy o then
               match (if o_price o =? 0 then None else chk_dec (dquo_trunc (dec_of_int (o_rem o)) (o_price o))) with
               | Some q => match dtrunc_int_c q with Some t => Z.min (o_open o) t | None => o_open o end
               | None => o_open o
               end
             else o_open o in
  mkAmmIn (o_buy o) (o_price o) amt (o_rem o) (o_batch o) (o_id o).

(* ExecuteMatching's first loop (swap.go:613-636): the stored orders of the pair that are put on the book *)
Definition on_book (now : Z) (o : order) : bool :=
  is_live (o_status o) && negb (negb (o_status o =? 1) && (o_expire o <=? now)).

(* pool orders: the coins the pools pay enter the escrow first (first bulk send), the coins they
   receive leave it in the second bulk send; only each pool's net reserve change is ENV.
   [credit = true]: the components that flow reserve -> escrow; [false]: escrow -> reserve *)
Definition apply_pool_flow (credit : bool) (app : Z) (pr : pair) (s : state) (f : Z * Z * Z) : outcome state :=
  let '(pid, dq, db) := f in
  let mv := fun (s : state) (d x : Z) =>
    if x <? 0 then
      if credit then esc_in s app (p_id pr) (Reserve app pid) d (- x) else Ok s
    else
      if credit then Ok s else esc_out s app (p_id pr) (Reserve app pid) d x in
  do s1 <- mv s (p_quote pr) dq;
  mv s1 (p_base pr) db.

Definition is_depleted (ranged : bool) (rx ry ps : Z) : bool :=
  if ranged then (ps =? 0) || ((rx =? 0) && (ry =? 0)) else (ps =? 0) || (rx =? 0) || (ry =? 0).

Definition pool_depleted (s : state) (pr : pair) (pl : pool) : bool :=
  is_depleted (pl_ranged pl) (led s (Reserve (pl_app pl) (pl_id pl)) (p_quote pr))
              (led s (Reserve (pl_app pl) (pl_id pl)) (p_base pr)) (sup s (pl_app pl) (pl_id pl)).

Definition disable (pl : pool) : pool :=
  mkPool (pl_app pl) (pl_id pl) (pl_pair pl) (pl_ranged pl) true (pl_last_dep pl) (pl_last_wd pl).

(* pools of the pair: a depleted pool is marked disabled *)
Definition disable_depleted (s : state) (pr : pair) : state :=
  set_pools s (map (fun pl => if (pl_app pl =? p_app pr) && (pl_pair pl =? p_id pr) && negb (pl_disabled pl)
                                 && pool_depleted s pr pl then disable pl else pl) (pools s)).
(* SetPair(pair) with the value read when the iteration over pairs started *)
Definition set_pair_after (s : state) (pr : pair) (env : batch_env) : state :=
  set_pairs s (ins_pair (mkPair (p_app pr) (p_id pr) (p_base pr) (p_quote pr) (p_last_order pr)
                                (if b_matched env then Some (b_price env) else p_last_price pr) (p_batch pr + 1)) (pairs s)).

Definition execute_matching (now : Z) (s : state) (pr : pair) (env : batch_env) : outcome state :=
  let app := p_app pr in
  let keys := map ekey (filter (fun e => (o_app (fst e) =? app) && (o_pair (fst e) =? p_id pr)) (orders s)) in
  (* first loop: expire, or put on the book and mark NotMatched *)
  do s1 <- fold_m (fun s k =>
             match find_order k (orders s) with
             | None => Ok s
             | Some (o, g) =>
               if is_live (o_status o) then
                 if negb (o_status o =? 1) && (o_expire o <=? now) then finish_entry s (o, g) 6
                 else if o_status o =? 1 then Ok (mark_status s k o g 2)
                      else Ok s
               else if o_status o =? 5 then Ok s
               else Err 14                                   (* invalid order status *)
             end) keys s;
  let s2 := disable_depleted s1 pr in
  do s3 <- (if b_matched env then
              do a <- fold_m (apply_pool_flow true app pr) (b_pools env) s2;
              do b <- fold_m (fun s f => apply_fill s app (p_id pr) f) (b_fills env) a;
              do c <- fold_m (apply_pool_flow false app pr) (b_pools env) b;
              esc_out c app (p_id pr) (Dust app) (p_quote pr) (b_dust env)
            else Ok s2);
  Ok (set_pair_after s3 pr env).

Definition no_batch (pid : Z) : batch_env := mkBatch pid false 0 [] [] 0.
Fixpoint find_batch (pid : Z) (l : list batch_env) : batch_env :=
  match l with [] => no_batch pid | b :: r => if b_pair b =? pid then b else find_batch pid r end.

(* the sweep of ExecuteRequests (batch.go:21-36) *)
Definition sweep_orders (now app : Z) (s : state) : outcome state :=
  let keys := map ekey (filter (fun e => o_app (fst e) =? app) (orders s)) in
  fold_m (fun s k =>
            match find_order k (orders s) with
            | None => Ok s
            | Some (o, g) =>
              if is_live (o_status o) && (o_expire o <=? now) then finish_entry s (o, g) 6
              else if too_small (o_open o) (o_price o) then finish_entry s (o, g) 6
              else Ok s
            end) keys s.

(* ------------------------------------------------------------------------------------------ *)
(* pools, deposits, withdrawals (keeper/pool.go); the share arithmetic is ENV                     *)
Definition pool_pair (s : state) (pl : pool) : option pair := find_pair (pl_app pl) (pl_pair pl) (pairs s).

Definition mint (s : state) (app pool x : Z) : state :=     (* MintCoins of the pool coin to the module account *)
  set_sup (set_led s (ladd (led s) Module (pool_denom app pool) x)) (fadd2 (sup s) app pool x).

Definition create_pair (s : state) (app creator base quote : Z) : outcome state :=
  if base =? quote then Err 9 else
  match get_params s app with
  | None => Err 1
  | Some P =>
    if negb (existsb (Z.eqb base) (assets s)) then Err 15
    else if negb (existsb (Z.eqb quote) (assets s)) then Err 15
    else if existsb (fun p => (p_app p =? app) && (p_base p =? base) && (p_quote p =? quote)) (pairs s) then Err 16
    else
      do s1 <- ssend s (User creator) (FeeColl app) (pr_fee_denom P) (pr_pair_fee P);
      let id := match aget (last_pair s1) app with Some i => i | None => 0 end + 1 in
      Ok (set_pairs (set_last_pair s1 (aset (last_pair s1) app id)) (ins_pair (mkPair app id base quote 0 None 1) (pairs s1)))
  end.

Definition active_pools (s : state) (app pair : Z) : list pool :=
  filter (fun pl => (pl_app pl =? app) && (pl_pair pl =? pair) && negb (pl_disabled pl)) (pools s).

(* the common tail of CreatePool / CreateRangedPool: [ax ay ps] come from amm.Create*Pool (ENV) *)
Definition new_pool (s : state) (P : params) (app creator : Z) (pr : pair) (ranged : bool) (ax ay ps : Z) : outcome state :=
  let id := match aget (last_pool s) app with Some i => i | None => 0 end + 1 in
  let s0 := set_pools (set_last_pool s (aset (last_pool s) app id)) (ins_pool (mkPool app id (p_id pr) ranged false 0 0) (pools s)) in
  do s1 <- ssend s0 (User creator) (Reserve app id) (p_base pr) ay;
  do s2 <- ssend s1 (User creator) (Reserve app id) (p_quote pr) ax;
  do s3 <- ssend s2 (User creator) (FeeColl app) (pr_fee_denom P) (pr_pool_fee P);
  let pc := Z.max ps (pr_min_pc P) in
  ssend (mint s3 app id pc) Module (User creator) (pool_denom app id) pc.

Definition create_pool (s : state) (app creator pair x y : Z) (amm_ok : bool) (ps : Z) : outcome state :=
  if (pair =? 0) || (x <=? 0) || (y <=? 0) || (x >? max_coin) || (y >? max_coin) then Err 9 else
  match get_params s app with
  | None => Err 1
  | Some P =>
    match find_pair app pair (pairs s) with
    | None => Err 3
    | Some pr =>
      if (x <? pr_min_dep P) || (y <? pr_min_dep P) then Err 17
      else if existsb (fun pl => negb (pl_ranged pl)) (active_pools s app pair) then Err 16
      else if zlen (active_pools s app pair) >=? pr_max_pools P then Err 18
      else if negb amm_ok then Err 19
      else new_pool s P app creator pr false x y ps
    end
  end.

(* [pre_ok] = ValidateBasic, the on-tick checks and amm.CreateRangedPool all passed (ENV) *)
Definition create_ranged (s : state) (app creator pair x y : Z) (pre_ok : bool) (ax ay ps : Z) : outcome state :=
  if (pair =? 0) || (x <? 0) || (y <? 0) || ((x =? 0) && (y =? 0)) || (x >? max_coin) || (y >? max_coin) then Err 9 else
  match get_params s app with
  | None => Err 1
  | Some P =>
    match find_pair app pair (pairs s) with
    | None => Err 3
    | Some pr =>
      if zlen (active_pools s app pair) >=? pr_max_pools P then Err 18
      else if negb pre_ok then Err 19
      else if (ax <? pr_min_dep P) && (ay <? pr_min_dep P) then Err 17
      else new_pool s P app creator pr true ax ay ps
    end
  end.

Definition deposit_req (s : state) (app owner pid x y : Z) : outcome (state * depreq) :=
  if (pid =? 0) || (x <? 0) || (y <? 0) || ((x =? 0) && (y =? 0)) then Err 9 else
  if negb (has_app s app) then Err 1 else
  match find_pool app pid (pools s) with
  | None => Err 3
  | Some pl =>
    if pl_disabled pl then Err 20 else
    match pool_pair s pl with
    | None => Panic
    | Some pr =>
      if led s (Reserve app pid) (p_quote pr) + x >? max_coin then Err 21
      else if led s (Reserve app pid) (p_base pr) + y >? max_coin then Err 21
      else
        do s1 <- ssend s (User owner) GlobalEscrow (p_base pr) y;
        do s2 <- ssend s1 (User owner) GlobalEscrow (p_quote pr) x;
        let id := pl_last_dep pl + 1 in
        let pl' := mkPool (pl_app pl) (pl_id pl) (pl_pair pl) (pl_ranged pl) (pl_disabled pl) id (pl_last_wd pl) in
        let r := mkDep app pid id owner x y (p_quote pr) (p_base pr) 0 0 0 1 in
        let s3 := set_ge_owed s2 (fadd1 (fadd1 (ge_owed s2) (p_base pr) y) (p_quote pr) x) in
        Ok (set_deps (set_pools s3 (ins_pool pl' (pools s3))) (deps s3 ++ [r]), r)
    end
  end.

Definition withdraw_req (s : state) (app owner pid pc : Z) : outcome (state * wdreq) :=
  if (pid =? 0) || (pc <=? 0) then Err 9 else
  if negb (has_app s app) then Err 1 else
  match find_pool app pid (pools s) with
  | None => Err 3
  | Some pl =>
    if pl_disabled pl then Err 20 else
    do s1 <- ssend s (User owner) GlobalEscrow (pool_denom app pid) pc;
    let id := pl_last_wd pl + 1 in
    let pl' := mkPool (pl_app pl) (pl_id pl) (pl_pair pl) (pl_ranged pl) (pl_disabled pl) (pl_last_dep pl) id in
    let r := mkWd app pid id owner pc 0 0 1 in
    let s2 := set_ge_owed s1 (fadd1 (ge_owed s1) (pool_denom app pid) pc) in
    Ok (set_wds (set_pools s2 (ins_pool pl' (pools s2))) (wds s2 ++ [r]), r)
  end.

(* ---- the coins a pool message names (ValidateMsgDeposit pool.go:331-362, ValidateMsgWithdraw pool.go:434-454,
   ValidateMsgFarm / ValidateMsgUnfarm rewards.go:300-323 / 372-395, ValidateMsgUnfarmAndWithdraw pool.go:893-917).
   A message carries denoms; the request / farming code below it works on the pool's own denoms, which is what
   these checks establish: deposit coins are coins of the pool's pair, and the pool coin is the pool's own
   "pool<app>-<pool>" - a pool of ANOTHER app with the same pool id has a different pool coin. *)
Definition coin_amt (cs : list (Z * Z)) (d : Z) : Z := zsum (map snd (filter (fun c => fst c =? d) cs)).   (* Coins.AmountOf *)
Definition coins_valid (cs : list (Z * Z)) : bool :=          (* Coins.Validate: positive amounts, no duplicate denom *)
  forallb (fun c => snd c >? 0) cs && nodupz (map fst cs).

(* MsgDeposit / MsgDepositAndFarm: ValidateBasic, then app, pool, not disabled, every coin is of the pair;
   result: the quote-coin and base-coin amounts *)
Definition deposit_coins (s : state) (app pid : Z) (cs : list (Z * Z)) : outcome (Z * Z) :=
  if (pid =? 0) || negb (coins_valid cs) || (zlen cs =? 0) || (zlen cs >? 2) then Err 9 else
  if negb (has_app s app) then Err 1 else
  match find_pool app pid (pools s) with
  | None => Err 3
  | Some pl =>
    if pl_disabled pl then Err 20 else
    match pool_pair s pl with
    | None => Err 26                                        (* zero-valued pair: no denom matches *)
    | Some pr =>
      if existsb (fun c => negb (fst c =? p_base pr) && negb (fst c =? p_quote pr)) cs then Err 26
      else Ok (coin_amt cs (p_quote pr), coin_amt cs (p_base pr))
    end
  end.
Definition deposit_msg (s : state) (app owner pid : Z) (cs : list (Z * Z)) : outcome (state * depreq) :=
  do xy <- deposit_coins s app pid cs; deposit_req s app owner pid (fst xy) (snd xy).

(* app, pool, (not disabled), msg coin denom = pool.PoolCoinDenom *)
Definition pool_coin_check (s : state) (app pid dn : Z) (enabled_only : bool) : outcome unit :=
  if negb (has_app s app) then Err 1 else
  match find_pool app pid (pools s) with
  | None => Err 3
  | Some pl => if enabled_only && pl_disabled pl then Err 20
               else if dn =? pool_denom app pid then Ok tt else Err 25
  end.
Definition withdraw_msg (s : state) (app owner pid dn pc : Z) : outcome (state * wdreq) :=
  if (pid =? 0) || (pc <=? 0) then Err 9 else
  do u <- pool_coin_check s app pid dn true; withdraw_req s app owner pid pc.

Definition dkey (r : depreq) : key3 := (d_app r, d_pool r, d_id r).
Definition wkey (r : wdreq) : key3 := (w_app r, w_pool r, w_id r).
Fixpoint find_dep (k : key3) (l : list depreq) : option depreq :=
  match l with [] => None | r :: t => if k3_eqb (dkey r) k then Some r else find_dep k t end.
Fixpoint find_wd (k : key3) (l : list wdreq) : option wdreq :=
  match l with [] => None | r :: t => if k3_eqb (wkey r) k then Some r else find_wd k t end.
Definition dep_eqb (a b : depreq) : bool := (d_app a =? d_app b) && (d_pool a =? d_pool b) && (d_id a =? d_id b).
Definition wd_eqb (a b : wdreq) : bool := (w_app a =? w_app b) && (w_pool a =? w_pool b) && (w_id a =? w_id b).
Definition put_dep (s : state) (r : depreq) : state := set_deps s (map (fun x => if dep_eqb x r then r else x) (deps s)).
Definition put_wd (s : state) (r : wdreq) : state := set_wds s (map (fun x => if wd_eqb x r then r else x) (wds s)).

Definition set_dep_result (r : depreq) (ax ay pc st : Z) : depreq :=
  mkDep (d_app r) (d_pool r) (d_id r) (d_owner r) (d_x r) (d_y r) (d_xd r) (d_yd r) ax ay pc st.
(* FinishDepositRequest with status Failed: req.DepositCoins are refunded *)
Definition fail_dep (s : state) (r : depreq) : outcome state :=
  do s1 <- ssend s GlobalEscrow (User (d_owner r)) (d_yd r) (d_y r);
  do s2 <- ssend s1 GlobalEscrow (User (d_owner r)) (d_xd r) (d_x r);
  let s3 := set_ge_owed s2 (fadd1 (fadd1 (ge_owed s2) (d_yd r) (- d_y r)) (d_xd r) (- d_x r)) in
  Ok (put_dep s3 (set_dep_result r 0 0 0 3)).
Definition disable_pool (s : state) (pl : pool) : state := set_pools s (ins_pool (disable pl) (pools s)).

(* the successful tail of ExecuteDepositRequest: mint, accepted coins (in the PAIR's denoms) to the
   reserve, pool coin to the depositor, req.DepositCoins.Sub(AcceptedCoins) refunded.  ValidateMsgDeposit
   pins the deposit coin denoms to the pair's, and neither pool.PairId nor a pair's denoms ever
   change; if they differed, Coins.Sub would panic on the accepted coin missing from the deposit *)
Definition do_deposit (s : state) (r : depreq) (pr : pair) (ax ay pc : Z) : outcome state :=
  if negb ((d_xd r =? p_quote pr) && (d_yd r =? p_base pr)) then Panic else
  let s0 := mint s (d_app r) (d_pool r) pc in
  do s1 <- ssend s0 GlobalEscrow (Reserve (d_app r) (d_pool r)) (p_base pr) ay;
  do s2 <- ssend s1 GlobalEscrow (Reserve (d_app r) (d_pool r)) (p_quote pr) ax;
  do s3 <- ssend s2 Module (User (d_owner r)) (pool_denom (d_app r) (d_pool r)) pc;
  do s4 <- ssend s3 GlobalEscrow (User (d_owner r)) (d_yd r) (d_y r - ay);
  do s5 <- ssend s4 GlobalEscrow (User (d_owner r)) (d_xd r) (d_x r - ax);
  let s6 := set_ge_owed s5 (fadd1 (fadd1 (ge_owed s5) (d_yd r) (- d_y r)) (d_xd r) (- d_x r)) in
  Ok (put_dep s6 (set_dep_result r ax ay pc 2)).

(* ExecuteDepositRequest (pool.go:500-560); (ax, ay, pc) = amm.Deposit's result (ENV) *)
Definition exec_deposit (s : state) (r : depreq) (ax ay pc : Z) : outcome state :=
  match find_pool (d_app r) (d_pool r) (pools s) with
  | None => Panic
  | Some pl =>
    match pool_pair s pl with
    | None => Panic
    | Some pr =>
      if pl_disabled pl then fail_dep s r
      else if pool_depleted s pr pl then fail_dep (disable_pool s pl) r
      else if pc =? 0 then fail_dep s r
      else if (pc <? 0) || (ax <? 0) || (ay <? 0) || (d_x r - ax <? 0) || (d_y r - ay <? 0) then Panic
      else do_deposit s r pr ax ay pc
    end
  end.

Definition fail_wd (s : state) (r : wdreq) : outcome state :=
  do s1 <- ssend s GlobalEscrow (User (w_owner r)) (pool_denom (w_app r) (w_pool r)) (w_pc r);
  let s2 := set_ge_owed s1 (fadd1 (ge_owed s1) (pool_denom (w_app r) (w_pool r)) (- w_pc r)) in
  Ok (put_wd s2 (mkWd (w_app r) (w_pool r) (w_id r) (w_owner r) (w_pc r) 0 0 3)).

(* the successful tail of ExecuteWithdrawRequest *)
Definition do_withdraw (s : state) (r : wdreq) (pl : pool) (pr : pair) (x y : Z) : outcome state :=
  let pd := pool_denom (w_app r) (w_pool r) in
  let ps := sup s (w_app r) (w_pool r) in
  do s1 <- ssend s GlobalEscrow Module pd (w_pc r);
  do s2 <- ssend s1 (Reserve (w_app r) (w_pool r)) (User (w_owner r)) (p_base pr) y;
  do s3 <- ssend s2 (Reserve (w_app r) (w_pool r)) (User (w_owner r)) (p_quote pr) x;
  if led s3 Module pd <? w_pc r then Err 5 else
  if sup s3 (w_app r) (w_pool r) <? w_pc r then Panic else      (* bank BurnCoins: supply.Sub(amount) panics when negative *)
  let s4 := set_sup (set_led s3 (ladd (led s3) Module pd (- w_pc r))) (fadd2 (sup s3) (w_app r) (w_pool r) (- w_pc r)) in   (* BurnCoins *)
  let s5 := if w_pc r =? ps then disable_pool s4 pl else s4 in
  let s6 := set_ge_owed s5 (fadd1 (ge_owed s5) pd (- w_pc r)) in
  Ok (put_wd s6 (mkWd (w_app r) (w_pool r) (w_id r) (w_owner r) (w_pc r) x y 2)).

(* ExecuteWithdrawRequest (pool.go:597-660); (x, y) = amm.Withdraw's result (ENV) *)
Definition exec_withdraw (s : state) (r : wdreq) (x y : Z) : outcome state :=
  if negb (has_app s (w_app r)) then Err 1 else
  match find_pool (w_app r) (w_pool r) (pools s) with
  | None => Panic
  | Some pl =>
    match pool_pair s pl with
    | None => Panic
    | Some pr =>
      if pl_disabled pl then fail_wd s r
      else if pool_depleted s pr pl then fail_wd (disable_pool s pl) r
      else if (x =? 0) && (y =? 0) then fail_wd s r
      else do_withdraw s r pl pr x y
    end
  end.

(* ------------------------------------------------------------------------------------------ *)
(* farming (keeper/rewards.go:300-525)                                                          *)
Fixpoint find_qf (app pid owner : Z) (l : list qfarmer) : option qfarmer :=
  match l with [] => None
  | x :: r => if (q_app x =? app) && (q_pool x =? pid) && (q_owner x =? owner) then Some x else find_qf app pid owner r end.
Fixpoint find_af (app pid owner : Z) (l : list afarmer) : option afarmer :=
  match l with [] => None
  | x :: r => if (a_app x =? app) && (a_pool x =? pid) && (a_owner x =? owner) then Some x else find_af app pid owner r end.
Definition put_qf (q : qfarmer) (l : list qfarmer) : list qfarmer :=
  q :: filter (fun x => negb ((q_app x =? q_app q) && (q_pool x =? q_pool q) && (q_owner x =? q_owner q))) l.
Definition del_af (app pid owner : Z) (l : list afarmer) : list afarmer :=
  filter (fun x => negb ((a_app x =? app) && (a_pool x =? pid) && (a_owner x =? owner))) l.
Definition put_af (a : afarmer) (l : list afarmer) : list afarmer := a :: del_af (a_app a) (a_pool a) (a_owner a) l.

Definition farm (s : state) (app owner pid amt now : Z) : outcome state :=
  if (pid =? 0) || (app =? 0) || (amt <=? 0) then Err 9 else
  if negb (has_app s app) then Err 1 else
  match find_pool app pid (pools s) with
  | None => Err 3
  | Some _ =>
    do s1 <- ssend s (User owner) Module (pool_denom app pid) amt;
    let q := match find_qf app pid owner (qfs s1) with Some q => q | None => mkQF app pid owner [] end in
    let s2 := set_farmed s1 (fadd1 (farmed s1) (pool_denom app pid) amt) in
    Ok (set_qfs s2 (put_qf (mkQF app pid owner (q_coins q ++ [(amt, now)])) (qfs s2)))
  end.

(* the loop of rewards.go:427-441: consume the queue from its END (last queued first); entries are
   processed back to front, [rev] makes the recursion structural *)
Fixpoint unfarm_queue (rq : list (Z * Z)) (amt : Z) : list (Z * Z) * Z :=
  match rq with
  | [] => ([], amt)
  | (a, t) :: r =>
    if a >=? amt then ((a - amt, t) :: r, 0)
    else let '(r', lft) := unfarm_queue r (amt - a) in ((0, t) :: r', lft)
  end.
(* rewards.go:443-450: keep entries up to the first empty one *)
Fixpoint take_nonzero (q : list (Z * Z)) : list (Z * Z) :=
  match q with [] => [] | (a, t) :: r => if a =? 0 then [] else (a, t) :: take_nonzero r end.

Definition unfarm (s : state) (app owner pid amt : Z) : outcome state :=
  if (pid =? 0) || (app =? 0) || (amt <=? 0) then Err 9 else
  if negb (has_app s app) then Err 1 else
  match find_pool app pid (pools s) with
  | None => Err 3
  | Some _ =>
    let af := find_af app pid owner (afs s) in
    let qf := find_qf app pid owner (qfs s) in
    match af, qf with
    | None, None => Err 22
    | _, _ =>
      let qsum := match qf with Some q => zsum (map fst (q_coins q)) | None => 0 end in
      let asum := match af with Some a => a_amt a | None => 0 end in
      if qsum + asum <? amt then Err 23
      else
        let '(rq, lft) := match qf with Some q => unfarm_queue (rev (q_coins q)) amt | None => ([], amt) end in
        let newq := take_nonzero (rev rq) in
        match af, negb (lft =? 0) with
        | None, true => Panic                                  (* nil Int arithmetic on the zero-valued record *)
        | _, _ =>
          do s1 <- ssend s Module (User owner) (pool_denom app pid) amt;
          let s2 := if negb (lft =? 0) then
                      match af with
                      | Some a => if a_amt a - lft =? 0 then set_afs s1 (del_af app pid owner (afs s1))
                                  else set_afs s1 (put_af (mkAF app pid owner (a_amt a - lft)) (afs s1))
                      | None => s1
                      end
                    else s1 in
          match qf with
          | None => Panic                                      (* SetQueuedFarmer of the zero-valued record: empty bech32 *)
          | Some _ =>
            let s3 := set_farmed s2 (fadd1 (farmed s2) (pool_denom app pid) (- amt)) in
            Ok (set_qfs s3 (put_qf (mkQF app pid owner newq) (qfs s3)))
          end
        end
    end
  end.

Definition farm_msg (s : state) (app owner pid dn amt now : Z) : outcome state :=
  if (pid =? 0) || (app =? 0) || (amt <=? 0) then Err 9 else
  do u <- pool_coin_check s app pid dn false; farm s app owner pid amt now.
Definition unfarm_msg (s : state) (app owner pid dn amt : Z) : outcome state :=
  if (pid =? 0) || (app =? 0) || (amt <=? 0) then Err 9 else
  do u <- pool_coin_check s app pid dn false; unfarm s app owner pid amt.

(* ProcessQueuedFarmers (rewards.go:496-527) for one queued farmer *)
Definition process_qf (now dur : Z) (s : state) (q : qfarmer) : state :=
  let keep := filter (fun c => now <? snd c + dur) (q_coins q) in
  let moved := filter (fun c => negb (now <? snd c + dur)) (q_coins q) in
  match moved with
  | [] => s
  | _ =>
    let cur := match find_af (q_app q) (q_pool q) (q_owner q) (afs s) with Some a => a_amt a | None => 0 end in
    set_qfs (set_afs s (put_af (mkAF (q_app q) (q_pool q) (q_owner q) (cur + zsum (map fst moved))) (afs s)))
            (put_qf (mkQF (q_app q) (q_pool q) (q_owner q) keep) (qfs s))
  end.

Definition process_queued (now app : Z) (s : state) : state :=
  match get_params s app with
  | None => s
  | Some P => fold_left (process_qf now (pr_queue_dur P)) (filter (fun q => q_app q =? app) (qfs s)) s
  end.

(* ------------------------------------------------------------------------------------------ *)
(* block hooks (abci.go, batch.go)                                                               *)
Record app_env := mkAppEnv {
  e_app : Z; e_batches : list batch_env;
  e_deps : list (Z * Z * Z * Z * Z);      (* pool id, request id, accepted x, accepted y, minted pool coin *)
  e_wds : list (Z * Z * Z * Z) }.         (* pool id, request id, withdrawn x, withdrawn y *)

Fixpoint find_dep_env (pid id : Z) (l : list (Z * Z * Z * Z * Z)) : Z * Z * Z :=
  match l with
  | [] => (0, 0, 0)
  | (p, i, ax, ay, pc) :: r => if (p =? pid) && (i =? id) then (ax, ay, pc) else find_dep_env pid id r
  end.
Fixpoint find_wd_env (pid id : Z) (l : list (Z * Z * Z * Z)) : Z * Z :=
  match l with
  | [] => (0, 0)
  | (p, i, x, y) :: r => if (p =? pid) && (i =? id) then (x, y) else find_wd_env pid id r
  end.

(* ExecuteRequests + ProcessQueuedFarmers for one app (inside ApplyFuncIfNoError) *)
Definition end_app (now : Z) (s : state) (env : app_env) : outcome state :=
  let app := e_app env in
  do s1 <- fold_m (fun s k => match find_pair (fst k) (snd k) (pairs s) with
                              | None => Ok s
                              | Some pr => execute_matching now s pr (find_batch (p_id pr) (e_batches env))
                              end)
                  (map pkey (filter (fun p => p_app p =? app) (pairs s))) s;
  do s2 <- sweep_orders now app s1;
  (* the store iterators hand each callback the CURRENT value stored under the key *)
  do s3 <- fold_m (fun s k => match find_dep k (deps s) with
                              | None => Ok s
                              | Some r => if d_status r =? 1 then
                                            let '(ax, ay, pc) := find_dep_env (d_pool r) (d_id r) (e_deps env) in exec_deposit s r ax ay pc
                                          else Ok s
                              end) (map dkey (filter (fun r => d_app r =? app) (deps s2))) s2;
  do s4 <- fold_m (fun s k => match find_wd k (wds s) with
                              | None => Ok s
                              | Some r => if w_status r =? 1 then
                                            let '(x, y) := find_wd_env (w_pool r) (w_id r) (e_wds env) in exec_withdraw s r x y
                                          else Ok s
                              end) (map wkey (filter (fun r => w_app r =? app) (wds s3))) s3;
  Ok (process_queued now app s4).

Fixpoint find_app_env (app : Z) (l : list app_env) : app_env :=
  match l with [] => mkAppEnv app [] [] [] | e :: r => if e_app e =? app then e else find_app_env app r end.

(* utils.ApplyFuncIfNoError: keep the writes only when the function returns no error (panics are recovered) *)
Definition atomic (s : state) (r : outcome state) : state := match r with Ok s' => s' | _ => s end.

Definition end_block (height now : Z) (envs : list app_env) (s : state) : state :=
  fold_left (fun s ap =>
               let '(app, P) := ap in
               if (pr_batch P =? 0) then s             (* integer modulo by zero: recovered panic *)
               else if height mod pr_batch P =? 0 then atomic s (end_app now s (find_app_env app envs)) else s)
            (apps s) s.

(* ghost of [end_block]: per registered app, what became of its batch - 1 executed (the writes were kept),
   0 rolled back (an error or a recovered panic inside ExecuteRequests: nothing of the app changed and its
   orders / requests stay), 2 not due at this height, 3 modulo by a zero batch size (recovered panic) *)
Definition end_block_trace (height now : Z) (envs : list app_env) (s : state) : state * list (Z * Z) :=
  fold_left (fun (st : state * list (Z * Z)) ap =>
               let '(s, tr) := st in
               let '(app, P) := ap in
               if (pr_batch P =? 0) then (s, tr ++ [(app, 3)])
               else if height mod pr_batch P =? 0 then
                 match end_app now s (find_app_env app envs) with
                 | Ok s' => (s', tr ++ [(app, 1)])
                 | _ => (s, tr ++ [(app, 0)])
                 end
               else (s, tr ++ [(app, 2)]))
            (apps s) (s, []).

(* DeleteOutdatedRequests (batch.go:58-78) *)
Definition begin_app (app : Z) (s : state) : state :=
  set_orders (set_wds (set_deps s (filter (fun r => negb ((d_app r =? app) && negb (d_status r =? 1))) (deps s)))
                      (filter (fun r => negb ((w_app r =? app) && negb (w_status r =? 1))) (wds s)))
             (filter (fun e => negb ((o_app (fst e) =? app) && is_term (o_status (fst e)))) (orders s)).

Definition begin_block (s : state) : state := fold_left (fun s ap => begin_app (fst ap) s) (apps s) s.

(* ------------------------------------------------------------------------------------------ *)
(* operations and histories                                                                      *)
Inductive op :=
| OAddApp (app : Z) (P : params)
| OAddAsset (d : Z)
| OFund (who d amt : Z)
| OCreatePair (app creator base quote : Z)
| OCreatePool (app creator pair x y : Z) (ok : bool) (ps : Z)
| OCreateRanged (app creator pair x y : Z) (ok : bool) (ax ay ps : Z)
| OLimit (m : order_msg) (now : Z)
| OMarket (m : order_msg) (now : Z)
| OMM (m : mm_msg) (now : Z)
| OCancel (app owner pair id : Z)
| OCancelAll (app owner : Z) (pids : list Z)
| OCancelMM (app owner pair : Z)
| ODeposit (app owner pid : Z) (cs : list (Z * Z))            (* coins as (denom, amount) *)
| OWithdraw (app owner pid dn pc : Z)                         (* [dn] = denom of the pool coin the message carries *)
| OFarm (app owner pid dn amt now : Z)
| OUnfarm (app owner pid dn amt : Z)
| ODepositAndFarm (app owner pid : Z) (cs : list (Z * Z)) (now ax ay pc : Z)
| OUnfarmAndWithdraw (app owner pid dn pc x y : Z)
| OBegin
| OEnd (height now : Z) (envs : list app_env).

(* DepositAndFarm (pool.go:869-895) *)
Definition deposit_and_farm (s : state) (app owner pid x y now ax ay pc : Z) : outcome state :=
  do sr <- deposit_req s app owner pid x y;
  let '(s1, r) := sr in
  do s2 <- exec_deposit s1 r ax ay pc;
  match find (fun x => dep_eqb x r) (deps s2) with
  | None => Err 24
  | Some r' => if negb (d_status r' =? 2) || negb (d_pc r' >? 0) then Err 24 else farm s2 app owner pid (d_pc r') now
  end.

(* UnfarmAndWithdraw (pool.go:922-944) *)
Definition unfarm_and_withdraw (s : state) (app owner pid pc x y : Z) : outcome state :=
  if (pid =? 0) || (app =? 0) || (pc <=? 0) then Err 9 else
  do s1 <- unfarm s app owner pid pc;
  do sr <- withdraw_req s1 app owner pid pc;
  let '(s2, r) := sr in
  exec_withdraw s2 r x y.

Definition deposit_and_farm_msg (s : state) (app owner pid : Z) (cs : list (Z * Z)) (now ax ay pc : Z) : outcome state :=
  do xy <- deposit_coins s app pid cs; deposit_and_farm s app owner pid (fst xy) (snd xy) now ax ay pc.
Definition unfarm_and_withdraw_msg (s : state) (app owner pid dn pc x y : Z) : outcome state :=
  if (pid =? 0) || (app =? 0) || (pc <=? 0) then Err 9 else
  do u <- pool_coin_check s app pid dn false; unfarm_and_withdraw s app owner pid pc x y.

Definition step (s : state) (o : op) : outcome state :=
  match o with
  | OAddApp app P => if has_app s app then Err 30      (* an app is registered once; parameter updates are not modelled *)
                     else Ok (set_apps s (aset (apps s) app P))
  | OAddAsset d => Ok (set_assets s (d :: assets s))
  | OFund who d amt => Ok (set_led s (ladd (led s) (User who) d amt))
  | OCreatePair app c b q => create_pair s app c b q
  | OCreatePool app c p x y ok ps => create_pool s app c p x y ok ps
  | OCreateRanged app c p x y ok ax ay ps => create_ranged s app c p x y ok ax ay ps
  | OLimit m now => limit_order s m now
  | OMarket m now => market_order s m now
  | OMM m now => mm_order s m now
  | OCancel app owner pair id => cancel_order s app owner pair id
  | OCancelAll app owner pids => cancel_all s app owner pids
  | OCancelMM app owner pair => cancel_mm s app owner pair
  | ODeposit app owner pid cs => do sr <- deposit_msg s app owner pid cs; Ok (fst sr)
  | OWithdraw app owner pid dn pc => do sr <- withdraw_msg s app owner pid dn pc; Ok (fst sr)
  | OFarm app owner pid dn amt now => farm_msg s app owner pid dn amt now
  | OUnfarm app owner pid dn amt => unfarm_msg s app owner pid dn amt
  | ODepositAndFarm app owner pid cs now ax ay pc => deposit_and_farm_msg s app owner pid cs now ax ay pc
  | OUnfarmAndWithdraw app owner pid dn pc x y => unfarm_and_withdraw_msg s app owner pid dn pc x y
  | OBegin => Ok (begin_block s)
  | OEnd h now envs => Ok (end_block h now envs s)
  end.

(* a message that fails (or panics) leaves the state unchanged: baseapp's per-message cache *)
Definition apply_op (s : state) (o : op) : state := atomic s (step s o).
Definition run (ops : list op) : state := fold_left apply_op ops init.

(* ------------------------------------------------------------------------------------------ *)
(* property predicates, evaluated by the runner on the IMPLEMENTATION's observations             *)

(* C07: one order that owns its account.  [spent] = funded amount - current balance of the offer
   coin, [got] = current balance of the demand coin - funded amount, [fills_recv] = sum of the
   received amounts of the recorded fills of this order.  A deleted order is judged on its last
   observed record. *)
Definition order_net_spent (rate : Z) (o : order) : Z :=
  if is_term (o_status o)
  then (o_offer o - o_rem o) + (if o_type o =? 3 then 0 else fee_amt rate (o_offer o - o_rem o))
  else o_offer o + fee_reserve rate o.
Definition holds_C07_order (rate : Z) (o : order) (spent got fills_recv : Z) : bool :=
  (got =? o_recv o) && (fills_recv =? o_recv o) && (spent =? order_net_spent rate o).

(* the same for an account with several orders: its balance change in denom [d] (funded - balance)
   is explained by the records of all orders it ever placed *)
Definition holds_C07_account (rate_of : Z -> Z) (os : list order) (d net_spent : Z) : bool :=
  net_spent =? zsum (map (fun o => (if o_odenom o =? d then order_net_spent (rate_of (o_app o)) o else 0)
                                   - (if o_ddenom o =? d then o_recv o else 0)) os).

(* what a pair escrow holds for an order: remaining offer coin + unreleased fee reserve while it is
   live, nothing once it is terminated.  [fills_net] = net of the recorded fills (0 if they conserve) *)
Definition escrow_share (rate : Z) (o : order) : Z :=
  if is_term (o_status o) then 0 else o_rem o + fee_reserve rate o.
Definition holds_C07_escrow (rate : Z) (os : list order) (d balance fills_net : Z) : bool :=
  balance =? zsum (map (fun o => if o_odenom o =? d then escrow_share rate o else 0) os) + fills_net.

(* the fee collector of a pair holds exactly the executed-portion fees of its terminated orders *)
Definition exec_fee (rate : Z) (o : order) : Z :=
  if is_term (o_status o) && negb (o_type o =? 3) then fee_amt rate (o_offer o - o_rem o) else 0.

(* C07 MM clause, on the observation after a successful CancelMM / MM replace: every order that the
   owner's index listed before the call is no longer live *)
Definition holds_C07_mm (statuses_after : list Z) : bool := forallb (fun st => negb (is_live st)) statuses_after.
Definition holds_C07_feecoll (rate : Z) (os : list order) (d balance : Z) : bool :=
  balance =? zsum (map (fun o => if o_odenom o =? d then exec_fee rate o else 0) os).

(* conservation of the recorded fills of one batch (C05's subject), over user fills and pool flows:
   base coin paid by sellers = base coin received by buyers; quote likewise up to the dust *)
Definition batch_base_net (buy_of : Z -> bool) (b : batch_env) : Z :=
  zsum (map (fun f => let '(id, _, paid, recv) := f in if buy_of id then - recv else paid) (b_fills b))
  - zsum (map (fun f => let '(_, _, db) := f in db) (b_pools b)).
Definition batch_quote_net (buy_of : Z -> bool) (b : batch_env) : Z :=
  zsum (map (fun f => let '(id, _, paid, recv) := f in if buy_of id then paid else - recv) (b_fills b))
  - zsum (map (fun f => let '(_, dq, _) := f in dq) (b_pools b)) - b_dust b.
Definition kf_C05_1_via_fills (base_net : Z) : bool := negb (base_net =? 0).

(* C05 through the keeper / C07: one batch's fill of a stored order (the record BEFORE the batch), judged
   against what the engine is given for it: the matched amount is within the amount handed over (hence
   within the open amount), the payment is within the REMAINING offer coin, a sell pays what it sells *)
Definition holds_C05_life (o : order) (matched paid recv : Z) : bool :=
  let a := user_order_amm o in
  (0 <=? matched) && (matched <=? ai_amt a) && (matched <=? o_open o) && (0 <=? paid) && (paid <=? ai_offer a)
  && (0 <=? recv) && (o_buy o || (paid =? matched)).
(* a stored record at any point of its life: 0 <= remaining <= offer (total paid <= offer coin), 0 <= open <= amount *)
Definition holds_C07_life (o : order) : bool :=
  (0 <=? o_rem o) && (o_rem o <=? o_offer o) && (0 <=? o_open o) && (o_open o <=? o_amt o) && (0 <=? o_recv o).
(* two consecutive observations of the same stored order: remaining offer coin and open amount never grow,
   the received coin never shrinks, the immutable fields stay *)
Definition holds_C07_life_step (o o' : order) : bool :=
  (o_rem o' <=? o_rem o) && (o_open o' <=? o_open o) && (o_recv o <=? o_recv o') &&
  (o_offer o' =? o_offer o) && (o_amt o' =? o_amt o) && (o_price o' =? o_price o) && Bool.eqb (o_buy o') (o_buy o).

(* known finding C05-F2 (C05-F1 through the keeper): the engine's fills of a batch of the app do not conserve the
   base coin of a pair ([base_nets] = [batch_base_net] of the engine's batches of the app: those of the current
   block and those applied at earlier blocks).  When the pair escrow cannot cover the deficit - at once, because
   ApplyMatchResult's bulk send fails, or later, when the refund of an expiring / completed order of that pair
   fails - ExecuteRequests panics on the error and ApplyFuncIfNoError rolls the WHOLE batch of the app back, at
   that block and at every following one: the same book is matched and the same order expired again (expiry is
   part of the rolled-back batch, and an order cannot be cancelled in its placement batch) *)
Definition kf_C05_2_stall (base_nets : list Z) : bool := existsb (fun n => negb (n =? 0)) base_nets.

(* C04, on observed balances and records *)
Definition holds_C04_escrow (balance required : Z) : bool := required <=? balance.
Definition holds_C04_farmed (module_balance queued active : Z) : bool := module_balance =? queued + active.
Definition holds_C04_disabled (supply : Z) (disabled : bool) : bool := negb (supply =? 0) || disabled.
(* supply of a pool coin may change only through CreatePool / an executed deposit / an executed withdrawal *)
Definition holds_C04_supply (before after : Z) (created minted burned : Z) : bool := after =? before + created + minted - burned.
