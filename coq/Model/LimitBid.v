(* Limit bids of x/auctionsV2 AS CODED (keeper/bid.go DepositLimitAuctionBid, CancelLimitAuctionBid,
   WithdrawLimitAuctionBid; keeper/auctions.go LimitOrderBid = the automatic fill), statement by
   statement, INCLUDING what the code does not check: Withdraw takes amount and denom from the
   message and compares neither with the depositor's record.
     recs    UserLimitBid records, key (debt asset, collateral asset, premium, bidder) -> DebtToken coin
     totals  LimitBidProtocolData.BidValue per (debt asset, collateral asset)
     led     bank balances; MOD = the auctionsV2 module account
   Not modelled: the fee bookkeeping record (AuctionLimitBidFeeData; the code shadows the variable
   and never records the first fee), the per-address index, the bidding-id counter.
   Definitions only. *)
From Comdex Require Import Lib.Base Lib.DecArith Lib.FLedger.

(* ---------------- association lists (first match wins; set replaces in place) --------------- *)
Section Assoc.
  Context {K V : Type}.
  Variable eqb : K -> K -> bool.

  Fixpoint aget (k : K) (l : list (K * V)) : option V :=
    match l with
    | [] => None
    | (k', v) :: r => if eqb k k' then Some v else aget k r
    end.

  Fixpoint aset (k : K) (v : V) (l : list (K * V)) : list (K * V) :=
    match l with
    | [] => [(k, v)]
    | (k', v') :: r => if eqb k k' then (k, v) :: r else (k', v') :: aset k v r
    end.

  Fixpoint adel (k : K) (l : list (K * V)) : list (K * V) :=
    match l with
    | [] => []
    | (k', v') :: r => if eqb k k' then r else (k', v') :: adel k r
    end.

  (* sum of [val v] over the entries selected by [P] *)
  Fixpoint asum (P : K -> V -> bool) (val : V -> Z) (l : list (K * V)) : Z :=
    match l with
    | [] => 0
    | (k, v) :: r => (if P k v then val v else 0) + asum P val r
    end.
End Assoc.

(* ---------------- keys, records, state ---------------- *)
Record key := mkK { k_debt : Z; k_coll : Z; k_prem : Z; k_who : Z }.
Definition keq (a b : key) : bool :=
  (k_debt a =? k_debt b) && (k_coll a =? k_coll b) && (k_prem a =? k_prem b) && (k_who a =? k_who b).

Definition mkt := (Z * Z)%type.                                   (* (debt asset, collateral asset) *)
Definition meq (a b : mkt) : bool := (fst a =? fst b) && (snd a =? snd b).
Definition market (k : key) : mkt := (k_debt k, k_coll k).

Record lrec := mkR { r_amt : Z; r_denom : Z }.                    (* LimitOrderBid.DebtToken *)

Record cfg := mkCfg {
  assets : list (Z * Z);        (* asset id -> denom id (x/asset) *)
  closing_fee : Z;              (* AuctionParams.ClosingFee, a Dec *)
  withdrawal_fee : Z            (* AuctionParams.WithdrawalFee, a Dec *)
}.

Record lstate := mkL {
  recs : list (key * lrec);
  totals : list (mkt * Z);
  led : ledger
}.

Definition MOD : Z := -1.
Definition MAX_PREMIUM : Z := 30.                                 (* types.MaxPremiumDiscount *)

Definition denom_of (c : cfg) (asset : Z) : option Z := aget Z.eqb asset (assets c).
Definition tot (m : mkt) (s : lstate) : Z := match aget meq m (totals s) with Some v => v | None => 0 end.
Definition dep (k : key) (s : lstate) : Z := match aget keq k (recs s) with Some r => r_amt r | None => 0 end.

(* rate.Mul(NewDecFromInt(x)).TruncateInt(); None = the Dec/Int overflow panic *)
Definition fee_of (rate x : Z) : option Z :=
  match dmul_c rate (dec_of_int x) with
  | Some p => dtrunc_int_c p
  | None => None
  end.

Inductive lop :=
| Deposit  (who coll debt prem denom amt : Z)       (* MsgDepositLimitBidRequest *)
| Cancel   (who coll debt prem : Z)                 (* MsgCancelLimitBidRequest *)
| Withdraw (who coll debt prem denom amt : Z)       (* MsgWithdrawLimitBidRequest *)
| AutoFill (k : key) (D spent : Z) (dutch_ok : bool).
  (* one iteration of the LimitOrderBid loop for the record [k] against an auction whose
     outstanding debt is D; dutch_ok / spent = outcome of PlaceDutchAuctionBid(isAutoBid) and the
     amount of the module's debt-denom coins it disbursed (environment, see C10) *)

Definition lift {A} (r : lres) (code : Z) (k : ledger -> outcome A) : outcome A :=
  match r with LOk l => k l | LErr => Err code | LPanic => Panic end.

(* CancelLimitAuctionBid *)
Definition cancel (c : cfg) (s : lstate) (who coll debt prem : Z) : outcome lstate :=
  if prem <? 0 then Panic else                                   (* premium.Uint64() in the store key *)
  let k := mkK debt coll prem who in
  match aget keq k (recs s) with
  | None => Err 1                                                (* ErrBidNotFound *)
  | Some r =>
      let amount := r_amt r in
      match (if r_amt r >? 0 then
               match fee_of (closing_fee c) (r_amt r) with
               | None => Panic
               | Some fee => lift (send (led s) MOD who (r_denom r) (r_amt r - fee)) 2 (fun l => Ok l)
               end
             else Ok (led s)) with
      | Ok l' =>
          Ok (mkL (adel keq k (recs s))
                  (aset meq (debt, coll) (tot (debt, coll) s - amount) (totals s))
                  l')
      | Err e => Err e
      | Panic => Panic
      end
  end.

Definition lstep (c : cfg) (s : lstate) (o : lop) : outcome lstate :=
  match o with
  | Deposit who coll debt prem denom amt =>
      if (coll =? 0) || (debt =? 0) || (amt <=? 0) then Err 20 else     (* ValidateBasic *)
      if prem >? MAX_PREMIUM then Err 3 else
      match denom_of c coll with None => Err 4 | Some _ =>
      match denom_of c debt with None => Err 4 | Some dd =>
      if negb (dd =? denom) then Err 5 else
      if prem <? 0 then Panic else
      let k := mkK debt coll prem who in
      match (match aget keq k (recs s) with
             | None => Ok (mkR amt denom)
             | Some r => if r_denom r =? denom then Ok (mkR (r_amt r + amt) denom) else Panic  (* Coin.Add *)
             end) with
      | Ok r' =>
          lift (send (led s) who MOD denom amt) 6 (fun l' =>
          Ok (mkL (aset keq k r' (recs s))
                  (aset meq (debt, coll) (tot (debt, coll) s + amt) (totals s))
                  l'))
      | Err e => Err e
      | Panic => Panic
      end end end
  | Cancel who coll debt prem =>
      if (coll =? 0) || (debt =? 0) then Err 20 else
      cancel c s who coll debt prem
  | Withdraw who coll debt prem denom amt =>
      if (coll =? 0) || (debt =? 0) || (amt <=? 0) then Err 20 else
      if prem <? 0 then Panic else
      let k := mkK debt coll prem who in
      match aget keq k (recs s) with
      | None => Err 1
      | Some r =>
          if amt =? r_amt r then cancel c s who coll debt prem else
          (* NO check amt <= r_amt r, NO check denom = r_denom r *)
          match (if r_amt r >? 0 then
                   match fee_of (withdrawal_fee c) amt with
                   | None => Panic
                   | Some fee => lift (send (led s) MOD who denom (amt - fee)) 2 (fun l => Ok l)
                   end
                 else Ok (led s)) with
          | Ok l' =>
              Ok (mkL (aset keq k (mkR (r_amt r - amt) (r_denom r)) (recs s))
                      (aset meq (debt, coll) (tot (debt, coll) s - amt) (totals s))
                      l')
          | Err e => Err e
          | Panic => Panic
          end
      end
  | AutoFill k D spent dutch_ok =>
      match aget keq k (recs s) with
      | None => Ok s
      | Some r =>
          if negb dutch_ok then Err 30 else
          lift (burn_from (led s) MOD (r_denom r) spent) 31 (fun l' =>
          if r_amt r >=? D then
            if r_amt r =? D then
              (* returns before touching protocolData.BidValue *)
              Ok (mkL (adel keq k (recs s)) (totals s) l')
            else
              Ok (mkL (aset keq k (mkR (r_amt r - D) (r_denom r)) (recs s))
                      (aset meq (market k) (tot (market k) s - D) (totals s))
                      l')
          else
            Ok (mkL (adel keq k (recs s))
                    (aset meq (market k) (tot (market k) s - r_amt r) (totals s))
                    l'))
      end
  end.

Definition lapply (c : cfg) (s : lstate) (o : lop) : lstate :=
  match lstep c s o with Ok s' => s' | _ => s end.

Definition lrun (c : cfg) (s : lstate) (ops : list lop) : lstate := fold_left (lapply c) ops s.

Definition lempty (l : ledger) : lstate := mkL [] [] l.

(* ---------------- sums ---------------- *)
Definition sum_market (m : mkt) (s : lstate) : Z :=
  asum (fun k _ => meq (market k) m) r_amt (recs s).
Definition sum_denom (d : Z) (s : lstate) : Z :=
  asum (fun _ r => r_denom r =? d) r_amt (recs s).
Definition all_nonneg (s : lstate) : bool := forallb (fun kr => 0 <=? r_amt (snd kr)) (recs s).

(* ---------------- known-finding classes (executable) ---------------- *)
(* F1: a withdraw whose amount exceeds the depositor's own record, or (for a partial withdraw)
   whose denom is not the deposited one *)
Definition kf_C11_1 (s : lstate) (o : lop) : bool :=
  match o with
  | Withdraw who coll debt prem denom amt =>
      match aget keq (mkK debt coll prem who) (recs s) with
      | Some r => (amt >? r_amt r) || (negb (amt =? r_amt r) && negb (denom =? r_denom r))
      | None => false
      end
  | _ => false
  end.

(* F2: the automatic fill meets a record whose amount equals the auction's debt exactly *)
Definition kf_C11_2 (s : lstate) (o : lop) : bool :=
  match o with
  | AutoFill k D _ dutch_ok =>
      match aget keq k (recs s) with
      | Some r => dutch_ok && (r_amt r =? D)
      | None => false
      end
  | _ => false
  end.

(* ---------------- property predicates on observed states ---------------- *)
(* total of market m = sum of its deposits; every deposit >= 0; custody in denom d, relative to
   what the module held when the case started, covers the deposits in that denom *)
Definition holds_C11_limit_total (s : lstate) (m : mkt) : bool := tot m s =? sum_market m s.
Definition nonneg_denom (d : Z) (s : lstate) : bool :=
  forallb (fun kr => negb (r_denom (snd kr) =? d) || (0 <=? r_amt (snd kr))) (recs s).
Definition holds_C11_limit_custody (s : lstate) (d base : Z) : bool :=
  nonneg_denom d s && (sum_denom d s <=? led s MOD d - base).

(* own deposit only: what a Withdraw/Cancel paid to [who] in denom d (observed balance change),
   judged against the depositor's record before the step *)
Definition holds_C11_limit_own (pre : lstate) (o : lop) (d delta : Z) : bool :=
  match o with
  | Cancel who coll debt prem | Withdraw who coll debt prem _ _ =>
      match aget keq (mkK debt coll prem who) (recs pre) with
      | Some r => if d =? r_denom r then (delta <=? Z.max 0 (r_amt r)) else (delta <=? 0)
      | None => delta <=? 0
      end
  | _ => true
  end.
