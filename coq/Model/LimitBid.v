(* Limit bids of x/auctionsV2 AS CODED (keeper/bid.go DepositLimitAuctionBid, CancelLimitAuctionBid,
   WithdrawLimitAuctionBid; keeper/auctions.go LimitOrderBid = the automatic fill), statement by
   statement, after the repairs
     fixed: property=C11 7c9449c WithdrawLimitAuctionBid checked neither amount <= own deposit nor the denom (C11-F1)
     fixed: property=C11 989e51c LimitOrderBid left BidValue stale when the deposit equalled the auction debt (C11-F2)
     fixes/C10-F6, fixes/C10-F5: LimitOrderBid re-reads the auction for every limit bid of a closure, stops after a
     closing bid, and charges a limit bid the amount PlaceDutchAuctionBid actually bid (C10-F6, C10-F5)
   Withdraw still takes amount and denom from the message, and now compares both with the
   depositor's record before anything moves.
     recs    UserLimitBid records, key (debt asset, collateral asset, premium, bidder) -> DebtToken coin
     totals  LimitBidProtocolData.BidValue per (debt asset, collateral asset)
     led     bank balances; MOD = the auctionsV2 module account
   Not modelled: the fee bookkeeping record (AuctionLimitBidFeeData; the code shadows the variable
   in the not-found branch, so no limit-bid fee is ever recorded under the debt asset), the
   per-address index, the bidding-id counter, the collateral side of the Dutch settlement (C10).
   Definitions only. *)
From Comdex Require Import Lib.Base Lib.DecArith Lib.FLedger.

(* ---------------- association lists (first match wins; set replaces in place) --------------- *)
Section Assoc.
  Context {K V : Type}.
  Variable eqb : K -> K -> bool.

  Fixpoint aget (k : K) (l : list (K * V)) : option V :=
    match l with
    | [] => None
    | (k', v) :: r => if eqb k k' then Some v else aget k r
    end.

  Fixpoint aset (k : K) (v : V) (l : list (K * V)) : list (K * V) :=
    match l with
    | [] => [(k, v)]
    | (k', v') :: r => if eqb k k' then (k, v) :: r else (k', v') :: aset k v r
    end.

  Fixpoint adel (k : K) (l : list (K * V)) : list (K * V) :=
    match l with
    | [] => []
    | (k', v') :: r => if eqb k k' then r else (k', v') :: adel k r
    end.

  (* sum of [val v] over the entries selected by [P] *)
  Fixpoint asum (P : K -> V -> bool) (val : V -> Z) (l : list (K * V)) : Z :=
    match l with
    | [] => 0
    | (k, v) :: r => (if P k v then val v else 0) + asum P val r
    end.
End Assoc.

(* ---------------- keys, records, state ---------------- *)
Record key := mkK { k_debt : Z; k_coll : Z; k_prem : Z; k_who : Z }.
Definition keq (a b : key) : bool :=
  (k_debt a =? k_debt b) && (k_coll a =? k_coll b) && (k_prem a =? k_prem b) && (k_who a =? k_who b).

Definition mkt := (Z * Z)%type.                                   (* (debt asset, collateral asset) *)
Definition meq (a b : mkt) : bool := (fst a =? fst b) && (snd a =? snd b).
Definition market (k : key) : mkt := (k_debt k, k_coll k).

Record lrec := mkR { r_amt : Z; r_denom : Z }.                    (* LimitOrderBid.DebtToken *)

Record cfg := mkCfg {
  assets : list (Z * Z);        (* asset id -> denom id (x/asset) *)
  closing_fee : Z;              (* AuctionParams.ClosingFee, a Dec *)
  withdrawal_fee : Z            (* AuctionParams.WithdrawalFee, a Dec *)
}.

Record lstate := mkL {
  recs : list (key * lrec);
  totals : list (mkt * Z);
  led : ledger
}.

Definition MOD : Z := -1.
Definition MAX_PREMIUM : Z := 30.                                 (* types.MaxPremiumDiscount *)

Definition denom_of (c : cfg) (asset : Z) : option Z := aget Z.eqb asset (assets c).
Definition tot (m : mkt) (s : lstate) : Z := match aget meq m (totals s) with Some v => v | None => 0 end.
Definition dep (k : key) (s : lstate) : Z := match aget keq k (recs s) with Some r => r_amt r | None => 0 end.

(* rate.Mul(NewDecFromInt(x)).TruncateInt(); None = the Dec/Int overflow panic *)
Definition fee_of (rate x : Z) : option Z :=
  match dmul_c rate (dec_of_int x) with
  | Some p => dtrunc_int_c p
  | None => None
  end.

Inductive lop :=
| Deposit  (who coll debt prem denom amt : Z)       (* MsgDepositLimitBidRequest *)
| Cancel   (who coll debt prem : Z)                 (* MsgCancelLimitBidRequest *)
| Withdraw (who coll debt prem denom amt : Z)       (* MsgWithdrawLimitBidRequest *)
| AutoFill (debt coll prem : Z) (fills : list (Z * Z)) (spent : Z) (dutch_ok : bool).
  (* LimitOrderBid for ONE auction (one ApplyFuncIfNoError closure) whose discount truncates to [prem]:
     [fills] = the limit bids the closure bid with, in store order, each with the amount
     PlaceDutchAuctionBid actually bid for it (the debt amount of the user bid it created - what the
     repaired code reads back): the whole limit bid, or less when the bid was cut down to the auction
     debt or to the value of the left-over collateral; the closure ends with the bid that closes the
     auction.  dutch_ok = every PlaceDutchAuctionBid (isAutoBid) of the closure succeeded (else the
     closure is rolled back: a collateral shortfall the app reserve cannot cover, a missing price,
     a dust remainder ...); spent = the net outflow of the module's debt-denom coins that the Dutch
     settlement of the closure caused, not counting the coins the module keeps for running auctions
     (their proceeds) and as booked fees of external auctions (environment, see C10: c10_custody
     proves spent = what the limit bids are charged).  spent < 0 is a net inflow. *)

Definition lift {A} (r : lres) (code : Z) (k : ledger -> outcome A) : outcome A :=
  match r with LOk l => k l | LErr => Err code | LPanic => Panic end.

(* CancelLimitAuctionBid *)
Definition cancel (c : cfg) (s : lstate) (who coll debt prem : Z) : outcome lstate :=
  if prem <? 0 then Panic else                                   (* premium.Uint64() in the store key *)
  let k := mkK debt coll prem who in
  match aget keq k (recs s) with
  | None => Err 1                                                (* ErrBidNotFound *)
  | Some r =>
      let amount := r_amt r in
      match (if r_amt r >? 0 then
               match fee_of (closing_fee c) (r_amt r) with
               | None => Panic
               | Some fee => lift (send (led s) MOD who (r_denom r) (r_amt r - fee)) 2 (fun l => Ok l)
               end
             else Ok (led s)) with
      | Ok l' =>
          Ok (mkL (adel keq k (recs s))
                  (aset meq (debt, coll) (tot (debt, coll) s - amount) (totals s))
                  l')
      | Err e => Err e
      | Panic => Panic
      end
  end.

(* the book side of the loop of LimitOrderBid: every limit bid is charged what was actually bid for it
   (never more than it holds: ErrorMaxBidAmount fails the closure), deleted when it is used up and
   reduced otherwise; the market total falls by the same amount.  Returns the state and the amount
   the limit bids were charged; None = the closure fails (or the listing names a bid the store does
   not have: not a closure of the code). *)
Fixpoint fill_recs (debt coll prem : Z) (fills : list (Z * Z)) (s : lstate) : option (lstate * Z) :=
  match fills with
  | [] => Some (s, 0)
  | (w, bid) :: rest =>
      let k := mkK debt coll prem w in
      match aget keq k (recs s) with
      | None => None
      | Some r =>
          if (bid <? 0) || (bid >? r_amt r) then None
          else
            let recs' := if bid =? r_amt r then adel keq k (recs s)
                         else aset keq k (mkR (r_amt r - bid) (r_denom r)) (recs s) in
            match fill_recs debt coll prem rest
                    (mkL recs' (aset meq (debt, coll) (tot (debt, coll) s - bid) (totals s)) (led s)) with
            | Some (s', ch) => Some (s', bid + ch)
            | None => None
            end
      end
  end.

(* the net effect of the Dutch settlement on the module's free debt coins *)
Definition settle (l : ledger) (d spent : Z) : lres :=
  if spent <? 0 then LOk (mint_to l MOD d (- spent)) else burn_from l MOD d spent.

Definition lstep (c : cfg) (s : lstate) (o : lop) : outcome lstate :=
  match o with
  | Deposit who coll debt prem denom amt =>
      if (coll =? 0) || (debt =? 0) || (amt <=? 0) then Err 20 else     (* ValidateBasic *)
      if prem >? MAX_PREMIUM then Err 3 else
      match denom_of c coll with None => Err 4 | Some _ =>
      match denom_of c debt with None => Err 4 | Some dd =>
      if negb (dd =? denom) then Err 5 else
      if prem <? 0 then Panic else
      let k := mkK debt coll prem who in
      match (match aget keq k (recs s) with
             | None => Ok (mkR amt denom)
             | Some r => if r_denom r =? denom then Ok (mkR (r_amt r + amt) denom) else Panic  (* Coin.Add *)
             end) with
      | Ok r' =>
          lift (send (led s) who MOD denom amt) 6 (fun l' =>
          Ok (mkL (aset keq k r' (recs s))
                  (aset meq (debt, coll) (tot (debt, coll) s + amt) (totals s))
                  l'))
      | Err e => Err e
      | Panic => Panic
      end end end
  | Cancel who coll debt prem =>
      if (coll =? 0) || (debt =? 0) then Err 20 else
      cancel c s who coll debt prem
  | Withdraw who coll debt prem denom amt =>
      if (coll =? 0) || (debt =? 0) || (amt <=? 0) then Err 20 else
      if prem <? 0 then Panic else
      let k := mkK debt coll prem who in
      match aget keq k (recs s) with
      | None => Err 1
      | Some r =>
          if negb (denom =? r_denom r) then Err 5 else              (* ErrorUnknownDebtToken *)
          if amt >? r_amt r then Err 7 else                         (* ErrInsufficientFunds *)
          if amt =? r_amt r then cancel c s who coll debt prem else
          match (if r_amt r >? 0 then
                   match fee_of (withdrawal_fee c) amt with
                   | None => Panic
                   | Some fee => lift (send (led s) MOD who denom (amt - fee)) 2 (fun l => Ok l)
                   end
                 else Ok (led s)) with
          | Ok l' =>
              Ok (mkL (aset keq k (mkR (r_amt r - amt) (r_denom r)) (recs s))
                      (aset meq (debt, coll) (tot (debt, coll) s - amt) (totals s))
                      l')
          | Err e => Err e
          | Panic => Panic
          end
      end
  | AutoFill debt coll prem fills spent dutch_ok =>
      if negb dutch_ok then Err 30 else
      match fill_recs debt coll prem fills s with
      | None => Err 32
      | Some (s1, _) =>
          match denom_of c debt with
          | None => Ok s1                                         (* no such asset: no record either *)
          | Some dd => lift (settle (led s1) dd spent) 31 (fun l' => Ok (mkL (recs s1) (totals s1) l'))
          end
      end
  end.

Definition lapply (c : cfg) (s : lstate) (o : lop) : lstate :=
  match lstep c s o with Ok s' => s' | _ => s end.

Definition lrun (c : cfg) (s : lstate) (ops : list lop) : lstate := fold_left (lapply c) ops s.

Definition lempty (l : ledger) : lstate := mkL [] [] l.

(* ---------------- sums ---------------- *)
Definition sum_market (m : mkt) (s : lstate) : Z :=
  asum (fun k _ => meq (market k) m) r_amt (recs s).
Definition sum_denom (d : Z) (s : lstate) : Z :=
  asum (fun _ r => r_denom r =? d) r_amt (recs s).
Definition all_nonneg (s : lstate) : bool := forallb (fun kr => 0 <=? r_amt (snd kr)) (recs s).

(* ---------------- property predicates on observed states ---------------- *)
(* total of market m = sum of its deposits; every deposit >= 0; custody in denom d, relative to
   what the module held when the case started, covers the deposits in that denom *)
Definition holds_C11_limit_total (s : lstate) (m : mkt) : bool := tot m s =? sum_market m s.
Definition nonneg_denom (d : Z) (s : lstate) : bool :=
  forallb (fun kr => negb (r_denom (snd kr) =? d) || (0 <=? r_amt (snd kr))) (recs s).
Definition holds_C11_limit_custody (s : lstate) (d base : Z) : bool :=
  nonneg_denom d s && (sum_denom d s <=? led s MOD d - base).

(* own deposit only: what a Withdraw/Cancel paid to [who] in denom d (observed balance change),
   judged against the depositor's record before the step; d ranges over the debt denoms *)
Definition holds_C11_limit_own (pre : lstate) (o : lop) (d delta : Z) : bool :=
  match o with
  | Cancel who coll debt prem | Withdraw who coll debt prem _ _ =>
      match aget keq (mkK debt coll prem who) (recs pre) with
      | Some r => if d =? r_denom r then (delta <=? Z.max 0 (r_amt r)) else (delta <=? 0)
      | None => delta <=? 0
      end
  | AutoFill _ _ _ _ _ _ => delta <=? 0         (* a fill pays out collateral only (C10), never debt coins *)
  | Deposit _ _ _ _ _ _ => true
  end.
