(* C08: a concrete configuration, initial state and history for the non-vacuity examples of
   Properties/C08.v and for the regression witness of finding C08-F1.  It is the configuration of
   the correspondence harness (harness/c08_test.go: two pools, four assets and their cTokens,
   twelve same-pool and five cross-pool pairs), printed from its trace.  Definitions only. *)
From Comdex Require Import Lib.Base Lib.DecArith Model.Lend.

Definition ex_cfg : config := mkCfg
  [(1, mkAsset 1 1000000);
    (2, mkAsset 2 1000000);
    (3, mkAsset 3 100000000);
    (4, mkAsset 4 1000000);
    (5, mkAsset 5 1000000);
    (6, mkAsset 6 1000000);
    (7, mkAsset 7 100000000);
    (8, mkAsset 8 1000000)]
  [(1, mkPool 1 101 [mkPA 1 3 5000000000000000000000000000000000000; mkPA 2 1 3000000000000000000000000000000; mkPA 3 2 5000000000000000000000000000000000000]);
    (2, mkPool 2 102 [mkPA 4 1 3000000000000000000000000000000000000; mkPA 1 3 5000000000000000000000000000000000000; mkPA 3 2 5000000000000000000000000000000000000])]
  [(1, mkPair 1 1 2 false 1 false);
    (2, mkPair 2 1 3 false 1 true);
    (3, mkPair 3 2 1 false 1 false);
    (4, mkPair 4 2 3 false 1 false);
    (5, mkPair 5 3 1 false 1 false);
    (6, mkPair 6 3 2 false 1 false);
    (7, mkPair 7 4 1 false 2 false);
    (8, mkPair 8 4 3 false 2 false);
    (9, mkPair 9 1 4 false 2 false);
    (10, mkPair 10 1 3 false 2 false);
    (11, mkPair 11 3 4 false 2 false);
    (12, mkPair 12 3 1 false 2 false);
    (13, mkPair 13 2 4 true 2 false);
    (14, mkPair 14 1 4 true 2 false);
    (15, mkPair 15 3 4 true 2 false);
    (16, mkPair 16 4 2 true 1 false);
    (17, mkPair 17 1 2 true 1 false)]
  [(1, mkRates 1 700000000000000000 900000000000000000 5 false false 50000000000000000 80000000000000000);
    (2, mkRates 2 500000000000000000 900000000000000000 6 false false 50000000000000000 10000000000000000);
    (3, mkRates 3 800000000000000000 920000000000000000 7 true false 25000000000000000 10000000000000000);
    (4, mkRates 4 600000000000000000 900000000000000000 8 true true 50000000000000000 10000000000000000)]
  [((1, 1), [1; 2; 14]);
    ((1, 2), [9; 10; 17]);
    ((2, 1), [3; 4; 13]);
    ((3, 1), [5; 6; 15]);
    ((3, 2), [11; 12]);
    ((4, 2), [7; 8; 16])]
  [(1, true);
    (2, false)].

Definition ex_st0 : state := mkSt [] []
  [((1, 1), mkStats 0 0 0 0 [] []);
    ((1, 2), mkStats 0 0 0 0 [] []);
    ((1, 3), mkStats 0 0 0 0 [] []);
    ((2, 4), mkStats 0 0 0 0 [] []);
    ((2, 1), mkStats 0 0 0 0 [] []);
    ((2, 3), mkStats 0 0 0 0 [] [])]
  (mkBank [((0, 1), 20000);
    ((0, 2), 30020000);
    ((0, 3), 60020000);
    ((0, 4), 90020000);
    ((1, 1), 1000000000000);
    ((1, 2), 1000000000000);
    ((1, 3), 1000000000000);
    ((1, 4), 1000000000000);
    ((2, 1), 1000000000000);
    ((2, 2), 1000000000000);
    ((2, 3), 1000000000000);
    ((2, 4), 1000000000000);
    ((3, 1), 1000000000000);
    ((3, 2), 1000000000000);
    ((3, 3), 1000000000000);
    ((3, 4), 1000000000000)] [])
  0 0 [(1, 2000000);
  (2, 1000000);
  (3, 50000000000);
  (4, 300000)] [] [] [].

(* user 2 supplies asset 3; user 1 lends asset 1 (position 2) and asset 2 (position 3) *)
Definition ex_warm : list op :=
  [OLend 2 3 3 1000000000 1 1 0; OLend 1 1 1 1000000000 1 1 0; OLend 1 2 2 1000000000 1 1 0].
(* the witness of C08-F1: position 2 is of asset 1, pair 4 takes asset 2 as collateral *)
Definition ex_f1_borrow : op := OBorrow 1 2 4 false 6 1000000000 3 2000000 bi0 bi0.
(* the same request against the matching position: twice what Ltv 0.5 allows *)
Definition ex_over_borrow : op := OBorrow 1 3 4 false 6 1000000000 3 2000000 bi0 bi0.
(* half of it is exactly at the limit *)
Definition ex_borrow : op := OBorrow 1 3 4 false 6 1000000000 3 1000000 bi0 bi0.
(* one more coin on the open position is over the limit; repaying first makes room *)
Definition ex_draw_over : op := ODraw 1 1 3 1 bi0.
Definition ex_repay : op := ORepay 1 1 3 400000 (mkBI 0 2500000000000000000 500000000000000000).
Definition ex_draw : op := ODraw 1 1 3 300000 bi0.
Definition ex_withdraw_pledged : op := OWithdraw 1 3 2 1 0.
Definition ex_close_pledged : op := OCloseLend 1 3 0.
Definition ex_withdraw_free : op := OWithdraw 1 2 1 400000000 0.
(* a cross-pool borrow: asset 2 of pool 1 against asset 4 of pool 2, bridged through a transit asset *)
Definition ex_supply2 : list op := [OLend 3 4 4 2000000000 2 1 0; OLend 3 3 3 1000000000 1 1 0].
Definition ex_cross_borrow : op := OBorrow 1 3 13 false 6 1000000000 4 1333333333 bi0 bi0.
Definition ex_cross_over : op := OBorrow 1 3 13 false 6 1000000000 4 1333333334 bi0 bi0.
Definition ex_cross_history : list op := ex_warm ++ ex_supply2 ++ [ex_cross_over; ex_cross_borrow].
Definition ex_history : list op :=
  ex_warm ++ [ex_f1_borrow; ex_over_borrow; ex_borrow; ex_draw_over; OSetPrice 3 (Some 40000000000); ex_repay; ex_draw;
              ex_withdraw_pledged; ex_close_pledged; ex_withdraw_free; OCalc 1 [mkBI 0 1000000000000000000 100000000000000000] [0; 0]].

(* the witness of finding C08-F2 (harness/c08_liq_test.go): user 1's position of asset 2 (id 2) earns
   313 940 coins of rewards (AvailableToBorrow 1 000 313 940, AmountIn 1 000 000 000), pledges
   1 000 000 000, the collateral asset crashes and the position is handed over: AmountIn is exhausted,
   the lend record is deleted with AvailableToBorrow = 313 940 *)
Definition ex_liq_prefix : list op :=
  [OLend 2 3 3 1000000000 1 1 0; OLend 1 2 2 1000000000 1 1 0; OLend 3 2 2 2000000000 1 1 0; OLend 2 1 1 1000000000 1 1 0;
   OBorrow 2 4 1 false 5 1000000000 2 500000000 bi0 bi0;
   OCalc 1 [] [313940223591148000000000];
   OBorrow 1 2 4 false 6 1000000000 3 900000 bi0 bi0;
   OSetPrice 2 (Some 100000)].
Definition ex_handover : op := OHandOver 2 1 0.
Definition ex_liq_history : list op := ex_liq_prefix ++ [ex_handover].
(* the same hand-over when the rewards were pledged too (nothing is left on the record): harmless *)
Definition ex_liq_clean_history : list op :=
  [OLend 2 3 3 1000000000 1 1 0; OLend 1 2 2 1000000000 1 1 0; OLend 3 2 2 2000000000 1 1 0;
   OBorrow 1 2 4 false 6 1000000000 3 900000 bi0 bi0; OSetPrice 2 (Some 100000); OHandOver 1 1 7000000000000000000].

(* ---------- the close of a handed-over position (harness/c08_close_test.go TestC08Close, same numbers) ---------- *)
(* finding C08-F3 (a): position 1 (900 000 of asset 3 against 1 000 000 000 cTokens of asset 2) accrues 152.83 coins of
   interest (reserve share 152.71) in 30 days, is handed over and closed: the auction pays 945 000 (principal + 5 %), the
   close forwards 45 000 + 152 to the reserve: the pool of asset 3 ends with 999 999 848 coins against a published total
   lent of 1 000 000 000 and nothing lent out *)
Definition ex_close_interest_prefix : list op :=
  [OLend 2 3 3 1000000000 1 1 0; OLend 1 2 2 2000000000 1 1 0;
   OBorrow 1 2 4 false 6 1000000000 3 900000 bi0 bi0;
   OCalc 1 [mkBI 0 152833675564800000000 152709880287474000000] [0];
   OSetPrice 2 (Some 700000); OHandOver 1 1 0].
Definition ex_close_interest : op := OAucClose 1 945000 1 0.
(* finding C08-F3 (b): an e-mode pair (asset 1: ordinary penalty 0.05, e-mode penalty 0.08) closed without interest *)
Definition ex_close_emode_prefix : list op :=
  [OLend 2 3 3 1000000000 1 1 0; OLend 3 1 1 1000000000 1 1 0;
   OBorrow 3 2 2 false 5 500000000 3 1000000 bi0 bi0;
   OSetPrice 1 (Some 1000000); OHandOver 1 1 0].
Definition ex_close_emode : op := OAucClose 1 1050000 3 0.
(* outside the class: an ordinary pair closed without interest *)
Definition ex_close_plain_prefix : list op :=
  [OLend 2 3 3 1000000000 1 1 0; OLend 1 2 2 2000000000 1 1 0;
   OBorrow 1 2 4 false 6 1000000000 3 900000 bi0 bi0;
   OSetPrice 2 (Some 700000); OHandOver 1 1 0].
Definition ex_close_plain : op := OAucClose 1 945000 1 0.
(* finding C10-F7 seen from the lend books: a cross-pool position on a lend position that pledged its whole AmountIn *)
Definition ex_close_stuck_prefix : list op :=
  [OLend 2 4 4 2000000000 2 1 0; OLend 2 3 3 1000000000 1 1 0; OLend 1 2 2 1000000000 1 1 0;
   OBorrow 1 3 13 false 6 1000000000 4 1000000000 bi0 bi0;
   OSetPrice 2 (Some 600000); OHandOver 1 1 0].
Definition ex_close_stuck : op := OAucClose 1 1050000000 1 0.
(* finding C08-F4: the generation-1 hand-over message (x/liquidation MsgLiquidateBorrow) on the same position: 333 333 333
   coins of collateral go to the generation-1 auction, 15 873 015 to the reserve, 349 206 349 are deducted; the position is
   flagged, its principal 900 000 stays in the published total borrowed *)
Definition ex_v1_prefix : list op :=
  [OLend 2 3 3 1000000000 1 1 0; OLend 1 2 2 2000000000 1 1 0;
   OBorrow 1 2 4 false 6 1000000000 3 900000 bi0 bi0; OSetPrice 2 (Some 700000)].
Definition ex_v1_handover : op := OHandOverV1 1 1 0 333333333 15873015 349206349.
