(* C18: the accrual SITES, i.e. the keeper functions that pick the principal, the rate and the
   time base from the stored records, call the accrual function, carry the fraction in a tracker
   and add the whole units to the position record.  Statement for statement:
     rewards/keeper/rewards.go  CalculateVaultInterest (639-697)  stability fee on a vault
     rewards/keeper/rewards.go  CalculateLockerRewards (538-637)  savings on a locker
     asset/keeper/pairs_vault.go VaultIterateRewards (302-364)    one vault of the loop
     collector/keeper/collector.go LockerIterateRewards (716-805) one locker of the loop
     lend/keeper/iter.go        IterateLends (13-142)             lend rewards
     lend/keeper/iter.go        IterateBorrow (144-183)           borrow interest, stable-rate
                                                                  interest, reserve share
     lend/keeper/maths.go       GetAverageBorrowRate / GetSavingRate / GetReserveRate (81-129)
   Dec values are 10^18-scaled integers, Int values plain integers, times Unix seconds.
   A tracker that is not in the store is [None].  Definitions only. *)
From Comdex Require Import Lib.Base Lib.DecArith Lib.F64 Model.Accrual Model.Rates.

(* tracker := found ? tracker + x : x ; if tracker >= 1 { paid := TruncateInt; tracker -= paid } *)
Definition tracker_val (t : option Z) : Z := match t with Some a => a | None => 0 end.
Definition site_carry (t : option Z) (x : Z) : Z * Z :=
  let a := match t with Some a => dadd a x | None => x end in
  if P18 <=? a then let p := dtrunc_int a in (p, dsub a (dec_of_int p)) else (0, a).

(* what a site left behind: nothing touched, or (accrued, paid, tracker', record') *)
Inductive site_result : Type :=
| Untouched
| Updated (accrued paid tracker record : Z).

(* the part every float site shares: CalculationOfRewards on the selected operands, carry, add *)
(* [calc now bt principal rate] is CalculationOfRewards; the [_with] forms take it as an argument so
   that the correspondence run can execute them with the shift-based equal of Model/AccrualFast.v *)
Definition float_site_with (calc : Z -> Z -> Z -> Z -> outcome Z) (now bt principal rate : Z) (tracker : option Z) (record : Z)
  : outcome site_result :=
  match calc now bt principal rate with
  | Ok x => let '(p, t') := site_carry tracker x in Ok (Updated x p t' (record + p))
  | Err c => Err c
  | Panic => Panic
  end.
Definition float_site (pow : Z -> Z -> Z) := float_site_with (calculation_of_rewards pow).

(* ---------------- CalculateVaultInterest ---------------- *)
Record vault_site := mkVS {
  vs_app_ok : bool;          (* GetAppIDByApp found *)
  vs_pair_found : bool;      (* GetPairsVault found *)
  vs_fee : Z;                (* ExtendedPairVault.StabilityFee *)
  vs_stable_mint : bool;     (* IsStableMintVault *)
  vs_pair_bt : Z;            (* ExtendedPairVault.BlockTime *)
  vs_bh : Z; vs_bt : Z;      (* arguments blockHeight, vaultBlockTime (the callers pass the vault's) *)
  vs_debt : Z;               (* argument totalDebt (the callers pass AmountOut + InterestAccumulated) *)
  vs_tracker : option Z;     (* VaultInterestTracker.InterestAccumulated *)
  vs_intacc : Z }.           (* Vault.InterestAccumulated *)

(* Err 3 = ErrorPairDoesNotExist *)
Definition vault_interest_with (calc : Z -> Z -> Z -> Z -> outcome Z) (now : Z) (v : vault_site) : outcome site_result :=
  if negb (vs_app_ok v) then Ok Untouched
  else if negb (vs_pair_found v) then Err 3
  else if (vs_fee v =? 0) || vs_stable_mint v then Ok Untouched
  else
    (* the pair's stamp also when it is later than the vault's own (repair of C18-F2) *)
    let bt := if (vs_bh v =? 0) || (vs_bt v <? vs_pair_bt v) then vs_pair_bt v else vs_bt v in
    float_site_with calc now bt (vs_debt v) (vs_fee v) (vs_tracker v) (vs_intacc v).
Definition vault_interest (pow : Z -> Z -> Z) := vault_interest_with (calculation_of_rewards pow).

(* VaultIterateRewards, one vault: principal = AmountOut (NOT AmountOut + InterestAccumulated),
   rate and time base are the arguments collectorLsr / collectorBt; an error ends the loop *)
Definition vault_iterate_one_with (calc : Z -> Z -> Z -> Z -> outcome Z) (now lsr coll_bt vault_bh vault_bt amount_out : Z)
  (tracker : option Z) (intacc : Z) : outcome site_result :=
  let bt := if (vault_bh =? 0) || (vault_bt <? coll_bt) then coll_bt else vault_bt in
  float_site_with calc now bt amount_out lsr tracker intacc.
Definition vault_iterate_one (pow : Z -> Z -> Z) := vault_iterate_one_with (calculation_of_rewards pow).

(* ---------------- CalculateLockerRewards ---------------- *)
Record locker_site := mkLS {
  ls_reward_ok : bool;       (* GetReward found (asset whitelisted for internal rewards) *)
  ls_coll_found : bool;      (* GetCollectorLookupTable found *)
  ls_lsr : Z;                (* LockerSavingRate *)
  ls_coll_bt : Z;            (* CollectorLookupTable.BlockTime *)
  ls_bh : Z; ls_bt : Z;      (* arguments blockHeight, lockerBlockTime *)
  ls_balance : Z;            (* argument NetBalance *)
  ls_tracker : option Z;     (* LockerRewardsTracker.RewardsAccumulated *)
  ls_net : Z;                (* stored Locker.NetBalance *)
  ls_returns : Z;            (* stored Locker.ReturnsAccumulated *)
  ls_netfee : option Z;      (* collector NetFeeCollectedData of (app, deposit asset) *)
  ls_coll_bal : Z }.         (* bank balance of the collector module in the asset's denom *)

(* (accrued, paid, tracker', NetBalance', ReturnsAccumulated', netfee') ;
   Err 4 = collector lookup missing, Err 5 = net fee record missing, Err 6 = net fees would go
   negative, Err 7 = the collector module cannot pay *)
Inductive locker_result : Type :=
| LUntouched
| LUpdated (accrued paid tracker net returns netfee : Z).

Definition locker_rewards_with (calc : Z -> Z -> Z -> Z -> outcome Z) (now : Z) (l : locker_site) : outcome locker_result :=
  if negb (ls_reward_ok l) then Ok LUntouched
  else if negb (ls_coll_found l) then Err 4
  else if ls_lsr l =? 0 then Ok LUntouched
  else
    let bt := if ls_bh l =? 0 then ls_coll_bt l else ls_bt l in
    match calc now bt (ls_balance l) (ls_lsr l) with
    | Err c => Err c
    | Panic => Panic
    | Ok x =>
        let '(p, t') := site_carry (ls_tracker l) x in
        if P18 <=? tracker_val (ls_tracker l) + x then
          match ls_netfee l with
          | None => Err 5
          | Some nf =>
              if nf - p <? 0 then Err 6
              else if (0 <? p) && (ls_coll_bal l <? p) then Err 7
              else Ok (LUpdated x p t' (ls_net l + p) (ls_returns l + p) (nf - p))
          end
        else Ok (LUpdated x 0 t' (ls_net l) (ls_returns l) (tracker_val (ls_netfee l)))
    end.
Definition locker_rewards (pow : Z -> Z -> Z) := locker_rewards_with (calculation_of_rewards pow).

(* ---------------- IterateLends: the reward and its carry ---------------- *)
(* lendAPR and the lend record's (AmountIn, LastInteractionTime, GlobalIndex); the error of
   CalculateLendReward is ignored by the caller (it then adds the returned zero).  Returns
   (accrued, paid, tracker', new global index as returned by CalculateLendReward). *)
Definition lend_site (now last amt apr gi : Z) (tracker : option Z) : outcome (Z * Z * Z * Z) :=
  match lend_reward now last amt apr gi with
  | Panic => Panic
  | Err _ => let '(p, t') := site_carry (Some (tracker_val tracker)) 0 in Ok (0, p, t', 0)
  | Ok (x, igc) => let '(p, t') := site_carry (Some (tracker_val tracker)) x in Ok (x, p, t', igc)
  end.

(* ---------------- IterateBorrow ---------------- *)
(* GetAverageBorrowRate: (BorrowApr * TotalBorrowed + StableBorrowApr * TotalStableBorrowed) /
   (TotalStableBorrowed + TotalBorrowed); Err 8 = ErrAverageBorrowRate (nothing borrowed) *)
Definition obindo {A} (x : option Z) (f : Z -> outcome A) : outcome A :=
  match x with Some v => f v | None => Panic end.
Definition average_borrow_rate (bapr sapr borrowed sborrowed : Z) : outcome Z :=
  obindo (int64_c borrowed) (fun b =>
  obindo (int64_c sborrowed) (fun sb =>
  obindo (dmul_c bapr (dec_of_int b)) (fun f1 =>
  obindo (dmul_c sapr (dec_of_int sb)) (fun f2 =>
  obindo (dadd_c f1 f2) (fun num =>
  obindo (int64_c (sborrowed + borrowed)) (fun tot =>
  let den := dec_of_int tot in
  if den <=? 0 then Err 8 else obindo (dquo_c num den) (fun r => Ok r))))))).
(* GetSavingRate: averageBorrowRate * utilisation * (1 - ReserveFactor) *)
Definition saving_rate (avg u rf : Z) : option Z := lend_apr avg u rf.
(* GetReserveRate: averageBorrowRate - savingRate *)
Definition reserve_rate (avg u rf : Z) : option Z :=
  obindr (saving_rate avg u rf) (fun s => dsub_c avg s).

(* the rates IterateBorrow reads: GetReserveRate (-> GetAverageBorrowRate -> UpdateAPR: lend APR,
   both borrow APRs and the utilisation are all computed, a panic in any of them propagates;
   GetSavingRate) and then GetBorrowAPRByAssetID(IsStableBorrow).
   Ok (apr, reserve rate, average borrow rate, utilisation) *)
Definition borrow_rates (p : rate_params) (mod_bal borrowed sborrowed : Z) (stable : bool) : outcome (Z * Z * Z * Z) :=
  obindo (utilisation mod_bal (borrowed + sborrowed)) (fun u =>
  obindo (lend_apr_p p u) (fun _ =>
  obindo (borrow_apr p false u) (fun bapr =>
  obindo (borrow_apr p true u) (fun sapr =>
  match average_borrow_rate bapr sapr borrowed sborrowed with
  | Panic => Panic | Err c => Err c
  | Ok avg => obindo (reserve_rate avg u (rp_rf p)) (fun rr =>
              obindo (borrow_apr p stable u) (fun apr => Ok (apr, rr, avg, u)))
  end)))).

Record borrow_site := mkBS {
  bs_stable : bool;          (* BorrowAsset.IsStableBorrow *)
  bs_apr : Z;                (* GetBorrowAPRByAssetID(pool, asset, IsStableBorrow) *)
  bs_rrate : Z;              (* GetReserveRate *)
  bs_stable_rate : Z;        (* BorrowAsset.StableBorrowRate *)
  bs_amt : Z;                (* AmountOut *)
  bs_last : Z;               (* LastInteractionTime *)
  bs_gi : Z; bs_rgi : Z;     (* GlobalIndex, ReserveGlobalIndex *)
  bs_intacc : Z;             (* InterestAccumulated (Dec) *)
  bs_reserve : option Z }.   (* BorrowInterestTracker.ReservePoolInterest (Dec) *)

(* (interest added, InterestAccumulated', ReservePoolInterest', global index, reserve index) *)
Definition borrow_site_step (now : Z) (b : borrow_site) : outcome (Z * Z * Z * Z * Z) :=
  match borrow_interest now (bs_last b) (bs_amt b) (bs_apr b) (bs_rrate b) (bs_gi b) (bs_rgi b) with
  | Panic => Panic
  | Err c => Err c
  | Ok ((new, igc), (rnew, rigc)) =>
      let res' := if 0 <? rnew then dadd (tracker_val (bs_reserve b)) rnew else tracker_val (bs_reserve b) in
      if bs_stable b then
        match stable_interest now (bs_last b) (bs_amt b) (bs_stable_rate b) with
        | Panic => Panic
        | Err c => Err c
        | Ok s => Ok (s, dadd (bs_intacc b) s, res', igc, rigc)
        end
      else Ok (new, dadd (bs_intacc b) new, res', igc, rigc)
  end.

(* ---------------- property predicates on the implementation's observations ---------------- *)
(* one accrual step at a site: the record never decreases, the tracker stays in [0,1), and
   nothing is created or lost: record' + tracker' = record + tracker + accrued *)
Definition holds_C18_site_step (tracker0 record0 accrued paid tracker1 record1 : Z) : bool :=
  (0 <=? accrued) && (0 <=? paid) && (record1 =? record0 + paid) &&
  (0 <=? tracker1) && (tracker1 <? P18) &&
  (record1 * P18 + tracker1 =? record0 * P18 + tracker0 + accrued).
(* zero elapsed time: nothing changes *)
Definition holds_C18_site_zero_time (secs tracker0 record0 tracker1 record1 : Z) : bool :=
  negb (secs =? 0) || ((tracker1 =? tracker0) && (record1 =? record0)).
(* Dec-valued records (borrow interest, reserve share): non-decreasing, unchanged over zero time *)
Definition holds_C18_dec_site (secs v0 v1 : Z) : bool := (v0 <=? v1) && (negb (secs =? 0) || (v1 =? v0)).
(* reserve rate between 0 and the average borrow rate *)
Definition holds_C18_reserve_rate (avg rf r : Z) : bool :=
  negb ((0 <=? avg) && (0 <=? rf) && (rf <=? P18)) || ((0 <=? r) && (r <=? avg)).
