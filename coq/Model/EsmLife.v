(* Emergency shutdown (ESM) of an app, on top of the vault life cycle (Model/VaultLife.v), STATEMENT BY
   STATEMENT in the order of the Go code:

     x/esm/keeper/keeper.go      DepositESM, ExecuteESM, CalculateCollateral (MsgCollateralRedemption)
     x/esm/keeper/msg_server.go  the cool-off check of MsgCollateralRedemption; ValidateBasic of x/esm/types/tx.go
     x/esm/keeper/esm.go         SnapshotOfPrices, SetUpCollateralRedemptionForVault,
                                 SetUpCollateralRedemptionForStableVault, SetUpDebtRedemptionForCollector,
                                 SetUpShareCalculation, CalcDollarValueOfToken, GetRateOfAsset
     x/esm/abci.go               BeginBlocker: per app, the local copy of the status record, every step under
                                 ApplyFuncIfNoError, `continue` on the first failing step
     x/tokenmint/keeper/mint.go  BurnTokensForApp (called by DepositESM)

   The state adds to [lstate]: the AssetToAmount records (in key order (app, asset), as the store iterates),
   DataAfterCoolOff, the four step flags of ESMStatus (Status / EndTime / SnapshotStatus are the [esm] field of
   Model/Vault.v; here they are STATE, written by ExecuteESM and SnapshotOfPrices), CurrentDepositStats,
   UsersDepositMapping and the tokenmint supply of the governance token.
   The vault step is VaultLife.esm_redeem_one for the books (vaults deleted, collateral moved to the esm
   account, totals, counter) plus the records and the dollar totals; the field [ereg] of [lstate] is superseded by
   [recs] (it is still written, never read), [edebt] stays the ghost "principal registered as debt".

   SetUpCollateralRedemptionForStableVault follows the REPAIRED code (fixes/C01-F5): after moving a stable-mint
   vault's collateral to the esm account and registering its debt it deletes the stable-mint vault record
   (the unrepaired code left the record behind: custody < recorded collateral, the principal counted twice).

   ENVIRONMENT: the collector's net-fee records of the app (asset, NetFeesCollected) at the time
   SetUpDebtRedemptionForCollector runs (the collector books are C13's subject): argument of the op.
   Ghosts (never compared): [epool] collateral moved into the esm account by the two set-up steps, [epaid]
   collateral paid out by redemptions, [eret] debt burnt by redemptions, [gburn] governance tokens burnt by
   deposits.
   Not modelled: an oracle-priced asset without any Twa record (SnapshotOfPrices skips it; here every asset of
   [ec_oracle] has one, active or not); DecreaseNetFeeCollectedData failing (it is called with the amount of
   the record it just read).  Definitions only. *)
From Comdex Require Import Lib.Base Lib.DecArith Lib.Atomic Model.Vault Model.VaultLife.

Definition TMINT : Z := -4.    (* tokenmint module account *)

Record ecfg := mkEC {
  ec_target : Z -> option Z;   (* ESMTriggerParams found: TargetValue.Amount *)
  ec_cool : Z -> Z;            (* CoolOffPeriod, seconds *)
  ec_gov : Z -> option Z;      (* app: the asset (= denom) of its governance token, when that asset exists *)
  ec_oracle : list Z;          (* assets with IsOraclePriceRequired, ascending *)
  ec_dec : Z -> option Z       (* asset.GetAsset: Decimals; None = no such asset *)
}.

Record arec := mkAR { ar_app : Z; ar_asset : Z; ar_amt : Z; ar_coll : bool; ar_share : Z; ar_worth : Z }.
Record eflag := mkEF { ef_found : bool; ef_vault : bool; ef_stable : bool; ef_coll : bool; ef_share : bool }.
Definition ef0 := mkEF false false false false false.

Record estate := mkE {
  el : lstate;
  recs : list arec;                 (* AssetToAmount, key order *)
  cool : Z -> option (Z * Z);       (* DataAfterCoolOff: CollateralTotalAmount, DebtTotalAmount (Dec) *)
  eflags : Z -> eflag;              (* ESMStatus found + the four step flags *)
  dep : Z -> option Z;              (* CurrentDepositStats.Balance.Amount *)
  udep : Z -> Z -> option Z;        (* UsersDepositMapping: depositor, app *)
  tms : Z -> option Z;              (* tokenmint CurrentSupply of the app's governance token *)
  epool : Z -> Z; epaid : Z -> Z; eret : Z -> Z; gburn : Z -> Z     (* ghosts, per denom *)
}.

Definition elift (l : lstate) (t : Z -> option Z) : estate :=
  mkE l [] (fun _ => None) (fun _ => ef0) (fun _ => None) (fun _ _ => None) t (fun _ => 0) (fun _ => 0) (fun _ => 0) (fun _ => 0).
Definition set_el e x := mkE x (recs e) (cool e) (eflags e) (dep e) (udep e) (tms e) (epool e) (epaid e) (eret e) (gburn e).
Definition set_eflags e x := mkE (el e) (recs e) (cool e) x (dep e) (udep e) (tms e) (epool e) (epaid e) (eret e) (gburn e).

(* ---------- the AssetToAmount records ---------- *)
Definition rkey (r : arec) : Z * Z := (ar_app r, ar_asset r).
Definition key_is (w : arec) (app asset : Z) : bool := (ar_app w =? app) && (ar_asset w =? asset).
Definition key_lt (r w : arec) : bool := (ar_app r <? ar_app w) || ((ar_app r =? ar_app w) && (ar_asset r <? ar_asset w)).
Fixpoint find_rec (l : list arec) (app asset : Z) : option arec :=
  match l with [] => None | w :: t => if key_is w app asset then Some w else find_rec t app asset end.
(* SetAssetToAmount: an existing key is overwritten in place, a new key is inserted in key order *)
Fixpoint repl_rec (l : list arec) (r : arec) : list arec :=
  match l with [] => [] | w :: t => if key_is w (ar_app r) (ar_asset r) then r :: t else w :: repl_rec t r end.
Fixpoint ins_rec (l : list arec) (r : arec) : list arec :=
  match l with [] => [r] | w :: t => if key_lt r w then r :: w :: t else w :: ins_rec t r end.
Definition put_rec (l : list arec) (r : arec) : list arec :=
  match find_rec l (ar_app r) (ar_asset r) with Some _ => repl_rec l r | None => ins_rec l r end.
Definition app_recs (l : list arec) (app : Z) : list arec := filter (fun r => ar_app r =? app) l.
Definition with_amt (r : arec) (x : Z) := mkAR (ar_app r) (ar_asset r) x (ar_coll r) (ar_share r) (ar_worth r).

(* the found branch: Amount.Add on an existing record, a new record (Share, DebtTokenWorth zero) otherwise *)
Definition add_amt (l : list arec) (app asset amt : Z) (coll : bool) : list arec :=
  match find_rec l app asset with
  | Some r => put_rec l (with_amt r (ar_amt r + amt))
  | None => put_rec l (mkAR app asset amt coll 0 0)
  end.
(* the first vault of an app (no DataAfterCoolOff yet): both records are written afresh, Share = 1 *)
Definition set_first (l : list arec) (app ain vin aout vout : Z) : list arec :=
  put_rec (put_rec l (mkAR app ain vin true P18 0)) (mkAR app aout vout false P18 0).

(* GetRateOfAsset, then the price snapshot when the rate is 0 *)
Definition rate_of (lc : lcfg) (s : state) (app asset : Z) : option Z :=
  if lc_rate lc app asset =? 0 then snap s app asset else Some (lc_rate lc app asset).

Definition set_flag (e : estate) (app : Z) (f : eflag -> eflag) : estate :=
  set_eflags e (upd1 (eflags e) app (f (eflags e app))).

(* ---------- MsgDepositESM ---------- *)
Definition deposit_esm (c : cfg) (ec : ecfg) (e : estate) (from app denom amt : Z) : outcome estate :=
  if amt <? 0 then Err E_INVALID else                              (* ValidateBasic: Coin.IsValid *)
  if negb (app_exists c app) then Err E_NOTFOUND else
  match ec_gov ec app with None => Err E_NOTFOUND | Some gov =>
  if negb (denom =? gov) then Err E_INVALID else
  match ec_target ec app with None => Err E_NOTFOUND | Some target =>
  obind (match dep e app with
         | None => Ok amt
         | Some b => if b >? target then Err E_STATE else Ok (b + amt) end) (fun nb =>
  let l := el e in
  obind (send (vs l) from TMINT gov amt) (fun s1 =>
  (* tokenmint.BurnTokensForApp *)
  match tms e app with None => Err E_NOTFOUND | Some cur =>
  if (cur - amt <=? 0) || (amt <=? 0) then Err E_INVALID else
  obind (burn_from s1 TMINT gov amt) (fun s2 =>
  let nu := match udep e from app with None => amt | Some u => u + amt end in
  Ok (mkE (set_vs l s2) (recs e) (cool e) (eflags e) (upd1 (dep e) app (Some nb)) (upd2 (udep e) from app (Some nu))
          (upd1 (tms e) app (Some (cur - amt))) (epool e) (epaid e) (eret e) (add1 (gburn e) gov amt)))
  end)) end end.

(* ---------- MsgExecuteESM ---------- *)
Definition execute_esm (c : cfg) (ec : ecfg) (e : estate) (app : Z) : outcome estate :=
  if negb (app_exists c app) then Err E_NOTFOUND else
  if ef_found (eflags e app) then Err E_STATE else
  match ec_target ec app with None => Err E_NOTFOUND | Some target =>
  match dep e app with None => Err E_NOTFOUND | Some b =>
  if b >=? target then
    let l := el e in let s := vs l in
    let s1 := set_esm s (upd1 (esm s) app (mkEsm true (now s + ec_cool ec app) false)) in
    Ok (set_eflags (set_el e (set_vs l s1)) (upd1 (eflags e) app (mkEF true false false false false)))
  else Err E_STATE
  end end.

(* ---------- SnapshotOfPrices ---------- *)
Fixpoint snap_loop (s : state) (app : Z) (assets : list Z) : state * bool :=
  match assets with
  | [] => (s, true)
  | a :: r =>
      match price s a with
      | Some p =>
          snap_loop (match snap s app a with None => set_snap s (upd2 (snap s) app a (Some p)) | Some _ => s end) app r
      | None => (s, false)            (* an inactive price: return nil, the status is not updated *)
      end
  end.
Definition snapshot (ec : ecfg) (e : estate) (app : Z) : outcome estate :=
  let l := el e in
  let '(s1, done) := snap_loop (vs l) app (ec_oracle ec) in
  let s2 := if done then set_esm s1 (upd1 (esm s1) app (mkEsm (e_status (esm s1 app)) (e_end (esm s1 app)) true)) else s1 in
  Ok (set_el e (set_vs l s2)).

(* ---------- SetUpCollateralRedemptionForVault ---------- *)
Definition with_books (e : estate) (l1 : lstate) (rs : list arec) (app : Z) (cl : Z * Z) (d amt : Z) : estate :=
  mkE l1 rs (upd1 (cool e) app (Some cl)) (eflags e) (dep e) (udep e) (tms e) (add1 (epool e) d amt) (epaid e) (eret e) (gburn e).

Definition e_vault_one (c : cfg) (lc : lcfg) (app : Z) (e : estate) (v : vault) : outcome estate :=
  if negb (v_app v =? app) then Ok e else
  let s := vs (el e) in
  match get_ep c (v_pair v) with None => Err E_NOTFOUND | Some ep =>
  match snap s app (ep_in ep) with None => Err E_PRICE | Some rin =>
  match rate_of lc s app (ep_out ep) with None => Err E_PRICE | Some rout =>
  obind (total_value (v_in v) rin (ep_dec_in ep)) (fun cin =>
  match cool e app with
  | None =>
      obind (esm_redeem_one c lc app (el e) v) (fun l1 =>
      obind (total_value (v_out v) rout (ep_dec_out ep)) (fun cout =>
      Ok (with_books e l1 (set_first (recs e) app (ep_in ep) (v_in v) (ep_out ep) (v_out v)) app (cin, cout) (ep_in ep) (v_in v))))
  | Some (ct, dt) =>
      obind (total_value (v_out v) rout (ep_dec_out ep)) (fun cout =>
      match dadd_c ct cin, dadd_c dt cout with
      | Some ct', Some dt' =>
          obind (esm_redeem_one c lc app (el e) v) (fun l1 =>
          Ok (with_books e l1 (add_amt (add_amt (recs e) app (ep_in ep) (v_in v) true) app (ep_out ep) (v_out v) false)
                         app (ct', dt') (ep_in ep) (v_in v)))
      | _, _ => Panic
      end)
  end) end end end.

Fixpoint e_vault_loop (c : cfg) (lc : lcfg) (app : Z) (vl : list vault) (e : estate) : outcome estate :=
  match vl with
  | [] => Ok e
  | v :: r => obind (e_vault_one c lc app e v) (fun e1 => e_vault_loop c lc app r e1)
  end.

Definition e_vault (c : cfg) (lc : lcfg) (e : estate) (app : Z) : outcome estate :=
  if negb (ef_found (eflags e app)) then Err E_NOTFOUND else
  obind (e_vault_loop c lc app (vaults (vs (el e))) e) (fun e1 =>
  Ok (set_flag e1 app (fun f => mkEF (ef_found f) true (ef_stable f) (ef_coll f) (ef_share f)))).

(* ---------- SetUpCollateralRedemptionForStableVault (repaired: fixes/C01-F5) ---------- *)
Definition del_sv := gdel sv_id.

Definition e_stable_one (c : cfg) (lc : lcfg) (app : Z) (e : estate) (x : svault) : outcome estate :=
  if negb (sv_app x =? app) then Ok e else
  let l := el e in let s := vs l in
  match get_ep c (sv_pair x) with None => Err E_NOTFOUND | Some ep =>
  let rin := lc_rate lc app (ep_in ep) in
  if rin =? 0 then Err E_PRICE else
  let rout := lc_rate lc app (ep_out ep) in
  if rout =? 0 then Err E_PRICE else
  obind (total_value (sv_in x) rin (ep_dec_in ep)) (fun cin =>
  obind (match cool e app with
         | None =>
             obind (send s VAULT ESMA (ep_in ep) (sv_in x)) (fun s1 =>
             obind (total_value (sv_out x) rout (ep_dec_out ep)) (fun cout =>
             Ok (s1, set_first (recs e) app (ep_in ep) (sv_in x) (ep_out ep) (sv_out x), (cin, cout))))
         | Some (ct, dt) =>
             obind (total_value (sv_out x) rout (ep_dec_out ep)) (fun cout =>
             match dadd_c ct cin, dadd_c dt cout with
             | Some ct', Some dt' =>
                 obind (send s VAULT ESMA (ep_in ep) (sv_in x)) (fun s1 =>
                 Ok (s1, add_amt (add_amt (recs e) app (ep_in ep) (sv_in x) true) app (ep_out ep) (sv_out x) false, (ct', dt')))
             | _, _ => Panic
             end)
         end) (fun r =>
  let '(s1, rs, cl) := r in
  let s2 := set_svaults s1 (del_sv (svaults s1) (sv_id x)) in          (* DeleteStableMintVault *)
  let s3 := prod_del_id s2 app (sv_pair x) (sv_id x) in
  let s4 := upd_mint s3 app (sv_pair x) (sv_out x) false in
  let s5 := upd_coll s4 app (sv_pair x) (sv_in x) false in
  let l1 := mkL s5 (lks l) (aus l) (lkid l) (auid l)
                (add2 (add2 (ereg l) app (ep_in ep) (sv_in x)) app (ep_out ep) (sv_out x))
                (add1 (edebt l) (ep_out ep) (sv_out x)) (rsv l) (drift l) (er_mint l) (er_coll l) (er_short l) (over l) in
  Ok (with_books e l1 rs app cl (ep_in ep) (sv_in x))))
  end.

Fixpoint e_stable_loop (c : cfg) (lc : lcfg) (app : Z) (xl : list svault) (e : estate) : outcome estate :=
  match xl with
  | [] => Ok e
  | x :: r => obind (e_stable_one c lc app e x) (fun e1 => e_stable_loop c lc app r e1)
  end.

Definition e_stable (c : cfg) (lc : lcfg) (e : estate) (app : Z) : outcome estate :=
  if negb (ef_found (eflags e app)) then Err E_NOTFOUND else
  obind (e_stable_loop c lc app (svaults (vs (el e))) e) (fun e1 =>
  Ok (set_flag e1 app (fun f => mkEF (ef_found f) (ef_vault f) true (ef_coll f) (ef_share f)))).

(* ---------- SetUpDebtRedemptionForCollector ---------- *)
Definition set_edebt (l : lstate) (s : state) (x : Z -> Z) : lstate :=
  mkL s (lks l) (aus l) (lkid l) (auid l) (ereg l) x (rsv l) (drift l) (er_mint l) (er_coll l) (er_short l) (over l).

Definition e_collector_one (lc : lcfg) (ec : ecfg) (app : Z) (e : estate) (it : Z * Z) : outcome estate :=
  let '(asset, fee) := it in
  let l := el e in let s := vs l in
  let fr := find_rec (recs e) app asset in
  if (match fr with Some r => ar_coll r | None => false end) || (fee =? 0) then Ok e else
  match fr with None => Err E_NOTFOUND | Some r =>          (* the zero-valued record: GetAsset(0) *)
  match ec_dec ec asset with None => Err E_NOTFOUND | Some dec =>
  match rate_of lc s app asset with None => Err E_PRICE | Some rate =>
  obind (total_value fee rate dec) (fun dv =>
  match cool e app with None => Panic | Some (ct, dt) =>
  match dsub_c dt dv with None => Panic | Some dt' =>
  obind (burn_from s COLL asset fee) (fun s1 =>
  Ok (mkE (set_edebt l s1 (add1 (edebt l) asset (- fee))) (put_rec (recs e) (with_amt r (ar_amt r - fee)))
          (upd1 (cool e) app (Some (ct, dt'))) (eflags e) (dep e) (udep e) (tms e) (epool e) (epaid e) (eret e) (gburn e)))
  end end) end end end.

Fixpoint e_collector_loop (lc : lcfg) (ec : ecfg) (app : Z) (fees : list (Z * Z)) (e : estate) : outcome estate :=
  match fees with
  | [] => Ok e
  | it :: r => obind (e_collector_one lc ec app e it) (fun e1 => e_collector_loop lc ec app r e1)
  end.

Definition e_collector (lc : lcfg) (ec : ecfg) (e : estate) (app : Z) (fees : list (Z * Z)) : outcome estate :=
  if negb (ef_found (eflags e app)) then Err E_NOTFOUND else
  obind (e_collector_loop lc ec app fees e) (fun e1 =>
  Ok (set_flag e1 app (fun f => mkEF (ef_found f) (ef_vault f) (ef_stable f) true (ef_share f)))).

(* ---------- SetUpShareCalculation ---------- *)
Definition share_one (lc : lcfg) (ec : ecfg) (s : state) (app : Z) (cl : option (Z * Z)) (r : arec) : outcome arec :=
  match ec_dec ec (ar_asset r) with None => Err E_NOTFOUND | Some dec =>
  match rate_of lc s app (ar_asset r) with None => Err E_PRICE | Some rate =>
  obind (total_value (ar_amt r) rate dec) (fun v =>
  match cl with None => Panic | Some (ct, dt) =>
  if ar_coll r then
    match dquo_c v ct with None => Panic | Some sh => Ok (mkAR (ar_app r) (ar_asset r) (ar_amt r) (ar_coll r) sh (ar_worth r)) end
  else
    match dquo_c v dt with None => Panic | Some sh =>
    match dmul_c sh ct with None => Panic | Some ddv =>
    match dquo_c (dec_of_int (ar_amt r)) (dec_of_int dec) with None => Panic | Some num =>
    match dquo_c ddv num with None => Panic | Some w => Ok (mkAR (ar_app r) (ar_asset r) (ar_amt r) (ar_coll r) sh w)
    end end end end
  end) end end.

Fixpoint share_loop (lc : lcfg) (ec : ecfg) (s : state) (app : Z) (cl : option (Z * Z)) (rl : list arec) (rs : list arec) : outcome (list arec) :=
  match rl with
  | [] => Ok rs
  | r :: t => obind (share_one lc ec s app cl r) (fun r' => share_loop lc ec s app cl t (put_rec rs r'))
  end.

Definition e_share (lc : lcfg) (ec : ecfg) (e : estate) (app : Z) : outcome estate :=
  if negb (ef_found (eflags e app)) then Err E_NOTFOUND else
  obind (share_loop lc ec (vs (el e)) app (cool e app) (app_recs (recs e) app) (recs e)) (fun rs =>
  Ok (set_flag (mkE (el e) rs (cool e) (eflags e) (dep e) (udep e) (tms e) (epool e) (epaid e) (eret e) (gburn e)) app
               (fun f => mkEF (ef_found f) (ef_vault f) (ef_stable f) (ef_coll f) true))).

(* ---------- MsgCollateralRedemption: CalculateCollateral ---------- *)
(* what one collateral record pays for the dollar worth [w]: Mul by the share, Quo by the rate, Mul by the
   decimals, TruncateInt *)
Definition payout (w share rate dec : Z) : option Z :=
  match dmul_c w share with None => None | Some ts =>
  match dquo_c ts (dec_of_int rate) with None => None | Some cq =>
  match dmul_c cq (dec_of_int dec) with None => None | Some cq2 => dtrunc_int_c cq2 end end end.

Definition redeem_one (lc : lcfg) (ec : ecfg) (app from w : Z) (st : state * list arec * (Z -> Z)) (r : arec)
  : outcome (state * list arec * (Z -> Z)) :=
  let '(s, rs, pd) := st in
  match ec_dec ec (ar_asset r) with None => Err E_NOTFOUND | Some dec =>
  if ar_coll r && negb (ar_amt r =? 0) then
    match rate_of lc s app (ar_asset r) with None => Err E_PRICE | Some rate =>
    match payout w (ar_share r) rate dec with None => Panic | Some q =>
    obind (send s ESMA from (ar_asset r) q) (fun s1 =>
    Ok (s1, put_rec rs (with_amt r (ar_amt r - q)), add1 pd (ar_asset r) q))
    end end
  else Ok (s, put_rec rs r, pd)
  end.

Fixpoint redeem_loop (lc : lcfg) (ec : ecfg) (app from w : Z) (rl : list arec) (st : state * list arec * (Z -> Z))
  : outcome (state * list arec * (Z -> Z)) :=
  match rl with
  | [] => Ok st
  | r :: t => obind (redeem_one lc ec app from w st r) (fun st1 => redeem_loop lc ec app from w t st1)
  end.

Definition redeem (lc : lcfg) (ec : ecfg) (e : estate) (from app denom amt : Z) : outcome estate :=
  if amt <=? 0 then Err E_INVALID else                               (* ValidateBasic *)
  let l := el e in let s := vs l in
  let st := esm s app in
  if (now s <? e_end st) && e_status st then Err E_ESM else
  match cool e app with None => Err E_NOTFOUND | Some (ct, dt) =>
  match find_rec (recs e) app denom with None => Err E_INVALID | Some r =>
  if ar_coll r || (ar_amt r =? 0) || (amt >? ar_amt r) then Err E_INVALID else
  match uint64_c (dtrunc_int (ar_worth r)) with None => Panic | Some tw =>
  match ec_dec ec denom with None => Panic | Some dec =>
  obind (total_value amt tw dec) (fun w =>
  obind (send s from ESMA denom amt) (fun s1 =>
  obind (burn_from s1 ESMA denom amt) (fun s2 =>
  obind (redeem_loop lc ec app from w (app_recs (recs e) app) (s2, recs e, epaid e)) (fun st3 =>
  let '(s3, rs, pd) := st3 in
  match dsub_c ct w with None => Panic | Some ct' =>
  match rate_of lc s3 app denom with None => Err E_PRICE | Some rout =>
  obind (total_value amt rout dec) (fun tp =>
  match dsub_c dt tp with None => Panic | Some dt' =>
  Ok (mkE (set_edebt l s3 (add1 (edebt l) denom (- amt))) (put_rec rs (with_amt r (ar_amt r - amt)))
          (upd1 (cool e) app (Some (ct', dt'))) (eflags e) (dep e) (udep e) (tms e) (epool e) pd (add1 (eret e) denom amt) (gburn e))
  end) end end))))
  end end end end.

(* ---------- operations ---------- *)
Inductive eop :=
| ELife (o : lop)                              (* a step of the vault life cycle; EsmRedeem is the vault step below *)
| EDeposit (from app denom amt : Z)            (* MsgDepositESM *)
| EExecute (from app : Z)                      (* MsgExecuteESM *)
| ERedeem (from app denom amt : Z)             (* MsgCollateralRedemption *)
| ESnapshot (app : Z)                          (* the keeper steps, each as the BeginBlocker runs it *)
| EVault (app : Z)
| EStable (app : Z)
| ECollector (app : Z) (fees : list (Z * Z))
| EShare (app : Z)
| EBegin (fees : list (Z * list (Z * Z))).     (* esm.BeginBlocker; env: the collector's net fees per app *)

Definition ekeep (x : outcome estate) (e : estate) : estate := match x with Ok e' => e' | _ => e end.

(* one step of the BeginBlocker under ApplyFuncIfNoError: when [cond] holds the step runs; on failure the app
   is left (`continue`), otherwise the next step [k] follows *)
Definition try_step (cond : bool) (f : estate -> outcome estate) (k : estate -> estate) (e : estate) : estate :=
  if cond then match f e with Ok e' => k e' | _ => e end else k e.

Definition fees_of (fees : list (Z * list (Z * Z))) (app : Z) : list (Z * Z) :=
  match find (fun x => fst x =? app) fees with Some x => snd x | None => [] end.

Definition begin_app (c : cfg) (lc : lcfg) (ec : ecfg) (fees : list (Z * list (Z * Z))) (e : estate) (app : Z) : estate :=
  let f := eflags e app in                    (* the status record is read once, before any step *)
  let st := esm (vs (el e)) app in
  if negb (ef_found f) then e else
  if negb (e_status st) then e else
  try_step (negb (e_snap st)) (fun x => snapshot ec x app) (fun e1 =>
  if (now (vs (el e1)) >? e_end st) && e_snap st then
    try_step (negb (ef_vault f)) (fun x => e_vault c lc x app) (fun e2 =>
    try_step (negb (ef_stable f)) (fun x => e_stable c lc x app) (fun e3 =>
    try_step (negb (ef_coll f)) (fun x => e_collector lc ec x app (fees_of fees app)) (fun e4 =>
    try_step (negb (ef_share f) && ef_vault f && ef_stable f && ef_coll f) (fun x => e_share lc ec x app) (fun e5 => e5) e4) e3) e2) e1
  else e1) e.

Definition begin_block (c : cfg) (lc : lcfg) (ec : ecfg) (fees : list (Z * list (Z * Z))) (e : estate) : estate :=
  fold_left (begin_app c lc ec fees) (apps c) e.

Definition erun (c : cfg) (lc : lcfg) (ec : ecfg) (e : estate) (o : eop) : outcome estate :=
  match o with
  | ELife (EsmRedeem app) => e_vault c lc e app
  | ELife (VOp (SetEsm a st en sn)) =>
      (* a status record written by hand (harness of the vault-life workload): the step flags are reset *)
      match lrun c lc (el e) (VOp (SetEsm a st en sn)) with
      | Ok l' => Ok (set_eflags (set_el e l') (upd1 (eflags e) a (mkEF true false false false false)))
      | Err x => Err x | Panic => Panic end
  | ELife o' => match lrun c lc (el e) o' with Ok l' => Ok (set_el e l') | Err x => Err x | Panic => Panic end
  | EDeposit f a d m => deposit_esm c ec e f a d m
  | EExecute _ a => execute_esm c ec e a
  | ERedeem f a d m => redeem lc ec e f a d m
  | ESnapshot a => snapshot ec e a
  | EVault a => e_vault c lc e a
  | EStable a => e_stable c lc e a
  | ECollector a fees => e_collector lc ec e a fees
  | EShare a => e_share lc ec e a
  | EBegin fees => Ok (begin_block c lc ec fees e)
  end.

Definition estep (c : cfg) (lc : lcfg) (ec : ecfg) (e : estate) (o : eop) : estate := ekeep (erun c lc ec e o) e.
Definition eresult_class (c : cfg) (lc : lcfg) (ec : ecfg) (e : estate) (o : eop) : Z :=
  match erun c lc ec e o with Ok _ => 0 | Err _ => 1 | Panic => 2 end.
Definition erun_all (c : cfg) (lc : lcfg) (ec : ecfg) (ops : list eop) (e : estate) : estate := fold_left (estep c lc ec) ops e.

(* ---------- sums over the records ---------- *)
(* collateral / debt registered for emergency redemption, per denom, over all apps *)
Definition esm_coll (e : estate) (d : Z) : Z := wsum (fun r => if ar_coll r && (ar_asset r =? d) then ar_amt r else 0) (recs e).
Definition esm_debt (e : estate) (d : Z) : Z := wsum (fun r => if negb (ar_coll r) && (ar_asset r =? d) then ar_amt r else 0) (recs e).

(* ---------- C01 through the shutdown ---------- *)
(* custody of the esm account = collateral registered in the AssetToAmount records *)
Definition c01e_esm_custody (e : estate) (d : Z) : bool := bal (vs (el e)) ESMA d =? esm_coll e d.
Definition holds_C01_esm (c : cfg) (denoms : list Z) (e : estate) : bool :=
  holds_C01_life c denoms (el e) && forallb (c01e_esm_custody e) denoms.
(* all collateral paid out came from the pool *)
Definition c01e_paid_le_pool (e : estate) (d : Z) : bool := (0 <=? epaid e d) && (epaid e d <=? epool e d).

(* ---------- C02 through the shutdown ---------- *)
(* recorded principal, with the debt registered for emergency redemption read from the RECORDS *)
Definition recorded_e (c : cfg) (e : estate) (d : Z) : Z := debt_sum c (vs (el e)) d + lock_prin_d c (el e) d + esm_debt e d.
Definition c02e_backing (c : cfg) (ext : Z -> Z) (e : estate) (d : Z) : bool := sup (vs (el e)) d - ext d <=? recorded_e c e d.
Definition c02e_exact (c : cfg) (ext : Z -> Z) (e : estate) (d : Z) : bool := sup (vs (el e)) d - ext d =? recorded_e c e d.
Definition holds_C02_esm (c : cfg) (ext : Z -> Z) (denoms : list Z) (e : estate) : bool := forallb (c02e_backing c ext e) denoms.

(* the pro-rata bound of one payout: the collateral [q] handed out for [amt] debt tokens is at most the
   recorded worth of those tokens times the recorded share of that collateral, converted at the rate, plus the
   rounding of the four Dec operations:
     q <= amt * tw * share * dec_c / (dec_d * rate * 10^18)
          + (dec_c / 10^18) * (share / (rate * 10^18) + 1 / (2 * rate) + 1)          (tw = TruncateInt(DebtTokenWorth))
   i.e. at most 3 base units of rounding when dec_c <= 10^18, share <= 1 and rate >= 1 (Proofs/EsmLifeLaws.v) *)
Definition prorata_ok (q amt tw share rate dec_c dec_d : Z) : bool :=
  q * dec_d * rate * P18 * P18 <=? amt * tw * share * dec_c * P18 + dec_d * dec_c * (share + HALF18 + rate * P18).
Definition prorata_params (share rate dec_c dec_d : Z) : bool := (0 <=? share) && (0 <? rate) && (0 <=? dec_c) && (0 <? dec_d).

(* the law of a redemption, on the observation before ([e]) and after ([e']) a SUCCESSFUL MsgCollateralRedemption:
   supply of the debt denom falls by exactly [amt] and so do the sender's balance and the debt record; no other
   supply moves; every collateral record of the app pays [q] >= 0 out of the esm account to the sender, the record
   falls by [q], and [q] is within the pro-rata bound *)
Definition holds_C02_redeem (lc : lcfg) (ec : ecfg) (denoms : list Z) (e : estate) (from app denom amt : Z) (e' : estate) : bool :=
  let s := vs (el e) in let s' := vs (el e') in
  match find_rec (recs e) app denom, find_rec (recs e') app denom, ec_dec ec denom with
  | Some r, Some r', Some dec_d =>
      negb (ar_coll r) && (ar_amt r - ar_amt r' =? amt) &&
      forallb (fun d => sup s d - sup s' d =? (if d =? denom then amt else 0)) denoms &&
      (bal s from denom - bal s' from denom =? amt) && (bal s' ESMA denom =? bal s ESMA denom) &&
      match uint64_c (dtrunc_int (ar_worth r)) with None => false | Some tw =>
      forallb (fun w =>
        if ar_coll w then
          match find_rec (recs e') app (ar_asset w), ec_dec ec (ar_asset w) with
          | Some w', Some dec_c =>
              let q := ar_amt w - ar_amt w' in
              (0 <=? q) && (bal s' from (ar_asset w) - bal s from (ar_asset w) =? q) &&
              (bal s ESMA (ar_asset w) - bal s' ESMA (ar_asset w) =? q) &&
              match rate_of lc s app (ar_asset w) with
              | Some rate => (q =? 0) || negb (prorata_params (ar_share w) rate dec_c dec_d) || prorata_ok q amt tw (ar_share w) rate dec_c dec_d
              | None => q =? 0 end
          | _, _ => false end
        else true) (app_recs (recs e) app)
      end
  | _, _, _ => false
  end.

(* the law of the share calculation, on the observation after a SUCCESSFUL SetUpShareCalculation: the share of
   every record is the quotient of its dollar value by the total of its side, within one unit (10^-18) *)
Definition share_ok (v total share : Z) : bool := Z.abs (share * total - v * P18) <=? Z.abs total.
Definition holds_C02_shares (lc : lcfg) (ec : ecfg) (e' : estate) (app : Z) : bool :=
  match cool e' app with
  | None => match app_recs (recs e') app with [] => true | _ => false end
  | Some (ct, dt) =>
      forallb (fun r =>
        match ec_dec ec (ar_asset r), rate_of lc (vs (el e')) app (ar_asset r) with
        | Some dec, Some rate =>
            match total_value (ar_amt r) rate dec with
            | Ok v => share_ok v (if ar_coll r then ct else dt) (ar_share r)
            | _ => false end
        | _, _ => false end) (app_recs (recs e') app)
  end.

Definition is_eliq (o : eop) : bool := match o with ELife o' => is_liq o' | _ => false end.
