(* C15 - semantics of the hook language over Lib/Atomic.v, the units of work the property names,
   and the executable predicates evaluated on the regenerated table (Gen/HookTable.v) and on the
   harness observations. Definitions only. *)
From Coq Require Import String.
From Comdex Require Import Lib.Base Lib.Atomic Model.HookLang Gen.HookTable.
Open Scope string_scope.

(* ------------------------------------------------------------------------------------------ *)
(* semantics                                                                                   *)
(* ------------------------------------------------------------------------------------------ *)
Section Sem.
  Variable store : Type.
  (* what a leaf call does in the iteration given by the loop indices (innermost first) *)
  Variable call_sem : string -> list nat -> unit_of_work store.
  (* does the risky construct panic in this state? *)
  Variable risk_sem : string -> string -> list nat -> store -> bool.
  Variable loop_len : string -> list nat -> store -> nat.

  (* [OnErr r c] (closures only): how the closure treats the error the call c reports.
     An error / panic of an unwrapped statement leaves its partial writes in place (there is no
     branch of the store to drop) and ends the enclosing function: Go's early return.  Only
     [Wrapped] turns a failure into "nothing happened, go on". *)
  Fixpoint exec (h : hook) (idx : list nat) (s : store) : run_result store :=
    match h with
    | Seq l =>
        (fix go (l : list hook) (s : store) : run_result store :=
           match l with
           | [] => RunOk s
           | x :: r => match exec x idx s with RunOk s1 => go r s1 | other => other end
           end) l s
    | ForEach items body =>
        (fix it (n i : nat) (s : store) : run_result store :=
           match n with
           | O => RunOk s
           | S n' => match exec body (i :: idx) s with RunOk s1 => it n' (S i) s1 | other => other end
           end) (loop_len items idx s) O s
    | Wrapped b => RunOk (apply (exec b idx) s)
    | Call name _ => call_sem name idx s
    | Risk k t => if risk_sem k t idx s then RunPanic s else RunOk s
    | Unrecognised _ => RunPanic s
    | OnErr ReturnsCallErr c => exec c idx s
    (* the closure drops the error and goes on: whatever the call wrote before it failed stays on
       the closure's branch of the store.  An unread shape is given the same (worst) meaning. *)
    | OnErr _ c => match exec c idx s with RunErr p _ => RunOk p | other => other end
    end.

  (* what the chain sees after the hook: Halt = a panic left the hook (consensus failure) *)
  Inductive hook_outcome := Returned (s : store) | Halt.
  Definition run_hook (h : hook) (s : store) : hook_outcome :=
    match exec h [] s with
    | RunOk s' => Returned s'
    | RunErr p _ => Returned p
    | RunPanic _ => Halt
    end.
End Sem.
Arguments exec {store} call_sem risk_sem loop_len h idx s.
Arguments run_hook {store} call_sem risk_sem loop_len h s.
Arguments Returned {store} s.
Arguments Halt {store}.

(* ------------------------------------------------------------------------------------------ *)
(* types/utils.go ApplyFuncIfNoError itself, as read by the translator (apply_func_shape)      *)
(* ------------------------------------------------------------------------------------------ *)
Section ApplySem.
  Variable store : Type.
  (* the Go frame: the store of the caller's context, the branch opened by CacheContext (if any),
     "err != nil", and whether a deferred recover() has been registered *)
  Record astate := mkA { a_parent : store; a_cache : option store; a_err : bool; a_recover : bool }.
  Inductive aflow := AGo (st : astate) | ADone (st : astate) | APanicked (st : astate) | ABad.

  Fixpoint run_astmt (f : unit_of_work store) (x : apply_stmt) (st : astate) {struct x} : aflow :=
    match x with
    | ADeferRecover => AGo (mkA (a_parent st) (a_cache st) (a_err st) true)
    | ACacheCtx => AGo (mkA (a_parent st) (Some (a_parent st)) (a_err st) (a_recover st))
    | ARunOnCache =>
        match a_cache st with
        | None => ABad
        | Some c =>
            match f c with
            | RunOk s' => AGo (mkA (a_parent st) (Some s') false (a_recover st))
            | RunErr p _ => AGo (mkA (a_parent st) (Some p) true (a_recover st))
            | RunPanic p => APanicked (mkA (a_parent st) (Some p) (a_err st) (a_recover st))
            end
        end
    | ARunOnParent =>
        match f (a_parent st) with
        | RunOk s' => AGo (mkA s' (a_cache st) false (a_recover st))
        | RunErr p _ => AGo (mkA p (a_cache st) true (a_recover st))
        | RunPanic p => APanicked (mkA p (a_cache st) (a_err st) (a_recover st))
        end
    | AWrite =>
        match a_cache st with
        | None => ABad
        | Some c => AGo (mkA c (a_cache st) (a_err st) (a_recover st))
        end
    | AIfErrNil yes no =>
        let fix go (l : list apply_stmt) (st : astate) : aflow :=
          match l with
          | [] => AGo st
          | y :: r => match run_astmt f y st with AGo st1 => go r st1 | other => other end
          end in
        if a_err st then go no st else go yes st
    | ALog => AGo st
    | AReturnErr | AReturnNil => ADone st
    | AUnrecognised _ => ABad
    end.

  Fixpoint run_alist (f : unit_of_work store) (l : list apply_stmt) (st : astate) : aflow :=
    match l with
    | [] => AGo st
    | y :: r => match run_astmt f y st with AGo st1 => run_alist f r st1 | other => other end
    end.

  (* what the caller of ApplyFuncIfNoError sees: its store afterwards, or a panic that left the
     function (no recover registered before it, or a statement the translator does not read) *)
  Inductive apply_outcome := AppReturned (s : store) | AppHalt.
  Definition run_apply (prog : list apply_stmt) (f : unit_of_work store) (s : store) : apply_outcome :=
    match run_alist f prog (mkA s None false false) with
    | AGo st | ADone st => AppReturned (a_parent st)
    | APanicked st => if a_recover st then AppReturned (a_parent st) else AppHalt
    | ABad => AppHalt
    end.
End ApplySem.
Arguments run_apply {store} prog f s.
Arguments AppReturned {store} s.
Arguments AppHalt {store}.

(* ------------------------------------------------------------------------------------------ *)
(* reading the table                                                                           *)
(* ------------------------------------------------------------------------------------------ *)
Fixpoint lookup (name : string) (t : list (string * hook)) : option hook :=
  match t with
  | [] => None
  | (n, h) :: r => if String.eqb n name then Some h else lookup name r
  end.

(* inline every [Call n Expand] with the row of n *)
Fixpoint resolve (fuel : nat) (t : list (string * hook)) (h : hook) {struct fuel} : hook :=
  let fix go (h : hook) : hook :=
    match h with
    | Seq l => Seq (map go l)
    | ForEach items b => ForEach items (go b)
    | Wrapped b => Wrapped (go b)
    | OnErr r c => OnErr r (go c)
    | Call n Expand =>
        match fuel with
        | O => Unrecognised ("expansion too deep: " ++ n)
        | S f => match lookup n t with
                 | Some row => resolve f t row
                 | None => Unrecognised ("no row for " ++ n)
                 end
        end
    | other => other
    end in
  go h.

Inductive frame := FLoop (items : string) | FWrap | FErr (r : err_result).

Inductive leaf_kind := LCall (name : string) (k : call_kind) | LRisk (kind text : string) | LUnrec (what : string).
Record leaf := mkLeaf { lf_kind : leaf_kind; lf_path : list frame (* innermost first *) }.

Fixpoint leaves (h : hook) (path : list frame) : list leaf :=
  match h with
  | Seq l => flat_map (fun x => leaves x path) l
  | ForEach items b => leaves b (FLoop items :: path)
  | Wrapped b => leaves b (FWrap :: path)
  | Call n k => [mkLeaf (LCall n k) path]
  | Risk k t => [mkLeaf (LRisk k t) path]
  | Unrecognised w => [mkLeaf (LUnrec w) path]
  | OnErr r c => leaves c (FErr r :: path)
  end.

Definition resolved (t : list (string * hook)) (root : string) : hook := resolve 8 t (Call root Expand).
Definition root_leaves (t : list (string * hook)) (root : string) : list leaf := leaves (resolved t root) [].

Definition is_wrap (f : frame) : bool := match f with FWrap => true | _ => false end.
Definition under_wrap (p : list frame) : bool := existsb is_wrap p.

(* is there a wrap between the leaf and the loop over [items] (the per-item wrap)? *)
Fixpoint wrap_inside_loop (items : string) (p : list frame) : bool :=
  match p with
  | [] => false
  | FWrap :: _ => true
  | FLoop i :: r => if String.eqb i items then false else wrap_inside_loop items r
  | FErr _ :: r => wrap_inside_loop items r
  end.

Fixpoint in_loop (items : string) (p : list frame) : bool :=
  match p with
  | [] => false
  | FLoop i :: r => String.eqb i items || in_loop items r
  | FWrap :: r => in_loop items r
  | FErr _ :: r => in_loop items r
  end.

Definition is_read_leaf (l : leaf) : bool := match lf_kind l with LCall _ Reads => true | _ => false end.

(* does an error reported by the leaf reach the result of the closure it stands in (the nearest
   ApplyFuncIfNoError above it)?  Every [OnErr] between the leaf and that wrap must hand it on. *)
Fixpoint err_reaches_wrap (p : list frame) : bool :=
  match p with
  | [] => false
  | FWrap :: _ => true
  | FErr ReturnsCallErr :: r => err_reaches_wrap r
  | FErr _ :: _ => false
  | FLoop _ :: r => err_reaches_wrap r
  end.

Definition err_frame_recognised (f : frame) : bool :=
  match f with FErr (UnrecognisedErr _) => false | _ => true end.

(* ------------------------------------------------------------------------------------------ *)
(* the units of work the property names                                                        *)
(* ------------------------------------------------------------------------------------------ *)
Record unit_spec := mkUnit {
  u_id : string;            (* the name used in traces and findings *)
  u_root : string;          (* the hook (table row) *)
  u_loop : string;          (* the loop whose single iteration is the unit; "" = the hook as a whole *)
  u_calls : list string     (* the state-changing calls that make up the unit *)
}.

Definition hook_units : list unit_spec := [
  (* one vault liquidation *)
  mkUnit "v1.vault" "liquidation.BeginBlocker" "newVaults"
         ["liquidation.CreateLockedVault"; "vault.DeleteVault"; "rewards.CalculateVaultInterest"];
  mkUnit "v2.vault" "liquidationsV2.BeginBlocker" "newVaults" ["liquidationsV2.LiquidateIndividualVault"];
  (* one borrow liquidation *)
  mkUnit "v1.borrow" "liquidation.BeginBlocker" "newBorrowIDs"
         ["liquidation.UpdateLockedBorrows"; "lend.MsgCalculateBorrowInterest"; "lend.UpdateBorrowStats"];
  mkUnit "v2.borrow" "liquidationsV2.BeginBlocker" "newBorrowIDs" ["liquidationsV2.LiquidateIndividualBorrow"];
  (* one auction update *)
  mkUnit "v1.surplus" "auction.BeginBlocker" "auctionMapData" ["auction.SurplusActivator"];
  mkUnit "v1.debt" "auction.BeginBlocker" "auctionMapData" ["auction.DebtActivator"];
  mkUnit "v1.dutch" "auction.BeginBlocker" "dutchAuctions"
         ["auction.SetDutchAuction"; "auction.DeleteDutchAuction"; "vault.CreateNewVault"; "liquidation.DeleteLockedVault"];
  mkUnit "v1.lenddutch" "auction.BeginBlocker" "dutchAuctions" ["auction.SetDutchLendAuction"];
  mkUnit "v2.auction" "auctionsV2.BeginBlocker" "auctions"
         ["auctionsV2.UpdateDutchAuction"; "auctionsV2.RestartDutchAuction"; "auctionsV2.TriggerEsm";
          "auctionsV2.CloseEnglishAuction"; "auctionsV2.RestartEnglishAuction"];
  mkUnit "v2.limitbid" "auctionsV2.BeginBlocker" "auctions"
         ["auctionsV2.PlaceDutchAuctionBid"; "auctionsV2.SetUserLimitBidData"; "auctionsV2.SetLimitBidProtocolData"];
  (* the per-(app, asset) surplus / debt trigger of the V2 sweep starts an auction *)
  mkUnit "v2.surplusdebt" "liquidationsV2.BeginBlocker" "auctionMapData" ["liquidationsV2.CheckStatsForSurplusAndDebt"];
  (* one app's batch execution / request clean-up *)
  mkUnit "liquidity.batch" "liquidity.EndBlocker" "allApps" ["liquidity.ExecuteRequests"; "liquidity.ProcessQueuedFarmers"];
  mkUnit "liquidity.cleanup" "liquidity.BeginBlocker" "allApps"
         ["liquidity.DeleteOutdatedRequests"; "liquidity.ConvertAccumulatedSwapFeesWithSwapDistrToken"];
  (* the incentive, emergency-shutdown and lend hooks, each as a whole *)
  mkUnit "rewards.hook" "rewards.BeginBlocker" ""
         ["rewards.TriggerAndUpdateEpochInfos"; "rewards.DistributeExtRewardLocker"; "rewards.DistributeExtRewardVault";
          "rewards.DistributeExtRewardLend"; "rewards.CombinePSMUserPositions"; "rewards.DistributeExtRewardStableVault"];
  mkUnit "esm.hook" "esm.BeginBlocker" ""
         ["esm.SnapshotOfPrices"; "esm.SetUpCollateralRedemptionForVault"; "esm.SetUpCollateralRedemptionForStableVault";
          "esm.SetUpDebtRedemptionForCollector"; "esm.SetUpShareCalculation"];
  mkUnit "lend.hook" "lend.BeginBlocker" "" ["lend.DeletePoolAndTransferInterest"];
  (* the two outer wraps of the V2 auction hook (each sweep as a whole) *)
  mkUnit "v2.auctions.hook" "auctionsV2.BeginBlocker" "" ["auctionsV2.UpdateDutchAuction"; "auctionsV2.PlaceDutchAuctionBid"]
].

Definition leaf_is_call (c : string) (l : leaf) : bool :=
  match lf_kind l with LCall n _ => String.eqb n c | _ => false end.

Definition path_ok (u : unit_spec) (p : list frame) : bool :=
  if String.eqb (u_loop u) "" then under_wrap p else wrap_inside_loop (u_loop u) p.

(* every call of the unit occurs in the hook, inside the unit's loop, and every such occurrence
   has an ApplyFuncIfNoError between it and the loop (or anywhere above it for whole-hook units) *)
Definition unit_is_wrapped (t : list (string * hook)) (u : unit_spec) : bool :=
  let ls := root_leaves t (u_root u) in
  forallb (fun c =>
    let occ := filter (fun l => leaf_is_call c l && (String.eqb (u_loop u) "" || in_loop (u_loop u) (lf_path l))) ls in
    negb (Nat.eqb (length occ) 0) && forallb (fun l => path_ok u (lf_path l)) occ) (u_calls u).

(* the error-return half of "all-or-nothing": every call of the unit hands its error on to the result
   of the closure it stands in, i.e. no [OnErr SwallowsErr] / [OnErr (UnrecognisedErr _)] lies between
   the call and the nearest ApplyFuncIfNoError above it (calls without an error result carry no frame:
   they report nothing).  Same occurrences as [unit_is_wrapped]. *)
Definition unit_propagates_error (t : list (string * hook)) (u : unit_spec) : bool :=
  let ls := root_leaves t (u_root u) in
  forallb (fun c =>
    let occ := filter (fun l => leaf_is_call c l && (String.eqb (u_loop u) "" || in_loop (u_loop u) (lf_path l))) ls in
    negb (Nat.eqb (length occ) 0) && forallb (fun l => err_reaches_wrap (lf_path l)) occ) (u_calls u).

(* ... and beyond the calls the units name: EVERY leaf under an ApplyFuncIfNoError that is not a plain
   read (state-changing calls, expanded rows, risky constructs) hands its error on to the nearest
   wrap above it, in every hook *)
Definition wrapped_leaf_propagates (l : leaf) : bool :=
  negb (under_wrap (lf_path l)) || is_read_leaf l || err_reaches_wrap (lf_path l).

(* No unit is exempted: every unit of [hook_units] must be wrapped on the regenerated table.
   Likewise for [unit_propagates_error]: the incentive hook and the emergency-shutdown hook used to run
   their steps inside ONE closure that logged / skipped a step's error (OnErr SwallowsErr on the
   regenerated rows: findings C15-F4 and C15-F5, reproduced with reachable failing-late steps); since
   the fixes each step runs in its own ApplyFuncIfNoError whose closure returns the step's error.
   History of the former exemptions (classes of known findings, all repaired or withdrawn):
   - kf_C15_1, the V2 borrow unit: LiquidateBorrows runs each borrow inside ApplyFuncIfNoError since
     fix C09-F3 / C15-F1;
   - kf_C15_3, the V2 surplus / debt trigger: LiquidateForSurplusAndDebt runs each (app, asset)
     inside ApplyFuncIfNoError since fix C15-F3 (reproduced on the real code before the repair: a
     trigger that fails after GetAmountFromCollector kept its coin movement, and a panic inside it
     left the hook);
   - a class kf_C15_4 "liquidation parameters absent from the parameter store" was a false alarm of
     the harness, not a finding: every module's InitGenesis - also when the module is added by an
     upgrade - writes its parameters and no message deletes them, so the state is unreachable; the
     harness no longer fabricates it and parameter presence is a stated assumption. *)

(* ------------------------------------------------------------------------------------------ *)
(* what stands outside every wrap                                                              *)
(* ------------------------------------------------------------------------------------------ *)
Definition hook_roots : list string := [
  "asset.BeginBlocker"; "auction.BeginBlocker"; "auctionsV2.BeginBlocker"; "bandoracle.BeginBlocker";
  "esm.BeginBlocker"; "lend.BeginBlocker"; "liquidation.BeginBlocker"; "liquidationsV2.BeginBlocker";
  "liquidity.BeginBlocker"; "liquidity.EndBlocker"; "market.BeginBlocker"; "rewards.BeginBlocker"; "rewards.EndBlocker"].

(* every BeginBlocker / EndBlocker the table knows must be in [hook_roots] (a new hook is noticed) *)
Definition is_hook_row (n : string) : bool :=
  let suffix (s : string) := let ls := String.length s in let ln := String.length n in
                             Nat.leb ls ln && String.eqb (substring (ln - ls) ls n) s in
  suffix ".BeginBlocker" || suffix ".EndBlocker".
Definition roots_covered (t : list (string * hook)) : bool :=
  forallb (fun r => negb (is_hook_row (fst r)) || existsb (String.eqb (fst r)) hook_roots) t
  && forallb (fun n => match lookup n t with Some _ => true | None => false end) hook_roots.

Inductive justification :=
| JRangeIndex      (* x[i] inside  for i := range x : the index is in range by construction *)
| JGuardedIndex    (* data.Rates[index] under  length > index  with index >= 0 *)
| JSliceZero       (* x[:0] is valid for every slice, nil included *)
| JSliceWindow     (* total[start:end] with the window of Sweep.v: sweep_slice_no_panic for every offset and batch
                      size; needs counter <= cap, which holds in every reachable state (C01: vault count =
                      number of open vaults; the borrow sweeps pass len(borrowIDs) itself) *)
| JStoreWrite      (* a single marshal + store.Set / a straight-line sequence of them *)
| JMarket          (* market.UpdatePriceList: C17 theorem c17_no_panic, window size >= 2 *)
| JBand.           (* bandoracle.FetchPrice: returns its errors; ibc send is modelled, not verified *)

(* the unwrapped leaves that are not plain reads, as found on the current tree; a new one (or a
   changed slice / index expression) is not in this list and breaks c15_unwrapped_total *)
Definition unwrapped_registry : list (leaf_kind * justification) := [
  (LRisk "index" "appIds[i]", JRangeIndex);
  (LRisk "index" "data.Rates[index]", JGuardedIndex);
  (LRisk "slice" "twa.PriceValue[:0]", JSliceZero);
  (LRisk "slice" "totalVaults[start:end]", JSliceWindow);
  (LRisk "slice" "borrowIDs[start:end]", JSliceWindow);
  (LCall "liquidation.SetLiquidationOffsetHolder" Writes, JStoreWrite);
  (LCall "liquidationsV2.SetLiquidationOffsetHolder" Writes, JStoreWrite);
  (LCall "market.SetTwa" Writes, JStoreWrite);
  (LCall "bandoracle.SetDiscardData" Writes, JStoreWrite);
  (LCall "bandoracle.SetTempFetchPriceID" Writes, JStoreWrite);
  (LCall "bandoracle.SetCheckFlag" Writes, JStoreWrite);
  (LCall "bandoracle.SetOracleValidationResult" Writes, JStoreWrite);
  (LCall "market.UpdatePriceList" Writes, JMarket);
  (LCall "bandoracle.FetchPrice" Writes, JBand)
].

Definition call_kind_eqb (a b : call_kind) : bool :=
  match a, b with Reads, Reads | Writes, Writes | Expand, Expand => true | _, _ => false end.
Definition leaf_kind_eqb (a b : leaf_kind) : bool :=
  match a, b with
  | LCall n k, LCall n' k' => String.eqb n n' && call_kind_eqb k k'
  | LRisk k t, LRisk k' t' => String.eqb k k' && String.eqb t t'
  | LUnrec w, LUnrec w' => String.eqb w w'
  | _, _ => false
  end.

Fixpoint registry_find (k : leaf_kind) (r : list (leaf_kind * justification)) : option justification :=
  match r with
  | [] => None
  | (k', j) :: rest => if leaf_kind_eqb k k' then Some j else registry_find k rest
  end.

Definition is_read (l : leaf) : bool := match lf_kind l with LCall _ Reads => true | _ => false end.

(* an unwrapped leaf is accounted for: a read, or registered with a justification *)
Definition unwrapped_leaf_ok (l : leaf) : bool :=
  under_wrap (lf_path l) || is_read l ||
  match registry_find (lf_kind l) unwrapped_registry with Some _ => true | None => false end.

Definition no_unrecognised (l : leaf) : bool := match lf_kind l with LUnrec _ => false | _ => true end.

Definition all_root_leaves (t : list (string * hook)) : list leaf := flat_map (root_leaves t) hook_roots.

(* ------------------------------------------------------------------------------------------ *)
(* the predicate evaluated on the harness observations                                         *)
(* ------------------------------------------------------------------------------------------ *)
(* diff class of the unit under test: 0 = none of its writes visible, 1 = all (equal to the
   fault-free run), 2 = partial *)
Definition holds_C15 (hook_returned : bool) (unit_diff : Z) (others_processed : bool) : bool :=
  hook_returned && (Z.eqb unit_diff 0 || Z.eqb unit_diff 1) && others_processed.

(* diff class of the V2 surplus / debt trigger observed through its own projection.  The harness
   prints whether the hook reported the unit's failure (its liquidate_err event) and the change,
   over the hook run, of everything the trigger writes: collector module balance, net fees,
   locked-vault id counter, auction id counter, "auction active" flag of the mapping.
     0 = nothing of the unit is visible;
     1 = the complete unit: no failure reported, one locked vault, one auction, the mapping marked
         active, and the lot taken from the collector balance and from the net fees alike (a
         surplus auction; a debt auction takes nothing);
     2 = anything else (partial). *)
Definition trigger_obs_diff (failed : bool) (dcoll dnet dlocked dauction dactive : Z) : Z :=
  if forallb (Z.eqb 0) [dcoll; dnet; dlocked; dauction; dactive] then 0
  else if negb failed && Z.eqb dlocked 1 && Z.eqb dauction 1 && Z.eqb dactive 1 && Z.eqb dnet dcoll && Z.leb dcoll 0 then 1
  else 2.

(* what the table predicts for a failure injected into the unit [uid]: wrapped units show no writes *)
Definition table_says_wrapped (uid : string) : bool :=
  existsb (fun u => String.eqb (u_id u) uid && unit_is_wrapped hook_table u) hook_units.

(* what the table predicts for a unit [uid] that RETURNS AN ERROR after it has written: the error
   reaches ApplyFuncIfNoError, which drops the unit's branch of the store *)
Definition table_says_propagates (uid : string) : bool :=
  existsb (fun u => String.eqb (u_id u) uid && unit_propagates_error hook_table u) hook_units.

(* ... and ApplyFuncIfNoError as read from types/utils.go drops the branch on an error: evaluated on
   the two-point store {false = as before, true = the unit's partial writes} with a unit that
   writes and then reports failure / writes and panics / writes and succeeds *)
Definition table_says_apply_atomic : bool :=
  match run_apply apply_func_shape (fun _ : bool => RunErr true 1) false,
        run_apply apply_func_shape (fun _ : bool => RunPanic true) false,
        run_apply apply_func_shape (fun _ : bool => RunOk true) false with
  | AppReturned false, AppReturned false, AppReturned true => true
  | _, _, _ => false
  end.
