(* Concrete configuration and histories for the non-vacuity Examples and the refutation witnesses of the
   life-cycle theorems (Properties/C01.v, C02.v): the CDP product of VaultExample (closing fee 0.5 %,
   draw-down fee 1 %) and a second CDP product with zero fees over the same pair; liquidation penalty 12 %,
   keeper incentive 10 %, auctions of 600 s.  Users 2, 3 own vaults, user 4 liquidates and bids.
   Definitions only. *)
From Comdex Require Import Lib.Base Lib.DecArith Model.Vault Model.VaultExample Model.VaultLife.

Definition lx_ep0 := mkEP 5 1 1 2 1000000 1000000 0 0 0 1500000000000000000
                          1000000 1000000000000 false true false 1000000.
Definition lx_cfg := mkCfg [1] [ex_ep1; lx_ep0].
Definition lx_price (a : Z) : option Z := if a =? 1 then Some 2000000 else if a =? 2 then Some 1000000 else None.
Definition lx_lc := mkLC (fun _ => 120000000000000000) (fun _ => true) (fun _ => true) (fun _ => 100000000000000000) 600 (fun _ _ => 0).
Definition lx_init := lift (init ex_bal ex_sup 1000 lx_price).
Definition lx_denoms := [1; 2].

(* A: zero-fee product.  Two vaults; the price falls; vault 1 is seized by a keeper message; a partial bid;
   the auction expires and is restarted; a sweep visits the safe vault 2; the closing bid settles *)
Definition lx_ops_a := [VOp (Create 2 1 5 8000000 10000000); VOp (Create 3 1 5 30000000 10000000);
  VOp (SetPrice 1 (Some 1500000)); Liquidate 1 0 4; Bid 1 4 5000000 2000000 false false 0;
  VOp (AdvanceTime 601); AucTick; Sweep [(2, 0)]; Bid 1 4 6200000 3000000 true false 0].
(* B: the product with a closing fee: seizure and one full bid *)
Definition lx_ops_b := [VOp (Create 2 1 1 8000000 10000000); VOp (SetPrice 1 (Some 1500000)); Liquidate 1 0 4;
  Bid 1 4 11256000 4000000 true false 0].
(* C: zero-fee product: seizure, then emergency shutdown; the auction passes its end time and the auctionsV2
   BeginBlocker runs twice *)
Definition lx_ops_c := [VOp (Create 2 1 5 8000000 10000000); VOp (SetPrice 1 (Some 1500000)); Liquidate 1 0 4;
  VOp (SetEsm 1 true 5000 true); VOp (AdvanceTime 700); AucTick; AucTick].
(* D: messages, an ESM switch and the esm vault redemption, no liquidation *)
Definition lx_ops_d := [VOp (Create 2 1 5 8000000 10000000); VOp (Create 3 1 1 9000000 2000000); VOp (SetEsm 1 true 1500 true);
  VOp (SetSnap 1 1 (Some 2000000)); VOp (SetSnap 1 2 (Some 1000000)); VOp (AdvanceTime 700); EsmRedeem 1].

Fixpoint lclasses (c : cfg) (lc : lcfg) (l : lstate) (ops : list lop) : list Z :=
  match ops with [] => [] | o :: r => lresult_class c lc l o :: lclasses c lc (lstep c lc l o) r end.
