(* Guards: the vocabulary of the regenerated tables (Gen/GuardTable.v, Gen/MsgTypes.v,
   Gen/WasmTable.v, Gen/SweepGuards.v) and their semantics.  Definitions only.

   A message handler is read by the translator as the ordered list of what its body does at the
   top level (delegation msg_server -> keeper function and error-propagating, non-writing
   validation helpers inlined): guard checks, state writes, early successful returns.  The
   semantics below runs such a list against
     - a control/oracle context [octx]: the outcome each check has when it is reached (ESM status,
       block time vs. cool-off end, circuit breaker, whether the record's owner field equals the
       signer, whether a lookup keyed by the signer finds a record, ...), and
     - an arbitrary store with arbitrary write effects [wr],
   and yields a [run_result] that Lib/Atomic.v turns into the committed store. *)
From Coq Require Import String List ZArith Bool.
From Comdex Require Import Lib.Base Lib.Atomic.
Import ListNotations.
Open Scope string_scope.

(* ---------------------------------------------------------------- table vocabulary *)
Inductive guard :=
| GEsm                                   (* if esmStatus.Status            -> ErrESMAlreadyExecuted *)
| GEsmCoolOff                            (* if now.After(EndTime) && status -> ErrCoolOffPeriodPassed *)
| GEsmCoolOffRemains                     (* if now.Before(EndTime) && status -> ErrCoolOffPeriodRemains *)
| GBreaker (app : string)                (* if killSwitch.BreakerEnable     -> ErrCircuitBreakerEnabled *)
| GEsmOrBreaker                          (* if (found && esm.Status) || BreakerEnable -> error *)
| GExists (lookup : string)              (* x, found := Get..; if !found -> error *)
| GOwnerEq (recfield signer : string)    (* if record.Field != msg.<signer> -> unauthorized *)
| GKeyedBySigner (lookup : string)       (* lookup keyed by the signer address; if !found -> error *)
| GAdmin (who : string)                  (* if !k.Admin(ctx, who) -> unauthorized *)
| GPrice (fn : string)                   (* price lookup at the top level, error propagated *)
| GPriceCond (fn : string)               (* price lookup inside a conditional block, error propagated *)
| GCallErr (fn : string)                 (* error of a non-writing call propagated *)
| GOther (cond : string).                (* any other `if cond { return error }` *)

Inductive item :=
| IGuard (g : guard)
| IWrite (what : string)                 (* store Set/Delete, bank send/mint/burn, or a call reaching one *)
| IWriteSigner (what : string)           (* same, and the call receives the signer address *)
| IPriceUnchecked (fn : string)          (* a price lookup whose error is not checked right there *)
| ICallSub (helper : string) (signer_arg : bool) (* err := k.F(..); if err != nil { return err } : a writing function of the same
                                            package, walked into its own helper row *)
| IEarlyOkVia (helper : string)          (* if .. { err = k.F(..); if err != nil {return err}; return nil } *)
| IEarlyOk (cond : string)               (* any other early successful return *)
| IUnrecognised (what : string).

Inductive price_handling := PChecked | PIgnored | POther.
Record price_use := mkPriceUse { pu_in : string; pu_callee : string; pu_handling : price_handling }.

Record handler := mkHandler {
  h_module : string; h_name : string; h_msg : string;
  h_mints : bool;                        (* the handler can reach bank.MintCoins *)
  h_ctl_opaque : bool;                   (* a writing call the walk does not enter reads the breaker / ESM
                                            status itself: the row may under-report control checks *)
  h_items : list item;
  h_price : list price_use               (* every price call site it can reach, and each link to it *)
}.

(* an owner comparison of a handler: the compared field ("LendAsset.Owner") and the chain of lookups
   from the compared record back to the message: (lookup, keys) with keys "msg.<Field>",
   "<RecordType>.<Field>" (a field of the record fetched by the NEXT link) or "?<text>" *)
Record owner_cmp := mkOwnerCmp {
  oc_handler : string; oc_field : string; oc_chain : list (string * list string)
}.

Record msg_type := mkMsgType {
  mt_module : string; mt_name : string; mt_signer : option string;
  mt_ids : list string;                  (* uint64 fields named ..Id / ..ID *)
  mt_handler : string
}.

Record rung := mkRung { r_chain : string; r_addr : string; r_index : nat }.
Record wasm_row := mkWasmRow {
  w_variant : string; w_handler : string; w_recognised : bool; w_note : string; w_ladder : list rung
}.

Inductive sweep_gate := SkipIfBreaker | StartOnlyIfNotBreaker | GateNone | GateUnrecognised.
Record sweep_row := mkSweep { s_name : string; s_gate : sweep_gate; s_esm : bool; s_write_before : bool }.

(* ---------------------------------------------------------------- semantics of a guard list *)
Inductive err_class := EUnauthorized | EBreaker | EEsm | ECoolOff | EControl | EPrice | ENotFound | EOther.

Definition err_code (e : err_class) : Z :=
  match e with EUnauthorized => 1 | EBreaker => 2 | EEsm => 3 | ECoolOff => 4 | EControl => 5
             | EPrice => 6 | ENotFound => 7 | EOther => 8 end.

Record octx := mkCtx {
  c_esm : bool;                          (* emergency shutdown executed for the governing app *)
  c_now : Z; c_end : Z;                  (* block time, end of the cool-off period *)
  c_breaker : bool;                      (* circuit breaker of the governing app *)
  c_owner_ok : string -> bool;           (* record field (e.g. "Vault.Owner") equals the signer *)
  c_keyed_found : string -> bool;        (* the lookup keyed by the signer finds a record *)
  c_exists : string -> bool;
  c_admin : bool;                        (* the signer is one of the configured admins *)
  c_price_ok : bool;                     (* every price the operation needs is present and active *)
  c_call_ok : string -> bool;
  c_other_fires : string -> bool;        (* condition text -> it fires *)
  c_branch : string -> bool              (* an early-return branch is taken *)
}.

Definition guard_fails (c : octx) (g : guard) : option err_class :=
  match g with
  | GEsm => if c_esm c then Some EEsm else None
  | GEsmCoolOff => if c_esm c && (c_now c >? c_end c)%Z then Some ECoolOff else None
  | GEsmCoolOffRemains => if c_esm c && (c_now c <? c_end c)%Z then Some ECoolOff else None
  | GBreaker _ => if c_breaker c then Some EBreaker else None
  | GEsmOrBreaker => if c_esm c || c_breaker c then Some EControl else None
  | GExists l => if c_exists c l then None else Some ENotFound
  | GOwnerEq r _ => if c_owner_ok c r then None else Some EUnauthorized
  | GKeyedBySigner l => if c_keyed_found c l then None else Some ENotFound
  | GAdmin _ => if c_admin c then None else Some EUnauthorized
  | GPrice _ => if c_price_ok c then None else Some EPrice
  | GPriceCond f => if c_price_ok c then None else if c_other_fires c f then Some EPrice else None
  | GCallErr f => if c_call_ok c f then None else Some EOther
  | GOther t => if c_other_fires c t then Some EOther else None
  end.

Fixpoint lookup_row (n : string) (rows : list (string * list item)) : option (list item) :=
  match rows with
  | [] => None
  | (m, its) :: r => if String.eqb m n then Some its else lookup_row n r
  end.

Section Exec.
  Variable store : Type.
  Variable wr : string -> store -> store.          (* the effect of each write: arbitrary *)
  Variable helpers : list (string * list item).

  (* Running a handler.  A failing guard returns the error together with the store as written so
     far on the handler's branch (which Atomic.apply then drops).  [IUnrecognised] and
     [IPriceUnchecked] have no effect here: no theorem applies to a row in which one of them
     stands before the guard it relies on (see [scan]). *)
  Fixpoint exec (fuel : nat) (c : octx) : list item -> store -> run_result store :=
    fix go (items : list item) (s : store) {struct items} : run_result store :=
      match items with
      | [] => RunOk s
      | IGuard g :: r =>
        match guard_fails c g with Some e => RunErr s (err_code e) | None => go r s end
      | IWrite w :: r => go r (wr w s)
      | IWriteSigner w :: r => go r (wr w s)
      | IPriceUnchecked _ :: r => go r s
      | IEarlyOk b :: r => if c_branch c b then RunOk s else go r s
      | ICallSub h _ :: r =>
        match fuel with
        | O => RunPanic s
        | S f => match lookup_row h helpers with
                 | Some hi => match exec f c hi s with RunOk s1 => go r s1 | other => other end
                 | None => RunPanic s
                 end
        end
      | IEarlyOkVia h :: r =>
        if c_branch c h then
          match fuel with
          | O => RunPanic s
          | S f => match lookup_row h helpers with Some hi => exec f c hi s | None => RunPanic s end
          end
        else go r s
      | IUnrecognised _ :: r => go r s
      end.

  (* Does a guard satisfying [p] stand on every path to a successful return?
     strict = true additionally demands that no write precedes it. *)
  Fixpoint scan (strict : bool) (p : guard -> bool) (fuel : nat) : list item -> bool :=
    fix go (items : list item) : bool :=
      match items with
      | [] => false
      | IGuard g :: r => if p g then true else go r
      | IWrite _ :: r => if strict then false else go r
      | IWriteSigner _ :: r => if strict then false else go r
      | IPriceUnchecked _ :: r => go r
      | IEarlyOk _ :: _ => false
      | ICallSub h _ :: r =>
        match fuel with
        | O => false
        | S f => match lookup_row h helpers with
                 | Some hi => if scan strict p f hi then true else if strict then false else go r
                 | None => false
                 end
        end
      | IEarlyOkVia h :: r =>
        match fuel with
        | O => false
        | S f => match lookup_row h helpers with Some hi => scan strict p f hi && go r | None => false end
        end
      | IUnrecognised _ :: _ => false
      end.
End Exec.

Arguments exec {store} wr helpers fuel c _ _.

Definition scan_fuel : nat := 4.

Definition is_owner_guard (g : guard) : bool :=
  match g with GOwnerEq _ _ => true | GKeyedBySigner _ => true | _ => false end.
Definition is_breaker_guard (g : guard) : bool :=
  match g with GBreaker _ => true | GEsmOrBreaker => true | _ => false end.
Definition is_esm_guard (g : guard) : bool :=
  match g with GEsm => true | GEsmOrBreaker => true | _ => false end.
Definition is_cooloff_guard (g : guard) : bool :=
  match g with GEsmCoolOff => true | _ => false end.
Definition is_admin_guard (g : guard) : bool :=
  match g with GAdmin _ => true | _ => false end.

(* the first state-changing item is a call that receives the signer *)
Fixpoint first_write_signer (items : list item) : bool :=
  match items with
  | [] => false
  | IGuard _ :: r => first_write_signer r
  | IPriceUnchecked _ :: r => first_write_signer r
  | IWriteSigner _ :: _ => true
  | ICallSub _ b :: _ => b
  | _ :: _ => false
  end.

Definition price_all_checked (h : handler) : bool :=
  forallb (fun u => match pu_handling u with PChecked => true | _ => false end) (h_price h).

Fixpoint no_unchecked_price (items : list item) : bool :=
  match items with
  | [] => true
  | IPriceUnchecked _ :: _ => false
  | _ :: r => no_unchecked_price r
  end.

(* ---------------------------------------------------------------- wasm ladder *)
(* if chain == c1 { if sender != a1 { reject } } else if chain == c2 { if sender != a2 { reject } }
   : the first rung whose chain id matches decides; when none matches every sender is accepted *)
Fixpoint ladder_accepts (l : list rung) (chain sender : string) : bool :=
  match l with
  | [] => true
  | r :: rest => if String.eqb chain (r_chain r) then String.eqb sender (r_addr r)
                 else ladder_accepts rest chain sender
  end.

Fixpoint ladder_find (l : list rung) (chain : string) : option rung :=
  match l with
  | [] => None
  | r :: rest => if String.eqb chain (r_chain r) then Some r else ladder_find rest chain
  end.

(* reviewed constants: the designated governance contracts of the two named networks
   (index 0 = governance / parameters, index 1 = emissions, rebase, surplus payout) *)
Definition gov_contracts (chain : string) : list string :=
  if String.eqb chain "comdex-1" then
    ["comdex17p9rzwnnfxcjp32un9ug7yhhzgtkhvl9jfksztgw5uh69wac2pgs4jg6dx";
     "comdex1nc5tatafv6eyq7llkr2gv50ff9e22mnf70qgjlv737ktmt4eswrqdfklyz"]
  else if String.eqb chain "comdex-test3" then
    ["comdex1qwlgtx52gsdu7dtp0cekka5zehdl0uj3fhp9acg325fvgs8jdzksjvgq6q";
     "comdex1ghd753shjuwexxywmgs4xz7x2q732vcnkm6h2pyv9s6ah3hylvrqfy9rd8"]
  else [].

Definition named_networks : list string := ["comdex-1"; "comdex-test3"].

(* reviewed: which of the two contracts each custom message belongs to *)
Definition wasm_role (variant : string) : option nat :=
  if existsb (String.eqb variant)
       ["MsgWhiteListAssetLocker"; "MsgWhitelistAppIDVaultInterest"; "MsgWhitelistAppIDLockerRewards";
        "MsgAddExtendedPairsVault"; "MsgSetCollectorLookupTable"; "MsgSetAuctionMappingForApp";
        "MsgUpdatePairsVault"; "MsgUpdateCollectorLookupTable"; "MsgRemoveWhitelistAssetLocker";
        "MsgRemoveWhitelistAppIDVaultInterest"; "MsgWhitelistAppIDLiquidation";
        "MsgRemoveWhitelistAppIDLiquidation"; "MsgAddAuctionParams"; "MsgBurnGovTokensForApp";
        "MsgAddESMTriggerParams"] then Some 0%nat
  else if existsb (String.eqb variant)
       ["MsgEmissionRewards"; "MsgFoundationEmission"; "MsgRebaseMint"; "MsgGetSurplusFund";
        "MsgEmissionPoolRewards"] then Some 1%nat
  else None.

Definition designated (chain variant : string) : option string :=
  match wasm_role variant with
  | Some i => nth_error (gov_contracts chain) i
  | None => None
  end.

(* a row is well-formed when its ladder was recognised, names both networks, and each rung
   compares against the designated contract of that network for this variant *)
Definition wasm_row_ok (w : wasm_row) : bool :=
  w_recognised w &&
  forallb (fun ch => match ladder_find (w_ladder w) ch, designated ch (w_variant w) with
                     | Some r, Some a => String.eqb (r_addr r) a
                     | _, _ => false
                     end) named_networks.

(* ---------------------------------------------------------------- sweeps *)
(* does the sweep start anything for an app, given the app's breaker ? *)
Definition sweep_starts (r : sweep_row) (breaker : bool) : bool :=
  match s_gate r with
  | SkipIfBreaker => negb breaker
  | StartOnlyIfNotBreaker => negb breaker
  | GateNone => true
  | GateUnrecognised => true
  end.

Definition sweep_row_ok (r : sweep_row) : bool :=
  match s_gate r with
  | SkipIfBreaker => negb (s_write_before r)
  | StartOnlyIfNotBreaker => negb (s_write_before r)
  | _ => false
  end.

(* ---------------------------------------------------------------- vault withdraw under ESM *)
(* x/vault/keeper/msg_server.go MsgWithdraw, lines 326-338:
     if breaker { return ErrCircuitBreakerEnabled }
     status := found && esmStatus.Status
     if ctx.BlockTime().After(esmStatus.EndTime) && status { return ErrCoolOffPeriodPassed }   *)
Definition withdraw_gate (breaker status : bool) (now end_time : Z) : option err_class :=
  if breaker then Some EBreaker
  else if (now >? end_time)%Z && status then Some ECoolOff
  else None.
