(* Model of the generation-2 Dutch auction (x/auctionsV2), statement by statement:
     keeper/maths.go      GetCollalteralTokenInitialPrice, GetPriceFromLinearDecreaseFunction,
                          GetCollateralTokenEndPrice
     keeper/auctions.go   DutchAuctionActivator, RestartDutchAuction, UpdateDutchAuction, AuctionIterator
     keeper/bid.go        PlaceDutchAuctionBid (14-293), CalcDollarValueForToken
     x/vault/keeper/vault.go:679  GetAmountOfOtherToken
     x/liquidationsV2/keeper/liquidate.go:602  WithdrawAppReserveFundsFn, :721 MsgCloseDutchAuctionForBorrow
                          (only its transfer out of the auction account)
     keeper/auctions.go   LimitOrderBid (the automatic fill of limit bids, one closure per auction),
     keeper/bid.go        DepositLimitAuctionBid (the book the fill reads)
   The model follows the code AFTER the repairs fixes/C10-F2 (WithdrawAppReserveFundsFn returns an error
   when the reserve record is smaller than the request), fixes/C10-F3 (the incentive of an externally
   initiated auction goes to ExternalKeeperAddress), fixes/C10-F6 (LimitOrderBid re-reads the auction for
   every limit bid of a closure and stops after a closing bid) and fixes/C10-F5 (a limit bid is charged
   the amount actually bid).
   sdk.Dec values are their 10^18-scaled integers (Lib/DecArith).  Definitions only. *)
From Comdex Require Import Lib.Base Lib.DecArith.

Definition opanic {A} (x : option A) : outcome A := match x with Some a => Ok a | None => Panic end.
Definition oerr {A} (c : Z) (x : option A) : outcome A := match x with Some a => Ok a | None => Err c end.
Notation "'do' x <- m ; f" := (obind m (fun x => f)) (at level 200, x pattern, m at level 100, f at level 200).

(* ------------------------------------------------------------------------------------------ *)
(* 1. the price function                                                                      *)

(* sdk.NewInt(int64(twa)) for a uint64 twa: two's-complement wrap *)
Definition wrap64 (x : Z) : Z := if x <? 9223372036854775808 then x else x - two64.

(* GetCollalteralTokenInitialPrice(NewIntFromUint64(twa), premium) = premium.Mul(NewDec(twa.Int64()));
   Int64() panics when the value is not an int64 *)
Definition initial_price (premium twa : Z) : option Z :=
  match int64_c twa with
  | Some t => dmul_c premium (dec_of_int t)
  | None => None
  end.

(* GetPriceFromLinearDecreaseFunction(P, tau, t) = P.Mul(NewDec(tau - t)).Quo(NewDec(tau)) *)
Definition price_at (p tau t : Z) : Z := dquo (dmul p (dec_of_int (tau - t))) (dec_of_int tau).

Definition price_at_c (p tau t : Z) : option Z :=
  if tau =? 0 then None
  else match dmul_c p (dec_of_int (tau - t)) with
       | Some r => chk_dec (dquo r (dec_of_int tau))
       | None => None
       end.

(* GetCollateralTokenEndPrice(init, discount) = init.Mul(discount) *)
Definition end_price (init disc : Z) : Z := dmul init disc.

(* UpdateDutchAuction: timeToReachZeroPrice = init.Mul(NewDec(D)).Quo(init - init.Mul(discount)), then
   TruncateInt64 (whole seconds) *)
Definition tau_dec (init disc dur : Z) : option Z :=
  match dmul_c init (dec_of_int dur), dmul_c init disc with
  | Some num, Some e =>
      match dsub_c init e with
      | Some den => dquo_c num den
      | None => None
      end
  | _, _ => None
  end.

Definition tau_of (init disc dur : Z) : option Z :=
  match tau_dec init disc dur with
  | Some x => int64_c (dtrunc_int x)
  | None => None
  end.

(* the posted price [t] seconds after the (re)start, as UpdateDutchAuction computes it *)
Definition posted_price (init disc dur t : Z) : option Z :=
  match tau_of init disc dur with
  | Some tau => price_at_c init tau t
  | None => None
  end.

(* known-finding class C10-F1: the whole-second truncation of tau makes the price at t = D fall
   below the configured end price *)
Definition kf_C10_1 (init disc dur : Z) : bool :=
  match posted_price init disc dur dur with
  | Some p => p <? end_price init disc
  | None => false
  end.

(* ------------------------------------------------------------------------------------------ *)
(* 2. records                                                                                  *)

Record acfg := mkCfg {
  c_premium : Z;    (* DutchAuctionParam.Premium  (Dec) *)
  c_disc : Z;       (* DutchAuctionParam.Discount (Dec) - the end-price factor *)
  c_dur : Z;        (* AuctionParams.AuctionDurationSeconds *)
  c_minusd : Z;     (* AuctionParams.MinUsdValueLeft (uint64) *)
  c_ki : Z;         (* LiquidationWhiteListing.KeeeperIncentive (Dec) *)
  c_dc : Z;         (* collateral asset Decimals (e.g. 10^6) *)
  c_dd : Z          (* debt asset Decimals *)
}.

(* liquidationsV2 LockedVault, the fields the auction uses *)
Record locked := mkLk {
  l_coll : Z;       (* CollateralToken.Amount *)
  l_target : Z;     (* TargetDebt.Amount *)
  l_fee : Z;        (* FeeToBeCollected *)
  l_bonus : Z;      (* BonusToBeGiven *)
  l_init : Z;       (* InitiatorType: 0 vault, 1 lend, 2 external *)
  l_intk : bool;    (* IsInternalKeeper *)
  l_cmst : bool;    (* IsDebtCmst *)
  l_stuck : bool    (* lend-initiated only: the borrow carries a bridged (cross-pool) amount AND its lend position
                       was deleted when the borrow was seized (UpdateLockedBorrows deletes a lend position that
                       is used up).  MsgCloseDutchAuctionForBorrow then looks the deleted position up for the
                       pool to return the bridged amount to and sends it to the module account "" : bank panic *)
}.

Record auction := mkAu {
  a_coll : Z;       (* CollateralToken.Amount left *)
  a_debt : Z;       (* DebtToken.Amount still to collect *)
  a_bonus : Z;      (* BonusAmount *)
  a_price : Z;      (* CollateralTokenAuctionPrice (Dec) *)
  a_init : Z;       (* CollateralTokenInitialPrice (Dec) *)
  a_pco : Z;        (* CollateralTokenOraclePrice (Dec) *)
  a_pdo : Z;        (* DebtTokenOraclePrice (Dec) *)
  a_start : Z;      (* StartTime, unix seconds *)
  a_end : Z         (* EndTime *)
}.

(* ------------------------------------------------------------------------------------------ *)
(* 3. activation, restart, price update (auctions.go)                                         *)

(* [pc], [pd]: Some twa when the Twa record exists and IsPriceActive, None otherwise *)
Definition activate (cf : acfg) (lk : locked) (now : Z) (pc pd : option Z) : outcome auction :=
  match pc with
  | None => Err 1
  | Some tc =>
    match pd with
    | None => Err 1
    | Some td0 =>
      let td := if l_cmst lk then 1000000 else td0 in
      match initial_price (c_premium cf) tc with
      | None => Panic
      | Some ip =>
          Ok (mkAu (l_coll lk) (l_target lk) (l_bonus lk) ip ip
                   (dec_of_int (wrap64 tc)) (dec_of_int (wrap64 td)) now (now + c_dur cf))
      end
    end
  end.

Definition restart (cf : acfg) (lk : locked) (now : Z) (pc pd : option Z) (a : auction) : outcome auction :=
  match pc with
  | None => Err 1
  | Some tc =>
    match pd with
    | None => Err 1
    | Some td0 =>
      let td := if l_cmst lk then 1000000 else td0 in
      match initial_price (c_premium cf) tc with
      | None => Panic
      | Some ip =>
          Ok (mkAu (a_coll a) (a_debt a) (a_bonus a) ip ip
                   (dec_of_int (wrap64 tc)) (dec_of_int (wrap64 td)) now (now + c_dur cf))
      end
    end
  end.

Definition update_price (cf : acfg) (lk : locked) (now : Z) (pc pd : option Z) (a : auction) : outcome auction :=
  match pc with
  | None => Err 1
  | Some tc =>
    match pd with
    | None => Err 1
    | Some td0 =>
      let td := if l_cmst lk then 1000000 else td0 in
      match posted_price (a_init a) (c_disc cf) (c_dur cf) (now - a_start a) with
      | None => Panic
      | Some p =>
          Ok (mkAu (a_coll a) (a_debt a) (a_bonus a) p (a_init a)
                   (dec_of_int (wrap64 tc)) (dec_of_int (wrap64 td)) (a_start a) (a_end a))
      end
    end
  end.

(* AuctionIterator body for one Dutch auction (no ESM): restart strictly after EndTime, else update.
   The body runs under ApplyFuncIfNoError: an error or a panic leaves the record as it was. *)
Definition tick_raw (cf : acfg) (lk : locked) (now : Z) (pc pd : option Z) (a : auction) : outcome auction :=
  if now >? a_end a then restart cf lk now pc pd a else update_price cf lk now pc pd a.

Definition tick (cf : acfg) (lk : locked) (now : Z) (pc pd : option Z) (a : auction) : auction :=
  match tick_raw cf lk now pc pd a with Ok a' => a' | _ => a end.

(* ------------------------------------------------------------------------------------------ *)
(* 4. token conversion (vault.GetAmountOfOtherToken) and dollar value                          *)

(* amt1 of an asset with Decimals d1 at rate r1, expressed in an asset with Decimals d2 at rate r2:
   NewDecFromInt(amt1).Mul(r1).Quo(NewDecFromInt(d1)).Quo(r2).Mul(NewDecFromInt(d2)).TruncateInt() *)
Definition conv (d1 r1 amt1 d2 r2 : Z) : Z :=
  dtrunc_int (dmul (dquo (dquo (dmul (dec_of_int amt1) r1) (dec_of_int d1)) r2) (dec_of_int d2)).

Definition conv_c (d1 r1 amt1 d2 r2 : Z) : option Z :=
  if (d1 =? 0) || (r2 =? 0) then None
  else
    let num := dmul (dec_of_int amt1) r1 in
    let t1 := dquo num (dec_of_int d1) in
    let na := dquo t1 r2 in
    let ta := dmul na (dec_of_int d2) in
    if fits_dec num && fits_dec t1 && fits_dec na && fits_dec ta && fits_int (dtrunc_int ta)
    then Some (dtrunc_int ta) else None.

(* CalcDollarValueForToken: NewDecFromInt(amt).Mul(rate).Quo(NewDecFromInt(decimals)) *)
Definition usd_value_c (d rate amt : Z) : option Z :=
  match dmul_c (dec_of_int amt) rate with
  | Some n => dquo_c n (dec_of_int d)
  | None => None
  end.

(* ------------------------------------------------------------------------------------------ *)
(* 5. ledger                                                                                   *)

(* account x denom identifiers *)
Definition AUC_C : Z := 0.   (* auctionsV2 module, collateral denom *)
Definition AUC_D : Z := 1.   (* auctionsV2 module, debt denom *)
Definition OWN_C : Z := 2.   (* position owner(s), collateral *)
Definition COL_D : Z := 3.   (* collector module *)
Definition KEE_D : Z := 4.   (* internal keeper (the liquidator) *)
Definition INI_D : Z := 5.   (* external initiator = LockedVault.ExternalKeeperAddress *)
Definition NUL_D : Z := 6.   (* the empty address "" (observed only: nothing is ever sent there) *)
Definition LIQ_D : Z := 7.   (* liquidationsV2 module (holds the app reserve funds) *)
Definition BRN_D : Z := 8.   (* burned *)
Definition POOL_D : Z := 9.  (* lend pool module *)
Definition BID_C (i : Z) : Z := 10 + 2 * i.
Definition BID_D (i : Z) : Z := 11 + 2 * i.

Definition ledger := Z -> Z.
Definition upd (L : ledger) (k v : Z) : ledger := fun x => if x =? k then v else L x.

(* bank send: insufficient funds = None; amounts reaching here are >= 0 *)
Definition send (L : ledger) (from to amt : Z) : option ledger :=
  if L from <? amt then None
  else let L1 := upd L from (L from - amt) in Some (upd L1 to (L1 to + amt)).

Record bstate := mkS {
  led : ledger;
  rsv : option Z;   (* AppReserveFunds(app, debt asset).TokenQuantity.Amount; None = no record *)
  xfee : Z;         (* AuctionLimitBidFeeDataExternal(debt asset).Amount (booked, coins stay in AUC_D) *)
  nfee : Z          (* collector NetFeeCollectedData(app, debt asset).NetFeesCollected (0 = no record) *)
}.

(* what one successful bid did *)
Record bidres := mkR {
  r_paid : Z;       (* debt taken from the bidder *)
  r_recv : Z;       (* collateral sent to the bidder *)
  r_bonus : Z;      (* the part of r_recv that is the bonus conversion *)
  r_closed : bool;
  r_exh : bool;     (* collateral-exhausted branch *)
  r_topup : Z       (* debtGettingLeft, transferred from the app reserve *)
}.

(* ------------------------------------------------------------------------------------------ *)
(* 6. PlaceDutchAuctionBid                                                                     *)

Definition keeper_incentive (cf : acfg) (fee : Z) : Z := dtrunc_int (dmul (c_ki cf) (dec_of_int fee)).

(* the incentive of an externally initiated auction (paid only when positive) *)
Definition ext_incentive (cf : acfg) (lk : locked) : Z :=
  let ki := keeper_incentive cf (l_fee lk) in if ki >? 0 then ki else 0.

(* the initiator-specific settlement of the closing bid; returns the ledger, the external fee book and
   the collector's net-fee book (SetNetFeeCollectedData ADDS the penalty that was sent to the collector:
   the penalty net of the keeper incentive) *)
Definition settle (cf : acfg) (lk : locked) (L : ledger) (xf nf : Z) : outcome (ledger * Z * Z) :=
  if l_init lk =? 2 then
    (* external: finalDebtToInitiator = TargetDebt - penalty; incentive to ExternalKeeperAddress, the
       rest of the penalty is booked as auction-module fees *)
    if l_target lk - l_fee lk <? 0 then Panic else
    let ki := keeper_incentive cf (l_fee lk) in
    do (L1, pen) <- (if ki >? 0 then
                       if l_fee lk - ki <? 0 then Panic          (* Coin.Sub going negative *)
                       else do L' <- oerr 9 (send L AUC_D INI_D ki); Ok (L', l_fee lk - ki)
                     else Ok (L, l_fee lk));
    do L2 <- oerr 10 (send L1 AUC_D INI_D (l_target lk - l_fee lk));
    Ok (L2, xf + pen, nf)
  else if l_init lk =? 0 then
    do (L1, pen) <- (if l_intk lk then
                        let ki := keeper_incentive cf (l_fee lk) in
                        if ki >? 0 then
                          if l_fee lk - ki <? 0 then Panic
                          else do L' <- oerr 9 (send L AUC_D KEE_D ki); Ok (L', l_fee lk - ki)
                        else Ok (L, l_fee lk)
                      else Ok (L, l_fee lk));
    do L2 <- (if pen >? 0 then oerr 11 (send L1 AUC_D COL_D pen) else Ok L1);
    if pen <? 0 then Err 12 else Ok (L2, xf, nf + pen)   (* SetNetFeeCollectedData(app, debt asset, penalty sent) *)
  else
    (* lend: MsgCloseDutchAuctionForBorrow sends TargetDebt to the pool module; the rest of it moves coins
       between the pool and the reserve module account only (observed together as POOL_D), except that the
       return of a bridged amount panics when the lend position is gone (known finding C10-F7) *)
    do L1 <- oerr 13 (send L AUC_D POOL_D (l_target lk));
    if l_stuck lk then Panic else Ok (L1, xf, nf).

(* known-finding class C10-F7: a lend-initiated auction of a cross-pool borrow whose lend position was
   used up can never be closed *)
Definition kf_C10_7 (lk : locked) : bool :=
  negb (l_init lk =? 0) && negb (l_init lk =? 2) && l_stuck lk.

(* the bidder's payment: a market bid moves the coins now; an automatic bid (isAutoBid) moves nothing -
   the limit bid's deposit has been in the auction account since MsgDepositLimitBid *)
Definition pay (auto : bool) (L : ledger) (who amt : Z) : outcome ledger :=
  if auto then Ok L else if amt >? 0 then oerr 5 (send L (BID_D who) AUC_D amt) else Ok L.

Definition place_bid_gen (auto : bool) (cf : acfg) (lk : locked) (a : auction) (s : bstate)
           (who amt0 : Z) (wrong_denom : bool) (twa_d : Z)
  : outcome (bstate * option auction * bidres) :=
  if amt0 <=? 0 then Err 1 else                       (* ValidateBasic / ErrBidCannotBeZero *)
  if wrong_denom then Err 2 else                      (* ErrorUnknownDebtToken *)
  let dp := if l_cmst lk then dec_of_int 1000000 else dec_of_int (wrap64 twa_d) in
  let full := amt0 >=? a_debt a in
  let amt := if full then a_debt a else amt0 in
  do q <- opanic (conv_c (c_dd cf) dp amt (c_dc cf) (a_price a));
  do qb <- opanic (conv_c (c_dd cf) dp (a_bonus a) (c_dc cf) (a_price a));
  let tot := q + qb in
  let exh := negb (tot <=? a_coll a) in
  if full || exh then
    do (amt1, tot1, s1, topup) <-
       (if exh then
          let left := a_coll a in
          do dal <- opanic (conv_c (c_dc cf) (a_price a) (left - qb) (c_dd cf) dp);
          if dal <? 0 then Panic else                 (* NewCoin with a negative amount *)
          if a_debt a - dal <? 0 then Panic else      (* Coin.Sub going negative *)
          let dgl := a_debt a - dal in
          match rsv s with
          | None => Err 3                              (* ErrorInvalidAppOrAssetData *)
          | Some r =>
              (* WithdrawAppReserveFundsFn: the reserve must cover the shortfall *)
              if r - dgl <? 0 then Err 3 else
              do L1 <- (if dgl >? 0 then oerr 4 (send (led s) LIQ_D AUC_D dgl) else Ok (led s));
              Ok (dal, left, mkS L1 (Some (r - dgl)) (xfee s) (nfee s), dgl)
          end
        else Ok (amt, tot, s, 0));
    do L2 <- pay auto (led s1) who amt1;
    do L3 <- (if tot1 >? 0 then oerr 6 (send L2 AUC_C (BID_C who) tot1) else Ok L2);
    do L4 <- (if l_init lk =? 0 then
                if l_target lk - l_fee lk <? 0 then Panic
                else if l_target lk - l_fee lk >? 0
                     then oerr 7 (send L3 AUC_D BRN_D (l_target lk - l_fee lk)) else Ok L3
              else Ok L3);
    let ownleft := a_coll a - tot1 in
    do L5 <- (if ownleft >? 0 then oerr 8 (send L4 AUC_C OWN_C ownleft) else Ok L4);
    if (tot1 <? 0) || (amt1 <? 0) then Panic else     (* CreateUserBid: NewCoin *)
    do (L6, xf, nf) <- settle cf lk L5 (xfee s1) (nfee s1);
    Ok (mkS L6 (rsv s1) xf nf, None, mkR amt1 tot1 qb true exh topup)
  else
    (* partial bid *)
    do q' <- opanic (conv_c (c_dd cf) dp amt (c_dc cf) (a_price a));
    let debt_left := a_debt a - amt in
    do usd <- opanic (usd_value_c (c_dd cf) dp debt_left);
    if negb (usd >? dec_of_int (c_minusd cf)) then Err 14 else   (* ErrCannotLeaveDebtLessThanDust *)
    do ratio <- opanic (iquo_c amt (a_debt a));       (* sdk.Int Quo: integer division *)
    let share0 := l_bonus lk * ratio in
    let share := if share0 >? a_bonus a then a_bonus a else share0 in
    do qb' <- opanic (conv_c (c_dd cf) dp share (c_dc cf) (a_price a));
    let tot' := q' + qb' in
    do L2 <- pay auto (led s) who amt;
    do L3 <- (if tot' >? 0 then oerr 6 (send L2 AUC_C (BID_C who) tot') else Ok L2);
    if (tot' <? 0) || (amt <? 0) then Panic else      (* CreateUserBid: NewCoin *)
    Ok (mkS L3 (rsv s) (xfee s) (nfee s),
        Some (mkAu (a_coll a - tot') (a_debt a - amt) (a_bonus a - share) (a_price a) (a_init a)
                   (a_pco a) (a_pdo a) (a_start a) (a_end a)),
        mkR amt tot' qb' false false 0).

(* the market bid (MsgPlaceMarketBid): the bidder pays now *)
Definition place_bid_core (cf : acfg) (lk : locked) (a : auction) (s : bstate)
           (who amt0 : Z) (wrong_denom : bool) (twa_d : Z)
  : outcome (bstate * option auction * bidres) :=
  place_bid_gen false cf lk a s who amt0 wrong_denom twa_d.

(* PlaceDutchAuctionBid as a whole (bid.go:15-40, after fix 3349d05): the arithmetic and settlement
   core above runs only when the debt asset's oracle record is found and active
   ([dact] = found && IsPriceActive); otherwise the bid is refused with ErrorPriceNotFound before
   anything is computed.  The guard stands after the zero-amount and denomination checks, which
   the core repeats (they pass), so the wrapper is exactly the handler.  An erroring bid leaves the
   state unchanged, hence the history semantics [step] (whose [Bid]s are core bids) needs no case
   for a refused bid. *)
Definition place_bid_a (auto : bool) (cf : acfg) (lk : locked) (a : auction) (s : bstate)
           (who amt0 : Z) (wrong_denom dact : bool) (twa_d : Z)
  : outcome (bstate * option auction * bidres) :=
  if amt0 <=? 0 then Err 1 else
  if wrong_denom then Err 2 else
  if negb dact then Err 9 else                        (* ErrorPriceNotFound *)
  place_bid_gen auto cf lk a s who amt0 wrong_denom twa_d.

Definition place_bid (cf : acfg) (lk : locked) (a : auction) (s : bstate)
           (who amt0 : Z) (wrong_denom dact : bool) (twa_d : Z)
  : outcome (bstate * option auction * bidres) :=
  place_bid_a false cf lk a s who amt0 wrong_denom dact twa_d.

(* ------------------------------------------------------------------------------------------ *)
(* 7. the limit-bid book of the auction's market and the automatic fill                        *)

(* UserLimitBid records of the market (debt asset, collateral asset) of the auction:
   premium -> bidder -> DebtToken.Amount; 0 = no record (a stored record always holds a positive amount:
   deposits are positive, a record that is used up is deleted).  [pool] = LimitBidProtocolData.BidValue. *)
Definition book := Z -> Z -> Z.
Definition bupd (bk : book) (p w v : Z) : book := fun p' w' => if (p' =? p) && (w' =? w) then v else bk p' w'.

Definition MAX_PREMIUM : Z := 30.      (* types.MaxPremiumDiscount *)

(* MsgDepositLimitBid -> DepositLimitAuctionBid (both assets exist) *)
Definition deposit (s : bstate) (bk : book) (pool : Z) (who prem amt : Z) (wrong_denom : bool)
  : outcome (bstate * book * Z) :=
  if amt <=? 0 then Err 20 else                        (* ValidateBasic *)
  if prem >? MAX_PREMIUM then Err 21 else              (* ErrorDiscountGreaterThanMaxDiscount *)
  if wrong_denom then Err 22 else                      (* ErrorUnknownDebtToken *)
  if prem <? 0 then Panic else                         (* premium.Uint64() in the store key *)
  do L <- oerr 23 (send (led s) (BID_D who) AUC_D amt);
  Ok (mkS L (rsv s) (xfee s) (nfee s), bupd bk prem who (bk prem who + amt), pool + amt).

(* the discount of the posted price against the oracle price stored in the record, in whole percent:
   (oracle - price).Quo(oracle).Mul(100).TruncateInt(); None = the posted price is not below the oracle
   price (no fill) *)
Definition premium_of (a : auction) : outcome (option Z) :=
  if a_pco a >? a_price a then
    do d <- opanic (dsub_c (a_pco a) (a_price a));
    do q <- opanic (dquo_c d (a_pco a));
    do p <- opanic (dmul_c q (dec_of_int 100));
    Ok (Some (dtrunc_int p))
  else Ok None.

(* one bid of a fill: who, the auction record it was placed on, what it did *)
Record fbid := mkFB { fb_who : Z; fb_before : auction; fb_res : bidres }.

(* the loop of LimitOrderBid over the limit bids of the premium, in store order ([order] lists the
   bidders in the order of the store keys; a bidder without a record at the premium is not listed by
   GetUserLimitBidDataByPremium).  Every limit bid is placed - as an automatic bid of its whole amount -
   on the auction as the previous bids of the closure left it; it is charged what PlaceDutchAuctionBid
   actually bid (the debt amount of the user bid), deleted when used up; a closing bid ends the closure;
   any error ends it too, and then the whole closure is rolled back (ApplyFuncIfNoError). *)
Fixpoint fill_loop (cf : acfg) (lk : locked) (prem : Z) (order : list Z) (twa_d : Z) (dact : bool)
         (a : auction) (s : bstate) (bk : book) (pool : Z)
  : outcome (bstate * option auction * book * Z * list fbid) :=
  match order with
  | [] => Ok (s, Some a, bk, pool, [])
  | w :: rest =>
      let amt := bk prem w in
      if amt <=? 0 then fill_loop cf lk prem rest twa_d dact a s bk pool
      else
        do (s1, a1, r) <- place_bid_a true cf lk a s w amt false dact twa_d;
        if r_paid r >? amt then Err 24 else            (* ErrorMaxBidAmount: never more than the record holds *)
        let bk1 := bupd bk prem w (amt - r_paid r) in
        let pool1 := pool - r_paid r in
        match a1 with
        | None => Ok (s1, None, bk1, pool1, [mkFB w a r])
        | Some b =>
            do (s2, a2, bk2, pool2, log) <- fill_loop cf lk prem rest twa_d dact b s1 bk1 pool1;
            Ok (s2, a2, bk2, pool2, mkFB w a r :: log)
        end
  end.

(* one closure of LimitOrderBid = one auction *)
Definition fill_closure (cf : acfg) (lk : locked) (order : list Z) (twa_d : Z) (dact : bool)
           (a : auction) (s : bstate) (bk : book) (pool : Z)
  : outcome (bstate * option auction * book * Z * list fbid) :=
  do op <- premium_of a;
  match op with
  | None => Ok (s, Some a, bk, pool, [])
  | Some prem =>
      if prem <? 0 then Panic else                     (* premium.Uint64() in the store key *)
      if negb (existsb (fun w => bk prem w >? 0) order) then Ok (s, Some a, bk, pool, [])   (* found = false *)
      else fill_loop cf lk prem order twa_d dact a s bk pool
  end.

Definition log_paid (log : list fbid) : Z := fold_right (fun e acc => r_paid (fb_res e) + acc) 0 log.
Definition log_recv (log : list fbid) : Z := fold_right (fun e acc => r_recv (fb_res e) + acc) 0 log.
Definition log_top (log : list fbid) : Z := fold_right (fun e acc => r_topup (fb_res e) + acc) 0 log.
(* what the limit bid of [w] was charged in a closure *)
Definition log_charged (w : Z) (log : list fbid) : Z :=
  fold_right (fun e acc => (if fb_who e =? w then r_paid (fb_res e) else 0) + acc) 0 log.

(* ------------------------------------------------------------------------------------------ *)
(* 8. one auction's life: market bids, block ticks, limit-bid deposits, fills - each atomic    *)

Inductive op :=
| Bid (who amt : Z) (wrong_denom : bool) (twa_d : Z)
| Tick (now : Z) (pc pd : option Z)
| Deposit (who prem amt : Z) (wrong_denom : bool)
| Fill (order : list Z) (twa_d : Z) (dact : bool).

Record life := mkLife {
  f_s : bstate;
  f_a : option auction;   (* None once closed *)
  f_paid : Z;             (* ghost: sum of debt paid by bidders (market bids: coins; fills: charged to limit bids) *)
  f_recv : Z;             (* ghost: sum of collateral received by bidders *)
  f_top : Z;              (* ghost: sum of reserve transfers *)
  f_book : book;
  f_pool : Z
}.

Definition step (cf : acfg) (lk : locked) (f : life) (o : op) : life :=
  match o with
  | Deposit who prem amt wd =>
      match deposit (f_s f) (f_book f) (f_pool f) who prem amt wd with
      | Ok (s', bk', pool') => mkLife s' (f_a f) (f_paid f) (f_recv f) (f_top f) bk' pool'
      | _ => f                                         (* the message's cache context is dropped *)
      end
  | _ =>
  match f_a f with
  | None => f                                          (* GetAuction fails; the iterator skips it *)
  | Some a =>
      match o with
      | Tick now pc pd => mkLife (f_s f) (Some (tick cf lk now pc pd a)) (f_paid f) (f_recv f) (f_top f) (f_book f) (f_pool f)
      | Bid who amt wd twa =>
          match place_bid_core cf lk a (f_s f) who amt wd twa with
          | Ok (s', a', r) =>
              mkLife s' a' (f_paid f + r_paid r) (f_recv f + r_recv r) (f_top f + r_topup r) (f_book f) (f_pool f)
          | _ => f                                     (* the message's cache context is dropped *)
          end
      | Fill order twa dact =>
          match fill_closure cf lk order twa dact a (f_s f) (f_book f) (f_pool f) with
          | Ok (s', a', bk', pool', log) =>
              mkLife s' a' (f_paid f + log_paid log) (f_recv f + log_recv log) (f_top f + log_top log) bk' pool'
          | _ => f                                     (* the closure's cache context is dropped *)
          end
      | Deposit _ _ _ _ => f
      end
  end
  end.

Definition run (cf : acfg) (lk : locked) (f : life) (ops : list op) : life := fold_left (step cf lk) ops f.

(* ------------------------------------------------------------------------------------------ *)
(* 9. property predicates evaluated on OBSERVATIONS (of the implementation, in the runner)     *)

(* price clause between two consecutive observations of one auction with the same StartTime:
   non-increasing, at most the start price, at least the configured end price *)
Definition holds_C10_price (init disc prev cur : Z) : bool :=
  (cur <=? prev) && (prev <=? init) && (end_price init disc <=? cur).
Definition holds_C10_price_mono (init prev cur : Z) : bool := (cur <=? prev) && (prev <=? init).

(* one successful bid: [coll], [debt], [bonus], [pc] = the auction record before the bid, [pd] the debt
   price used; tolerances: one collateral unit per conversion, three debt units in the exhausted branch
   (proved for the model as Properties/C10.v:c10_bid_price) *)
Definition holds_C10_bid (dc dd pc pd coll debt bonus paid recv : Z) (closed : bool) : bool :=
  (0 <=? paid) && (0 <=? recv) && (paid <=? debt) && (recv <=? coll) &&
  (if closed
   then (recv - 2) * (pc * dd) <=? (paid + 3 + bonus) * (pd * dc)
   else (recv - 1) * (pc * dd) <=? paid * (pd * dc)).

(* totals over the life of one auction *)
Definition holds_C10_totals (target coll paid recv : Z) : bool := (paid <=? target) && (recv <=? coll).

(* custody: what the auction account holds beyond the live auctions and the booked fees *)
Definition holds_C10_custody (residual_c residual_d : Z) : bool := (residual_c =? 0) && (residual_d =? 0).

(* the app reserve: the record is never negative and the liquidation module holds at least that much *)
Definition holds_C10_reserve (record liq_balance : Z) : bool := (0 <=? record) && (record <=? liq_balance).

(* a fill, per limit bid: the record falls by exactly what its automatic bids bid (the debt amounts of the
   user bids PlaceDutchAuctionBid created for that bidder in the closure) and never below zero
   (proved for the model as Properties/C10.v:c10_fill_charges) *)
Definition holds_C10_fill_charge (rec_before rec_after bid_sum : Z) : bool :=
  (rec_before - rec_after =? bid_sum) && (0 <=? rec_after).

(* the limit-bid pool: LimitBidProtocolData.BidValue is the sum of the records *)
Definition holds_C10_pool (bid_value rec_sum : Z) : bool := bid_value =? rec_sum.

(* the penalty of a closing bid ([init]: 0 vault, 2 external, otherwise lend; [fee] = LockedVault.FeeToBeCollected):
   vault - what reached the collector plus what the keeper got is the penalty, and the collector's net-fee
   book grows by exactly what reached the collector; otherwise the collector is not involved
   (proved for the model as Properties/C10.v:c10_penalty_split) *)
Definition holds_C10_penalty (init fee d_collector d_keeper d_netfee : Z) : bool :=
  if init =? 0 then (d_collector + d_keeper =? fee) && (0 <=? d_keeper) && (0 <=? d_collector) && (d_netfee =? d_collector)
  else (d_collector =? 0) && (d_netfee =? 0).
