(* Model of x/liquidity/amm/pool.go: Deposit, Withdraw, InitialPoolCoinSupply, CreateBasicPool,
   the ranged pool (ValidateRangedPoolParams, CreateRangedPool, DeriveTranslation, Price,
   BuyAmountOver, SellAmountUnder) and the amount part of the keeper's
   ExecuteDepositRequest / ExecuteWithdrawRequest (one pool's reserves and share supply).
   Statement by statement, with cosmossdk.io/math's rounding and overflow checks (Lib/DecArith).
   Definitions only.

   utils.SafeMath(f, onOverflow) (types/utils.go:211): a panic whose value is a string containing
   "overflow" or ending in "out of bound" runs onOverflow; any other panic is re-raised.
     - Dec overflow  : panic("Int overflow")                      -> fallback
     - TruncateInt   : panic("NewIntFromBigInt() out of bound")   -> fallback
     - x / 0         : math/big panics "division by zero"         -> re-raised (the call panics)
   Inside a SafeMath body we therefore use [outcome]: Ok v | Err 0 (overflow) | Panic (re-raised). *)
From Comdex Require Import Lib.Base Lib.DecArith.

Definition lift_ovf (o : option Z) : outcome Z :=
  match o with Some v => Ok v | None => Err 0 end.

(* Quo / QuoTruncate inside SafeMath: zero divisor re-panics, oversize result is an overflow *)
Definition quo_trunc_s (a b : Z) : outcome Z :=
  if b =? 0 then Panic else lift_ovf (chk_dec (dquo_trunc a b)).
Definition quo_s (a b : Z) : outcome Z :=
  if b =? 0 then Panic else lift_ovf (chk_dec (dquo a b)).
(* d.Ceil().TruncateInt(): Ceil is unchecked, TruncateInt checks 256 bits *)
Definition ceil_int_s (d : Z) : outcome Z := lift_ovf (dtrunc_int_c (dceil d)).

(* ---------------- amm.Deposit (pool.go:477-509) ---------------- *)
Definition deposit_body (rx ry ps x y : Z) : outcome (Z * Z * Z) :=
  let rxd := dec_of_int rx in
  let ryd := dec_of_int ry in
  let psd := dec_of_int ps in
  obind (if rxd =? 0 then quo_trunc_s (dec_of_int y) ryd
         else if ryd =? 0 then quo_trunc_s (dec_of_int x) rxd
         else obind (quo_trunc_s (dec_of_int x) rxd) (fun a =>
              obind (quo_trunc_s (dec_of_int y) ryd) (fun b =>
              Ok (if a <? b then a else b))))                      (* LegacyMinDec *)
    (fun ratio =>
  obind (lift_ovf (dmul_trunc_c psd ratio)) (fun t =>
  obind (lift_ovf (dtrunc_int_c t)) (fun pc =>
  obind (quo_s (dec_of_int pc) psd) (fun mp =>                     (* mintProportion, half-even *)
  obind (lift_ovf (dmul_c rxd mp)) (fun mx =>
  obind (ceil_int_s mx) (fun ax =>
  obind (lift_ovf (dmul_c ryd mp)) (fun my =>
  obind (ceil_int_s my) (fun ay =>
  Ok (ax, ay, pc))))))))).

Definition deposit (rx ry ps x y : Z) : outcome (Z * Z * Z) :=
  match deposit_body rx ry ps x y with
  | Ok v => Ok v
  | Err _ => Ok (0, 0, 0)          (* onOverflow *)
  | Panic => Panic
  end.

(* ---------------- amm.Withdraw (pool.go:514-532) ---------------- *)
Definition withdraw_one (r prop mult : Z) : outcome Z :=
  obind (lift_ovf (dmul_trunc_c (dec_of_int r) prop)) (fun a =>
  obind (lift_ovf (dmul_trunc_c a mult)) (fun b =>
  lift_ovf (dtrunc_int_c b))).

Definition withdraw_body (rx ry ps pc fee : Z) : outcome (Z * Z) :=
  obind (quo_trunc_s (dec_of_int pc) (dec_of_int ps)) (fun prop =>
  obind (lift_ovf (dsub_c P18 fee)) (fun mult =>
  obind (withdraw_one rx prop mult) (fun x =>
  obind (withdraw_one ry prop mult) (fun y =>
  Ok (x, y))))).

Definition withdraw (rx ry ps pc fee : Z) : outcome (Z * Z) :=
  if pc =? ps then Ok (rx, ry)
  else match withdraw_body rx ry ps pc fee with
       | Ok v => Ok v
       | Err _ => Ok (0, 0)
       | Panic => Panic
       end.

(* ---------------- InitialPoolCoinSupply (pool.go:675-682) ---------------- *)
(* len(x.BigInt().Text(10)): decimal digits, plus the sign character *)
Fixpoint ndigits_loop (fuel : nat) (z : Z) : Z :=
  match fuel with
  | O => 1
  | S f => if z <? 10 then 1 else 1 + ndigits_loop f (z / 10)
  end.
Definition text_len (z : Z) : Z :=
  (if z <? 0 then 1 else 0) + ndigits_loop 100 (Z.abs z).

Definition initial_pool_coin_supply (x y : Z) : Z :=
  let cx := text_len x - 1 in
  let cy := text_len y - 1 in
  let c := Z.quot ((cx + 1) + (cy + 1) + 1) 2 in
  10 ^ c.

(* ---------------- constants (amm.go) ---------------- *)
Definition MinPoolPrice : Z := 1000.                             (* 10^-15 *)
Definition MaxPoolPrice : Z := 100000000000000000000 * P18.      (* 10^20 *)
Definition MinGapRatio : Z := 1000000000000000.                  (* 0.001 *)
Definition MaxCoinAmount : Z := 10 ^ 40.

(* ---------------- CreateBasicPool (pool.go:55-67): Err 1 zero reserve, 2 low, 3 high ------ *)
Definition create_basic_pool (rx ry : Z) : outcome (Z * Z * Z) :=
  if (rx =? 0) || (ry =? 0) then Err 1 else
  match dquo_c (dec_of_int rx) (dec_of_int ry) with
  | None => Panic
  | Some p =>
      if p <? MinPoolPrice then Err 2
      else if p >? MaxPoolPrice then Err 3
      else Ok (rx, ry, initial_pool_coin_supply rx ry)
  end.

(* ---------------- ranged pools ---------------- *)
Definition ob {A B} (x : option A) (f : A -> option B) : option B :=
  match x with Some a => f a | None => None end.

(* utils.DecApproxSqrt (ApproxRoot recovers its own panics into an error, which DecApproxSqrt
   re-panics; intermediate overflow inside the Newton loop is not modelled: sizes are bounded
   by the price range) *)
Definition sqrt_d (x : Z) : option Z := chk_dec (dsqrt x).
Definition inv_d (x : Z) : option Z := dquo_c P18 x.

(* ValidateRangedPoolParams (pool.go:268-294): Err 1..8 in the order of the checks *)
Definition validate_ranged (minP maxP initP : Z) : outcome unit :=
  if negb (initP >? 0) then Err 1
  else if minP <? MinPoolPrice then Err 2
  else if negb (maxP >? 0) then Err 3
  else if maxP >? MaxPoolPrice then Err 4
  else if negb (maxP >? minP) then Err 5
  else match ob (dsub_c maxP minP) (fun d => dquo_c d minP) with
       | None => Panic
       | Some g =>
           if g <? MinGapRatio then Err 6
           else if initP <? minP then Err 7
           else if initP >? maxP then Err 8
           else Ok tt
       end.

(* DeriveTranslation (pool.go:534-584); None = the call panics *)
Definition derive_translation (rx ry minP maxP : Z) : option (Z * Z) :=
  let rxd := dec_of_int rx in
  let ryd := dec_of_int ry in
  ob (sqrt_d minP) (fun sqrtM =>
  ob (sqrt_d maxP) (fun sqrtL =>
  ob (if rxd =? 0 then Some sqrtM
      else if ryd =? 0 then Some sqrtL
      else ob (dquo_c rxd ryd) (fun xy =>
           if xy =? 0 then Some sqrtM
           else ob (dquo_c ryd rxd) (fun yx =>
           if yx =? 0 then Some sqrtL
           else
             ob (sqrt_d xy) (fun sxy =>
             ob (dquo_c sqrtM sxy) (fun a1 =>
             ob (dquo_c sxy sqrtL) (fun a2 =>
             ob (dsub_c a1 a2) (fun alpha =>
             ob (chk_dec (dpower alpha 2)) (fun al2 =>
             ob (dadd_c al2 (4 * P18)) (fun al24 =>
             ob (sqrt_d al24) (fun sq =>
             ob (dadd_c alpha sq) (fun s1 =>
             dmul_c (Z.quot s1 2) sxy)))))))))))
    (fun sqrtP =>
  ob (if negb (sqrtP =? sqrtM)
      then ob (dsub_c sqrtP sqrtM) (fun d => ob (dquo_c rxd d) (fun k => Some (Some k)))
      else Some None)
    (fun sqrtK0 =>
  ob (if negb (sqrtP =? sqrtL) then
        ob (inv_d sqrtP) (fun ip =>
        ob (inv_d sqrtL) (fun il =>
        ob (dsub_c ip il) (fun d =>
        ob (dquo_c ryd d) (fun sqrtK2 =>
        match sqrtK0 with
        | None => Some (Some sqrtK2)
        | Some sqrtK =>
            ob (chk_dec (dpower sqrtP 2)) (fun p =>
            ob (dmul_c sqrtK sqrtM) (fun n1 =>
            ob (dadd_c rxd n1) (fun num1 =>
            ob (dquo_c sqrtK sqrtL) (fun d1 =>
            ob (dadd_c ryd d1) (fun den1 =>
            ob (dquo_c num1 den1) (fun p1 =>
            ob (dmul_c sqrtK2 sqrtM) (fun n2 =>
            ob (dadd_c rxd n2) (fun num2 =>
            ob (dquo_c sqrtK2 sqrtL) (fun d2 =>
            ob (dadd_c ryd d2) (fun den2 =>
            ob (dquo_c num2 den2) (fun p2 =>
            if Z.abs (p - p1) >? Z.abs (p - p2) then Some (Some sqrtK2) else Some (Some sqrtK))))))))))))
        end))))
      else Some sqrtK0)
    (fun sqrtKo =>
  match sqrtKo with
  | None => None                       (* nil Dec dereference *)
  | Some sqrtK =>
      ob (dmul_c sqrtK sqrtM) (fun tx =>
      ob (dquo_c sqrtK sqrtL) (fun ty => Some (tx, ty)))
  end))))).

Record rpool := { r_rx : Z; r_ry : Z; r_ps : Z; r_min : Z; r_max : Z;
                  r_tx : Z; r_ty : Z; r_xc : Z; r_yc : Z }.

(* NewRangedPool (pool.go:214-227) *)
Definition new_ranged_pool (rx ry ps minP maxP : Z) : option rpool :=
  ob (derive_translation rx ry minP maxP) (fun t =>
  ob (dadd_c (dec_of_int rx) (fst t)) (fun xc =>
  ob (dadd_c (dec_of_int ry) (snd t)) (fun yc =>
  Some {| r_rx := rx; r_ry := ry; r_ps := ps; r_min := minP; r_max := maxP;
          r_tx := fst t; r_ty := snd t; r_xc := xc; r_yc := yc |}))).

(* RangedPool.Price (pool.go:331-336) *)
Definition ranged_price (p : rpool) : option Z :=
  if (r_rx p =? 0) && (r_ry p =? 0) then None else dquo_c (r_xc p) (r_yc p).

(* CreateRangedPool (pool.go:231-266): the accepted amounts *)
Definition create_ranged_amounts (x y minP maxP initP : Z) : outcome (Z * Z) :=
  if negb (x >? 0) && negb (y >? 0) then Err 9 else
  obind (validate_ranged minP maxP initP) (fun _ =>
  if initP =? minP then Ok (0, y)
  else if initP =? maxP then Ok (x, 0)
  else
    let r :=
      ob (sqrt_d initP) (fun sqrtP =>
      ob (sqrt_d minP) (fun sqrtM =>
      ob (sqrt_d maxP) (fun sqrtL =>
      ob (dsub_c sqrtP sqrtM) (fun dpm =>
      ob (dquo_c (dec_of_int x) dpm) (fun q1 =>
      ob (inv_d sqrtP) (fun ip =>
      ob (inv_d sqrtL) (fun il =>
      ob (dsub_c ip il) (fun dinv =>
      ob (dmul_c q1 dinv) (fun m1 =>
      ob (dtrunc_int_c (dceil m1)) (fun ay =>
      if ay >? y then
        ob (dquo_c (dec_of_int y) dinv) (fun q2 =>
        ob (dmul_c q2 dpm) (fun m2 =>
        ob (dtrunc_int_c (dceil m2)) (fun ax => Some (ax, y))))
      else Some (x, ay))))))))))) in
    match r with Some v => Ok v | None => Panic end).

Definition create_ranged_pool (x y minP maxP initP : Z) : outcome rpool :=
  obind (create_ranged_amounts x y minP maxP initP) (fun a =>
  match new_ranged_pool (fst a) (snd a) (initial_pool_coin_supply (fst a) (snd a)) minP maxP with
  | Some p => Ok p
  | None => Panic
  end).

(* RangedPool.BuyAmountOver (pool.go:359-383); None = the call panics *)
Definition ranged_buy_amount_over (p : rpool) (price : Z) : option Z :=
  let orig := price in
  let price := if price <? r_min p then r_min p else price in
  ob (ranged_price p) (fun pp =>
  if price >=? pp then Some 0 else
  ob (dmul_c price (r_yc p)) (fun m =>
  ob (dsub_c (r_xc p) m) (fun dx0 =>
  if negb (dx0 >? 0) then Some 0 else
  let dx := if dx0 >? dec_of_int (r_rx p) then dec_of_int (r_rx p) else dx0 in
  if orig =? 0 then None else
  match ob (chk_dec (dquo_trunc dx orig)) dtrunc_int_c with
  | Some amt => Some (if amt >? MaxCoinAmount then MaxCoinAmount else amt)
  | None => Some MaxCoinAmount
  end))).

(* RangedPool.SellAmountUnder (pool.go:387-403) *)
Definition ranged_sell_amount_under (p : rpool) (price : Z) : option Z :=
  let price := if price >? r_max p then r_max p else price in
  ob (ranged_price p) (fun pp =>
  if price <=? pp then Some 0 else
  ob (dquo_up_c (r_xc p) price) (fun q =>
  ob (dsub_c (r_yc p) q) (fun d =>
  ob (dtrunc_int_c d) (fun amt0 =>
  let amt := if amt0 >? r_ry p then r_ry p else amt0 in
  if negb (amt >? 0) then Some 0 else Some amt)))).

(* ---------------- one pool through deposits and withdrawals ----------------
   The amount part of keeper.ExecuteDepositRequest / ExecuteWithdrawRequest (keeper/pool.go:493,
   579): a depleted pool is disabled and the request fails; a deposit that mints nothing fails;
   a withdrawal that returns nothing fails; a failed request (or a panic, which aborts the
   transaction) leaves reserves and supply unchanged.  A withdrawal's pool coins were escrowed
   from the withdrawer, so 0 < pc <= ps; the fee rate parameter is validated to lie in [0,1]. *)
Record pstate := { p_rx : Z; p_ry : Z; p_ps : Z }.
Inductive pop := Dep (x y : Z) | Wd (pc fee : Z).

Definition depleted (ranged : bool) (s : pstate) : bool :=
  if ranged then (p_ps s =? 0) || ((p_rx s =? 0) && (p_ry s =? 0))
  else (p_ps s =? 0) || (p_rx s =? 0) || (p_ry s =? 0).

Definition op_admissible (s : pstate) (o : pop) : bool :=
  match o with
  | Dep x y => (0 <=? x) && (0 <=? y)
  | Wd pc fee => (0 <? pc) && (pc <=? p_ps s) && (0 <=? fee) && (fee <=? P18)
  end.

Definition pstep (ranged : bool) (s : pstate) (o : pop) : pstate :=
  if depleted ranged s then s
  else if negb (op_admissible s o) then s
  else match o with
  | Dep x y =>
      match deposit (p_rx s) (p_ry s) (p_ps s) x y with
      | Ok (ax, ay, pc) =>
          if pc =? 0 then s
          else {| p_rx := p_rx s + ax; p_ry := p_ry s + ay; p_ps := p_ps s + pc |}
      | _ => s
      end
  | Wd pc fee =>
      match withdraw (p_rx s) (p_ry s) (p_ps s) pc fee with
      | Ok (x, y) =>
          if (x =? 0) && (y =? 0) then s
          else {| p_rx := p_rx s - x; p_ry := p_ry s - y; p_ps := p_ps s - pc |}
      | _ => s
      end
  end.

Definition prun (ranged : bool) (s : pstate) (ops : list pop) : pstate :=
  fold_left (pstep ranged) ops s.

Fixpoint ndeps (ops : list pop) : nat :=
  match ops with
  | [] => O
  | Dep _ _ :: r => S (ndeps r)
  | Wd _ _ :: r => ndeps r
  end.

(* ---------------- the property, as executable predicates ----------------
   They are evaluated by the runner on the IMPLEMENTATION's outputs. *)

(* deposit into reserves (rx, ry) with supply ps, offered (x, y), outputs (ax, ay, pc):
   never takes more than offered; shares minted no more than pro rata to what was offered
   (exact) and to what was taken up to 10^-18 of the reserve *)
Definition holds_C06_deposit (rx ry ps x y ax ay pc : Z) : bool :=
  (0 <=? ax) && (ax <=? x) && (0 <=? ay) && (ay <=? y) && (0 <=? pc) &&
  (pc * rx <=? x * ps) && (pc * ry <=? y * ps) &&
  ((pc * rx - ax * ps) * P18 <=? rx * ps) &&
  ((pc * ry - ay * ps) * P18 <=? ry * ps).

(* withdrawal of pc shares at fee rate [fee] (scaled), outputs (x, y) *)
Definition holds_C06_withdraw (rx ry ps pc fee x y : Z) : bool :=
  if pc =? ps then (x =? rx) && (y =? ry)
  else (0 <=? x) && (0 <=? y) &&
       (x * ps * P18 <=? rx * pc * (P18 - fee)) &&
       (y * ps * P18 <=? ry * pc * (P18 - fee)).

(* reserves per share after a step compared with before: not lower, up to the relative
   slack 10^-18; when the supply reaches zero the reserves are empty *)
Definition holds_C06_value (s s' : pstate) : bool :=
  (0 <=? p_rx s') && (0 <=? p_ry s') && (0 <=? p_ps s') &&
  (if p_ps s' =? 0 then (p_rx s' =? 0) && (p_ry s' =? 0)
   else (p_rx s * p_ps s' * (P18 - 1) <=? p_rx s' * p_ps s * P18) &&
        (p_ry s * p_ps s' * (P18 - 1) <=? p_ry s' * p_ps s * P18)).

(* a step that executes no deposit / withdrawal on the pool (and no swap against it) leaves its reserves and
   its share supply exactly as they were *)
Definition holds_C06_untouched (s s' : pstate) : bool :=
  (p_rx s =? p_rx s') && (p_ry s =? p_ry s') && (p_ps s =? p_ps s').

(* creation of a ranged pool (CreateRangedPool): of the offered (x, y) the pool accepts (ax, ay);
   never more of either coin than was offered.  Evaluated on the amm result and, through the keeper,
   on the coins that left the creator's wallet / arrived in the pool's reserve. *)
Definition holds_C06_create (x y ax ay : Z) : bool :=
  (0 <=? ax) && (ax <=? x) && (0 <=? ay) && (ay <=? y).

(* the three Newton square roots CreateRangedPool computes (utils.DecApproxSqrt) are positive and in
   the order of their arguments: 0 < sqrt(min) <= sqrt(initial) <= sqrt(max).  Hypothesis of
   c06_create_ranged_bounded (no accuracy / monotonicity lemma about the 300-step Newton iteration is
   proved); the runner evaluates it on every ranged creation it replays. *)
Definition ranged_roots_ok (minP maxP initP : Z) : bool :=
  match sqrt_d initP, sqrt_d minP, sqrt_d maxP with
  | Some sp, Some sm, Some sl => (0 <? sm) && (sm <=? sp) && (sp <=? sl)
  | _, _, _ => true
  end.

(* ranged pool quote/base amounts offered by the order-book clamps never exceed the reserves *)
Definition holds_C06_clamp_buy (rx price amt : Z) : bool :=
  (0 <=? amt) && ((amt =? MaxCoinAmount) || (price * amt <=? rx * P18)).
Definition holds_C06_clamp_sell (ry amt : Z) : bool := (0 <=? amt) && (amt <=? ry).

(* price within [min, max]; the excursion (0 inside the range) in units of 10^-18 *)
Definition price_excursion (minP maxP price : Z) : Z :=
  if price <? minP then minP - price else if price >? maxP then price - maxP else 0.
Definition holds_C06_price_range (minP maxP price : Z) : bool :=
  price_excursion minP maxP price =? 0.

(* ---------------- known-finding classes for the ranged-pool price clause ----------------
   kf_C06_1: both reserves positive but one of the two quotients rx/ry, ry/rx rounds to 0 at 18
             decimals, so DeriveTranslation (pool.go:548-551) treats the pool as single-asset and
             ignores the smaller reserve: the price can be far outside the range.
   kf_C06_2: single-asset pool (rx = 0 or ry = 0): the ideal price equals a range bound, and the
             fixed-point translation (few significant digits for small reserves and wide ranges)
             lands on either side of it.
   kf_C06_3: any pool: the price misses the range by at most 10^-6 of the bound (rounding of the
             Newton square roots and of the 18-decimal quotients near a bound). *)
Definition kf_C06_1 (rx ry : Z) : bool :=
  (0 <? rx) && (0 <? ry) &&
  ((dquo (dec_of_int rx) (dec_of_int ry) =? 0) || (dquo (dec_of_int ry) (dec_of_int rx) =? 0)).
Definition kf_C06_2 (rx ry : Z) : bool := (rx =? 0) || (ry =? 0).
Definition kf_C06_3 (minP maxP price : Z) : bool :=
  let e := price_excursion minP maxP price in
  (0 <? e) && (e * 1000000 <=? (if price <? minP then minP else maxP)).
