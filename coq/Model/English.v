(* English-style auctions AS CODED, statement by statement, for five variants:
     V1S  x/auction/keeper/surplus.go   PlaceSurplusAuctionBid / SurplusAuctionClose / RestartSurplus / closeSurplusAuction
     V1D  x/auction/keeper/debt.go      PlaceDebtAuctionBid    / DebtAuctionClose    / RestartDebt    / closeDebtAuction
     V2S  x/auctionsV2/keeper/bid.go    PlaceEnglishAuctionBid, InitiatorType "surplus"   (forward)
     V2X  x/auctionsV2/keeper/bid.go    PlaceEnglishAuctionBid, any other initiator      (forward, "generic")
     V2D  x/auctionsV2/keeper/bid.go    PlaceEnglishAuctionBid, InitiatorType "debt"      (reverse, inverted)
          x/auctionsV2/keeper/auctions.go AuctionIterator / CloseEnglishAuction / RestartEnglishAuction
   One record for all of them:
     sell  = amount of lot-denom tokens the winner receives
             (V1S SellToken, V1D ExpectedMintedToken, V2 CollateralToken.Amount)
     buy   = amount of bid-denom tokens the standing bidder has paid
             (V1S Bid, V1D ExpectedUserToken, V2 DebtToken.Amount)
   forward auctions raise [buy]; reverse auctions pay a fixed [buy] and lower [sell].
   The ledger makes payments, refunds and payouts explicit.  Definitions only. *)
From Comdex Require Import Lib.Base Lib.DecArith Lib.FLedger.

Inductive variant := V1S | V1D | V2S | V2X | V2D.

Definition reverse (v : variant) : bool := match v with V1D | V2D => true | _ => false end.
Definition is_v1 (v : variant) : bool := match v with V1S | V1D => true | _ => false end.

(* special accounts; bidders are ids >= 0 *)
Definition MOD : Z := -1.    (* the auction module account (auctionV1 / auctionsV2) *)
Definition COLL : Z := -2.   (* collector module account *)
Definition EXT : Z := -3.    (* external initiator (V2X) *)
Definition TM : Z := -4.     (* tokenmint module account (bids are moved there and burnt) *)
Definition NF : Z := -6.     (* NOT a bank account: the collector's NetFeesCollected record of (app, collector asset), kept
                                in the ledger under the denom of that asset (V1S: the lot denom, V1D: the bid denom).
                                Only the generation-1 closes book it here (V1D close, V1S emergency-shutdown close);
                                the generation-2 closes' net-fee bookkeeping is not projected by C11. *)
Definition AUC1 : Z := -5.   (* V2S: the generation-1 auction module account (auctiontypes.ModuleName): the start
                                (liquidationsV2 CheckStatsForSurplusAndDebt -> collector.GetAmountFromCollector)
                                puts the lot there and the close takes it from there (fix 67f334a).  For V1S / V1D
                                that module account is the auction's own account MOD. *)

Record auction := mkA {
  var : variant;
  bid_denom : Z;             (* denom the bidders pay in *)
  lot_denom : Z;             (* denom of the lot *)
  sell : Z;
  buy : Z;
  bidder : option Z;         (* standing bidder (V1 Bidder; V2 owner of ActiveBiddingId) *)
  bids : list (Z * Z);       (* accepted bids (bidder, amount), most recent first (BiddingIds) *)
  bid_end : Z;               (* V1 BidEndTime (seconds); unused by V2 *)
  end_ : Z;                  (* EndTime *)
  status : Z;                (* 0 AuctionStartNoBids, 1 AuctionGoingOn, 2 ended (record deleted; the history record says
                                AuctionEnded), 3 = generation 1 only: wound up by the emergency shutdown (statusEsm close:
                                record deleted, the history record says AuctionEnded too; no winner) *)
  factor : Z;                (* bid factor, a Dec (scaled by 10^18) *)
  dur : Z;                   (* AuctionDurationSeconds *)
  bid_dur : Z                (* V1 BidDurationSeconds *)
}.

Definition set_bid (a : auction) (who amt now : Z) (sell' buy' : Z) : auction :=
  let be := if is_v1 (var a)
            then (if now + bid_dur a >? end_ a then end_ a else now + bid_dur a)
            else bid_end a in
  mkA (var a) (bid_denom a) (lot_denom a) sell' buy' (Some who) ((who, amt) :: bids a)
      be (end_ a) 1 (factor a) (dur a) (bid_dur a).

Definition set_times (a : auction) (buy' be e : Z) : auction :=
  mkA (var a) (bid_denom a) (lot_denom a) (sell a) buy' (bidder a) (bids a) be e (status a)
      (factor a) (dur a) (bid_dur a).

Definition set_closed (a : auction) : auction :=
  mkA (var a) (bid_denom a) (lot_denom a) (sell a) (buy a) (bidder a) (bids a) (bid_end a) (end_ a) 2
      (factor a) (dur a) (bid_dur a).

(* the emergency-shutdown close keeps Bidder / Bid / BiddingIds on the (history) record *)
Definition set_esm_closed (a : auction) : auction :=
  mkA (var a) (bid_denom a) (lot_denom a) (sell a) (buy a) (bidder a) (bids a) (bid_end a) (end_ a) 3
      (factor a) (dur a) (bid_dur a).

(* the auction record is gone (GetSurplusAuction / GetDebtAuction / GetAuction fail) *)
Definition ended (a : auction) : bool := (status a =? 2) || (status a =? 3).

(* BidFactor.MulInt(x).Ceil().TruncateInt(); None = MulInt overflows and panics *)
Definition change (f x : Z) : option Z :=
  match dmul_int_c f x with
  | Some p => Some (dceil_int p)
  | None => None
  end.

Definition state := (auction * ledger)%type.

(* the rejection message formats the bound with Int.Uint64(), which panics outside [0, 2^64) *)
Definition err_u64 (bound : Z) : outcome unit :=
  match uint64_c bound with Some _ => Ok tt | None => Panic end.

Definition lift (r : lres) (code : Z) (k : ledger -> outcome state) : outcome state :=
  match r with LOk l => k l | LErr => Err code | LPanic => Panic end.

(* amounts actually moved by an accepted bid: what the new bidder pays, what the previous gets *)
Definition refund_prev (a : auction) (l : ledger) (code : Z) (k : ledger -> outcome state) : outcome state :=
  match bidder a with
  | Some prev => lift (send l MOD prev (bid_denom a) (buy a)) code k
  | None => k l
  end.

(* ------------------------------------------------------------------------------------------ *)
(* Bid: [who] bids coin (denom, amt) at block time [now]; (xd, xa) is MsgPlaceDebtBid's
   ExpectedUserToken (V1D only, ignored elsewhere).  The handlers first run their checks
   ([bid_check], in the order of the code; the result is what the bidder must pay and the new
   sell / buy amounts of the record), then take the payment, refund the previous bidder and
   store the record ([settle]; the same three statements in all five handlers).              *)
Definition bid_check (a : auction) (denom amt xd xa : Z) : outcome (Z * Z * Z) :=
  match var a with
  | V1S =>
      if negb (amt >=? 0) then Err 20 else                      (* ValidateBasic: Amount.IsValid *)
      if negb (denom =? bid_denom a) then Err 2 else
      if negb (status a =? 0)
      then match change (factor a) (buy a) with
           | None => Panic
           | Some c => if amt <? buy a + c then Err 3 else Ok (amt, sell a, amt)
           end
      else if amt <=? buy a then Err 4 else Ok (amt, sell a, amt)
  | V1D =>
      if negb (xd =? bid_denom a) then Err 2 else               (* expectedUserToken.Denom *)
      if negb (xa =? buy a) then Err 7 else                     (* expectedUserToken.Amount *)
      if negb (denom =? lot_denom a) then Err 8 else            (* bid.Denom vs ExpectedMintedToken *)
      if negb (status a =? 0)
      then match change (factor a) (sell a) with
           | None => Panic
           | Some c => if amt >? sell a - c
                       then obind (err_u64 (sell a - c)) (fun _ => Err 3)
                       else Ok (xa, amt, buy a)
           end
      else if amt >? sell a then Err 4 else Ok (xa, amt, buy a)   (* AuctionedToken = ExpectedMintedToken while no bid *)
  | V2S | V2X | V2D =>
      if amt <=? 0 then Err 20 else                             (* ValidateBasic *)
      let rev := reverse (var a) in
      let last := if rev then sell a else buy a in              (* tokenLastBid *)
      let last_denom := if rev then lot_denom a else bid_denom a in
      let ok := if rev then Ok (buy a, amt, buy a)              (* bidFromUser = DebtToken *)
                else Ok (amt, sell a, amt) in
      if negb (denom =? last_denom) then Err 2 else
      match bidder a with                                       (* auctionData.BiddingIds != nil *)
      | Some _ =>
          match change (factor a) last with
          | None => Panic
          | Some c =>
              if rev then (if amt >? last - c then obind (err_u64 (last - c)) (fun _ => Err 3) else ok)
              else (if amt <? last + c then obind (err_u64 (last + c)) (fun _ => Err 3) else ok)
          end
      | None =>
          if rev then (if amt >? last then Err 4 else ok)
          else (if amt <? last then Err 4 else ok)
      end
  end.

Definition settle (a : auction) (l : ledger) (who amt now pay sell' buy' : Z) : outcome state :=
  lift (send l who MOD (bid_denom a) pay) 5 (fun l1 =>
  refund_prev a l1 6 (fun l2 =>                                 (* the refund is the OLD standing payment *)
  Ok (set_bid a who amt now sell' buy', l2))).

Definition bid (a : auction) (l : ledger) (who denom amt now xd xa : Z) : outcome state :=
  if ended a then Err 1 else                                    (* auction record not found *)
  match bid_check a denom amt xd xa with
  | Ok (pay, sell', buy') => settle a l who amt now pay sell' buy'
  | Err c => Err c
  | Panic => Panic
  end.

(* ------------------------------------------------------------------------------------------ *)
(* the close of an auction that has a standing bidder [w].
   tm_ok = the tokenmint call (BurnTokensForApp / MintNewTokensForApp) does not return an error *)
Definition close (a : auction) (l : ledger) (w : Z) (tm_ok : bool) : outcome state :=
  match var a with
  | V1S =>
      lift (send l MOD w (lot_denom a) (sell a)) 10 (fun l1 =>
      lift (send l1 MOD TM (bid_denom a) (buy a)) 11 (fun l2 =>  (* -> tokenmint module, then burnt *)
      if negb tm_ok then Err 12 else
      lift (burn_from l2 TM (bid_denom a) (buy a)) 11 (fun l3 =>
      Ok (set_closed a, l3))))
  | V1D =>
      if negb tm_ok then Err 12 else
      let l1 := if sell a >? 0 then mint_to l w (lot_denom a) (sell a) else l in
      lift (send l1 MOD COLL (bid_denom a) (buy a)) 13 (fun l2 =>
      (* collector.SetNetFeeCollectedData(AssetInId, ExpectedUserToken.Amount): fails on a negative amount
         only, and then the send above has panicked already *)
      Ok (set_closed a, mint_to l2 NF (bid_denom a) (buy a)))
  | V2S =>                                                      (* the lot waits in the generation-1 auction module account *)
      lift (send l AUC1 MOD (lot_denom a) (sell a)) 14 (fun l1 =>
      lift (send l1 MOD w (lot_denom a) (sell a)) 10 (fun l2 =>
      lift (send l2 MOD TM (bid_denom a) (buy a)) 11 (fun l3 =>
      if negb tm_ok then Err 12 else
      lift (burn_from l3 TM (bid_denom a) (buy a)) 11 (fun l4 =>
      Ok (set_closed a, l4)))))
  | V2D =>
      if negb tm_ok then Err 12 else
      let l1 := if sell a >? 0 then mint_to l w (lot_denom a) (sell a) else l in
      lift (send l1 MOD COLL (bid_denom a) (buy a)) 13 (fun l2 =>
      Ok (set_closed a, l2))
  | V2X =>
      lift (send l MOD w (lot_denom a) (sell a)) 10 (fun l1 =>
      lift (send l1 MOD EXT (bid_denom a) (buy a)) 13 (fun l2 =>
      Ok (set_closed a, l2)))
  end.

(* RestartSurplus / RestartDebt / RestartEnglishAuction *)
Definition restart (a : auction) (now : Z) : auction :=
  match var a with
  | V1S => set_times a 0 (now + dur a) (now + dur a)            (* Bid := BuyToken := 0 *)
  | V1D => set_times a (buy a) (now + dur a) (now + dur a)
  | _ => set_times a (buy a) (bid_end a) (now + dur a)
  end.

(* the block hook at time [now] (auction.BeginBlocker -> Surplus/DebtAuctionClose;
   auctionsV2.BeginBlocker -> AuctionIterator), for this auction, ESM not triggered *)
Definition tick (a : auction) (l : ledger) (now : Z) (tm_ok : bool) : outcome state :=
  if ended a then Ok (a, l) else
  let due := if is_v1 (var a) then (now >? end_ a) || (now >? bid_end a) else now >? end_ a in
  if negb due then Ok (a, l) else
  match bidder a with
  | None => Ok (restart a now, l)
  | Some w => close a l w tm_ok
  end.

(* ------------------------------------------------------------------------------------------ *)
(* The block hook at time [now] while the app's emergency shutdown is on (esm.GetESMStatus(app).Status):
   generation 1: auction.BeginBlocker -> SurplusActivator / DebtActivator(data, killSwitch, status = true):
     - the first branch (CreateSurplus/DebtAuction) needs !status: nothing is started, neither in this block
       after the close (data is the copy read before) nor in a later one, however high / low the net fees;
     - IsAuctionActive: Surplus/DebtAuctionClose(app, statusEsm = true): EVERY auction of the app is due,
       whatever the time, and goes to closeSurplus/DebtAuction(statusEsm = true), bids or no bids (no restart):
       V1S, Bidder != nil : Bid back to the bidder; SellToken module -> collector; net fees += SellToken
       V1S, no bidder     : (the else branch) SellToken module -> collector; net fees += SellToken
       V1D, BiddingIds != nil : the user bidding of (Bidder, ActiveBiddingId) is looked up (an error if it is
                            not there) and ExpectedUserToken goes back to its bidder; nothing is minted
       V1D, no bids       : nothing moves
       then makeFalseForFlags, the record is deleted and written to the history with AuctionEnded.
       The user-bidding records are NOT touched (the ordinary close marks, deletes and archives them):
       they stay in the active store, placed / active, for an auction that is gone - see [active_biddings].
   generation 2: auctionsV2 AuctionIterator reads the ESM status for Dutch auctions only: an English
       auction is closed / restarted exactly as without it. *)
Definition tick_esm (a : auction) (l : ledger) (now : Z) (tm_ok : bool) : outcome state :=
  if ended a then Ok (a, l) else
  match var a with
  | V1S =>
      match bidder a with
      | Some w =>
          lift (send l MOD w (bid_denom a) (buy a)) 16 (fun l1 =>
          lift (send l1 MOD COLL (lot_denom a) (sell a)) 17 (fun l2 =>
          Ok (set_esm_closed a, mint_to l2 NF (lot_denom a) (sell a))))
      | None =>
          lift (send l MOD COLL (lot_denom a) (sell a)) 17 (fun l1 =>
          Ok (set_esm_closed a, mint_to l1 NF (lot_denom a) (sell a)))
      end
  | V1D =>
      match bids a with
      | [] => Ok (set_esm_closed a, l)
      | _ :: _ =>
          match bidder a with
          | None => Err 18                                      (* GetDebtUserBidding("", ...) not found *)
          | Some w => lift (send l MOD w (bid_denom a) (buy a)) 16 (fun l1 => Ok (set_esm_closed a, l1))
          end
      end
  | V2S | V2X | V2D => tick a l now tm_ok
  end.

Inductive op :=
| Bid (who denom amt now xd xa : Z)
| Tick (now : Z) (tm_ok : bool)
| TickEsm (now : Z) (tm_ok : bool).

Definition step (s : state) (o : op) : outcome state :=
  match o with
  | Bid who denom amt now xd xa => bid (fst s) (snd s) who denom amt now xd xa
  | Tick now tm_ok => tick (fst s) (snd s) now tm_ok
  | TickEsm now tm_ok => tick_esm (fst s) (snd s) now tm_ok
  end.

(* messages and wrapped hooks are all-or-nothing: an error or panic leaves the state as it was *)
Definition apply_op (s : state) (o : op) : state :=
  match step s o with Ok s' => s' | _ => s end.

Definition run (s : state) (ops : list op) : state := fold_left apply_op ops s.

(* a freshly started auction *)
Definition init (v : variant) (bd ld lot start_buy now fac d bd_s : Z) : auction :=
  mkA v bd ld lot start_buy None [] (now + d) (now + d) 0 fac d bd_s.

(* ------------------------------------------------------------------------------------------ *)
(* What the auction holds for its bidders: the standing payment.                               *)
Definition held (a : auction) : Z :=
  if ended a then 0 else match bidder a with Some _ => buy a | None => 0 end.

(* generation 1: the user-bidding records of this auction still in the active store: the ordinary
   close archives all of them, the emergency-shutdown close none *)
Definition active_biddings (a : auction) : Z :=
  if status a =? 2 then 0 else Z.of_nat (List.length (bids a)).

(* what the emergency-shutdown close returns to the collector (and books as net fees), per denom *)
Definition lot_back (a : auction) (d : Z) : Z :=
  match var a with V1S => if d =? lot_denom a then sell a else 0 | _ => 0 end.

(* ---- the property predicates, evaluated by the runner on the IMPLEMENTATION's observations ---- *)

(* custody: module balance in the bid denom, relative to its balance when the auction started,
   equals the standing payment *)
Definition holds_C11_custody (a : auction) (mod_bal0 mod_bal : Z) : bool :=
  mod_bal - mod_bal0 =? held a.

(* an accepted bid over a standing one improves by at least ceil(factor * standing) *)
Definition holds_C11_improves (pre : auction) (amt : Z) : bool :=
  match bidder pre with
  | None => true
  | Some _ =>
      let last := if reverse (var pre) then sell pre else buy pre in
      match change (factor pre) last with
      | None => false
      | Some c => if reverse (var pre) then amt <=? last - c else amt >=? last + c
      end
  end.

(* same-step refund: the previous bidder's bid-denom balance rises by exactly the standing
   payment (if the new bidder is the same account, net of the new payment) *)
Definition holds_C11_refund (pre : auction) (who paid : Z) (prev_before prev_after : Z) : bool :=
  match bidder pre with
  | None => true
  | Some p => if p =? who then prev_after =? prev_before + buy pre - paid
              else prev_after =? prev_before + buy pre
  end.

(* after the close: the winner is the last accepted bidder; in total over the auction it paid
   the standing payment and got the lot; every other bidder is exactly where it started *)
Definition holds_C11_winner (a : auction) (acct : Z) (bid0 lot0 bid1 lot1 : Z) : bool :=
  match bidder a, bids a with
  | Some w, (w', _) :: _ =>
      (w =? w') &&
      (if acct =? w then (bid1 =? bid0 - buy a) && (lot1 =? lot0 + Z.max 0 (sell a))
       else (bid1 =? bid0) && (lot1 =? lot0))
  | _, _ => false
  end.

(* after the emergency-shutdown close (status 3): NO bidder has the lot, NO bidder has lost anything:
   every bidder account - the standing bidder included - is exactly where it was when the auction
   started, in the bid denom and in the lot denom *)
Definition holds_C11_esm (a : auction) (acct : Z) (bid0 lot0 bid1 lot1 : Z) : bool :=
  (status a =? 3) && (bid1 =? bid0) && (lot1 =? lot0).

(* ... and the lot (generation-1 surplus; a debt auction has none before it is minted) went from the
   auction module back to the collector and onto the net-fee record; balances in the lot denom
   relative to the start of the auction *)
Definition holds_C11_esm_lot (a : auction) (mod0 coll0 nf0 mod1 coll1 nf1 : Z) : bool :=
  let x := lot_back a (lot_denom a) in
  (status a =? 3) && (mod1 =? mod0 - x) && (coll1 =? coll0 + x) && (nf1 =? nf0 + x).

(* while the auction is open nobody but the standing bidder is out of pocket *)
Definition holds_C11_open (a : auction) (acct : Z) (bid0 lot0 bid1 lot1 : Z) : bool :=
  (lot1 =? lot0) &&
  (match bidder a with
   | Some w => if acct =? w then bid1 =? bid0 - buy a else bid1 =? bid0
   | None => bid1 =? bid0
   end).

(* generation-2 surplus, after the close: the lot came out of the generation-1 auction module
   account (where the start put it) exactly once, the collector's lot-denom balance is where it
   was when the auction started; nothing is claimed for the other variants or while open *)
Definition holds_C11_source (a : auction) (auc0 coll0 auc1 coll1 : Z) : bool :=
  match var a with
  | V2S => if status a =? 2 then (auc1 =? auc0 - sell a) && (coll1 =? coll0) else (auc1 =? auc0) && (coll1 =? coll0)
  | _ => true
  end.
