(* The batch window of the liquidation sweeps, exactly as coded AFTER fix C15-F2
   (fixes/C15-F2/patch.diff: the helper treats a wrapped  offset + batchSize  like an end beyond
   the list):
   x/liquidation/types/liquidations.go:21 and x/liquidationsV2/types/offset.go:19
   (GetSliceStartEndForLiquidations, identical text in both generations), the caller's
   "start == end -> offset := 0, recompute" step (liquidate_vaults.go:43-47, liquidate.go:52-56,
   :242-246, liquidate_borrow.go:26-31), the caller's  int(uint64)  conversions of the stored
   counter / offset / batch size, and the Go slice expression  total[start:end].
   Go's [int] is int64 on the target: [offset + batchSize] wraps. *)
From Comdex Require Import Lib.Base.

Definition int_max : Z := 9223372036854775807.
Definition uint64_max : Z := 18446744073709551615.
Definition wrap64 (z : Z) : Z := ((z + 9223372036854775808) mod 18446744073709551616) - 9223372036854775808.

(* Go's conversion int(u) of a uint64: the same 64 bits read as two's complement - values >= 2^63
   become negative (int(params.LiquidationBatchSize), int(liquidationOffsetHolder.CurrentOffset),
   int(k.vault.GetLengthOfVault(ctx))) *)
Definition int_of_uint64 (u : Z) : Z := wrap64 u.

(* func GetSliceStartEndForLiquidations(sliceLen, offset, batchSize int) (int, int)
     if offset >= sliceLen || offset < 0 || batchSize < 0 { return sliceLen, sliceLen }
     start := offset
     end := offset + batchSize
     if end >= sliceLen || end < start { return start, sliceLen }      <- "|| end < start": fix C15-F2
     return start, end *)
Definition slice_bounds (len off batch : Z) : Z * Z :=
  if (off >=? len) || (off <? 0) || (batch <? 0) then (len, len)
  else
    let e := wrap64 (off + batch) in
    if (e >=? len) || (e <? off) then (off, len) else (off, e).

(* the caller: start, end := f(len, off, batch); if start == end { off = 0; start, end = f(len, 0, batch) } *)
Definition sweep_window (len off batch : Z) : Z * Z :=
  let '(s, e) := slice_bounds len off batch in
  if s =? e then slice_bounds len 0 batch else (s, e).

(* Go slice expression x[a:b] on a slice of capacity cap: run-time panic unless 0 <= a <= b <= cap *)
Definition go_slice_ok (cap a b : Z) : bool := (0 <=? a) && (a <=? b) && (b <=? cap).

(* the elements: positions len..cap-1 of the backing array hold zero values *)
Definition go_slice {A} (zero : A) (l : list A) (cap a b : Z) : option (list A) :=
  if go_slice_ok cap a b && (zlen l <=? cap)
  then Some (firstn (Z.to_nat (b - a)) (skipn (Z.to_nat a) (l ++ repeat zero (Z.to_nat (cap - zlen l)))))
  else None.

(* one sweep step as the code performs it, on ints: [counter] is what the code passes as sliceLen
   (the stored LengthOfVault counter for the vault sweeps, len(borrows) for the borrow sweeps),
   [cap] the capacity of the list that is sliced.  None = the hook panics (nothing wraps this). *)
Definition sweep_slice {A} (zero : A) (l : list A) (cap counter off batch : Z) : option (list A * Z) :=
  let '(s, e) := sweep_window counter off batch in
  match go_slice zero l cap s e with
  | Some items => Some (items, e)          (* e becomes the next stored offset *)
  | None => None
  end.

(* the same step from the STORED values (all three are uint64 in the store / parameter store and
   are converted with int() by the caller) *)
Definition sweep_slice_stored {A} (zero : A) (l : list A) (cap counter_u off_u batch_u : Z) : option (list A * Z) :=
  sweep_slice zero l cap (int_of_uint64 counter_u) (int_of_uint64 off_u) (int_of_uint64 batch_u).

(* the model's prediction "the slice expression panics", used by the runner to VALIDATE the model
   of the slice expression against the implementation - also on states the harness fabricates
   (a counter set directly through the keeper).  Not a known-finding class: by c15_slice_panics_iff
   it is true only if counter > cap, which no reachable state satisfies. *)
Definition slice_panics (cap counter off batch : Z) : bool :=
  let '(s, e) := sweep_window counter off batch in negb (go_slice_ok cap s e).
Definition slice_panics_stored (cap counter_u off_u batch_u : Z) : bool :=
  slice_panics cap (int_of_uint64 counter_u) (int_of_uint64 off_u) (int_of_uint64 batch_u).
