(* The batch window of the liquidation sweeps, exactly as coded:
   x/liquidation/types/liquidations.go:21 and x/liquidationsV2/types/offset.go:19
   (GetSliceStartEndForLiquidations, identical text in both generations), the caller's
   "start == end -> offset := 0, recompute" step (liquidate_vaults.go:43-47, liquidate.go:52-56,
   :242-246, liquidate_borrow.go:26-31) and the Go slice expression  total[start:end].
   Go's [int] is int64 on the target: [offset + batchSize] wraps. *)
From Comdex Require Import Lib.Base.

Definition int_max : Z := 9223372036854775807.
Definition wrap64 (z : Z) : Z := ((z + 9223372036854775808) mod 18446744073709551616) - 9223372036854775808.

(* func GetSliceStartEndForLiquidations(sliceLen, offset, batchSize int) (int, int) *)
Definition slice_bounds (len off batch : Z) : Z * Z :=
  if (off >=? len) || (off <? 0) || (batch <? 0) then (len, len)
  else
    let e := wrap64 (off + batch) in
    if e >=? len then (off, len) else (off, e).

(* the caller: start, end := f(len, off, batch); if start == end { off = 0; start, end = f(len, 0, batch) } *)
Definition sweep_window (len off batch : Z) : Z * Z :=
  let '(s, e) := slice_bounds len off batch in
  if s =? e then slice_bounds len 0 batch else (s, e).

(* Go slice expression x[a:b] on a slice of capacity cap: run-time panic unless 0 <= a <= b <= cap *)
Definition go_slice_ok (cap a b : Z) : bool := (0 <=? a) && (a <=? b) && (b <=? cap).

(* the elements: positions len..cap-1 of the backing array hold zero values *)
Definition go_slice {A} (zero : A) (l : list A) (cap a b : Z) : option (list A) :=
  if go_slice_ok cap a b && (zlen l <=? cap)
  then Some (firstn (Z.to_nat (b - a)) (skipn (Z.to_nat a) (l ++ repeat zero (Z.to_nat (cap - zlen l)))))
  else None.

(* one sweep step as the code performs it: [counter] is what the code passes as sliceLen (the
   stored LengthOfVault counter for the vault sweeps, len(borrows) for the borrow sweeps), [cap]
   the capacity of the list that is sliced.  None = the hook panics (nothing wraps this). *)
Definition sweep_slice {A} (zero : A) (l : list A) (cap counter off batch : Z) : option (list A * Z) :=
  let '(s, e) := sweep_window counter off batch in
  match go_slice zero l cap s e with
  | Some items => Some (items, e)          (* e becomes the next stored offset *)
  | None => None
  end.

(* executable class of the inputs on which the slice expression panics *)
Definition kf_C15_2 (cap counter off batch : Z) : bool :=
  let '(s, e) := sweep_window counter off batch in negb (go_slice_ok cap s e).
