(* C18: the executable form of Model/Accrual.v [calculation_of_rewards] that the correspondence
   run replays.  Identical statement for statement, with the three float operations taken from
   Lib/F64Fast.v (shifts instead of big divisions); Proofs/AccrualFastProofs.v proves it EQUAL to
   [calculation_of_rewards] for every argument.  Definitions only. *)
From Comdex Require Import Lib.Base Lib.DecArith Lib.F64 Lib.F64Fast Model.Accrual.

Definition cmp_xf (lsr : Z) : Z := to64f (P18 + lsr).
Definition cmp_yf (secs : Z) : Z := to64f (years_elapsed secs).
Definition cmp_amtff (amt : Z) : Z := to64f (dec_of_int amt).

Definition calculation_of_rewards_fast (pow : Z -> Z -> Z) (now btime amt lsr : Z) : outcome Z :=
  let secs := now - btime in
  if secs <? 0 then Err 1 else
  match int64_c amt with
  | None => Panic
  | Some a =>
      let f := pow (cmp_xf lsr) (cmp_yf secs) in
      let acc := sub64f f F_ONE in
      let new := mul64f acc (cmp_amtff a) in
      if negb (f_finite f && f_finite new) then Err 2 else
      let r := fmt18f new in
      if fits_dec r then Ok r else Err 2
  end.
