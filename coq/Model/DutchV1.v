(* Model of the generation-1 Dutch auction price path (x/auction):
     keeper/math.go   getOutflowTokenInitialPrice, getOutflowTokenEndPrice, getPriceFromLinearDecreaseFunction
     keeper/dutch.go:495-503 (and dutch_lend.go, same statements): the price update of the block hook
   Definitions only.  The bid path (dutch.go:164-342) is NOT modelled yet. *)
From Comdex Require Import Lib.Base Lib.DecArith.

(* buffer.Mul(NewDec(price.Int64())) *)
Definition v1_initial_price (buffer twa : Z) : option Z :=
  match int64_c twa with
  | Some t => dmul_c buffer (dec_of_int t)
  | None => None
  end.

(* Multiply(price, cusp), stored in the record at (re)start *)
Definition v1_end_price (top cusp : Z) : Z := dmul top cusp.

(* top.Mul(NewDec(tau - dur)).Quo(NewDec(tau)) *)
Definition v1_price_at_c (top tau dur : Z) : option Z :=
  if tau =? 0 then None
  else match dmul_c top (dec_of_int (tau - dur)) with
       | Some r => chk_dec (dquo r (dec_of_int tau))
       | None => None
       end.

(* dutch.go:495-501: tau = (top * D / (top - end)).TruncateInt64(), price = f(top, tau, seconds) *)
Definition v1_posted_price (top endp dur t : Z) : option Z :=
  match dmul_c top (dec_of_int dur), dsub_c top endp with
  | Some num, Some den =>
      match dquo_c num den with
      | Some ntau =>
          match int64_c (dtrunc_int ntau) with
          | Some tau => v1_price_at_c top tau t
          | None => None
          end
      | None => None
      end
  | _, _ => None
  end.
