(* Model of the generation-1 Dutch auction price path (x/auction):
     keeper/math.go   getOutflowTokenInitialPrice, getOutflowTokenEndPrice, getPriceFromLinearDecreaseFunction
     keeper/dutch.go:495-503 (and dutch_lend.go, same statements): the price update of the block hook
   Definitions only.  The bid path and the close follow further down. *)
From Comdex Require Import Lib.Base Lib.DecArith.

(* buffer.Mul(NewDec(price.Int64())) *)
Definition v1_initial_price (buffer twa : Z) : option Z :=
  match int64_c twa with
  | Some t => dmul_c buffer (dec_of_int t)
  | None => None
  end.

(* Multiply(price, cusp), stored in the record at (re)start *)
Definition v1_end_price (top cusp : Z) : Z := dmul top cusp.

(* top.Mul(NewDec(tau - dur)).Quo(NewDec(tau)) *)
Definition v1_price_at_c (top tau dur : Z) : option Z :=
  if tau =? 0 then None
  else match dmul_c top (dec_of_int (tau - dur)) with
       | Some r => chk_dec (dquo r (dec_of_int tau))
       | None => None
       end.

(* dutch.go:495-501: tau = (top * D / (top - end)).TruncateInt64(), price = f(top, tau, seconds) *)
Definition v1_posted_price (top endp dur t : Z) : option Z :=
  match dmul_c top (dec_of_int dur), dsub_c top endp with
  | Some num, Some den =>
      match dquo_c num den with
      | Some ntau =>
          match int64_c (dtrunc_int ntau) with
          | Some tau => v1_price_at_c top tau t
          | None => None
          end
      | None => None
      end
  | _, _ => None
  end.

(* ------------------------------------------------------------------------------------------ *)
(* Bid path and close of the generation-1 Dutch auction, statement by statement:
     keeper/dutch.go       StartDutchAuction (47-162), PlaceDutchAuctionBid (164-342), CloseDutchAuction (365-463),
                           RestartDutchAuctions (465-660; the ESM branch is not modelled)
     keeper/dutch_lend.go  PlaceLendDutchAuctionBid (133-330), CloseDutchLendAuction (355-420: no bank
                           movement of its own), RestartDutchLendAuctions (422-480)
     x/collector/keeper/collector.go:14 GetAmountFromCollector, :445 SetNetFeeCollectedData
     x/lend/keeper/funds.go:9 UpdateReserveBalances (dec)
     x/liquidation/keeper/liquidate_borrow.go UnLiquidateLockedBorrows (345-): the price-feed requirement of the
                           bid that closes a lend auction (after fix 6257748); x/lend/keeper/rates.go:30,
                           x/market/keeper/oracle.go:166
   The ledger, [send], the outcome helpers and the account identifiers are those of Model/DutchV2. *)
From Comdex Require Import Model.DutchV2.

(* GetAmountOfOtherToken with both results: (t1dAmount as a Dec, token amount) *)
Definition conv2_c (d1 r1 amt1 d2 r2 : Z) : option (Z * Z) :=
  if (d1 =? 0) || (r2 =? 0) then None
  else
    let num := dmul (dec_of_int amt1) r1 in
    let t1 := dquo num (dec_of_int d1) in
    let na := dquo t1 r2 in
    let ta := dmul na (dec_of_int d2) in
    if fits_dec num && fits_dec t1 && fits_dec na && fits_dec ta && fits_int (dtrunc_int ta)
    then Some (t1, dtrunc_int ta) else None.

Record v1cfg := mkV1Cfg {
  v_buffer : Z;     (* AuctionParams.Buffer (Dec) *)
  v_cusp : Z;       (* AuctionParams.Cusp (Dec) *)
  v_dur : Z;        (* AuctionDurationSeconds *)
  v_dust : Z;       (* ExtendedPairVault / lend pair MinUsdValueLeft (uint64) *)
  v_dout : Z;       (* Decimals of the outflow (collateral) asset *)
  v_din : Z;        (* Decimals of the inflow (debt) asset *)
  v_lend : bool;    (* lend auction (dutch_lend.go) *)
  v_bonus : Z       (* lend: AssetRatesParams.LiquidationBonus of the collateral asset (Dec) *)
}.

Record v1auc := mkV1A {
  o_cur : Z;        (* OutflowTokenCurrentAmount *)
  i_target : Z;     (* InflowTokenTargetAmount *)
  i_cur : Z;        (* InflowTokenCurrentAmount *)
  p_out : Z;        (* OutflowTokenCurrentPrice (Dec) *)
  p_in : Z;         (* InflowTokenCurrentPrice (Dec) *)
  p_top : Z;        (* OutflowTokenInitialPrice *)
  p_end : Z;        (* OutflowTokenEndPrice *)
  t_start : Z;
  t_end : Z
}.

(* the lend module's reserve account (lend auctions: covers the shortfall when the collateral is sold out) *)
Definition LEND_D : Z := 7.

Record v1state := mkV1S {
  v_led : ledger;
  v_netfee : option Z    (* collector NetFeesCollected(app, debt asset); None = no record *)
}.

Record v1res := mkV1R {
  w_paid : Z;       (* inflow (debt) taken from the bidder *)
  w_recv : Z;       (* outflow (collateral) sent to the bidder, bonus included *)
  w_slice : Z;      (* the part of w_recv taken off the auction's collateral *)
  w_closed : bool;
  w_reached : bool; (* TargetReachedFlag *)
  w_topup : Z       (* sold-out close: taken from the collector (vault) / the lend reserve (lend) *)
}.

(* StartDutchAuction: target = AmountOut + trunc(NewDec(AmountOut.Int64()) * penalty) + InterestAccumulated *)
Definition v1_target (amount_out penalty fees : Z) : option Z :=
  match int64_c amount_out with
  | Some ao => match dmul_c (dec_of_int ao) penalty with
               | Some m => Some (amount_out + dtrunc_int m + fees)
               | None => None
               end
  | None => None
  end.

(* [pin]: the inflow price the code reads (oracle twa when active, or the fixed AssetOutPrice), None when it
   returns ErrorPrices; [pout]: Some twa of the collateral when active *)
Definition v1_activate (cf : v1cfg) (coll amount_out penalty fees now : Z) (pin pout : option Z) : outcome v1auc :=
  match pin with
  | None => Err 1
  | Some ti =>
    match pout with
    | None => Err 1
    | Some tc =>
      match v1_target amount_out penalty fees with
      | None => Panic
      | Some target =>
        match v1_initial_price (v_buffer cf) tc with
        | None => Panic
        | Some top =>
          match dmul_c top (v_cusp cf) with
          | None => Panic
          | Some e => Ok (mkV1A coll target 0 top (dec_of_int ti) top e now (now + v_dur cf))
          end
        end
      end
    end
  end.

(* one auction in RestartDutchAuctions / RestartDutchLendAuctions (under ApplyFuncIfNoError) *)
Definition v1_tick_raw (cf : v1cfg) (now : Z) (pin pout : option Z) (a : v1auc) : outcome v1auc :=
  match pin with
  | None => Err 1
  | Some ti =>
    match v1_posted_price (p_top a) (p_end a) (v_dur cf) (now - t_start a) with
    | None => Panic
    | Some p =>
      let a1 := mkV1A (o_cur a) (i_target a) (i_cur a) p (dec_of_int (wrap64 ti)) (p_top a) (p_end a) (t_start a) (t_end a) in
      if now >? t_end a then
        match pout with
        | None => Err 1
        | Some tc =>
          match v1_initial_price (v_buffer cf) tc with
          | None => Panic
          | Some top =>
            match dmul_c top (v_cusp cf) with
            | None => Panic
            | Some e => Ok (mkV1A (o_cur a) (i_target a) (i_cur a) top (dec_of_int (wrap64 ti)) top e now (now + v_dur cf))
            end
          end
        end
      else Ok a1
    end
  end.

Definition v1_tick (cf : v1cfg) (now : Z) (pin pout : option Z) (a : v1auc) : v1auc :=
  match v1_tick_raw cf now pin pout a with Ok a' => a' | _ => a end.

(* CloseDutchAuction (vault): burn the principal, the rest of the target to the collector and into its fee book *)
Definition v1_close_vault (amount_out target : Z) (L : ledger) (nf : option Z) : outcome (ledger * option Z) :=
  let pen := target - amount_out in
  do L1 <- (if amount_out >? 0 then oerr 20 (send L AUC_D BRN_D amount_out) else Ok L);
  do L2 <- (if pen >? 0 then oerr 21 (send L1 AUC_D COL_D pen) else Ok L1);
  if pen <? 0 then Err 22 else
  Ok (L2, Some (match nf with Some x => x + pen | None => pen end)).

(* PlaceDutchAuctionBid / PlaceLendDutchAuctionBid: the checks, the sale arithmetic and the bank movements of
   the bid incl. those of a close.  [bid] is an amount of COLLATERAL the bidder wants.  What the close of a LEND
   auction goes on to do in x/liquidation (UnLiquidateLockedBorrows) is [v1_lend_unliquidate] below; the whole
   message is [v1_place_bid]. *)
Definition v1_place_bid_core (cf : v1cfg) (amount_out : Z) (a : v1auc) (s : v1state) (who bid : Z) (wrong_denom : bool)
  : outcome (v1state * option v1auc * v1res) :=
  if bid =? 0 then Err 1 else
  if wrong_denom then Err 2 else
  if bid >? o_cur a then Err 3 else
  let tab := i_target a - i_cur a in
  do (owe0, infl0) <- opanic (conv2_c (v_dout cf) (p_out a) bid (v_din cf) (p_in a));
  if infl0 <=? 0 then Err 4 else
  let reached := infl0 >? tab in
  do (owe, infl, slice) <-
     (if reached then do (o, sl) <- opanic (conv2_c (v_din cf) (p_in a) tab (v_dout cf) (p_out a)); Ok (o, tab, sl)
      else Ok (owe0, infl0, bid));
  if infl <? 0 then Panic else                                   (* NewCoin *)
  (* the lend variant values the collateral left with the DEBT asset's Decimals *)
  do outLeft <- opanic (usd_value_c (if v_lend cf then v_din cf else v_dout cf) (p_out a) (o_cur a));
  do outLeftDebt <- opanic (usd_value_c (v_din cf) (p_in a) tab);
  do lft <- opanic (dsub_c outLeft owe);
  do lftD <- opanic (dsub_c outLeftDebt owe);
  do dust <- opanic (uint64_c (v_dust cf));
  if (lft <? dec_of_int dust) && negb (lft =? 0) && negb reached then Err 5 else
  if (lftD <? dec_of_int dust) && negb (lftD =? 0) && negb (lft =? 0) then Err 6 else
  if slice <? 0 then Panic else                                  (* NewCoin *)
  if v_lend cf then
    (* ---- lend: inflow straight on to the pool, bonus on top of the slice *)
    do L1 <- oerr 7 (send (v_led s) (BID_D who) AUC_D infl);
    do L2 <- oerr 8 (send L1 AUC_D POOL_D infl);
    do sl64 <- opanic (int64_c slice);
    do bon <- opanic (dmul_c (dec_of_int sl64) (v_bonus cf));
    let tot := slice + dtrunc_int bon in
    if tot <? 0 then Panic else
    if o_cur a - slice <? 0 then Panic else
    let oc := o_cur a - slice in let ic := i_cur a + infl in
    let a' := mkV1A oc (i_target a) ic (p_out a) (p_in a) (p_top a) (p_end a) (t_start a) (t_end a) in
    if ic >=? i_target a then
      do L3 <- (if oc >? 0 then oerr 9 (send L2 AUC_C OWN_C oc) else Ok L2);
      do L4 <- oerr 10 (send L3 AUC_C (BID_C who) tot);
      Ok (mkV1S L4 (v_netfee s), None, mkV1R infl tot slice true reached 0)
    else if oc =? 0 then
      let req := i_target a - ic in
      if v_led s LEND_D <? req then Err 11 else                  (* reserve pool balance *)
      do L3 <- oerr 12 (send L2 LEND_D POOL_D req);
      do L4 <- oerr 10 (send L3 AUC_C (BID_C who) tot);
      Ok (mkV1S L4 (v_netfee s), None, mkV1R infl tot slice true reached req)
    else
      do L3 <- oerr 10 (send L2 AUC_C (BID_C who) tot);
      Ok (mkV1S L3 (v_netfee s), Some a', mkV1R infl tot slice false reached 0)
  else
    (* ---- vault *)
    do L1 <- (if infl >? 0 then oerr 7 (send (v_led s) (BID_D who) AUC_D infl) else Ok (v_led s));
    do L2 <- (if slice >? 0 then oerr 8 (send L1 AUC_C (BID_C who) slice) else Ok L1);
    if o_cur a - slice <? 0 then Panic else                      (* Coin.Sub *)
    let oc := o_cur a - slice in let ic := i_cur a + infl in
    let a' := mkV1A oc (i_target a) ic (p_out a) (p_in a) (p_top a) (p_end a) (t_start a) (t_end a) in
    if ic >=? i_target a then
      do L3 <- (if oc >? 0 then oerr 9 (send L2 AUC_C OWN_C oc) else Ok L2);
      do (L4, nf) <- v1_close_vault amount_out (i_target a) L3 (v_netfee s);
      Ok (mkV1S L4 nf, None, mkV1R infl slice slice true reached 0)
    else if oc =? 0 then
      (* collateral sold out, debt left: the collector pays the rest *)
      let req := i_target a - ic in
      match v_netfee s with
      | None => Err 13
      | Some nf0 =>
          if req <? 0 then Err 14 else
          if negb (nf0 - req >? 0) then Err 15 else
          do L3 <- oerr 16 (send L2 COL_D AUC_D req);
          do (L4, nf) <- v1_close_vault amount_out (i_target a) L3 (Some (nf0 - req));
          Ok (mkV1S L4 nf, None, mkV1R infl slice slice true reached req)
      end
    else Ok (mkV1S L2 (v_netfee s), Some a', mkV1R infl slice slice false reached 0).

(* ---- the locked borrow behind a lend auction (x/liquidation LockedVault of a borrow position): the three
   amounts the close of the auction reads.  They are set by x/liquidation when the auction is started
   (CreateLockedBorrow / UpdateLockedBorrows) and no bid or block tick touches them before the close. *)
Record v1lv := mkV1LV {
  lv_in : Z;        (* LockedVault.AmountIn: collateral still locked, the lot of this auction already taken off *)
  lv_out : Z;       (* LockedVault.AmountOut: principal owed *)
  lv_uout : Z       (* LockedVault.UpdatedAmountOut: principal + interest owed *)
}.

(* a vault auction has no locked borrow behind it *)
Definition v1_no_lv : v1lv := mkV1LV 0 0 0.

Definition floor0 (x : Z) : Z := if x <=? 0 then 0 else x.

(* CloseDutchLendAuction, dutch_lend.go:391-398: the auction's target comes off both debt amounts, floored at 0 *)
Definition v1_lv_after_close (lv : v1lv) (target : Z) : v1lv :=
  mkV1LV (lv_in lv) (floor0 (lv_out lv - target)) (floor0 (lv_uout lv - target)).

(* market CalcAssetPrice (oracle.go:166): amt x twa / Decimals when the feed is found and active, else
   ErrorPriceNotActive.  [feed] = Some twa when found and active *)
Definition v1_asset_value (decimals : Z) (feed : option Z) (amt : Z) : outcome Z :=
  match feed with
  | None => Err 17
  | Some twa => opanic (usd_value_c decimals (dec_of_int twa) amt)
  end.

(* x/liquidation UnLiquidateLockedBorrows (liquidate_borrow.go:345-, same-pool borrow, :436-470) as run by
   CloseDutchLendAuction after it has written the locked vault back, after fix 6257748: nothing is left to decide
   when the debt or the collateral of the locked borrow is used up (Ok None: the position is deleted);
   otherwise lend CalculateCollateralizationRatio (rates.go:30) values the collateral, then the debt - each needs
   its feed found and active, and its error is RETURNED (it was dropped before the fix and the ratio read as 0 =
   healthy) - and divides.  The ratio decides between handing the borrow back and liquidating again: what
   either does (borrow book-keeping, the next auction) is not modelled here; a next auction is a new start op. *)
Definition v1_lend_unliquidate (cf : v1cfg) (lv : v1lv) (target : Z) (pin pout : option Z) : outcome (option Z) :=
  let lv' := v1_lv_after_close lv target in
  if lv_out lv' =? 0 then Ok None else
  if lv_in lv' =? 0 then Ok None else
  do tin <- v1_asset_value (v_dout cf) pout (lv_in lv');
  do tout <- v1_asset_value (v_din cf) pin (lv_uout lv');
  do ratio <- opanic (dquo_c tout tin);
  Ok (Some ratio).

(* MsgPlaceDutchBid / MsgPlaceDutchLendBid as a whole.  Vault auctions and every bid that leaves the auction
   open: the core.  The bid that CLOSES a lend auction (dutch_lend.go:262-276 target reached, :277-317 collateral
   sold out -> CloseDutchLendAuction :355-441) runs UnLiquidateLockedBorrows after all the sale computations and
   transfers; when that fails the error goes up through PlaceLendDutchAuctionBid and the message's cache context
   is dropped: the outcome carries no state, the caller keeps the state it had.
   [pin] / [pout]: the oracle twa of the debt / collateral asset when found and active, at the time of the bid. *)
Definition v1_place_bid (cf : v1cfg) (amount_out : Z) (lv : v1lv) (a : v1auc) (s : v1state) (who bid : Z) (wrong_denom : bool)
           (pin pout : option Z)
  : outcome (v1state * option v1auc * v1res) :=
  match v1_place_bid_core cf amount_out a s who bid wrong_denom with
  | Ok (s', None, r) =>
      if v_lend cf then
        match v1_lend_unliquidate cf lv (i_target a) pin pout with
        | Ok _ => Ok (s', None, r)
        | Err c => Err c
        | Panic => Panic
        end
      else Ok (s', None, r)
  | x => x
  end.

(* ---- one auction's life *)
Inductive v1op :=
| V1Bid (who amt : Z) (wrong_denom : bool) (pin pout : option Z)
| V1Tick (now : Z) (pin pout : option Z).

Record v1life := mkV1L {
  g_s : v1state;
  g_a : option v1auc;
  g_paid : Z;      (* ghost: sum of inflow paid by bidders *)
  g_recv : Z;      (* ghost: sum of collateral taken off the auction (slices) *)
  g_bonus : Z;     (* ghost: sum of bonus collateral paid on top (lend) *)
  g_top : Z        (* ghost: shortfall covered by collector / reserve at the close *)
}.

Definition v1_step (cf : v1cfg) (amount_out : Z) (lv : v1lv) (f : v1life) (o : v1op) : v1life :=
  match g_a f with
  | None => f
  | Some a =>
      match o with
      | V1Tick now pin pout => mkV1L (g_s f) (Some (v1_tick cf now pin pout a)) (g_paid f) (g_recv f) (g_bonus f) (g_top f)
      | V1Bid who amt wd pin pout =>
          match v1_place_bid cf amount_out lv a (g_s f) who amt wd pin pout with
          | Ok (s', a', r) => mkV1L s' a' (g_paid f + w_paid r) (g_recv f + w_slice r)
                                    (g_bonus f + (w_recv r - w_slice r)) (g_top f + w_topup r)
          | _ => f
          end
      end
  end.

Definition v1_run (cf : v1cfg) (amount_out : Z) (lv : v1lv) (f : v1life) (ops : list v1op) : v1life :=
  fold_left (v1_step cf amount_out lv) ops f.

(* ---- predicates on observations (runner) *)
(* one successful bid at posted prices po (collateral) / pi (debt): the bidder pays at least the posted value
   of what is taken off the auction (minus three debt units of rounding; when the bid fills the target: at most
   one collateral unit more than the payment buys), receives at most the slice plus the advertised bonus
   share, and the amounts stay within the auction's remaining collateral / debt *)
Definition holds_C10_v1_bid (dout din po pi bonus o_before tab paid recv slice : Z) : bool :=
  (0 <=? paid) && (0 <=? slice) && (slice <=? recv) && (slice <=? o_before) && (paid <=? tab) &&
  ((slice * (po * din) <? (paid + 3) * (pi * dout)) ||
   ((paid =? tab) && ((slice - 1) * (po * din) <=? paid * (pi * dout)))) &&
  ((recv - slice) * P18 <=? slice * bonus).

(* totals over the life of one auction: paid <= target, collateral taken off the auction <= seized,
   bonus paid on top <= the advertised share of it *)
Definition holds_C10_v1_totals (target coll bonus paid slices bonus_paid : Z) : bool :=
  (paid <=? target) && (slices <=? coll) && (bonus_paid * P18 <=? slices * bonus).

(* custody: what the auction account holds beyond the live auctions' collateral (and, vault auctions, the debt
   they have collected so far) *)
Definition holds_C10_v1_custody (residual_c residual_d : Z) : bool := (residual_c =? 0) && (residual_d =? 0).

(* known-finding class C10-F4 (generation-1 LEND auctions): the liquidation module transfers the lot plus the
   whole advertised bonus into the auction account; the bonus is paid per bid as trunc(slice x bonus), and the
   bonus share of collateral that is NOT sold (target reached early: the rest goes back to the borrower
   without it) and the truncation remainders are never paid out or returned.  [funded] = collateral moved into
   the auction account for the auction(s), [coll] = their OutflowTokenInitAmount, [bonus_paid] = bonus paid *)
Definition kf_C10_4 (lend : bool) (funded coll bonus_paid : Z) : bool := lend && (coll + bonus_paid <? funded).
