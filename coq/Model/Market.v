(* Model of x/market/keeper/oracle.go (UpdatePriceList, CalculateTwa, GetLatestPrice,
   CalcAssetPrice) and x/market/abci.go (BeginBlocker), statement by statement.
   Definitions only; proofs live in Proofs/MarketProofs.v. *)
From Comdex Require Import Lib.Base.

Record twa := mkTwa {
  vals   : list Z;   (* PriceValue, uint64 samples *)
  idx    : Z;        (* CurrentIndex (uint64) *)
  avg    : Z;        (* Twa (uint64) *)
  active : bool;     (* IsPriceActive *)
  disc   : Z         (* DiscardedHeightDiff (int64) *)
}.

(* CalculateTwa: the 128-bit sum of PriceValue[0..n-1] divided by n (bits.Add64 / bits.Div64;
   before the fix of C17-F2 the sum wrapped modulo 2^64).
   PriceValue[i] out of range panics; n = 0 panics (division by zero). *)
Definition calc_twa (vs : list Z) (n : Z) : option Z :=
  if n <=? 0 then None
  else if zlen vs <? n then None
  else Some (zsum (firstn (Z.to_nat n) vs) / n).

Definition wrap_idx (i n : Z) : Z := if i >=? n then 0 else i.

(* second half of UpdatePriceList: after the discard handling *)
Definition update_tail (n rate : Z) (t : option twa) : outcome (option twa) :=
  match t with
  | None =>
      if rate >? 0 then
        (* first sample; since the fix of C17-F1 it completes a window of size 1 *)
        if 1 >=? n then
          match calc_twa [rate] n with
          | None => Panic
          | Some a => Ok (Some (mkTwa [rate] 0 a true (-1)))
          end
        else Ok (Some (mkTwa [rate] 1 0 false (-1)))
      else Ok None
  | Some tw =>
      if rate >? 0 then
        if active tw then
          match set_nth (vals tw) (Z.to_nat (idx tw)) rate with
          | None => Panic
          | Some vs =>
              let i1 := idx tw + 1 in
              match calc_twa vs n with
              | None => Panic
              | Some a => Ok (Some (mkTwa vs (wrap_idx i1 n) a true (disc tw)))
              end
          end
        else if zlen (vals tw) >=? n then
          match set_nth (vals tw) (Z.to_nat (idx tw)) rate with
          | None => Panic
          | Some vs =>
              let i1 := idx tw + 1 in
              match calc_twa vs n with
              | None => Panic
              | Some a => Ok (Some (mkTwa vs (wrap_idx i1 n) a true (disc tw)))
              end
          end
        else
          let vs := vals tw ++ [rate] in
          let i1 := idx tw + 1 in
          if i1 >=? n then
            match calc_twa vs n with
            | None => Panic
            | Some a => Ok (Some (mkTwa vs 0 a true (disc tw)))
            end
          else Ok (Some (mkTwa vs i1 (avg tw) false (disc tw)))
      else Ok (Some tw)
  end.

(* UpdatePriceList(ctx@height, id, script, rate, n, gap) on the stored record of one asset *)
Definition update (n gap height rate : Z) (t : option twa) : outcome (option twa) :=
  match t with
  | Some tw =>
      if (rate <=? 0) && (disc tw <? 0) then
        Ok (Some (mkTwa (vals tw) (idx tw) (avg tw) false height))
      else if (rate >? 0) && (disc tw >? 0) then
        if height - disc tw <? gap
        then update_tail n rate (Some (mkTwa (vals tw) (idx tw) (avg tw) (active tw) (-1)))
        else update_tail n rate (Some (mkTwa [] 0 (avg tw) false (-1)))
      else update_tail n rate (Some tw)
  | None => update_tail n rate None
  end.

(* market.BeginBlocker, the per-record effects *)
Definition discard_reset (tw : twa) : twa := mkTwa [] 0 (avg tw) false (disc tw).
Definition invalidate (tw : twa) : twa := mkTwa (vals tw) (idx tw) (avg tw) false (disc tw).

(* GetLatestPrice: PriceValue[CurrentIndex] when active (index out of range panics) *)
Definition get_latest (t : option twa) : outcome Z :=
  match t with
  | Some tw => if active tw then
                 match nth_z (vals tw) (Z.to_nat (idx tw)) with Some v => Ok v | None => Panic end
               else Err 1
  | None => Err 1
  end.

(* CalcAssetPrice: error unless the record exists and is active; the value is computed from
   Twa with Dec arithmetic (DecArith, used by the vault model) *)
Definition price_in_force (t : option twa) : outcome Z :=
  match t with
  | Some tw => if active tw then Ok (avg tw) else Err 1
  | None => Err 1
  end.

(* ------------------------------------------------------------------------------------ *)
(* Whole-asset history: what arrives for one asset, block after block.                   *)
Inductive mop :=
| Sample (height rate : Z)     (* UpdatePriceList at that height with that rate *)
| DiscardReset                 (* BeginBlocker, discardData.DiscardBool branch *)
| Invalidate.                  (* BeginBlocker, oracle validation failed branch *)

Definition mstep (n gap : Z) (t : option twa) (o : mop) : outcome (option twa) :=
  match o with
  | Sample h r => update n gap h r t
  | DiscardReset => Ok (option_map discard_reset t)
  | Invalidate => Ok (option_map invalidate t)
  end.

Fixpoint mrun (n gap : Z) (t : option twa) (ops : list mop) : outcome (option twa) :=
  match ops with
  | [] => Ok t
  | o :: r => obind (mstep n gap t o) (fun t' => mrun n gap t' r)
  end.

(* ------------------------------------------------------------------------------------ *)
(* market.BeginBlocker over the whole Twa store (assoc list by asset id, ascending).       *)
Definition mstore := list (Z * twa).

Fixpoint sget (s : mstore) (id : Z) : option twa :=
  match s with [] => None | (k, v) :: r => if k =? id then Some v else sget r id end.

(* insert keeping ascending key order (the KV store iterates in key order) *)
Fixpoint sset (s : mstore) (id : Z) (v : twa) : mstore :=
  match s with
  | [] => [(id, v)]
  | (k, w) :: r => if k =? id then (id, v) :: r
                   else if id <? k then (id, v) :: (k, w) :: r
                   else (k, w) :: sset r id v
  end.

Definition sput (s : mstore) (id : Z) (t : option twa) : mstore :=
  match t with Some v => sset s id v | None => s end.

(* the rate loop: [index] counts price-requiring assets seen so far (starts at -1) *)
Fixpoint rate_loop (n gap height : Z) (rates : list Z) (assets : list (Z * bool)) (index : Z)
         (s : mstore) : outcome mstore :=
  match assets with
  | [] => Ok s
  | (id, req) :: rest =>
      if req && negb (match rates with [] => true | _ => false end) then
        let index' := index + 1 in
        if zlen rates >? index' then
          match nth_z rates (Z.to_nat index') with
          | None => Panic
          | Some rate =>
              match update n gap height rate (sget s id) with
              | Ok t' => rate_loop n gap height rates rest index' (sput s id t')
              | Err c => Err c
              | Panic => Panic
              end
          end
        else rate_loop n gap height rates rest index' s
      else rate_loop n gap height rates rest index s
  end.

Record bb_env := mkBB {
  bb_valid : bool;      (* bandKeeper.GetOracleValidationResult *)
  bb_last : Z;          (* bandKeeper.GetLastBlockHeight *)
  bb_height : Z;        (* ctx.BlockHeight *)
  bb_discard : bool;    (* discardData.DiscardBool *)
  bb_rates : list Z;    (* the fetched result's rates (nil = []) *)
  bb_n : Z; bb_gap : Z  (* TwaBatchSize, AcceptedHeightDiff of the stored fetch msg *)
}.

(* returns the new store and the new DiscardBool *)
Definition begin_block (e : bb_env) (assets : list (Z * bool)) (s : mstore) : outcome (mstore * bool) :=
  if bb_valid e then
    if negb (bb_last e =? 0) && (bb_height e mod 20 =? 0) then
      let s1 := if bb_discard e then map (fun kv => (fst kv, discard_reset (snd kv))) s else s in
      match rate_loop (bb_n e) (bb_gap e) (bb_height e) (bb_rates e) assets (-1) s1 with
      | Ok s2 => Ok (s2, false)
      | Err c => Err c
      | Panic => Panic
      end
    else Ok (s, bb_discard e)
  else
    Ok (fold_left (fun acc a => match sget acc (fst a) with
                                | Some tw => sset acc (fst a) (invalidate tw)
                                | None => acc end) assets s, bb_discard e).

(* ------------------------------------------------------------------------------------ *)
(* Property predicate on an observed record (the same boolean judges the implementation's
   records in the runner).  [hist] = positive samples accepted since the last window reset,
   most recent first (maintained by the observer from the inputs alone, see [hist_step]). *)

(* when does the code empty the window?  - DiscardReset; - a positive sample that arrives on a
   discarded record at or beyond the accepted gap.  The discard marker is tracked from inputs. *)
Record ghost := mkGhost { g_hist : list Z; g_disc : Z; g_exists : bool }.
Definition ghost0 := mkGhost [] (-1) false.

Definition ghost_step (gap : Z) (g : ghost) (o : mop) : ghost :=
  match o with
  | Sample h r =>
      if g_exists g then
        if (r <=? 0) && (g_disc g <? 0) then mkGhost (g_hist g) h true
        else if (r >? 0) && (g_disc g >? 0) then
          if h - g_disc g <? gap then mkGhost (r :: g_hist g) (-1) true
          else mkGhost [r] (-1) true
        else if r >? 0 then mkGhost (r :: g_hist g) (g_disc g) true
        else g
      else if r >? 0 then mkGhost [r] (-1) true else g
  | DiscardReset => mkGhost [] (g_disc g) (g_exists g)
  | Invalidate => g
  end.

(* what one BeginBlocker delivers to each asset's record, as per-asset ops (pure function of the
   inputs; used by the observer to maintain the ghost, and by BlockRefines in the proofs) *)
Fixpoint bb_samples (height : Z) (rates : list Z) (assets : list (Z * bool)) (index : Z)
  : list (Z * mop) :=
  match assets with
  | [] => []
  | (id, req) :: rest =>
      if req && negb (match rates with [] => true | _ => false end) then
        let index' := index + 1 in
        if zlen rates >? index' then
          match nth_z rates (Z.to_nat index') with
          | None => []
          | Some rate => (id, Sample height rate) :: bb_samples height rates rest index'
          end
        else bb_samples height rates rest index'
      else bb_samples height rates rest index
  end.

Definition bb_ops (e : bb_env) (assets : list (Z * bool)) (known : list Z) : list (Z * mop) :=
  if bb_valid e then
    if negb (bb_last e =? 0) && (bb_height e mod 20 =? 0) then
      (if bb_discard e then map (fun id => (id, DiscardReset)) known else [])
      ++ bb_samples (bb_height e) (bb_rates e) assets (-1)
    else []
  else map (fun a => (fst a, Invalidate)) assets.

(* The property, on one observed record, for window size n:
   - active only with a full window of positive samples since the last reset
   - if active and the last op was a positive sample, avg = integer mean of the last n samples
   - indices within the window *)
Definition holds_C17_state (n : Z) (g : ghost) (last_positive : bool) (t : option twa) : bool :=
  match t with
  | None => negb (g_exists g)
  | Some tw =>
      (zlen (vals tw) <=? n) &&
      (if active tw then (zlen (g_hist g) >=? n) && (zlen (vals tw) =? n) && (idx tw <? n) && (0 <=? idx tw)
       else true) &&
      (if active tw && last_positive
       then avg tw =? zsum (firstn (Z.to_nat n) (g_hist g)) / n
       else true)
  end.

(* C17-F1 (window size 1) and C17-F2 (uint64 wrap) were repaired in /repo ("fix:" commits);
   their KF classes are gone and the theorems hold for every n >= 1 without a wrap guard. *)
