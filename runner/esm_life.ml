(* C01-esm / C02-esm runner: replays the esm-life traces (harness/esm_life_test.go) on the extracted model
   Model/EsmLife.v, threading the MODEL state through the whole history and diffing the complete projection
   after every step (everything c01.ml diffs, plus the module accounts auctionsV2 / esm / liquidationsV2 /
   tokenmint and the governance-token balances and supply, the ESM status record with its step flags, the
   price snapshots, DataAfterCoolOff, the AssetToAmount records with side / share / debt-token worth, the deposit
   statistics and the tokenmint supply); evaluates the extracted predicates holds_C01_esm / c02e_backing /
   c02e_exact / holds_C02_step / holds_C02_redeem / holds_C02_shares on the IMPLEMENTATION's observations.
   Ghosts (unsolicited coins, pool / paid-out totals) follow the inputs / the model. *)
open Conv
open Vault
open VaultLife
open EsmLife

let zs = string_of_z
let z0 = BinNums.Z0
let zadd = BinInt.Z.add
let key2 a b = zs a ^ ":" ^ zs b

type eobs = {
  base : C01.obs;
  o_flags : (string, eflag * bool * BinNums.coq_Z * bool) Hashtbl.t;     (* app -> flags, status, end, snapshot *)
  o_snap : (string, BinNums.coq_Z) Hashtbl.t;
  o_cool : (string, BinNums.coq_Z * BinNums.coq_Z) Hashtbl.t;
  mutable o_recs : arec list;
  o_dep : (string, BinNums.coq_Z) Hashtbl.t;
  o_udep : (string, BinNums.coq_Z) Hashtbl.t;
  o_tm : (string, BinNums.coq_Z) Hashtbl.t;
}
let new_eobs () = { base = C01.new_obs (); o_flags = Hashtbl.create 4; o_snap = Hashtbl.create 8; o_cool = Hashtbl.create 4; o_recs = [];
                    o_dep = Hashtbl.create 4; o_udep = Hashtbl.create 8; o_tm = Hashtbl.create 4 }

let show_rec (r : arec) = Printf.sprintf "%s/%s/%s/%s/%s/%s" (zs r.ar_app) (zs r.ar_asset) (zs r.ar_amt) (tok_of_bool r.ar_coll) (zs r.ar_share) (zs r.ar_worth)
let show_flag (f : eflag) = Printf.sprintf "%s/%s/%s/%s/%s" (tok_of_bool f.ef_found) (tok_of_bool f.ef_vault) (tok_of_bool f.ef_stable) (tok_of_bool f.ef_coll) (tok_of_bool f.ef_share)
let show_pair = function None -> "none" | Some (a, b) -> zs a ^ "/" ^ zs b

let run_for (which : string) (path : string) =
  let lines = read_lines path in
  let cases = ref 0 and steps = ref 0 and nontrivial = ref 0 in
  let case = ref "" in
  let apps = ref [] and denoms = ref [] and alld = ref [] and eps : epair list ref = ref [] and nusers = ref 0 in
  let govs : (string, BinNums.coq_Z) Hashtbl.t = Hashtbl.create 4 in
  let params : (string, bool * BinNums.coq_Z * BinNums.coq_Z) Hashtbl.t = Hashtbl.create 4 in
  let rates : (string, BinNums.coq_Z) Hashtbl.t = Hashtbl.create 8 in
  let adec : (string, BinNums.coq_Z) Hashtbl.t = Hashtbl.create 8 in
  let oracle = ref [] in
  let model : estate option ref = ref None in
  let prev_impl : estate option ref = ref None in
  let ext : (string, BinNums.coq_Z) Hashtbl.t = Hashtbl.create 16 in
  let ghost : (string, BinNums.coq_Z) Hashtbl.t = Hashtbl.create 16 in
  let cur = ref (new_eobs ()) in
  let pending_init = ref false in
  let last_op : (eop * string * string) option ref = ref None in
  let step = ref 0 in
  let paid_redemptions = ref 0 and executed = ref false in
  let sig_ = Buffer.create 1024 in
  let cfg () = { apps = !apps; epairs = !eps } in
  let lcfg () = {
    lc_pen = (fun _ -> z0); lc_wl = (fun _ -> false); lc_dutch = (fun _ -> false); lc_ki = (fun _ -> z0); lc_dur = z0;
    lc_rate = (let t = Hashtbl.copy rates in fun a x -> match Hashtbl.find_opt t (key2 a x) with Some r -> r | None -> z0) } in
  let ecfg () =
    let p = Hashtbl.copy params and g = Hashtbl.copy govs and d = Hashtbl.copy adec in
    { ec_target = (fun a -> match Hashtbl.find_opt p (zs a) with Some (true, t, _) -> Some t | _ -> None);
      ec_cool = (fun a -> match Hashtbl.find_opt p (zs a) with Some (_, _, c) -> c | None -> z0);
      ec_gov = (fun a -> Hashtbl.find_opt g (zs a));
      ec_oracle = !oracle;
      ec_dec = (fun x -> Hashtbl.find_opt d (zs x)) } in
  let want p = (which = p) in
  let end_case () =
    if !case <> "" then begin
      incr cases;
      if !executed && !paid_redemptions >= 1 then incr nontrivial;
      Hashtbl.replace distinct (Digest.string (Buffer.contents sig_)) ()
    end in
  (* the observed state as a model state; ghosts and the breaker from the model [m] *)
  let estate_of_obs (o : eobs) (m : estate option) : estate =
    let envs = (match m with Some x -> Some x.el.vs | None -> None) in
    let base = C01.state_of_obs o.base envs ghost in
    let fl = Hashtbl.copy o.o_flags and sn = Hashtbl.copy o.o_snap and co = Hashtbl.copy o.o_cool in
    let dp = Hashtbl.copy o.o_dep and ud = Hashtbl.copy o.o_udep and tm = Hashtbl.copy o.o_tm in
    let vs = { base with
               esm = (fun a -> match Hashtbl.find_opt fl (zs a) with
                   | Some (_, st, en, snp) -> { e_status = st; e_end = en; e_snap = snp }
                   | None -> esm0);
               snap = (fun a x -> Hashtbl.find_opt sn (key2 a x)) } in
    let recs = o.o_recs in
    let g1 f = (match m with Some x -> f x | None -> (fun _ -> z0)) in
    let l = { vs = vs; lks = []; aus = []; lkid = z0; auid = z0;
              ereg = (fun a x -> match find_rec recs a x with Some r -> r.ar_amt | None -> z0);
              edebt = g1 (fun x -> x.el.edebt);
              rsv = (fun _ _ -> None);
              drift = (fun _ _ -> z0); er_mint = (fun _ _ -> z0); er_coll = (fun _ _ -> z0); er_short = (fun _ -> z0); over = (fun _ -> z0) } in
    { el = l; recs = recs;
      cool = (fun a -> Hashtbl.find_opt co (zs a));
      eflags = (fun a -> match Hashtbl.find_opt fl (zs a) with Some (f, _, _, _) -> f | None -> ef0);
      dep = (fun a -> Hashtbl.find_opt dp (zs a));
      udep = (fun u a -> Hashtbl.find_opt ud (key2 u a));
      tms = (fun a -> Hashtbl.find_opt tm (zs a));
      epool = g1 (fun x -> x.epool); epaid = g1 (fun x -> x.epaid); eret = g1 (fun x -> x.eret); gburn = g1 (fun x -> x.gburn) } in
  let diff_state (me : estate) (o : eobs) =
    let m = me.el.vs and ob = o.base in
    let mm field model impl = if model <> impl then mismatch ~case:!case ~step:!step ~field ~model ~impl in
    mm "now" (zs m.now) (zs ob.C01.o_now);
    for a = -4 to !nusers + 1 do
      L.iter (fun d ->
          let az = z_of_int a in
          let iv = (match Hashtbl.find_opt ob.C01.o_bal (key2 az d) with Some x -> x | None -> z0) in
          mm (Printf.sprintf "bal[%d,%s]" a (zs d)) (zs (m.bal az d)) (zs iv)) !alld
    done;
    L.iter (fun d ->
        let iv = (match Hashtbl.find_opt ob.C01.o_sup (zs d) with Some x -> x | None -> z0) in
        mm ("supply[" ^ zs d ^ "]") (zs (m.sup d)) (zs iv)) !alld;
    let sortv l = L.sort (fun (a : vault) b -> Z.compare (zz_of_z a.v_id) (zz_of_z b.v_id)) l in
    mm "vaults" (S.concat ";" (L.map C01.show_vault (sortv m.vaults))) (S.concat ";" (L.map C01.show_vault (sortv ob.C01.o_vaults)));
    mm "stable_vaults" (S.concat ";" (L.map C01.show_svault m.svaults)) (S.concat ";" (L.map C01.show_svault ob.C01.o_svaults));
    L.iter (fun (e : epair) ->
        mm (Printf.sprintf "product[%s,%s]" (zs e.ep_app) (zs e.ep_id))
          (C01.show_prod (m.prods e.ep_app e.ep_id)) (C01.show_prod (Hashtbl.find_opt ob.C01.o_prods (key2 e.ep_app e.ep_id)));
        for u = 2 to !nusers + 1 do
          let uz = z_of_int u in
          mm (Printf.sprintf "usermap[%d,%s,%s]" u (zs e.ep_app) (zs e.ep_id))
            (C01.show_opt (m.umap uz e.ep_app e.ep_id)) (C01.show_opt (Hashtbl.find_opt ob.C01.o_um (C01.key3 uz e.ep_app e.ep_id)))
        done) !eps;
    mm "length" (zs m.vlen) (zs ob.C01.o_len);
    mm "vault_id_counter" (zs m.vid) (zs ob.C01.o_vid);
    mm "stable_vault_id_counter" (zs m.sid) (zs ob.C01.o_sid);
    L.iter (fun d -> mm ("price[" ^ zs d ^ "]") (C01.show_opt (m.price d)) (C01.show_opt (Hashtbl.find_opt ob.C01.o_price (zs d)))) !denoms;
    (* esm *)
    L.iter (fun a ->
        let (f, st, en, snp) = (match Hashtbl.find_opt o.o_flags (zs a) with Some x -> x | None -> (ef0, false, z0, false)) in
        mm (Printf.sprintf "esm_status_flags[%s]" (zs a)) (show_flag (me.eflags a)) (show_flag f);
        let ms = m.esm a in
        if f.ef_found || (me.eflags a).ef_found then
          mm (Printf.sprintf "esm_status[%s]" (zs a)) (Printf.sprintf "%s/%s/%s" (tok_of_bool ms.e_status) (zs ms.e_end) (tok_of_bool ms.e_snap))
            (Printf.sprintf "%s/%s/%s" (tok_of_bool st) (zs en) (tok_of_bool snp));
        L.iter (fun d -> mm (Printf.sprintf "esm_snapshot[%s,%s]" (zs a) (zs d)) (C01.show_opt (m.snap a d)) (C01.show_opt (Hashtbl.find_opt o.o_snap (key2 a d)))) !alld;
        mm (Printf.sprintf "esm_cool_off_totals[%s]" (zs a)) (show_pair (me.cool a)) (show_pair (Hashtbl.find_opt o.o_cool (zs a)));
        mm (Printf.sprintf "esm_deposit[%s]" (zs a)) (C01.show_opt (me.dep a)) (C01.show_opt (Hashtbl.find_opt o.o_dep (zs a)));
        mm (Printf.sprintf "tokenmint_supply[%s]" (zs a)) (C01.show_opt (me.tms a)) (C01.show_opt (Hashtbl.find_opt o.o_tm (zs a)));
        for u = 2 to !nusers + 1 do
          let uz = z_of_int u in
          mm (Printf.sprintf "esm_user_deposit[%d,%s]" u (zs a)) (C01.show_opt (me.udep uz a)) (C01.show_opt (Hashtbl.find_opt o.o_udep (key2 uz a)))
        done) !apps;
    mm "esm_asset_to_amount" (S.concat ";" (L.map show_rec me.recs)) (S.concat ";" (L.map show_rec o.o_recs)) in
  let judge (impl : estate) =
    let c = cfg () in
    let extf d = (match Hashtbl.find_opt ext (zs d) with Some x -> x | None -> z0) in
    let il = impl.el in
    if want "C01-esm" then begin
      if not (holds_C01_life c !denoms il) then begin
        L.iter (fun d ->
            if not (c01l_custody c il d) then
              predfail ~case:!case ~step:!step ~pred:"c01_custody" ~kf:"none"
                ~detail:(Printf.sprintf "denom=%s_custody=%s_recorded=%s_unsolicited=%s" (zs d) (zs (il.vs.bal coq_VAULT d)) (zs (coll_sum c il.vs d)) (zs (il.vs.unsol d)))) !denoms;
        if not (c01l_count il) then
          predfail ~case:!case ~step:!step ~pred:"c01_count" ~kf:"none" ~detail:(Printf.sprintf "length=%s_open=%d" (zs il.vs.vlen) (L.length il.vs.vaults));
        L.iter (fun (e : epair) ->
            let a = e.ep_app and p = e.ep_id in
            if not (c01l_coll il a p) then
              predfail ~case:!case ~step:!step ~pred:"c01_collateral_locked" ~kf:"none"
                ~detail:(Printf.sprintf "app=%s_pair=%s_published=%s_open=%s" (zs a) (zs p) (C01.show_prod (il.vs.prods a p)) (zs (prod_coll_sum il.vs a p)));
            if not (c01l_mint il a p) then
              predfail ~case:!case ~step:!step ~pred:"c01_tokens_minted" ~kf:"none"
                ~detail:(Printf.sprintf "app=%s_pair=%s_published=%s_open=%s" (zs a) (zs p) (C01.show_prod (il.vs.prods a p)) (zs (prod_mint_sum il.vs a p)));
            if not (c01l_ids il a p) then
              predfail ~case:!case ~step:!step ~pred:"c01_vault_ids" ~kf:"none" ~detail:(Printf.sprintf "app=%s_pair=%s_published=%s" (zs a) (zs p) (C01.show_prod (il.vs.prods a p)))) !eps
      end;
      L.iter (fun d ->
          if not (c01e_esm_custody impl d) then
            predfail ~case:!case ~step:!step ~pred:"c01_esm_custody" ~kf:"none"
              ~detail:(Printf.sprintf "denom=%s_esm_account=%s_registered_collateral=%s" (zs d) (zs (il.vs.bal coq_ESMA d)) (zs (esm_coll impl d)))) !denoms
    end;
    if want "C02-esm" then begin
      L.iter (fun d ->
          if not (c02e_backing c extf impl d) then
            predfail ~case:!case ~step:!step ~pred:"c02_backing" ~kf:"none"
              ~detail:(Printf.sprintf "denom=%s_supply=%s_external=%s_recorded=%s" (zs d) (zs (il.vs.sup d)) (zs (extf d)) (zs (recorded_e c impl d)));
          if not (c02e_exact c extf impl d) then
            predfail ~case:!case ~step:!step ~pred:"c02_exact_without_liquidations" ~kf:"none"
              ~detail:(Printf.sprintf "denom=%s_supply=%s_external=%s_recorded=%s_esm_debt=%s" (zs d) (zs (il.vs.sup d)) (zs (extf d)) (zs (recorded_e c impl d)) (zs (esm_debt impl d)))) !denoms;
      (match !last_op, !prev_impl with
       | Some (ELife (VOp o), kind, res), Some pre ->
         if res = "ok" && C01.is_msg o && not (holds_C02_step c pre.el.vs o il.vs) then
           predfail ~case:!case ~step:!step ~pred:("c02_step_" ^ kind) ~kf:"none" ~detail:"mint_delivery/burn/fee_law"
       | Some (ERedeem (f, a, d, amt), _, "ok"), Some pre ->
         if not (holds_C02_redeem (lcfg ()) (ecfg ()) !denoms pre f a d amt impl) then
           predfail ~case:!case ~step:!step ~pred:"c02_redemption_law" ~kf:"none"
             ~detail:(Printf.sprintf "app=%s_denom=%s_amount=%s_supply_before=%s_after=%s" (zs a) (zs d) (zs amt) (zs (pre.el.vs.sup d)) (zs (il.vs.sup d)))
       | Some ((EShare _ | EBegin _), _, "ok"), Some pre ->
         L.iter (fun a ->
             if (impl.eflags a).ef_share && not (pre.eflags a).ef_share && not (holds_C02_shares (lcfg ()) (ecfg ()) impl a) then
               predfail ~case:!case ~step:!step ~pred:"c02_share_calculation" ~kf:"none"
                 ~detail:(Printf.sprintf "app=%s_totals=%s_records=%s" (zs a) (show_pair (impl.cool a)) (S.concat ";" (L.map show_rec (app_recs impl.recs a))))) !apps
       | _ -> ())
    end in
  let rec fee_items n tl = if n <= 0 then ([], tl) else (match tl with
      | a :: f :: r -> let (x, y) = fee_items (n - 1) r in ((z_of_string a, z_of_string f) :: x, y)
      | _ -> failwith "fee items") in
  let rec fee_apps n tl = if n <= 0 then ([], tl) else (match tl with
      | app :: k :: r -> let (items, r') = fee_items (int_of_string k) r in
        let (x, y) = fee_apps (n - 1) r' in ((z_of_string app, items) :: x, y)
      | _ -> failwith "fee apps") in
  L.iter (fun line ->
      match tokens line with
      | "case" :: id :: _ ->
        end_case ();
        case := id; apps := []; denoms := []; alld := []; eps := []; nusers := 0; model := None; prev_impl := None; oracle := [];
        Hashtbl.reset ext; Hashtbl.reset ghost; Hashtbl.reset govs; Hashtbl.reset params; Hashtbl.reset rates; Hashtbl.reset adec;
        cur := new_eobs (); pending_init := false; last_op := None;
        step := 0; paid_redemptions := 0; executed := false; Buffer.clear sig_
      | "apps" :: _ :: rest -> apps := L.map z_of_string rest
      | "assets" :: _ :: rest -> denoms := L.map z_of_string rest
      | "eoracle" :: _ :: rest -> oracle := L.map z_of_string rest
      | ["adec"; a; d] -> Hashtbl.replace adec a (z_of_string d); alld := !alld @ [z_of_string a]
      | ["gov"; a; g] -> Hashtbl.replace govs a (z_of_string g)
      | ["eparam"; a; f; t; c] -> Hashtbl.replace params a (bool_of_tok f, z_of_string t, z_of_string c); Buffer.add_string sig_ (line ^ ";")
      | ["erate"; a; x; r] -> Hashtbl.replace rates (a ^ ":" ^ x) (z_of_string r); Buffer.add_string sig_ (line ^ ";")
      | "users" :: n :: [] -> nusers := int_of_string n
      | ["ep"; id; app; i; o; di; dout; stab; closing; ddf; mincr; floor; ceil; stable; active; orc; outp] ->
        let z = z_of_string in
        eps := !eps @ [{ ep_id = z id; ep_app = z app; ep_in = z i; ep_out = z o; ep_dec_in = z di; ep_dec_out = z dout;
                         ep_stab = z stab; ep_closing = z closing; ep_ddf = z ddf; ep_min_cr = z mincr; ep_floor = z floor;
                         ep_ceiling = z ceil; ep_stable = bool_of_tok stable; ep_active = bool_of_tok active;
                         ep_oracle_out = bool_of_tok orc; ep_out_price = z outp }];
        Buffer.add_string sig_ (line ^ ";")
      | "init" :: [] -> pending_init := true; cur := new_eobs ()
      | "op" :: rest ->
        let z = z_of_string in
        let parsed : (eop * string * string) option =
          (match rest with
           | ["edeposit"; f; a; d; m; res] -> Some (EDeposit (z f, z a, z d, z m), "edeposit", res)
           | ["eexecute"; f; a; res] -> Some (EExecute (z f, z a), "eexecute", res)
           | ["eredeem"; f; a; d; m; res] -> Some (ERedeem (z f, z a, z d, z m), "eredeem", res)
           | ["esnapshot"; a; res] -> Some (ESnapshot (z a), "esnapshot", res)
           | ["evault"; a; res] -> Some (EVault (z a), "evault", res)
           | ["estable"; a; res] -> Some (EStable (z a), "estable", res)
           | ["eshare"; a; res] -> Some (EShare (z a), "eshare", res)
           | "ecollector" :: a :: n :: tl ->
             let (items, tl') = fee_items (int_of_string n) tl in
             (match tl' with [res] -> Some (ECollector (z a, items), "ecollector", res) | _ -> None)
           | "ebegin" :: n :: tl ->
             let (fa, tl') = fee_apps (int_of_string n) tl in
             (match tl' with [res] -> Some (EBegin fa, "ebegin", res) | _ -> None)
           | _ -> (match C01.parse_op rest with Some (o, kind, res) -> Some (ELife (VOp o), kind, res) | None -> None)) in
        (match parsed with
         | None -> failwith ("bad op line: " ^ line)
         | Some (o, kind, res) ->
           incr step; incr steps;
           bump ("op:" ^ kind ^ ":" ^ res);
           Buffer.add_string sig_ (S.concat " " rest ^ ";");
           last_op := Some (o, kind, res);
           (match !model with
            | None -> failwith "op before init"
            | Some m ->
              let cls = (match erun (cfg ()) (lcfg ()) (ecfg ()) m o with Base.Ok _ -> "ok" | Base.Err _ -> "err" | Base.Panic -> "panic") in
              if cls <> res then mismatch ~case:!case ~step:!step ~field:("result:" ^ kind) ~model:cls ~impl:res;
              let m' = estep (cfg ()) (lcfg ()) (ecfg ()) m o in
              (* histogram of what the step did on the model *)
              (match o with
               | EExecute _ when res = "ok" -> executed := true
               | ERedeem (_, _, _, _) when res = "ok" ->
                 if L.exists (fun d -> m'.epaid d <> m.epaid d) !denoms then begin incr paid_redemptions; bump "eredeem:paid_collateral" end
                 else bump "eredeem:paid_nothing"
               | EBegin _ ->
                 L.iter (fun a ->
                     let f = m.eflags a and f' = m'.eflags a in
                     if (m.el.vs.esm a).e_snap <> (m'.el.vs.esm a).e_snap then bump "ebegin:snapshot_completed";
                     if f.ef_vault <> f'.ef_vault then bump "ebegin:vault_step";
                     if f.ef_stable <> f'.ef_stable then bump (if L.length m.el.vs.svaults <> L.length m'.el.vs.svaults then "ebegin:stable_step_moved_vaults" else "ebegin:stable_step");
                     if f.ef_coll <> f'.ef_coll then bump "ebegin:collector_step";
                     if f.ef_share <> f'.ef_share then bump "ebegin:share_step") !apps
               | _ -> ());
              model := Some m');
           (match o with
            | ELife (VOp (Donate (_, d, amt))) when res = "ok" ->
              let old = (match Hashtbl.find_opt ghost (zs d) with Some x -> x | None -> z0) in
              Hashtbl.replace ghost (zs d) (zadd old amt)
            | _ -> ());
           cur := new_eobs ())
      | "t" :: n :: [] -> !cur.base.C01.o_now <- z_of_string n
      | "b" :: acct :: _ :: rest ->
        let rec go = function
          | d :: v :: tl -> Hashtbl.replace !cur.base.C01.o_bal (acct ^ ":" ^ d) (z_of_string v); go tl
          | _ -> () in go rest
      | "s" :: _ :: rest ->
        let rec go = function
          | d :: v :: tl -> Hashtbl.replace !cur.base.C01.o_sup d (z_of_string v); go tl
          | _ -> () in go rest
      | ["v"; id; owner; app; pair; i; o; int_; fee] ->
        let z = z_of_string in
        !cur.base.C01.o_vaults <- !cur.base.C01.o_vaults @ [{ v_id = z id; v_owner = z owner; v_app = z app; v_pair = z pair; v_in = z i; v_out = z o;
                                                              v_int = z int_; v_fee = z fee }]
      | ["sv"; id; app; pair; i; o] ->
        let z = z_of_string in
        !cur.base.C01.o_svaults <- !cur.base.C01.o_svaults @ [{ sv_id = z id; sv_app = z app; sv_pair = z pair; sv_in = z i; sv_out = z o }]
      | "p" :: app :: pair :: found :: coll :: mint :: _ :: ids ->
        if bool_of_tok found then
          Hashtbl.replace !cur.base.C01.o_prods (app ^ ":" ^ pair) { p_coll = z_of_string coll; p_mint = z_of_string mint; p_ids = L.map z_of_string ids }
      | ["c"; len; vid; sid] -> !cur.base.C01.o_len <- z_of_string len; !cur.base.C01.o_vid <- z_of_string vid; !cur.base.C01.o_sid <- z_of_string sid
      | ["um"; u; app; pair; vid] -> Hashtbl.replace !cur.base.C01.o_um (u ^ ":" ^ app ^ ":" ^ pair) (z_of_string vid)
      | ["pr"; a; act; p] -> if bool_of_tok act then Hashtbl.replace !cur.base.C01.o_price a (z_of_string p)
      | ["ef"; app; found; st; en; snp; fv; fs; fc; fsh] ->
        let b = bool_of_tok in
        Hashtbl.replace !cur.o_flags app ({ ef_found = b found; ef_vault = b fv; ef_stable = b fs; ef_coll = b fc; ef_share = b fsh }, b st, z_of_string en, b snp)
      | ["sn"; app; asset; p] -> Hashtbl.replace !cur.o_snap (app ^ ":" ^ asset) (z_of_string p)
      | ["co"; app; ct; dt] -> Hashtbl.replace !cur.o_cool app (z_of_string ct, z_of_string dt)
      | ["er"; app; asset; amt; iscoll; share; worth] ->
        let z = z_of_string in
        !cur.o_recs <- !cur.o_recs @ [{ ar_app = z app; ar_asset = z asset; ar_amt = z amt; ar_coll = bool_of_tok iscoll; ar_share = z share; ar_worth = z worth }]
      | ["dp"; app; b] -> Hashtbl.replace !cur.o_dep app (z_of_string b)
      | ["ud"; u; app; b] -> Hashtbl.replace !cur.o_udep (u ^ ":" ^ app) (z_of_string b)
      | ["tm"; app; b] -> Hashtbl.replace !cur.o_tm app (z_of_string b)
      | "eo" :: [] ->
        let o = !cur in
        if !pending_init then begin
          pending_init := false;
          Hashtbl.reset ghost; Hashtbl.reset ext;
          Hashtbl.iter (fun k v -> Hashtbl.replace ext k v) o.base.C01.o_sup;
          let st = estate_of_obs o None in
          model := Some st; prev_impl := Some st; last_op := None
        end else begin
          (match !model with
           | Some m ->
             diff_state m o;
             let impl = estate_of_obs o (Some m) in
             judge impl;
             prev_impl := Some impl;
             last_op := None
           | None -> ())
        end
      | _ -> ()
    ) lines;
  end_case ();
  finish ~cases:!cases ~steps:!steps ~nontrivial:!nontrivial

let () = Conv.register "C01-esm" (run_for "C01-esm")
let () = Conv.register "C02-esm" (run_for "C02-esm")
