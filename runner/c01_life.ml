(* C01-life / C02-life runner: replays the vault-life traces (harness/c01_life_test.go) on the extracted
   model Model/VaultLife.v, threading the MODEL state through the whole history and diffing the complete
   projection after every step (everything c01.ml diffs, plus the module accounts auctionsV2 / esm /
   liquidationsV2, the locked vaults, the auctions, the two id counters, the esm AssetToAmount records
   and the app reserve); evaluates the extracted predicates holds_C01_life / holds_C02_life / c02l_exact /
   holds_C02_settle / holds_C02_step on the IMPLEMENTATION's observations.  The ghosts (principal of a seized
   vault, drift / ESM-return classes) follow the inputs: the principal is read from the implementation's own
   previous observation of the vault, the class ghosts from the model state. *)
open Conv
open Vault
open VaultLife

let zs = string_of_z
let z0 = BinNums.Z0
let zadd = BinInt.Z.add
let key2 a b = zs a ^ ":" ^ zs b

type lobs = {
  base : C01.obs;
  mutable l_lks : (lockedv * BinNums.coq_Z * string) list;     (* record, target, initiator type *)
  mutable l_aus : (auct * bool) list;
  mutable l_lkid : BinNums.coq_Z; mutable l_auid : BinNums.coq_Z;
  l_ereg : (string, BinNums.coq_Z * bool) Hashtbl.t;            (* "app:asset" *)
  l_rsv : (string, BinNums.coq_Z) Hashtbl.t;
  l_orig : (string, BinNums.coq_Z) Hashtbl.t;                   (* locked id -> original vault id *)
}
let new_lobs () = { base = C01.new_obs (); l_lks = []; l_aus = []; l_lkid = z0; l_auid = z0; l_ereg = Hashtbl.create 8;
                    l_rsv = Hashtbl.create 8; l_orig = Hashtbl.create 8 }

let show_lk ((k : lockedv), target, ty) =
  Printf.sprintf "%s/%s/%s/%s/%s/%s/%s/%s/%s/%s/%s" (zs k.lk_id) (zs k.lk_app) (zs k.lk_pair) (zs k.lk_owner) (zs k.lk_coll) (zs k.lk_debt)
    (zs target) (zs k.lk_fee) (tok_of_bool k.lk_intk) (zs k.lk_keeper) ty
let show_au ((a : auct), dutch) =
  Printf.sprintf "%s/%s/%s/%s/%s/%s/%s/%s/%s" (zs a.au_id) (zs a.au_app) (zs a.au_lock) (zs a.au_cin) (zs a.au_cout) (zs a.au_coll) (zs a.au_debt)
    (zs a.au_end) (tok_of_bool dutch)

let run_for (which : string) (path : string) =
  let lines = read_lines path in
  let cases = ref 0 and steps = ref 0 and nontrivial = ref 0 in
  let case = ref "" in
  let apps = ref [] and denoms = ref [] and eps : epair list ref = ref [] and nusers = ref 0 in
  let pens : (string, BinNums.coq_Z) Hashtbl.t = Hashtbl.create 8 in
  let lapps : (string, bool * bool * BinNums.coq_Z) Hashtbl.t = Hashtbl.create 4 in
  let dur = ref z0 in
  let model : lstate option ref = ref None in
  let prev_impl : lstate option ref = ref None in
  let ext : (string, BinNums.coq_Z) Hashtbl.t = Hashtbl.create 16 in
  let ghost : (string, BinNums.coq_Z) Hashtbl.t = Hashtbl.create 16 in
  let prin : (string, BinNums.coq_Z) Hashtbl.t = Hashtbl.create 16 in     (* locked id -> principal (ghost) *)
  let cur = ref (new_lobs ()) in
  let pending_init = ref false in
  let last_op : (lop * string * string) option ref = ref None in
  let step = ref 0 in
  let liq_seen = ref false and settled = ref 0 and seized = ref 0 and partials = ref 0 in
  let sig_ = Buffer.create 1024 in
  let cfg () = { apps = !apps; epairs = !eps } in
  let lcfg () = {
    lc_pen = (fun e -> match Hashtbl.find_opt pens (zs e) with Some x -> x | None -> z0);
    lc_wl = (fun a -> match Hashtbl.find_opt lapps (zs a) with Some (w, _, _) -> w | None -> false);
    lc_dutch = (fun a -> match Hashtbl.find_opt lapps (zs a) with Some (_, d, _) -> d | None -> false);
    lc_ki = (fun a -> match Hashtbl.find_opt lapps (zs a) with Some (_, _, k) -> k | None -> z0);
    lc_dur = !dur;
    lc_rate = (fun _ _ -> z0) } in
  let want p = (which = p) in
  let end_case () =
    if !case <> "" then begin
      incr cases;
      if !seized >= 1 && !settled >= 1 then incr nontrivial;
      Hashtbl.replace distinct (Digest.string (Buffer.contents sig_)) ()
    end in
  (* the observed state as a model state; ghosts from the model [m] *)
  let lstate_of_obs (o : lobs) (m : lstate option) : lstate =
    let envs = (match m with Some x -> Some x.vs | None -> None) in
    let base = C01.state_of_obs o.base envs ghost in
    let lks = L.map (fun ((k : lockedv), _, _) ->
        let p = (match Hashtbl.find_opt prin (zs k.lk_id) with Some x -> x | None -> z0) in
        { k with lk_prin = p }) o.l_lks in
    let edebt_tbl = Hashtbl.create 8 in
    Hashtbl.iter (fun k (amt, iscoll) ->
        if not iscoll then begin
          let asset = L.nth (S.split_on_char ':' k) 1 in
          let old = (match Hashtbl.find_opt edebt_tbl asset with Some x -> x | None -> z0) in
          Hashtbl.replace edebt_tbl asset (zadd old amt)
        end) o.l_ereg;
    let ereg_tbl = Hashtbl.copy o.l_ereg and rsv_tbl = Hashtbl.copy o.l_rsv in
    let g2 f = (match m with Some x -> f x | None -> (fun _ _ -> z0)) in
    let g1 f = (match m with Some x -> f x | None -> (fun _ -> z0)) in
    { vs = base; lks = lks; aus = L.map fst o.l_aus; lkid = o.l_lkid; auid = o.l_auid;
      ereg = (fun a x -> match Hashtbl.find_opt ereg_tbl (key2 a x) with Some (v, _) -> v | None -> z0);
      edebt = (fun x -> match Hashtbl.find_opt edebt_tbl (zs x) with Some v -> v | None -> z0);
      rsv = (fun a x -> Hashtbl.find_opt rsv_tbl (key2 a x));
      drift = g2 (fun x -> x.drift); er_mint = g2 (fun x -> x.er_mint); er_coll = g2 (fun x -> x.er_coll);
      er_short = g1 (fun x -> x.er_short); over = g1 (fun x -> x.over) } in
  let diff_state (ml : lstate) (o : lobs) =
    let m = ml.vs and ob = o.base in
    let mm field model impl = if model <> impl then mismatch ~case:!case ~step:!step ~field ~model ~impl in
    mm "now" (zs m.now) (zs ob.C01.o_now);
    for a = -3 to !nusers + 1 do
      L.iter (fun d ->
          let az = z_of_int a in
          let iv = (match Hashtbl.find_opt ob.C01.o_bal (key2 az d) with Some x -> x | None -> z0) in
          mm (Printf.sprintf "bal[%d,%s]" a (zs d)) (zs (m.bal az d)) (zs iv)) !denoms
    done;
    L.iter (fun d ->
        let iv = (match Hashtbl.find_opt ob.C01.o_sup (zs d) with Some x -> x | None -> z0) in
        mm ("supply[" ^ zs d ^ "]") (zs (m.sup d)) (zs iv)) !denoms;
    let sortv l = L.sort (fun (a : vault) b -> Z.compare (zz_of_z a.v_id) (zz_of_z b.v_id)) l in
    mm "vaults" (S.concat ";" (L.map C01.show_vault (sortv m.vaults))) (S.concat ";" (L.map C01.show_vault (sortv ob.C01.o_vaults)));
    mm "stable_vaults" (S.concat ";" (L.map C01.show_svault m.svaults)) (S.concat ";" (L.map C01.show_svault ob.C01.o_svaults));
    L.iter (fun (e : epair) ->
        mm (Printf.sprintf "product[%s,%s]" (zs e.ep_app) (zs e.ep_id))
          (C01.show_prod (m.prods e.ep_app e.ep_id)) (C01.show_prod (Hashtbl.find_opt ob.C01.o_prods (key2 e.ep_app e.ep_id)));
        for u = 2 to !nusers + 1 do
          let uz = z_of_int u in
          mm (Printf.sprintf "usermap[%d,%s,%s]" u (zs e.ep_app) (zs e.ep_id))
            (C01.show_opt (m.umap uz e.ep_app e.ep_id)) (C01.show_opt (Hashtbl.find_opt ob.C01.o_um (C01.key3 uz e.ep_app e.ep_id)))
        done) !eps;
    mm "length" (zs m.vlen) (zs ob.C01.o_len);
    mm "vault_id_counter" (zs m.vid) (zs ob.C01.o_vid);
    L.iter (fun d -> mm ("price[" ^ zs d ^ "]") (C01.show_opt (m.price d)) (C01.show_opt (Hashtbl.find_opt ob.C01.o_price (zs d)))) !denoms;
    (* life records *)
    let sortk l = L.sort (fun ((a : lockedv), _, _) (b, _, _) -> Z.compare (zz_of_z a.lk_id) (zz_of_z b.lk_id)) l in
    let sorta l = L.sort (fun ((a : auct), _) (b, _) -> Z.compare (zz_of_z a.au_id) (zz_of_z b.au_id)) l in
    mm "locked_vaults"
      (S.concat ";" (L.map show_lk (sortk (L.map (fun (k : lockedv) -> (k, zadd k.lk_debt k.lk_fee, "vault")) ml.lks))))
      (S.concat ";" (L.map show_lk (sortk o.l_lks)));
    mm "auctions" (S.concat ";" (L.map show_au (sorta (L.map (fun a -> (a, true)) ml.aus)))) (S.concat ";" (L.map show_au (sorta o.l_aus)));
    mm "locked_vault_counter" (zs ml.lkid) (zs o.l_lkid);
    mm "auction_counter" (zs ml.auid) (zs o.l_auid);
    L.iter (fun a -> L.iter (fun d ->
        let iv = (match Hashtbl.find_opt o.l_ereg (key2 a d) with Some (v, _) -> v | None -> z0) in
        mm (Printf.sprintf "esm_asset_to_amount[%s,%s]" (zs a) (zs d)) (zs (ml.ereg a d)) (zs iv);
        mm (Printf.sprintf "app_reserve[%s,%s]" (zs a) (zs d)) (C01.show_opt (ml.rsv a d)) (C01.show_opt (Hashtbl.find_opt o.l_rsv (key2 a d)))) !denoms) !apps in
  let judge (impl : lstate) (ml : lstate) =
    let c = cfg () in
    let extf d = (match Hashtbl.find_opt ext (zs d) with Some x -> x | None -> z0) in
    (* C01: the identity of the property text on the implementation's observation.  A failure is inside a
       known-finding class exactly when the ghost-corrected identity (proved for every history:
       Properties/C01.v c01_adjusted_predicate_holds) still holds on the observation and the ghost of that
       class is not zero; any other failure is reported with kf=none *)
    ignore ml;
    if want "C01-life" && not (holds_C01_life c !denoms impl) then begin
      L.iter (fun d ->
          if not (c01l_custody c impl d) then
            predfail ~case:!case ~step:!step ~pred:"c01_custody"
              ~kf:(if c01l_custody_adj c impl d && kf_C01_4_denom impl d then "kf_C01_4" else "none")
              ~detail:(Printf.sprintf "denom=%s_custody=%s_recorded=%s_unsolicited=%s" (zs d) (zs (impl.vs.bal coq_VAULT d)) (zs (coll_sum c impl.vs d)) (zs (impl.vs.unsol d)))) !denoms;
      if not (c01l_count impl) then
        predfail ~case:!case ~step:!step ~pred:"c01_count" ~kf:"none" ~detail:(Printf.sprintf "length=%s_open=%d" (zs impl.vs.vlen) (L.length impl.vs.vaults));
      L.iter (fun (e : epair) ->
          let a = e.ep_app and p = e.ep_id in
          if not (c01l_coll impl a p) then
            predfail ~case:!case ~step:!step ~pred:"c01_collateral_locked"
              ~kf:(if c01l_coll_adj impl a p && kf_C01_4_prod impl a p then "kf_C01_4" else "none")
              ~detail:(Printf.sprintf "app=%s_pair=%s_published=%s_open=%s_awaiting=%s" (zs a) (zs p) (C01.show_prod (impl.vs.prods a p)) (zs (prod_coll_sum impl.vs a p)) (zs (lock_coll impl a p)));
          if not (c01l_mint impl a p) then
            predfail ~case:!case ~step:!step ~pred:"c01_tokens_minted"
              ~kf:(if not (c01l_mint_adj impl a p) then "none" else if kf_C01_4_prod impl a p then "kf_C01_4" else if kf_C01_2 impl a p then "kf_C01_2" else "none")
              ~detail:(Printf.sprintf "app=%s_pair=%s_published=%s_open=%s_awaiting=%s_drift=%s" (zs a) (zs p) (C01.show_prod (impl.vs.prods a p)) (zs (prod_mint_sum impl.vs a p)) (zs (lock_prin impl a p)) (zs (impl.drift a p)));
          if not (c01l_ids impl a p) then
            predfail ~case:!case ~step:!step ~pred:"c01_vault_ids" ~kf:"none" ~detail:(Printf.sprintf "app=%s_pair=%s_published=%s" (zs a) (zs p) (C01.show_prod (impl.vs.prods a p)))) !eps
    end;
    if want "C02-life" then begin
      L.iter (fun d ->
          if not (c02l_backing c extf impl d) then
            predfail ~case:!case ~step:!step ~pred:"c02_backing" ~kf:"none"
              ~detail:(Printf.sprintf "denom=%s_supply=%s_external=%s_recorded=%s" (zs d) (zs (impl.vs.sup d)) (zs (extf d)) (zs (recorded_d c impl d)));
          if not !liq_seen && not (c02l_exact c extf impl d) then
            predfail ~case:!case ~step:!step ~pred:"c02_exact_without_liquidations" ~kf:"none"
              ~detail:(Printf.sprintf "denom=%s_supply=%s_external=%s_recorded=%s" (zs d) (zs (impl.vs.sup d)) (zs (extf d)) (zs (recorded_d c impl d)))) !denoms;
      (match !last_op, !prev_impl with
       | Some (VOp o, kind, res), Some pre ->
         if res = "ok" && C01.is_msg o && not (holds_C02_step c pre.vs o impl.vs) then
           predfail ~case:!case ~step:!step ~pred:("c02_step_" ^ kind) ~kf:"none" ~detail:"mint_delivery/burn/fee_law"
       | Some (Bid (aid, _, _, _, closed, _, _), _, "ok"), Some pre ->
         if not (holds_C02_settle !denoms pre aid closed impl) then
           predfail ~case:!case ~step:!step ~pred:"c02_settlement_burn" ~kf:"none" ~detail:("auction=" ^ zs aid)
       | _ -> ())
    end in
  L.iter (fun line ->
      match tokens line with
      | "case" :: id :: _ ->
        end_case ();
        case := id; apps := []; denoms := []; eps := []; nusers := 0; model := None; prev_impl := None;
        Hashtbl.reset ext; Hashtbl.reset ghost; Hashtbl.reset prin; Hashtbl.reset pens; Hashtbl.reset lapps;
        cur := new_lobs (); pending_init := false; last_op := None;
        step := 0; liq_seen := false; settled := 0; seized := 0; partials := 0; Buffer.clear sig_
      | "apps" :: _ :: rest -> apps := L.map z_of_string rest
      | "assets" :: _ :: rest -> denoms := L.map z_of_string rest
      | "users" :: n :: [] -> nusers := int_of_string n
      | ["ep"; id; app; i; o; di; dout; stab; closing; ddf; mincr; floor; ceil; stable; active; orc; outp] ->
        let z = z_of_string in
        eps := !eps @ [{ ep_id = z id; ep_app = z app; ep_in = z i; ep_out = z o; ep_dec_in = z di; ep_dec_out = z dout;
                         ep_stab = z stab; ep_closing = z closing; ep_ddf = z ddf; ep_min_cr = z mincr; ep_floor = z floor;
                         ep_ceiling = z ceil; ep_stable = bool_of_tok stable; ep_active = bool_of_tok active;
                         ep_oracle_out = bool_of_tok orc; ep_out_price = z outp }];
        Buffer.add_string sig_ (line ^ ";")
      | ["lpen"; e; p] -> Hashtbl.replace pens e (z_of_string p)
      | ["lapp"; a; wl; du; ki] -> Hashtbl.replace lapps a (bool_of_tok wl, bool_of_tok du, z_of_string ki)
      | ["ldur"; d] -> dur := z_of_string d
      | "init" :: [] -> pending_init := true; cur := new_lobs ()
      | "op" :: rest ->
        let z = z_of_string in
        let parsed : (lop * string * string) option =
          (match rest with
           | ["liq"; id; ie; k; res] -> Some (Liquidate (z id, z ie, z k), "liq", res)
           | "sweep" :: n :: tl ->
             let n = int_of_string n in
             let (items, tl') = take (2 * n) tl in
             let rec pairs = function a :: b :: r -> (z a, z b) :: pairs r | _ -> [] in
             (match tl' with [res] -> Some (Sweep (pairs items), "sweep", res) | _ -> None)
           | ["bid"; aid; who; paid; recv; closed; exh; topup; res] ->
             Some (Bid (z aid, z who, z paid, z recv, bool_of_tok closed, bool_of_tok exh, z topup), (if bool_of_tok closed then "bid_close" else "bid_partial"), res)
           | ["bidfail"; _; _; _; res] -> Some (VOp (AdvanceTime z0), "bidfail", (if res = "panic" then "panic_rejected" else "rejected"))
           | ["auctick"; res] -> Some (AucTick, "auctick", res)
           | ["esmredeem"; app; res] -> Some (EsmRedeem (z app), "esmredeem", res)
           | _ -> (match C01.parse_op rest with Some (o, kind, res) -> Some (VOp o, kind, res) | None -> None)) in
        (match parsed with
         | None -> failwith ("bad op line: " ^ line)
         | Some (o, kind, res) ->
           incr step; incr steps;
           bump ("op:" ^ kind ^ ":" ^ res);
           Buffer.add_string sig_ (S.concat " " rest ^ ";");
           last_op := Some (o, kind, res);
           (match o with Liquidate _ | Sweep _ -> liq_seen := true | _ -> ());
           (match o with
            | Bid (_, _, _, _, true, exh, _) when res = "ok" -> incr settled; if exh then bump "bid:exhausted_close"
            | Bid (_, _, _, _, false, _, _) when res = "ok" -> incr partials
            | _ -> ());
           (match !model with
            | None -> failwith "op before init"
            | Some m ->
              if kind <> "bidfail" then begin
                let cls = (match lrun (cfg ()) (lcfg ()) m o with Base.Ok _ -> "ok" | Base.Err _ -> "err" | Base.Panic -> "panic") in
                if cls <> res then mismatch ~case:!case ~step:!step ~field:("result:" ^ kind) ~model:cls ~impl:res
              end;
              let m' = lstep (cfg ()) (lcfg ()) m o in
              (* histogram of what the step did on the model *)
              let nl = L.length m'.lks - L.length m.lks in
              if nl > 0 then begin seized := !seized + nl; bump ("seized_by:" ^ kind) end;
              (match o with
               | AucTick ->
                 if kf_C01_4 m true then bump "auctick:in_class_kf_C01_4";
                 if L.exists2 (fun (a : auct) (b : auct) -> a.au_end <> b.au_end) m.aus m'.aus then bump "auctick:restart";
                 if L.length m'.vs.vaults <> L.length m.vs.vaults || m'.vs.vaults <> m.vs.vaults then bump "auctick:esm_return"
               | _ -> ());
              model := Some m');
           (match o with
            | VOp (Donate (_, d, amt)) when res = "ok" ->
              let old = (match Hashtbl.find_opt ghost (zs d) with Some x -> x | None -> z0) in
              Hashtbl.replace ghost (zs d) (zadd old amt)
            | _ -> ());
           cur := new_lobs ())
      | "t" :: n :: [] -> !cur.base.C01.o_now <- z_of_string n
      | "b" :: acct :: _ :: rest ->
        let rec go = function
          | d :: v :: tl -> Hashtbl.replace !cur.base.C01.o_bal (acct ^ ":" ^ d) (z_of_string v); go tl
          | _ -> () in go rest
      | "s" :: _ :: rest ->
        let rec go = function
          | d :: v :: tl -> Hashtbl.replace !cur.base.C01.o_sup d (z_of_string v); go tl
          | _ -> () in go rest
      | ["v"; id; owner; app; pair; i; o; int_; fee] ->
        let z = z_of_string in
        !cur.base.C01.o_vaults <- !cur.base.C01.o_vaults @ [{ v_id = z id; v_owner = z owner; v_app = z app; v_pair = z pair; v_in = z i; v_out = z o;
                                                              v_int = z int_; v_fee = z fee }]
      | ["sv"; id; app; pair; i; o] ->
        let z = z_of_string in
        !cur.base.C01.o_svaults <- !cur.base.C01.o_svaults @ [{ sv_id = z id; sv_app = z app; sv_pair = z pair; sv_in = z i; sv_out = z o }]
      | "p" :: app :: pair :: found :: coll :: mint :: _ :: ids ->
        if bool_of_tok found then
          Hashtbl.replace !cur.base.C01.o_prods (app ^ ":" ^ pair) { p_coll = z_of_string coll; p_mint = z_of_string mint; p_ids = L.map z_of_string ids }
      | ["c"; len; vid; sid] -> !cur.base.C01.o_len <- z_of_string len; !cur.base.C01.o_vid <- z_of_string vid; !cur.base.C01.o_sid <- z_of_string sid
      | ["um"; u; app; pair; vid] -> Hashtbl.replace !cur.base.C01.o_um (u ^ ":" ^ app ^ ":" ^ pair) (z_of_string vid)
      | ["pr"; a; act; p] -> if bool_of_tok act then Hashtbl.replace !cur.base.C01.o_price a (z_of_string p)
      | ["lk"; id; app; pair; owner; coll; debt; target; fee; intk; keeper; ty; _; _; orig] ->
        let z = z_of_string in
        !cur.l_lks <- !cur.l_lks @ [({ lk_id = z id; lk_app = z app; lk_pair = z pair; lk_owner = z owner; lk_coll = z coll; lk_debt = z debt;
                                       lk_fee = z fee; lk_intk = bool_of_tok intk; lk_keeper = z keeper; lk_prin = z0 }, z target, ty)];
        Hashtbl.replace !cur.l_orig id (z orig)
      | ["au"; id; app; lock; cin; cout; coll; debt; en; dutch] ->
        let z = z_of_string in
        !cur.l_aus <- !cur.l_aus @ [({ au_id = z id; au_app = z app; au_lock = z lock; au_cin = z cin; au_cout = z cout; au_coll = z coll;
                                       au_debt = z debt; au_end = z en }, bool_of_tok dutch)]
      | ["lc"; a; b] -> !cur.l_lkid <- z_of_string a; !cur.l_auid <- z_of_string b
      | ["er"; app; asset; amt; iscoll] -> Hashtbl.replace !cur.l_ereg (app ^ ":" ^ asset) (z_of_string amt, bool_of_tok iscoll)
      | ["rs"; app; asset; amt] -> Hashtbl.replace !cur.l_rsv (app ^ ":" ^ asset) (z_of_string amt)
      | "eo" :: [] ->
        let o = !cur in
        if !pending_init then begin
          pending_init := false;
          Hashtbl.reset ghost; Hashtbl.reset ext;
          Hashtbl.iter (fun k v -> Hashtbl.replace ext k v) o.base.C01.o_sup;
          let st = lstate_of_obs o None in
          model := Some st; prev_impl := Some st; last_op := None
        end else begin
          (match !model, !prev_impl with
           | Some m, Some pre ->
             (* the principal ghost of a newly seized vault: its AmountOut in the implementation's previous observation *)
             L.iter (fun ((k : lockedv), _, _) ->
                 let id = zs k.lk_id in
                 if not (Hashtbl.mem prin id) then begin
                   let orig = (match Hashtbl.find_opt o.l_orig id with Some x -> x | None -> z0) in
                   let p = (match L.find_opt (fun (v : vault) -> v.v_id = orig) pre.vs.vaults with
                       | Some v -> v.v_out
                       | None -> (match L.find_opt (fun (x : lockedv) -> x.lk_id = k.lk_id) m.lks with Some x -> x.lk_prin | None -> z0)) in
                   Hashtbl.replace prin id p
                 end) o.l_lks;
             diff_state m o;
             let impl = lstate_of_obs o (Some m) in
             judge impl m;
             prev_impl := Some impl;
             last_op := None
           | _ -> ())
        end
      | _ -> ()
    ) lines;
  end_case ();
  finish ~cases:!cases ~steps:!steps ~nontrivial:!nontrivial

let () = Conv.register "C01-life" (run_for "C01-life")
let () = Conv.register "C02-life" (run_for "C02-life")
