(* C17 runner: replays the market traces on the extracted model, diffs the records, evaluates
   the extracted property predicate holds_C17_state on the IMPLEMENTATION's records. *)
open Conv
open Market

type obs = { o_id : string; found : bool; rec_ : twa; latest : string; calc : string }

let parse_obs toks =
  match toks with
  | "o" :: id :: found :: active :: avg :: idx :: disc :: len :: rest ->
    let n = int_of_string len in
    let (vs, rest) = take n rest in
    let latest, calc = (match rest with [a; b] -> a, b | _ -> failwith "obs tail") in
    { o_id = id; found = bool_of_tok found;
      rec_ = { vals = L.map z_of_string vs; idx = z_of_string idx; avg = z_of_string avg;
               active = bool_of_tok active; disc = z_of_string disc };
      latest; calc }
  | _ -> failwith ("bad obs: " ^ S.concat " " toks)

let show_twa (t : twa option) = match t with
  | None -> "none"
  | Some r -> Printf.sprintf "a=%s avg=%s idx=%s disc=%s vals=[%s]" (tok_of_bool r.active)
                (string_of_z r.avg) (string_of_z r.idx) (string_of_z r.disc)
                (S.concat "," (L.map string_of_z r.vals))

let run (path : string) =
  let lines = read_lines path in
  let cases = ref 0 and steps = ref 0 and nontrivial = ref 0 in
  (* per-case state *)
  let case = ref "" and n = ref BinNums.Z0 and gap = ref BinNums.Z0 in
  let assets : (BinNums.coq_Z * bool) list ref = ref [] in
  let store : mstore ref = ref [] in
  let discard = ref false in
  let ghosts : (string, ghost) Hashtbl.t = Hashtbl.create 8 in
  let lastpos : (string, bool) Hashtbl.t = Hashtbl.create 8 in
  let dead = ref false in
  let step = ref 0 in
  let case_active = ref false in
  let sig_ = Buffer.create 256 in
  let pending_check = ref false in
  let get_ghost id = try Hashtbl.find ghosts id with Not_found -> ghost0 in
  let apply_ghost (ops : (BinNums.coq_Z * mop) list) =
    Hashtbl.reset lastpos;
    L.iter (fun (id, o) ->
        let ids = string_of_z id in
        Hashtbl.replace ghosts ids (ghost_step !gap (get_ghost ids) o);
        (match o with
         | Sample (_, r) -> Hashtbl.replace lastpos ids (BinInt.Z.gtb r BinNums.Z0)
         | _ -> Hashtbl.replace lastpos ids false)) ops in
  let end_case () =
    if !case <> "" then begin
      incr cases;
      if !case_active then incr nontrivial;
      Hashtbl.replace distinct (Digest.string (Buffer.contents sig_)) ()
    end in
  L.iter (fun line ->
      match tokens line with
      | "case" :: id :: nn :: gg :: k :: rest ->
        end_case ();
        case := id; n := z_of_string nn; gap := z_of_string gg;
        let k = int_of_string k in
        let rec mk i l = if i = 0 then [] else match l with
            | a :: r :: tl -> (z_of_string a, bool_of_tok r) :: mk (i - 1) tl
            | _ -> failwith "case assets" in
        assets := mk k rest; store := []; discard := false; Hashtbl.reset ghosts; Hashtbl.reset lastpos;
        dead := false; step := 0; case_active := false; Buffer.clear sig_;
        Buffer.add_string sig_ (nn ^ " " ^ gg ^ " ");
        bump ("n=" ^ nn)
      | "op" :: "s" :: aid :: height :: rate :: res :: [] when not !dead ->
        incr step; incr steps; bump "op:sample";
        Buffer.add_string sig_ ("s" ^ aid ^ ":" ^ rate ^ ";");
        let id = z_of_string aid in
        let o = Sample (z_of_string height, z_of_string rate) in
        let r = mstep !n !gap (sget !store id) o in
        (match r with
         | Base.Ok t' ->
           if res <> "ok" then mismatch ~case:!case ~step:!step ~field:"result" ~model:"ok" ~impl:res;
           (match t' with Some v -> store := sset !store id v | None -> ());
           apply_ghost [ (id, o) ]
         | Base.Panic ->
           if res <> "panic" then mismatch ~case:!case ~step:!step ~field:"result" ~model:"panic" ~impl:res;
           dead := true
         | Base.Err _ ->
           mismatch ~case:!case ~step:!step ~field:"result" ~model:"err" ~impl:res);
        if res = "panic" then begin
          predfail ~case:!case ~step:!step ~pred:"no_panic" ~kf:"none" ~detail:("UpdatePriceList_panicked_n=" ^ string_of_z !n);
          dead := true
        end;
        pending_check := true
      | "op" :: "b" :: height :: valid :: last :: disc :: nr :: rest when not !dead ->
        incr step; incr steps; bump "op:beginblock";
        let nr = int_of_string nr in
        let (rs, rest) = take nr rest in
        let res, newdisc = (match rest with [a; b] -> a, b | _ -> failwith "b tail") in
        Buffer.add_string sig_ ("b" ^ valid ^ disc ^ ":" ^ S.concat "," rs ^ ";");
        let e = { bb_valid = bool_of_tok valid; bb_last = z_of_string last; bb_height = z_of_string height;
                  bb_discard = bool_of_tok disc; bb_rates = L.map z_of_string rs; bb_n = !n; bb_gap = !gap } in
        if not (bool_of_tok valid) then bump "bb:invalid";
        if bool_of_tok disc then bump "bb:discard";
        let known = L.map fst !store in
        (match begin_block e !assets !store with
         | Base.Ok (s', d') ->
           if res <> "ok" then mismatch ~case:!case ~step:!step ~field:"result" ~model:"ok" ~impl:res;
           if tok_of_bool d' <> newdisc then
             mismatch ~case:!case ~step:!step ~field:"discardbool" ~model:(tok_of_bool d') ~impl:newdisc;
           store := s';
           apply_ghost (bb_ops e !assets known)
         | Base.Panic ->
           if res <> "panic" then mismatch ~case:!case ~step:!step ~field:"result" ~model:"panic" ~impl:res;
           dead := true
         | Base.Err _ -> mismatch ~case:!case ~step:!step ~field:"result" ~model:"err" ~impl:res);
        if res = "panic" then begin
          predfail ~case:!case ~step:!step ~pred:"no_panic" ~kf:"none" ~detail:("BeginBlocker_panicked_n=" ^ string_of_z !n);
          dead := true
        end
      | "o" :: _ as toks when not !dead ->
        let ob = parse_obs toks in
        let id = z_of_string ob.o_id in
        let impl = if ob.found then Some ob.rec_ else None in
        let model = sget !store id in
        if show_twa impl <> show_twa model then
          mismatch ~case:!case ~step:!step ~field:("twa[" ^ ob.o_id ^ "]") ~model:(show_twa model) ~impl:(show_twa impl);
        (* consumers *)
        let exp_latest = (match get_latest impl with
            | Base.Ok v -> string_of_z v | Base.Err _ -> "E" | Base.Panic -> "P") in
        if exp_latest <> ob.latest then
          mismatch ~case:!case ~step:!step ~field:("latest[" ^ ob.o_id ^ "]") ~model:exp_latest ~impl:ob.latest;
        let exp_calc = (match price_in_force impl with Base.Ok _ -> "ok" | _ -> "err") in
        if exp_calc <> ob.calc then
          predfail ~case:!case ~step:!step ~pred:"inactive_price_is_error" ~kf:"none"
            ~detail:("CalcAssetPrice=" ^ ob.calc ^ "_expected=" ^ exp_calc);
        (* the property predicate, on the implementation's record *)
        let g = get_ghost ob.o_id in
        let lp = (try Hashtbl.find lastpos ob.o_id with Not_found -> false) in
        (match impl with Some r when r.active -> case_active := true; bump "obs:active" | Some _ -> bump "obs:inactive" | None -> bump "obs:absent");
        if not (holds_C17_state !n g lp impl) then begin
          predfail ~case:!case ~step:!step ~pred:"holds_C17_state" ~kf:"none" ~detail:(S.map (fun c -> if c = ' ' then '_' else c) (show_twa impl))
        end
      | _ -> ()
    ) lines;
  end_case ();
  finish ~cases:!cases ~steps:!steps ~nontrivial:!nontrivial

let () = Conv.register "C17" run
