(* C09 runner: replays the liquidation sweeps / liquidate messages on the extracted model
   (Model/Liquidation.v), diffs open ids, counter and offsets after EVERY step, and evaluates the
   extracted predicates (holds_C09_safe, holds_C09_handover*, holds_C09_live, two-sweeps) on the
   IMPLEMENTATION's observations. *)
open Conv
open Liquidation

let zs = string_of_z
let ids_str (l : BinNums.coq_Z list) = "[" ^ S.concat "," (L.map zs l) ^ "]"
let opt_price s = if s = "-1" then None else Some (z_of_string s)

let parse_v toks : vault_in =
  match toks with
  | [ id; app; ain; aout; intr; clo; pin; din; pout; dout; orc; fixed; mincr; esm; snap; kill; white; auc ] ->
    { v_id = z_of_string id; v_app = z_of_string app; v_amt_in = z_of_string ain; v_amt_out = z_of_string aout;
      v_interest = z_of_string intr; v_closing = z_of_string clo; v_price_in = opt_price pin; v_dec_in = z_of_string din;
      v_price_out = opt_price pout; v_dec_out = z_of_string dout; v_out_oracle = bool_of_tok orc;
      v_out_fixed = z_of_string fixed; v_min_cr = z_of_string mincr; v_esm = bool_of_tok esm;
      v_esm_snap = bool_of_tok snap; v_snap_in = None; v_snap_out = None; v_kill = bool_of_tok kill;
      v_white = bool_of_tok white; v_auction = bool_of_tok auc }
  | _ -> failwith ("bad v line: " ^ S.concat " " toks)

(* the extracted rules are pure: memoise them per distinct input line (Coq-datatype arithmetic is slow) *)
module HK = Hashtbl.Make (struct
    type t = int * vault_in
    let equal = ( = )
    let hash x = Hashtbl.hash_param 400 800 x
  end)
let memo_pos : pos HK.t = HK.create 4096
let pos_of_vault_m (g : gen) (v : vault_in) : pos =
  let k = ((match g with GV1 -> 1 | _ -> 2), v) in
  match HK.find_opt memo_pos k with
  | Some p -> p
  | None -> let p = pos_of_vault g v in HK.replace memo_pos k p; p
let memo_unsafe : bool HK.t = HK.create 4096
let vault_unsafe_m (v : vault_in) : bool =
  match HK.find_opt memo_unsafe (0, v) with
  | Some b -> b
  | None -> let b = vault_unsafe v in HK.replace memo_unsafe (0, v) b; b

type proj = { counter : string; offs : (string * string) list; ids : string list;
              locked : Z.t; auctions : Z.t; nauc : Z.t; vbal : Z.t; abal : Z.t }

let parse_s toks : proj =
  match toks with
  | counter :: nofs :: rest ->
    let nofs = int_of_string nofs in
    let (o, rest) = take (2 * nofs) rest in
    let rec pairs = function a :: b :: tl -> (a, b) :: pairs tl | _ -> [] in
    (match rest with
     | nv :: rest ->
       let (ids, rest) = take (int_of_string nv) rest in
       (match rest with
        | [ lc; ac; na; va; vb; aa; ab ] ->
          { counter; offs = pairs o; ids; locked = Z.of_string lc; auctions = Z.of_string ac; nauc = Z.of_string na;
            vbal = Z.add (Z.of_string va) (Z.of_string vb); abal = Z.add (Z.of_string aa) (Z.of_string ab) }
        | _ -> failwith "bad s tail")
     | _ -> failwith "bad s line")
  | _ -> failwith "bad s line"

type track = { mutable age : int; mutable m : int; mutable c : int; mutable reported : bool }

let run (path : string) =
  let lines = read_lines path in
  let cases = ref 0 and steps = ref 0 and nontrivial = ref 0 in
  let case = ref "" and gen = ref GV1 and batch = ref BinNums.Z0 in
  let caps = ref [||] in
  let m_ids : BinNums.coq_Z list ref = ref [] in
  let m_counter = ref BinNums.Z0 in
  let m_offs : (BinNums.coq_Z * BinNums.coq_Z) list ref = ref [] in
  let inputs : vault_in list ref = ref [] in
  let prev : proj option ref = ref None in
  let last_op = ref "" in
  let last_inputs : vault_in list ref = ref [] in
  let step = ref 0 in
  let dead = ref false in
  let seized_any = ref false in
  let sig_ = Buffer.create 256 in
  let tracked : (string, track) Hashtbl.t = Hashtbl.create 16 in
  let pending_seized : string list ref = ref [] in
  let capf (n : BinNums.coq_Z) : BinNums.coq_Z =
    let i = int_of_z n in
    if i >= 0 && i < Array.length !caps then z_of_int (!caps).(i) else n in
  let end_case () =
    if !case <> "" then begin
      incr cases;
      if !seized_any then incr nontrivial;
      Hashtbl.replace distinct (Digest.string (Buffer.contents sig_)) ()
    end in
  let mism field model impl = mismatch ~case:!case ~step:!step ~field ~model ~impl in
  let expect_class model impl = if model <> impl then mism "result" model impl in
  let remove_id id l = L.filter (fun x -> not (BinInt.Z.eqb x id)) l in
  let check_inputs_match () =
    let vi = L.map (fun v -> v.v_id) !inputs in
    if ids_str vi <> ids_str !m_ids then mism "input-ids" (ids_str !m_ids) (ids_str vi) in
  (* liveness bookkeeping at a block *)
  let live_pre (blocked_apps : (BinNums.coq_Z * bool) list) =
    let n = L.length !m_ids in
    let hyp_global = BinInt.Z.geb !batch (z_of_int 1) && BinInt.Z.eqb !m_counter (z_of_int n) in
    L.iter (fun v ->
        let id = zs v.v_id in
        let app_ok = (match !gen with
            | GV1 -> L.exists (fun (a, blocked) -> BinInt.Z.eqb a v.v_app && not blocked) blocked_apps
            | _ -> true) in
        if hyp_global && app_ok && vault_unsafe_m v && live_hyp_vault !gen v then begin
          match Hashtbl.find_opt tracked id with
          | Some t -> t.age <- t.age + 1
          | None -> Hashtbl.replace tracked id { age = 1; m = n; c = 0; reported = false }
        end else Hashtbl.remove tracked id) !inputs in
  let live_post (open_ids : string list) =
    let judge id (t : track) =
      let age = z_of_int t.age and m = z_of_int t.m and c = z_of_int t.c in
      (* no known class covers a position that outlives the proved bound (C09-F2, the V2 offset
         overwritten by the borrow sweep, is repaired) *)
      if not (holds_C09_live age m c !batch) then
        predfail ~case:!case ~step:!step ~pred:"holds_C09_live" ~kf:"none"
          ~detail:(Printf.sprintf "id=%s_unsafe_for_%d_blocks_bound=%s" id t.age (zs (live_bound m c !batch)));
      if BinInt.Z.gtb age (two_sweeps m !batch) && not t.reported then begin
        t.reported <- true;
        let kf = if kf_C09_1 age m c !batch then "kf_C09_1" else "none" in
        predfail ~case:!case ~step:!step ~pred:"two_full_sweeps" ~kf
          ~detail:(Printf.sprintf "id=%s_not_seized_within_%s_blocks_(n=%d_batch=%s)_age=%d" id (zs (two_sweeps m !batch)) t.m (zs !batch) t.age)
      end in
    (* a position seized in this block was open during [age] blocks; one still open has survived them *)
    let gone = Hashtbl.fold (fun id _ acc -> if L.mem id open_ids then acc else id :: acc) tracked [] in
    L.iter (fun id ->
        (match Hashtbl.find_opt tracked id with
         | Some t -> bump (Printf.sprintf "live:seized-in-block=%d" (min t.age 40));
           (* seized in its [age]-th block: within the bound iff age <= bound *)
           judge id t
         | None -> ());
        Hashtbl.remove tracked id) gone;
    Hashtbl.iter (fun id t ->
        (* still open after [age] blocks: it will need at least age+1 *)
        let t' = { t with age = t.age + 1 } in
        judge id t'; t.reported <- t'.reported) tracked in
  L.iter (fun line ->
      match tokens line with
      | "case" :: id :: kind :: g :: b :: ncap :: rest ->
        end_case ();
        case := id; gen := (if g = "1" then GV1 else GV2); batch := z_of_string b;
        let (cs, _) = take (int_of_string ncap) rest in
        caps := Array.of_list (L.map int_of_string cs);
        m_ids := []; m_counter := BinNums.Z0; m_offs := []; inputs := []; prev := None; last_op := "init";
        step := 0; dead := false; seized_any := false; Hashtbl.reset tracked; pending_seized := [];
        Buffer.clear sig_; Buffer.add_string sig_ (kind ^ g ^ ":" ^ b ^ ";");
        bump ("gen=" ^ g); bump ("batch=" ^ b); bump ("kind=" ^ kind)
      | _ when !dead -> ()
      | "v" :: toks -> inputs := !inputs @ [ parse_v toks ]
      | "op" :: "price" :: _ -> incr step; incr steps; bump "op:price"; last_op := "price"
      | "op" :: "interest" :: _ -> incr step; incr steps; bump "op:interest"; last_op := "interest"
      | "op" :: "kill" :: _ -> incr step; incr steps; bump "op:kill"; last_op := "ctl"
      | "op" :: "esm" :: _ -> incr step; incr steps; bump "op:esm"; last_op := "ctl"
      | [ "op"; "counter"; n ] ->
        incr step; incr steps; bump "op:counter"; last_op := "counter"; m_counter := z_of_string n
      | [ "op"; "create"; _app; _ep; _ain; _aout; cls; id ] ->
        incr step; incr steps; bump ("op:create:" ^ cls); last_op := "create";
        if cls = "ok" then begin
          m_ids := !m_ids @ [ z_of_string id ];
          m_counter := u64 (BinInt.Z.add !m_counter (z_of_int 1));
          Hashtbl.iter (fun _ t -> t.m <- t.m + 1; t.c <- t.c + 1) tracked
        end
      | [ "op"; "close"; id; cls ] ->
        incr step; incr steps; bump ("op:close:" ^ cls); last_op := "close";
        if cls = "ok" then begin
          m_ids := remove_id (z_of_string id) !m_ids;
          m_counter := u64 (BinInt.Z.sub !m_counter (z_of_int 1));
          Hashtbl.remove tracked id
        end
      | [ "op"; "liq"; id; cls ] ->
        incr step; incr steps; last_op := "liq";
        check_inputs_match ();
        let poss = L.map (pos_of_vault_m GV2) !inputs in
        (match msg_liquidate GV2 poss (z_of_string id) with
         | Base.Ok (seized, l') ->
           expect_class "ok" cls;
           bump (if seized = [] then "op:liq:ok-noop" else "op:liq:ok-seized");
           m_ids := L.map (fun p -> p.p_id) l';
           m_counter := u64 (BinInt.Z.sub !m_counter (z_of_int (L.length seized)));
           pending_seized := L.map zs seized
         | Base.Err _ -> expect_class "err" cls; bump "op:liq:err"; pending_seized := []
         | Base.Panic -> expect_class "panic" cls; bump "op:liq:panic"; pending_seized := []);
        Buffer.add_string sig_ ("l" ^ id ^ cls ^ ";");
        last_inputs := !inputs; inputs := []
      | "op" :: "block" :: b :: napps :: rest ->
        incr step; incr steps; last_op := "block";
        let napps = int_of_string napps in
        let (aps, rest) = take (2 * napps) rest in
        let res = (match rest with [ r ] -> r | _ -> failwith "block tail") in
        let rec mk = function a :: bl :: tl -> (z_of_string a, bool_of_tok bl) :: mk tl | _ -> [] in
        let apps = mk aps in
        if z_of_string b <> !batch then mism "batch" (zs !batch) b;
        check_inputs_match ();
        live_pre apps;
        let poss = L.map (pos_of_vault_m !gen) !inputs in
        (match !gen with
         | GV1 ->
           (match sweep_v1 capf !batch apps { s_list = poss; s_counter = !m_counter; s_offs = !m_offs } [] with
            | Base.Ok (seized, st') ->
              expect_class "ok" res;
              m_ids := L.map (fun p -> p.p_id) st'.s_list; m_counter := st'.s_counter; m_offs := st'.s_offs;
              pending_seized := L.map zs seized
            | Base.Err _ -> expect_class "err" res
            | Base.Panic -> expect_class "panic" res; bump "block:panic")
         | _ ->
           (* liquidationsV2.Liquidate: vault sweep under offset key 0, borrow sweep under key 1 (the
              harness populations hold no lend borrows) *)
           let one = z_of_int 1 in
           (match sweep_v2 capf !batch { t_list = poss; t_counter = !m_counter; t_off0 = get_off !m_offs BinNums.Z0;
                                         t_borrows = []; t_off1 = get_off !m_offs one } with
            | Base.Ok ((seized, _), st') ->
              expect_class "ok" res;
              m_ids := L.map (fun p -> p.p_id) st'.t_list; m_counter := st'.t_counter;
              m_offs := set_off (set_off !m_offs BinNums.Z0 st'.t_off0) one st'.t_off1;
              pending_seized := L.map zs seized
            | Base.Err _ -> expect_class "err" res
            | Base.Panic -> expect_class "panic" res; bump "block:panic"));
        bump (Printf.sprintf "block:seized=%d" (L.length !pending_seized));
        bump (Printf.sprintf "block:n=%d" (L.length poss));
        Buffer.add_string sig_ ("b" ^ S.concat "," !pending_seized ^ ";");
        if res = "panic" then begin
          (* a panic escaping the BeginBlocker halts the chain: C15's subject; here only the
             model's prediction of it is compared *)
          dead := true
        end;
        last_inputs := !inputs; inputs := []
      | "s" :: toks ->
        let p = parse_s toks in
        (* correspondence: ids, counter, offsets *)
        let mi = L.map zs !m_ids in
        if mi <> p.ids then mism "open-ids" (S.concat "," mi) (S.concat "," p.ids);
        if zs !m_counter <> p.counter then mism "counter" (zs !m_counter) p.counter;
        L.iter (fun (a, o) ->
            let mo = zs (get_off !m_offs (z_of_string a)) in
            if mo <> o then mism ("offset[" ^ a ^ "]") mo o) p.offs;
        (* predicates on the implementation's observation *)
        (match !prev with
         | Some q when !last_op = "block" || !last_op = "liq" ->
           let gone = L.filter (fun id -> not (L.mem id p.ids)) q.ids in
           if gone <> [] then seized_any := true;
           let gone_inputs = L.filter_map (fun id -> L.find_opt (fun v -> zs v.v_id = id) !last_inputs) gone in
           if L.length gone_inputs <> L.length gone then
             predfail ~case:!case ~step:!step ~pred:"holds_C09_safe" ~kf:"none" ~detail:"seized_position_without_recorded_inputs";
           L.iter (fun v ->
               if not (holds_C09_safe [ v ]) then
                 predfail ~case:!case ~step:!step ~pred:"holds_C09_safe" ~kf:"none"
                   ~detail:(Printf.sprintf "id=%s_seized_on_the_safe_side" (zs v.v_id))
               else bump "safe:seized-unsafe-side") gone_inputs;
           L.iter (fun v -> if L.mem (zs v.v_id) p.ids then
                      bump (if vault_unsafe_m v then "safe:kept-unsafe" else "safe:kept-safe")) !last_inputs;
           let amts = L.map (fun v -> v.v_amt_in) gone_inputs in
           let cust (x : proj) = { c_vault = z_of_zz x.vbal; c_auction = z_of_zz x.abal; c_locked = z_of_zz x.locked;
                                   c_auctions = z_of_zz x.auctions } in
           if not (holds_C09_handover (cust q) (cust p) amts) then
             predfail ~case:!case ~step:!step ~pred:"holds_C09_handover" ~kf:"none"
               ~detail:(Printf.sprintf "vault_bal_%s->%s_auction_bal_%s->%s_locked_%s->%s_auctions_%s->%s_seized=%d"
                          (Z.to_string q.vbal) (Z.to_string p.vbal) (Z.to_string q.abal) (Z.to_string p.abal)
                          (Z.to_string q.locked) (Z.to_string p.locked) (Z.to_string q.auctions) (Z.to_string p.auctions)
                          (L.length amts));
           if Z.sub p.nauc q.nauc <> Z.of_int (L.length gone) then
             predfail ~case:!case ~step:!step ~pred:"holds_C09_handover" ~kf:"none" ~detail:"auction_records_delta";
           if !last_op = "block" then live_post p.ids
         | _ -> ());
        prev := Some p
      | "h" :: k :: rest when !last_op = "block" || !last_op = "liq" ->
        let k = int_of_string k in
        let rec recs i l = if i = 0 then [] else match l with
            | o :: a :: n :: aa :: tl -> (o, a, n, aa) :: recs (i - 1) tl | _ -> failwith "h line" in
        let rs = recs k rest in
        (* every position the MODEL seized has exactly one locked record and one auction for exactly the
           recorded collateral; and no other record appeared *)
        L.iter (fun id ->
            let mine = L.filter (fun (o, _, _, _) -> o = id) rs in
            let amt_in = (match L.find_opt (fun v -> zs v.v_id = id) !last_inputs with Some v -> v.v_amt_in | None -> BinNums.Z0) in
            let ok = (match mine with
                | [ (_, a, n, aa) ] -> holds_C09_handover_one amt_in (z_of_int 1) (z_of_string a) (z_of_string n) (z_of_string aa)
                | l -> holds_C09_handover_one amt_in (z_of_int (L.length l)) BinNums.Z0 BinNums.Z0 BinNums.Z0) in
            if not ok then
              predfail ~case:!case ~step:!step ~pred:"holds_C09_handover_one" ~kf:"none" ~detail:("id=" ^ id)
            else bump "handover:exact") !pending_seized;
        L.iter (fun (o, _, _, _) -> if not (L.mem o !pending_seized) then
                   predfail ~case:!case ~step:!step ~pred:"holds_C09_handover_one" ~kf:"none" ~detail:("unexpected_locked_record_for=" ^ o)) rs;
        pending_seized := []
      | _ -> ()
    ) lines;
  end_case ();
  finish ~cases:!cases ~steps:!steps ~nontrivial:!nontrivial

let () = Conv.register "C09" run
