(* C04 runner entry: see liqrun.ml (shared with C07) *)
let () = Conv.register "C04" (Liqrun.run_prop "C04")
