(* C10 runner: replays the Dutch-auction traces on the extracted model (DutchV2), diffs the
   projections after every step, evaluates the extracted holds_C10_* predicates on the
   IMPLEMENTATION's observations and classifies failures by the kf_C10_* predicates (only kf_C10_1 is
   left for generation 2: C10-F2, C10-F3, C10-F5 and C10-F6 are repaired, a recurrence is a plain violation).
   A block tick is the real auctionsV2.BeginBlocker: the price update of every auction, then the automatic
   fill of limit bids (one LimitOrderBid closure per auction, in auction order) - both replayed. *)
open Conv
open DutchV2

let zs = string_of_z
let z = z_of_string
let zadd a b = BinInt.Z.add a b
let zsub a b = BinInt.Z.sub a b
let zzero = BinNums.Z0
let zeq a b = (zs a = zs b)
let zopt act v = if bool_of_tok act then Some (z v) else None

(* ------------------------------------------------------------------------------------------- *)
(* entry "C10-price": the price function *)
let run_price (path : string) =
  let lines = read_lines path in
  let cases = ref 0 and steps = ref 0 and nontrivial = ref 0 in
  let case = ref "" and init = ref zzero and disc = ref zzero and dur = ref zzero in
  let prev : (BinNums.coq_Z * BinNums.coq_Z) option ref = ref None in
  let step = ref 0 in
  let moved = ref false in
  let end_case () = if !case <> "" then begin incr cases; if !moved then incr nontrivial end in
  L.iter (fun line ->
      match tokens line with
      | "case" :: id :: prem :: dsc :: du :: ini :: twa :: endp :: _ ->
        end_case ();
        case := id; init := z ini; disc := z dsc; dur := z du; prev := None; step := 0; moved := false;
        Hashtbl.replace distinct (Digest.string (prem ^ " " ^ dsc ^ " " ^ du ^ " " ^ twa)) ();
        (* the start price and the end price themselves *)
        (match initial_price (z prem) (z twa) with
         | Some ip -> if not (zeq ip (z ini)) then mismatch ~case:id ~step:0 ~field:"initial_price" ~model:(zs ip) ~impl:ini
         | None -> mismatch ~case:id ~step:0 ~field:"initial_price" ~model:"panic" ~impl:ini);
        if not (zeq (end_price (z ini) (z dsc)) (z endp)) then
          mismatch ~case:id ~step:0 ~field:"end_price" ~model:(zs (end_price (z ini) (z dsc))) ~impl:endp;
        if kf_C10_1 !init !disc !dur then bump "cfg:kf_C10_1" else bump "cfg:end_price_met"
      | "p" :: t :: cls :: price :: _ ->
        incr step; incr steps; bump "op:update";
        let m = posted_price !init !disc !dur (z t) in
        (match m with
         | Some p ->
           if cls <> "ok" then mismatch ~case:!case ~step:!step ~field:"result" ~model:"ok" ~impl:cls
           else if not (zeq p (z price)) then mismatch ~case:!case ~step:!step ~field:"price" ~model:(zs p) ~impl:price
         | None -> if cls <> "panic" then mismatch ~case:!case ~step:!step ~field:"result" ~model:"panic" ~impl:cls);
        if cls = "ok" then begin
          let cur = z price in
          let pv = (match !prev with Some (_, p) -> p | None -> !init) in
          if not (zeq cur pv) then moved := true;
          if not (holds_C10_price_mono !init pv cur) then
            predfail ~case:!case ~step:!step ~pred:"holds_C10_price_mono" ~kf:"none" ~detail:("t=" ^ t ^ "_prev=" ^ zs pv ^ "_cur=" ^ price)
          else if not (holds_C10_price !init !disc pv cur) then begin
            let kf = if kf_C10_1 !init !disc !dur then "kf_C10_1" else "none" in
            predfail ~case:!case ~step:!step ~pred:"holds_C10_price" ~kf
              ~detail:("t=" ^ t ^ "_price=" ^ price ^ "_end=" ^ zs (end_price !init !disc))
          end;
          prev := Some (z t, cur)
        end
      | "f" :: tau :: t :: cls :: price :: _ ->
        incr step; incr steps; bump "op:direct";
        (match price_at_c !init (z tau) (z t) with
         | Some p ->
           if cls <> "ok" then mismatch ~case:!case ~step:!step ~field:"result" ~model:"ok" ~impl:cls
           else if not (zeq p (z price)) then mismatch ~case:!case ~step:!step ~field:"price_at" ~model:(zs p) ~impl:price
         | None -> if cls <> "panic" then mismatch ~case:!case ~step:!step ~field:"result" ~model:"panic" ~impl:cls)
      | _ -> ()) lines;
  end_case ();
  finish ~cases:!cases ~steps:!steps ~nontrivial:!nontrivial

(* ------------------------------------------------------------------------------------------- *)
(* entry "C10": keeper-driven histories *)

type mauc = { aid : string; lk : locked; mutable au : auction; mutable ipaid : BinNums.coq_Z; mutable irecv : BinNums.coq_Z }

(* the accounts of an L line, in order *)
let nacct = 16
let acct_ids = [| coq_AUC_C; coq_AUC_D; coq_OWN_C; coq_COL_D; coq_KEE_D; coq_INI_D; coq_NUL_D; coq_LIQ_D; coq_BRN_D; coq_POOL_D;
                  coq_BID_C (z "0"); coq_BID_D (z "0"); coq_BID_C (z "1"); coq_BID_D (z "1"); coq_BID_C (z "2"); coq_BID_D (z "2") |]
let acct_names = [| "auc_c"; "auc_d"; "own_c"; "col_d"; "kee_d"; "ini_d"; "nul_d"; "liq_d"; "brn_d"; "pool_d";
                    "b0_c"; "b0_d"; "b1_c"; "b1_d"; "b2_c"; "b2_d" |]

type lobs = { bals : BinNums.coq_Z array; rfound : bool; ramt : BinNums.coq_Z; xf : BinNums.coq_Z;
              pfound : bool; pool : BinNums.coq_Z; nffound : bool; nf : BinNums.coq_Z }

let parse_L toks =
  let arr = Array.of_list toks in
  if Array.length arr < nacct + 7 then failwith "short L line";
  { bals = Array.init nacct (fun i -> z arr.(i)); rfound = bool_of_tok arr.(nacct); ramt = z arr.(nacct + 1); xf = z arr.(nacct + 2);
    pfound = bool_of_tok arr.(nacct + 3); pool = z arr.(nacct + 4); nffound = bool_of_tok arr.(nacct + 5); nf = z arr.(nacct + 6) }

(* a user bid created in the step: id, auction, bidder, debt amount bid, collateral amount sent *)
type ubid = { uaid : string; uwho : int; udebt : BinNums.coq_Z; ucoll : BinNums.coq_Z }

let ledger_of (o : lobs) : ledger =
  let l = ref (fun _ -> zzero) in
  Array.iteri (fun i id -> l := upd !l id o.bals.(i)) acct_ids; !l

let show_au (a : auction) =
  Printf.sprintf "%s,%s,%s,%s,%s,%s,%s,%s,%s" (zs a.a_coll) (zs a.a_debt) (zs a.a_bonus) (zs a.a_price) (zs a.a_init)
    (zs a.a_pco) (zs a.a_pdo) (zs a.a_start) (zs a.a_end)

let run (path : string) =
  let lines = read_lines path in
  let cases = ref 0 and steps = ref 0 and nontrivial = ref 0 in
  let case = ref "" and step = ref 0 in
  let cf = ref { c_premium = zzero; c_disc = zzero; c_dur = zzero; c_minusd = zzero; c_ki = zzero; c_dc = zzero; c_dd = zzero } in
  let st = ref { led = (fun _ -> zzero); rsv = None; xfee = zzero; nfee = zzero } in
  let bk : book ref = ref (fun _ _ -> zzero) and pool = ref zzero in          (* the model's limit-bid book *)
  let order : BinNums.coq_Z list ref = ref [] in
  let keys : (string * string) list ref = ref [] in                           (* (premium, who) ever deposited to *)
  let curR : ((string * string) * BinNums.coq_Z) list ref = ref [] and prevR = ref [] in
  let curU : ubid list ref = ref [] and curP : (string * (BinNums.coq_Z * BinNums.coq_Z)) list ref = ref [] in
  let rebased_now = ref false in
  let tick_twa = ref zzero in
  let live : mauc list ref = ref [] in
  let rebase = ref true in                   (* the next L line defines the model ledger (after start ops) *)
  let prevL : lobs option ref = ref None in  (* implementation, previous observation *)
  let prevA : (string * auction) list ref = ref [] in
  let curA : (string * auction) list ref = ref [] in
  let curL : lobs option ref = ref None in
  let targets : (string, locked) Hashtbl.t = Hashtbl.create 8 in
  let sums : (string, BinNums.coq_Z * BinNums.coq_Z) Hashtbl.t = Hashtbl.create 8 in
  (* what the last op was, for the predicate evaluation at the E line *)
  let last_bid : (string * int * string * BinNums.coq_Z) option ref = ref None in   (* aid, who, class, twa_d *)
  let last_tick = ref false in
  let good_bid = ref false in
  let sig_ = Buffer.create 256 in
  let end_case () =
    if !case <> "" then begin
      incr cases; if !good_bid then incr nontrivial;
      Hashtbl.replace distinct (Digest.string (Buffer.contents sig_)) ()
    end in
  L.iter (fun line ->
      match tokens line with
      | "case" :: id :: prem :: dsc :: du :: mu :: ki :: dc :: dd :: _ ->
        end_case ();
        case := id; step := 0;
        cf := { c_premium = z prem; c_disc = z dsc; c_dur = z du; c_minusd = z mu; c_ki = z ki; c_dc = z dc; c_dd = z dd };
        st := { led = (fun _ -> zzero); rsv = None; xfee = zzero; nfee = zzero };
        bk := (fun _ _ -> zzero); pool := zzero; order := []; keys := []; curR := []; prevR := []; curU := []; curP := [];
        rebased_now := false;
        live := []; rebase := true; prevL := None; prevA := []; curA := []; curL := None;
        Hashtbl.reset targets; Hashtbl.reset sums; last_bid := None; last_tick := false; good_bid := false;
        Buffer.clear sig_; Buffer.add_string sig_ (S.concat " " [prem; dsc; du; mu; ki; dc; dd]);
        ()
      | "order" :: ws -> order := L.map z ws
      | "op" :: "dep" :: who :: prem :: amt :: wrong :: cls :: _ ->
        incr step; incr steps; bump "op:dep"; bump ("dep:" ^ cls);
        Buffer.add_string sig_ (";D" ^ who ^ ":" ^ prem ^ ":" ^ amt ^ wrong);
        if not (L.mem (prem, who) !keys) then keys := !keys @ [ (prem, who) ];
        (match deposit !st !bk !pool (z who) (z prem) (z amt) (bool_of_tok wrong) with
         | Base.Ok ((s', bk'), pool') ->
           if cls <> "ok" then mismatch ~case:!case ~step:!step ~field:"dep.result" ~model:"ok" ~impl:cls
           else begin st := s'; bk := bk'; pool := pool' end
         | Base.Err c ->
           bump ("dep:err" ^ zs c);
           if cls <> "err" then mismatch ~case:!case ~step:!step ~field:"dep.result" ~model:("err" ^ zs c) ~impl:cls
         | Base.Panic -> if cls <> "panic" then mismatch ~case:!case ~step:!step ~field:"dep.result" ~model:"panic" ~impl:cls);
        last_bid := None; last_tick := false
      | "op" :: "start" :: aid :: coll :: target :: fee :: bonus :: init :: intk :: cmst :: now :: ac :: pc :: ad :: pd :: cls :: more ->
        incr step; incr steps; bump "op:start"; bump ("start:init=" ^ init);
        Buffer.add_string sig_ (";S" ^ init ^ ":" ^ coll ^ ":" ^ target);
        let lk = { l_coll = z coll; l_target = z target; l_fee = z fee; l_bonus = z bonus; l_init = z init;
                   l_intk = bool_of_tok intk; l_cmst = bool_of_tok cmst;
                   l_stuck = (match more with st :: _ -> bool_of_tok st | [] -> false) } in
        if lk.l_stuck then bump "start:lend_bridged_position_gone";
        Hashtbl.replace targets aid lk;
        (match activate !cf lk (z now) (zopt ac pc) (zopt ad pd) with
         | Base.Ok a -> live := !live @ [ { aid; lk; au = a; ipaid = zzero; irecv = zzero } ]
         | Base.Err _ -> mismatch ~case:!case ~step:!step ~field:"start.result" ~model:"err" ~impl:cls
         | Base.Panic -> mismatch ~case:!case ~step:!step ~field:"start.result" ~model:"panic" ~impl:cls);
        if zs lk.l_init = "2" && BinInt.Z.gtb (keeper_incentive !cf lk.l_fee) zzero then bump "start:external_with_incentive";
        rebase := true; last_bid := None; last_tick := false
      | "op" :: "nostart" :: _ ->
        incr step; incr steps; bump "op:nostart"; rebase := true; last_bid := None; last_tick := false
      | "op" :: "tick" :: now :: ac :: pc :: ad :: pd :: cls :: _ ->
        incr step; incr steps; bump "op:tick";
        Buffer.add_string sig_ (";T" ^ now ^ ac ^ ad);
        if cls <> "ok" then mismatch ~case:!case ~step:!step ~field:"tick.result" ~model:"ok" ~impl:cls;
        L.iter (fun m -> m.au <- tick !cf m.lk (z now) (zopt ac pc) (zopt ad pd) m.au) !live;
        (* LimitOrderBid: one closure per auction, in auction order; an error or a panic rolls the closure back *)
        let closed = ref [] in
        L.iter (fun m ->
            match fill_closure !cf m.lk !order (z pd) (bool_of_tok ad) m.au !st !bk !pool with
            | Base.Ok ((((s', a'), bk'), pool'), log) ->
              st := s'; bk := bk'; pool := pool';
              (match a' with Some a -> m.au <- a | None -> closed := m.aid :: !closed);
              if log <> [] then begin
                bump "fill:closure"; bump (Printf.sprintf "fill:bids=%d" (L.length log));
                (match a' with None -> bump "fill:closing" | Some _ -> bump "fill:partial");
                L.iter (fun e ->
                    if e.fb_res.r_exh then bump "fill:bid_cut_to_collateral";
                    if BinInt.Z.gtb e.fb_res.r_topup zzero then bump "fill:reserve_topup") log
              end
            | Base.Err c -> bump ("fill:rolled_back_err" ^ zs c)
            | Base.Panic -> bump "fill:rolled_back_panic") !live;
        live := L.filter (fun x -> not (L.mem x.aid !closed)) !live;
        tick_twa := z pd;
        last_bid := None; last_tick := true
      | "op" :: "bid" :: aid :: who :: amt :: wrong :: twa :: dact :: cls :: _ ->
        incr step; incr steps; bump "op:bid"; bump ("bid:" ^ cls); bump ("bid:debt_price_active=" ^ dact);
        Buffer.add_string sig_ (";B" ^ aid ^ ":" ^ who ^ ":" ^ amt ^ wrong);
        (match L.find_opt (fun m -> m.aid = aid) !live with
         | None -> if cls <> "err" then mismatch ~case:!case ~step:!step ~field:"bid.result" ~model:"err(no auction)" ~impl:cls
         | Some m ->
           (match place_bid !cf m.lk m.au !st (z who) (z amt) (bool_of_tok wrong) (bool_of_tok dact) (z twa) with
            | Base.Ok ((s', a'), r) ->
              if cls <> "ok" then mismatch ~case:!case ~step:!step ~field:"bid.result" ~model:"ok" ~impl:cls
              else begin
                st := s';
                (match a' with Some a -> m.au <- a; bump "bid:partial" | None -> live := L.filter (fun x -> x.aid <> aid) !live; bump "bid:closing");
                if r.r_exh then bump "bid:exhausted";
                if BinInt.Z.gtb r.r_topup zzero then bump "bid:reserve_topup"
              end
            | Base.Err c ->
              bump ("bid:err" ^ zs c);
              if cls <> "err" then mismatch ~case:!case ~step:!step ~field:"bid.result" ~model:("err" ^ zs c) ~impl:cls
            | Base.Panic ->
              if cls <> "panic" then mismatch ~case:!case ~step:!step ~field:"bid.result" ~model:"panic" ~impl:cls
              else if kf_C10_7 m.lk then
                (* a bid that would close the auction panics in MsgCloseDutchAuctionForBorrow: the auction can never end *)
                predfail ~case:!case ~step:!step ~pred:"lend_close_completes" ~kf:"kf_C10_7" ~detail:("aid=" ^ aid ^ "_amount=" ^ amt)));
        (* a panicking bid is a refused message (baseapp recovers, the cache context is dropped): the
           property does not forbid it, so it is NOT a predicate failure by itself - demanding
           "a bid never panics" was more than C10 states (seen in the thorough tier: a bid whose
           left-over-collateral value exceeds the remaining debt panics with "negative coin amount"
           on both the model and the code, and a later bid closes the auction).  A panic the model
           does not predict is a correspondence mismatch above; the former finding C10-F3 (EVERY
           closing bid of an external auction panicked) stays covered that way and by corpus case 0. *)
        if cls = "panic" then bump "bid:panic_observed";
        last_bid := Some (aid, int_of_string who, cls, z twa); last_tick := false
      | "L" :: rest ->
        let o = parse_L rest in
        curL := Some o; curA := []; curR := []; curU := [];
        if !rebase then begin
          st := { led = ledger_of o; rsv = (if o.rfound then Some o.ramt else None); xfee = o.xf; nfee = o.nf }; rebase := false;
          rebased_now := true
        end else begin
          if not (zeq !st.nfee o.nf) then mismatch ~case:!case ~step:!step ~field:"netfee" ~model:(zs !st.nfee) ~impl:(zs o.nf);
          if not (zeq !pool o.pool) then mismatch ~case:!case ~step:!step ~field:"limit_pool" ~model:(zs !pool) ~impl:(zs o.pool);
          Array.iteri (fun i id ->
              let mv = !st.led id in
              if not (zeq mv o.bals.(i)) then
                mismatch ~case:!case ~step:!step ~field:("ledger." ^ acct_names.(i)) ~model:(zs mv) ~impl:(zs o.bals.(i))) acct_ids;
          let mr = (match !st.rsv with Some r -> "1:" ^ zs r | None -> "0:0") in
          let ir = (if o.rfound then "1:" else "0:") ^ zs o.ramt in
          if mr <> ir then mismatch ~case:!case ~step:!step ~field:"reserve" ~model:mr ~impl:ir;
          if not (zeq !st.xfee o.xf) then mismatch ~case:!case ~step:!step ~field:"xfee" ~model:(zs !st.xfee) ~impl:(zs o.xf)
        end
      | "R" :: prem :: who :: amt :: _ -> curR := !curR @ [ ((prem, who), z amt) ]
      | "U" :: _id :: aid :: who :: debt :: coll :: _ -> curU := !curU @ [ { uaid = aid; uwho = int_of_string who; udebt = z debt; ucoll = z coll } ]
      | "P" :: aid :: price :: pco :: _ -> curP := (aid, (z price, z pco)) :: (L.remove_assoc aid !curP)
      | "A" :: aid :: coll :: debt :: bonus :: price :: init :: pco :: pdo :: s :: e :: _ ->
        curA := !curA @ [ (aid, { a_coll = z coll; a_debt = z debt; a_bonus = z bonus; a_price = z price; a_init = z init;
                                  a_pco = z pco; a_pdo = z pdo; a_start = z s; a_end = z e }) ]
      | "E" :: _ ->
        (* ---- correspondence on the auction records *)
        let ms = S.concat "|" (L.map (fun m -> m.aid ^ ":" ^ show_au m.au) !live) in
        let is = S.concat "|" (L.map (fun (aid, a) -> aid ^ ":" ^ show_au a) !curA) in
        if ms <> is then mismatch ~case:!case ~step:!step ~field:"auctions" ~model:ms ~impl:is;
        let o = (match !curL with Some o -> o | None -> failwith "E without L") in
        let rec_of l k = (match L.assoc_opt k l with Some v -> v | None -> zzero) in
        (* ---- correspondence on the limit-bid book *)
        if !rebased_now then begin
          let snapshot = !curR in
          bk := (fun p w -> rec_of snapshot (zs p, zs w)); pool := o.pool; rebased_now := false
        end else
          L.iter (fun ((p, w) as k) ->
              let mv = !bk (z p) (z w) and iv = rec_of !curR k in
              if not (zeq mv iv) then mismatch ~case:!case ~step:!step ~field:("limit_bid[" ^ p ^ "," ^ w ^ "]") ~model:(zs mv) ~impl:(zs iv)) !keys;
        let rec_sum = L.fold_left (fun acc (_, v) -> zadd acc v) zzero !curR in
        (* ---- predicates on the IMPLEMENTATION's observations *)
        if not (holds_C10_pool o.pool rec_sum) then
          predfail ~case:!case ~step:!step ~pred:"holds_C10_pool" ~kf:"none" ~detail:("bid_value=" ^ zs o.pool ^ "_records=" ^ zs rec_sum);
        (* the fills of a block: the user bids the block created, per auction in order, at the price the block posted *)
        (match !last_tick, !prevL with
         | true, Some _ when !curU <> [] ->
           let aids = L.fold_left (fun acc u -> if L.mem u.uaid acc then acc else acc @ [ u.uaid ]) [] !curU in
           let prem_of_aid = Hashtbl.create 4 in
           L.iter (fun aid ->
               let bids = L.filter (fun u -> u.uaid = aid) !curU in
               match L.assoc_opt aid !prevA, Hashtbl.find_opt targets aid, L.assoc_opt aid !curP with
               | Some pa, Some lk, Some (price, pco) ->
                 good_bid := true;
                 let pd = if lk.l_cmst then DecArith.dec_of_int (z "1000000") else DecArith.dec_of_int !tick_twa in
                 (match premium_of { pa with a_price = price; a_pco = pco } with
                  | Base.Ok (Some pr) -> Hashtbl.replace prem_of_aid aid (zs pr)
                  | _ -> ());
                 let n = L.length bids in
                 let coll = ref pa.a_coll and debt = ref pa.a_debt in
                 L.iteri (fun i u ->
                     let closed = (i = n - 1) && not (L.mem_assoc aid !curA) in
                     bump "fill:observed_bid";
                     if not (holds_C10_bid !cf.c_dc !cf.c_dd price pd !coll !debt pa.a_bonus u.udebt u.ucoll closed) then
                       predfail ~case:!case ~step:!step ~pred:"holds_C10_bid" ~kf:"none"
                         ~detail:("fill_aid=" ^ aid ^ "_who=" ^ string_of_int u.uwho ^ "_paid=" ^ zs u.udebt ^ "_recv=" ^ zs u.ucoll ^ "_closed=" ^ tok_of_bool closed);
                     coll := zsub !coll u.ucoll; debt := zsub !debt u.udebt;
                     let (sp, sr) = (try Hashtbl.find sums aid with Not_found -> (zzero, zzero)) in
                     let sp = zadd sp u.udebt and sr = zadd sr u.ucoll in
                     Hashtbl.replace sums aid (sp, sr);
                     if not (holds_C10_totals lk.l_target lk.l_coll sp sr) then
                       predfail ~case:!case ~step:!step ~pred:"holds_C10_totals" ~kf:"none"
                         ~detail:("fill_aid=" ^ aid ^ "_paid=" ^ zs sp ^ "_recv=" ^ zs sr)) bids;
                 (* what the auction record says after the block must be what the bids left *)
                 (match L.assoc_opt aid !curA with
                  | Some ca ->
                    if not (zeq ca.a_debt !debt) || not (zeq ca.a_coll !coll) then
                      predfail ~case:!case ~step:!step ~pred:"holds_C10_fill_record" ~kf:"none"
                        ~detail:("aid=" ^ aid ^ "_debt=" ^ zs ca.a_debt ^ "_expected=" ^ zs !debt ^ "_coll=" ^ zs ca.a_coll ^ "_expected=" ^ zs !coll)
                  | None -> ())
               | _ -> bump "fill:observed_without_posted_price") aids;
           (* every limit bid falls by exactly what its automatic bids bid *)
           L.iter (fun ((p, w) as k) ->
               let before = rec_of !prevR k and after = rec_of !curR k in
               let bid_sum = L.fold_left (fun acc u ->
                   if string_of_int u.uwho = w && (match Hashtbl.find_opt prem_of_aid u.uaid with Some pr -> pr = p | None -> false)
                   then zadd acc u.udebt else acc) zzero !curU in
               if not (holds_C10_fill_charge before after bid_sum) then
                 predfail ~case:!case ~step:!step ~pred:"holds_C10_fill_charge" ~kf:"none"
                   ~detail:("premium=" ^ p ^ "_who=" ^ w ^ "_record_before=" ^ zs before ^ "_after=" ^ zs after ^ "_bid=" ^ zs bid_sum)) !keys
         | true, Some _ ->
           (* a block without automatic bids moves no limit bid *)
           L.iter (fun ((p, w) as k) ->
               let before = rec_of !prevR k and after = rec_of !curR k in
               if not (holds_C10_fill_charge before after zzero) then
                 predfail ~case:!case ~step:!step ~pred:"holds_C10_fill_charge" ~kf:"none"
                   ~detail:("premium=" ^ p ^ "_who=" ^ w ^ "_record_before=" ^ zs before ^ "_after=" ^ zs after ^ "_no_bid")) !keys
         | _ -> ());
        (* the penalty of the auctions closed in this step (a bid or a block): collector share + keeper share, net-fee book *)
        (match !prevL with
         | Some pl when !last_tick || (match !last_bid with Some (_, _, "ok", _) -> true | _ -> false) ->
           let gone = L.filter (fun (aid, _) -> not (L.mem_assoc aid !curA)) !prevA in
           let dcol = zsub o.bals.(3) pl.bals.(3) and dkee = zsub o.bals.(4) pl.bals.(4) and dnf = zsub o.nf pl.nf in
           let lks = L.filter_map (fun (aid, _) -> Hashtbl.find_opt targets aid) gone in
           let check init fee =
             if not (holds_C10_penalty init fee dcol dkee dnf) then
               predfail ~case:!case ~step:!step ~pred:"holds_C10_penalty" ~kf:"none"
                 ~detail:("init=" ^ zs init ^ "_penalty=" ^ zs fee ^ "_collector=" ^ zs dcol ^ "_keeper=" ^ zs dkee ^ "_netfees=" ^ zs dnf) in
           (match lks with
            | [] -> check (z "1") zzero
            | [ lk ] ->
              bump ("close:init=" ^ zs lk.l_init);
              if zs lk.l_init = "0" && lk.l_intk && BinInt.Z.gtb dkee zzero then bump "close:keeper_incentive_paid";
              check lk.l_init lk.l_fee
            | _ ->
              if L.for_all (fun lk -> zs lk.l_init = "0") lks then check zzero (L.fold_left (fun acc lk -> zadd acc lk.l_fee) zzero lks)
              else if L.for_all (fun lk -> zs lk.l_init <> "0") lks then check (z "1") zzero
              else bump "close:mixed_multi_close_skipped")
         | _ -> ());
        (* price clauses, between consecutive observations with the same StartTime *)
        if !last_tick then
          L.iter (fun (aid, a) ->
              match L.assoc_opt aid !prevA with
              | Some pa when zeq pa.a_start a.a_start ->
                if not (zeq pa.a_price a.a_price) then bump "tick:price_moved";
                if not (holds_C10_price_mono a.a_init pa.a_price a.a_price) then
                  predfail ~case:!case ~step:!step ~pred:"holds_C10_price_mono" ~kf:"none"
                    ~detail:("aid=" ^ aid ^ "_prev=" ^ zs pa.a_price ^ "_cur=" ^ zs a.a_price)
                else if not (holds_C10_price a.a_init !cf.c_disc pa.a_price a.a_price) then begin
                  let kf = if kf_C10_1 a.a_init !cf.c_disc !cf.c_dur then "kf_C10_1" else "none" in
                  predfail ~case:!case ~step:!step ~pred:"holds_C10_price" ~kf
                    ~detail:("aid=" ^ aid ^ "_price=" ^ zs a.a_price ^ "_end=" ^ zs (end_price a.a_init !cf.c_disc))
                end
              | Some _ -> bump "tick:restart"
              | None -> ()) !curA;
        (* the bid clauses *)
        (match !last_bid, !prevL with
         | Some (aid, who, "ok", twa), Some pl ->
           good_bid := true;
           (match L.assoc_opt aid !prevA, Hashtbl.find_opt targets aid with
            | Some pa, Some lk ->
              let paid = zsub pl.bals.(11 + 2 * who) o.bals.(11 + 2 * who) in
              let recv = zsub o.bals.(10 + 2 * who) pl.bals.(10 + 2 * who) in
              let closed = not (L.mem_assoc aid !curA) in
              let pd = if lk.l_cmst then DecArith.dec_of_int (z "1000000") else DecArith.dec_of_int twa in
              if not (holds_C10_bid !cf.c_dc !cf.c_dd pa.a_price pd pa.a_coll pa.a_debt pa.a_bonus paid recv closed) then
                predfail ~case:!case ~step:!step ~pred:"holds_C10_bid" ~kf:"none"
                  ~detail:("aid=" ^ aid ^ "_paid=" ^ zs paid ^ "_recv=" ^ zs recv ^ "_closed=" ^ tok_of_bool closed);
              (* totals over the life of this auction, accumulated from the implementation's balances *)
              let (sp, sr) = (try Hashtbl.find sums aid with Not_found -> (zzero, zzero)) in
              let sp = zadd sp paid and sr = zadd sr recv in
              Hashtbl.replace sums aid (sp, sr);
              if not (holds_C10_totals lk.l_target lk.l_coll sp sr) then
                predfail ~case:!case ~step:!step ~pred:"holds_C10_totals" ~kf:"none"
                  ~detail:("aid=" ^ aid ^ "_paid=" ^ zs sp ^ "_recv=" ^ zs sr)
            | _ -> ())
         | _ -> ());
        (* custody: auction account minus live auctions minus booked external fees *)
        let sum_c = L.fold_left (fun acc (_, a) -> zadd acc a.a_coll) zzero !curA in
        let sum_d = L.fold_left (fun acc (aid, a) ->
            match Hashtbl.find_opt targets aid with
            | Some lk -> zadd acc (zsub lk.l_target a.a_debt)
            | None -> acc) zzero !curA in
        let res_c = zsub o.bals.(0) sum_c in
        let res_d = zsub (zsub (zsub o.bals.(1) sum_d) o.xf) rec_sum in
        if not (holds_C10_custody res_c res_d) then
          predfail ~case:!case ~step:!step ~pred:"holds_C10_custody" ~kf:"none" ~detail:("res_c=" ^ zs res_c ^ "_res_d=" ^ zs res_d ^ "_limit_bids=" ^ zs rec_sum ^ "_booked_fees=" ^ zs o.xf);
        (* the app reserve record is never negative and is backed by the liquidation module's balance *)
        if o.rfound && not (holds_C10_reserve o.ramt o.bals.(7)) then
          predfail ~case:!case ~step:!step ~pred:"holds_C10_reserve" ~kf:"none" ~detail:("record=" ^ zs o.ramt ^ "_liq_balance=" ^ zs o.bals.(7));
        prevL := Some o; prevA := !curA; prevR := !curR; curP := []
      | _ -> ()) lines;
  end_case ();
  finish ~cases:!cases ~steps:!steps ~nontrivial:!nontrivial

let () = Conv.register "C10" run
let () = Conv.register "C10-price" run_price

(* ------------------------------------------------------------------------------------------- *)
(* entry "C10-v1": generation 1 (x/auction) vault / lend Dutch auctions, keeper-driven histories *)
open DutchV1

(* [vlv]: the locked borrow behind a lend auction (amounts from the start op; no bid or tick changes them),
   [vlvid]: its LockedVaultId ("" for vault auctions) *)
type v1m = { vid : string; vao : BinNums.coq_Z; vcoll : BinNums.coq_Z; mutable vau : v1auc; vlv : v1lv; vlvid : string }

(* L line: auc_c auc_d own_c col_d brn_d pool_d lend_d b0c b0d b1c b1d b2c b2d nf_found nf *)
let v1_ids = [| coq_AUC_C; coq_AUC_D; coq_OWN_C; coq_COL_D; coq_BRN_D; coq_POOL_D; coq_LEND_D;
                coq_BID_C (z "0"); coq_BID_D (z "0"); coq_BID_C (z "1"); coq_BID_D (z "1"); coq_BID_C (z "2"); coq_BID_D (z "2") |]
let v1_names = [| "auc_c"; "auc_d"; "own_c"; "col_d"; "brn_d"; "pool_d"; "lend_d"; "b0_c"; "b0_d"; "b1_c"; "b1_d"; "b2_c"; "b2_d" |]
let v1_n = 13

type v1obs = { vb : BinNums.coq_Z array; nfound : bool; nf : BinNums.coq_Z }

let v1_parse_L toks =
  let arr = Array.of_list toks in
  if Array.length arr < v1_n + 2 then failwith "short v1 L line";
  { vb = Array.init v1_n (fun i -> z arr.(i)); nfound = bool_of_tok arr.(v1_n); nf = z arr.(v1_n + 1) }

let v1_show (a : v1auc) =
  Printf.sprintf "%s,%s,%s,%s,%s,%s,%s,%s,%s" (zs a.o_cur) (zs a.i_target) (zs a.i_cur) (zs a.p_out) (zs a.p_in)
    (zs a.p_top) (zs a.p_end) (zs a.t_start) (zs a.t_end)

let run_v1 (path : string) =
  let lines = read_lines path in
  let cases = ref 0 and steps = ref 0 and nontrivial = ref 0 in
  let case = ref "" and step = ref 0 in
  let cf = ref { v_buffer = zzero; v_cusp = zzero; v_dur = zzero; v_dust = zzero; v_dout = zzero; v_din = zzero; v_lend = false; v_bonus = zzero } in
  let st = ref { v_led = (fun _ -> zzero); v_netfee = None } in
  let live : v1m list ref = ref [] in
  let rebase = ref true in
  let prevL : v1obs option ref = ref None and curL : v1obs option ref = ref None in
  let prevA : (string * v1auc) list ref = ref [] and curA : (string * v1auc) list ref = ref [] in
  let info : (string, BinNums.coq_Z * BinNums.coq_Z) Hashtbl.t = Hashtbl.create 8 in       (* aid -> target, collateral *)
  let sums : (string, BinNums.coq_Z * BinNums.coq_Z * BinNums.coq_Z) Hashtbl.t = Hashtbl.create 8 in
  let last_bid : (string * int * string) option ref = ref None in
  let last_tick = ref false in
  let good_bid = ref false in
  (* lend: what the MODEL says a closed auction left of its locked borrow (by LockedVaultId), checked against the
     start op of the next auction on the same locked borrow *)
  let lv_left : (string, v1lv) Hashtbl.t = Hashtbl.create 8 in
  let curK : (string * (string * bool * v1lv)) list ref = ref [] in
  let show_lv (l : v1lv) = zs l.lv_in ^ "," ^ zs l.lv_out ^ "," ^ zs l.lv_uout in
  let sig_ = Buffer.create 256 in
  let end_case () =
    if !case <> "" then begin
      incr cases; if !good_bid then incr nontrivial;
      Hashtbl.replace distinct (Digest.string (Buffer.contents sig_)) ()
    end in
  (* one bid on the model; [feeds] = (debt feed, collateral feed) as the harness found them at the bid *)
  let do_bid aid who amt wrong (pin, pout) cls =
    match L.find_opt (fun m -> m.vid = aid) !live with
    | None -> if cls <> "err" then mismatch ~case:!case ~step:!step ~field:"v1.bid.result" ~model:"err(no auction)" ~impl:cls
    | Some m ->
      (* classify what the close has to decide, for the evidence histograms *)
      (if !cf.v_lend then
         match v1_place_bid_core !cf m.vao m.vau !st (z who) (z amt) (bool_of_tok wrong) with
         | Base.Ok ((_, None), _) ->
           (match v1_lend_unliquidate !cf m.vlv m.vau.i_target pin pout with
            | Base.Ok None ->
              bump "v1:lend_close:borrow_cleared";
              if pin = None || pout = None then bump "v1:lend_close:borrow_cleared_no_feed_needed_and_one_inactive"
            | Base.Ok (Some _) -> bump "v1:lend_close:ratio_computed"
            | Base.Err _ ->
              bump "v1:lend_close:refused_feed_inactive";
              bump (if pout = None then "v1:lend_close:refused_collateral_feed" else "v1:lend_close:refused_debt_feed")
            | Base.Panic -> bump "v1:lend_close:panic")
         | _ -> ());
      (match v1_place_bid !cf m.vao m.vlv m.vau !st (z who) (z amt) (bool_of_tok wrong) pin pout with
       | Base.Ok ((s', a'), r) ->
         if cls <> "ok" then mismatch ~case:!case ~step:!step ~field:"v1.bid.result" ~model:"ok" ~impl:cls
         else begin
           st := s';
           (match a' with
            | Some a -> m.vau <- a; bump "v1:bid:partial"
            | None ->
              live := L.filter (fun x -> x.vid <> aid) !live; bump "v1:bid:closing";
              if !cf.v_lend then Hashtbl.replace lv_left m.vlvid (v1_lv_after_close m.vlv m.vau.i_target));
           if r.w_reached then bump "v1:bid:target_reached";
           if BinInt.Z.gtb r.w_topup zzero then bump "v1:bid:sold_out_topup"
         end
       | Base.Err c ->
         bump ("v1:bid:err" ^ zs c);
         if cls <> "err" then mismatch ~case:!case ~step:!step ~field:"v1.bid.result" ~model:("err" ^ zs c) ~impl:cls
       | Base.Panic ->
         if cls <> "panic" then mismatch ~case:!case ~step:!step ~field:"v1.bid.result" ~model:"panic" ~impl:cls) in
  L.iter (fun line ->
      match tokens line with
      | "case" :: id :: buf :: cusp :: du :: dust :: dc :: dd :: lend :: bonus :: _ ->
        end_case ();
        case := id; step := 0;
        cf := { v_buffer = z buf; v_cusp = z cusp; v_dur = z du; v_dust = z dust; v_dout = z dc; v_din = z dd;
                v_lend = bool_of_tok lend; v_bonus = z bonus };
        st := { v_led = (fun _ -> zzero); v_netfee = None };
        live := []; rebase := true; prevL := None; curL := None; prevA := []; curA := [];
        Hashtbl.reset info; Hashtbl.reset sums; last_bid := None; last_tick := false; good_bid := false;
        Hashtbl.reset lv_left; curK := [];
        Buffer.clear sig_; Buffer.add_string sig_ (S.concat " " [buf; cusp; du; dust; dc; dd; lend; bonus])
      | "op" :: "start" :: aid :: coll :: ao :: pen :: fees :: now :: ai :: pi :: ao_act :: po :: cls :: _ ->
        incr step; incr steps; bump "v1:op:start";
        Buffer.add_string sig_ (";S" ^ coll ^ ":" ^ ao);
        (match v1_activate !cf (z coll) (z ao) (z pen) (z fees) (z now) (zopt ai pi) (zopt ao_act po) with
         | Base.Ok a ->
           live := !live @ [ { vid = aid; vao = z ao; vcoll = z coll; vau = a; vlv = v1_no_lv; vlvid = "" } ];
           Hashtbl.replace info aid (a.i_target, z coll)
         | Base.Err _ -> mismatch ~case:!case ~step:!step ~field:"v1.start.result" ~model:"err" ~impl:cls
         | Base.Panic -> mismatch ~case:!case ~step:!step ~field:"v1.start.result" ~model:"panic" ~impl:cls);
        rebase := true; last_bid := None; last_tick := false
      | "op" :: "lstart" :: aid :: coll :: target :: now :: ai :: pi :: ao_act :: po :: cls :: lvid :: lvin :: lvout :: lvuout :: _ ->
        (* lend: the auction's amounts and the locked borrow's are computed by the liquidation module; they are
           taken as observed at the start - except the two debt amounts of a locked borrow the model has
           already closed an auction on: those must be what the model's close left *)
        incr step; incr steps; bump "v1:op:lstart";
        Buffer.add_string sig_ (";LS" ^ coll ^ ":" ^ target ^ ":" ^ lvin ^ ":" ^ lvout);
        let lv = { lv_in = z lvin; lv_out = z lvout; lv_uout = z lvuout } in
        (match Hashtbl.find_opt lv_left lvid with
         | Some l ->
           bump "v1:lstart:again_on_same_locked_borrow";
           if not (zeq l.lv_out lv.lv_out) || not (zeq l.lv_uout lv.lv_uout) then
             mismatch ~case:!case ~step:!step ~field:"v1.lstart.locked_debt" ~model:(zs l.lv_out ^ "," ^ zs l.lv_uout) ~impl:(lvout ^ "," ^ lvuout)
         | None -> ());
        bump (if BinInt.Z.eqb lv.lv_in zzero then "v1:lstart:collateral_all_seized" else "v1:lstart:collateral_left");
        (match v1_activate !cf (z coll) (z target) zzero zzero (z now) (zopt ai pi) (zopt ao_act po) with
         | Base.Ok a ->
           live := !live @ [ { vid = aid; vao = zzero; vcoll = z coll; vau = a; vlv = lv; vlvid = lvid } ];
           Hashtbl.replace info aid (a.i_target, z coll)
         | Base.Err _ -> mismatch ~case:!case ~step:!step ~field:"v1.start.result" ~model:"err" ~impl:cls
         | Base.Panic -> mismatch ~case:!case ~step:!step ~field:"v1.start.result" ~model:"panic" ~impl:cls);
        (* may follow a closing bid (re-liquidation inside the same message): the bid stays the last op *)
        rebase := true; last_tick := false
      | "op" :: "nostart" :: _ ->
        incr step; incr steps; bump "v1:op:nostart"; rebase := true; last_bid := None; last_tick := false
      | "op" :: "tick" :: now :: ai :: pi :: ao_act :: po :: cls :: _ ->
        incr step; incr steps; bump "v1:op:tick";
        Buffer.add_string sig_ (";T" ^ now ^ ai ^ ao_act);
        if cls <> "ok" then mismatch ~case:!case ~step:!step ~field:"v1.tick.result" ~model:"ok" ~impl:cls;
        L.iter (fun m -> m.vau <- v1_tick !cf (z now) (zopt ai pi) (zopt ao_act po) m.vau) !live;
        last_bid := None; last_tick := true
      | "op" :: "bid" :: aid :: who :: amt :: wrong :: ai :: pi :: ao_act :: po :: cls :: _ ->
        (* lend harness: with the debt / collateral feed as found at the bid *)
        incr step; incr steps; bump "v1:op:bid"; bump ("v1:bid:" ^ cls);
        bump ("v1:bid:feeds_debt=" ^ ai ^ "_coll=" ^ ao_act);
        Buffer.add_string sig_ (";B" ^ aid ^ ":" ^ who ^ ":" ^ amt ^ wrong ^ ai ^ ao_act);
        do_bid aid who amt wrong (zopt ai pi, zopt ao_act po) cls;
        if cls = "panic" then bump "v1:bid:panic_observed";
        last_bid := Some (aid, int_of_string who, cls); last_tick := false
      | "op" :: "bid" :: aid :: who :: amt :: wrong :: cls :: _ ->
        (* vault harness: a vault bid reads no feed *)
        incr step; incr steps; bump "v1:op:bid"; bump ("v1:bid:" ^ cls);
        Buffer.add_string sig_ (";B" ^ aid ^ ":" ^ who ^ ":" ^ amt ^ wrong);
        if !cf.v_lend then failwith "lend bid without its price feeds";
        do_bid aid who amt wrong (None, None) cls;
        if cls = "panic" then bump "v1:bid:panic_observed";
        last_bid := Some (aid, int_of_string who, cls); last_tick := false
      | "L" :: rest ->
        let o = v1_parse_L rest in
        curL := Some o; curA := []; curK := [];
        if !rebase then begin
          let l = ref (fun _ -> zzero) in
          Array.iteri (fun i id -> l := upd !l id o.vb.(i)) v1_ids;
          st := { v_led = !l; v_netfee = (if o.nfound then Some o.nf else None) }; rebase := false
        end else begin
          if !cf.v_lend then begin
            (* lend: the close also books interest between pool and reserve; only their sum is compared *)
            Array.iteri (fun i id ->
                if i <> 5 && i <> 6 && i <> 3 && i <> 4 then begin
                  let mv = !st.v_led id in
                  if not (zeq mv o.vb.(i)) then
                    mismatch ~case:!case ~step:!step ~field:("v1.ledger." ^ v1_names.(i)) ~model:(zs mv) ~impl:(zs o.vb.(i)) end) v1_ids;
            let ms = zadd (!st.v_led coq_POOL_D) (!st.v_led coq_LEND_D) and is = zadd o.vb.(5) o.vb.(6) in
            if not (zeq ms is) then mismatch ~case:!case ~step:!step ~field:"v1.ledger.pool+reserve" ~model:(zs ms) ~impl:(zs is)
          end else begin
            Array.iteri (fun i id ->
                let mv = !st.v_led id in
                if not (zeq mv o.vb.(i)) then
                  mismatch ~case:!case ~step:!step ~field:("v1.ledger." ^ v1_names.(i)) ~model:(zs mv) ~impl:(zs o.vb.(i))) v1_ids;
            let mr = (match !st.v_netfee with Some r -> "1:" ^ zs r | None -> "0:0") in
            let ir = (if o.nfound then "1:" else "0:") ^ zs o.nf in
            if mr <> ir then mismatch ~case:!case ~step:!step ~field:"v1.netfee" ~model:mr ~impl:ir
          end
        end
      | "A" :: aid :: ocur :: itarget :: icur :: pout :: pin :: ptop :: pend :: s :: e :: _ ->
        curA := !curA @ [ (aid, { o_cur = z ocur; i_target = z itarget; i_cur = z icur; p_out = z pout; p_in = z pin;
                                  p_top = z ptop; p_end = z pend; t_start = z s; t_end = z e }) ]
      | "K" :: aid :: lvid :: found :: lvin :: lvout :: lvuout :: _ ->
        curK := !curK @ [ (aid, (lvid, bool_of_tok found, { lv_in = z lvin; lv_out = z lvout; lv_uout = z lvuout })) ]
      | "E" :: _ ->
        let ms = S.concat "|" (L.map (fun m -> m.vid ^ ":" ^ v1_show m.vau) !live) in
        let is = S.concat "|" (L.map (fun (aid, a) -> aid ^ ":" ^ v1_show a) !curA) in
        if ms <> is then mismatch ~case:!case ~step:!step ~field:"v1.auctions" ~model:ms ~impl:is;
        (* lend: the locked borrow behind every live auction is what the model holds for it *)
        if !cf.v_lend then begin
          let mk = S.concat "|" (L.map (fun m -> m.vid ^ ":" ^ m.vlvid ^ ":1:" ^ show_lv m.vlv) !live) in
          let ik = S.concat "|" (L.map (fun (aid, (lvid, f, l)) -> aid ^ ":" ^ lvid ^ ":" ^ tok_of_bool f ^ ":" ^ show_lv l) !curK) in
          if mk <> ik then mismatch ~case:!case ~step:!step ~field:"v1.locked_borrows" ~model:mk ~impl:ik
        end;
        let o = (match !curL with Some o -> o | None -> failwith "E without L") in
        (* price clauses between consecutive observations with the same StartTime *)
        if !last_tick then
          L.iter (fun (aid, a) ->
              match L.assoc_opt aid !prevA with
              | Some pa when zeq pa.t_start a.t_start ->
                if not (zeq pa.p_out a.p_out) then bump "v1:tick:price_moved";
                if not (holds_C10_price_mono a.p_top pa.p_out a.p_out) then
                  predfail ~case:!case ~step:!step ~pred:"holds_C10_price_mono(v1)" ~kf:"none"
                    ~detail:("aid=" ^ aid ^ "_prev=" ^ zs pa.p_out ^ "_cur=" ^ zs a.p_out)
                else if not (BinInt.Z.leb a.p_end a.p_out) then begin
                  (* below the stored end price: the same truncation as C10-F1 *)
                  let kf = if kf_C10_1 a.p_top !cf.v_cusp !cf.v_dur then "kf_C10_1" else "none" in
                  predfail ~case:!case ~step:!step ~pred:"holds_C10_price(v1)" ~kf
                    ~detail:("aid=" ^ aid ^ "_price=" ^ zs a.p_out ^ "_end=" ^ zs a.p_end)
                end
              | Some _ -> bump "v1:tick:restart"
              | None -> ()) !curA;
        (* the bid clauses, from the IMPLEMENTATION's balances *)
        (match !last_bid, !prevL with
         | Some (aid, who, "ok"), Some pl ->
           good_bid := true;
           (match L.assoc_opt aid !prevA, Hashtbl.find_opt info aid with
            | Some pa, Some (target, coll) ->
              let paid = zsub pl.vb.(8 + 2 * who) o.vb.(8 + 2 * who) in
              let recv = zsub o.vb.(7 + 2 * who) pl.vb.(7 + 2 * who) in
              let slice = (match L.assoc_opt aid !curA with
                  | Some ca -> zsub pa.o_cur ca.o_cur
                  | None -> zsub pa.o_cur (zsub o.vb.(2) pl.vb.(2))) in      (* closed: what did not go to the owner *)
              let tab = zsub pa.i_target pa.i_cur in
              let bonus = if !cf.v_lend then !cf.v_bonus else zzero in
              if not (holds_C10_v1_bid !cf.v_dout !cf.v_din pa.p_out pa.p_in bonus pa.o_cur tab paid recv slice) then
                predfail ~case:!case ~step:!step ~pred:"holds_C10_v1_bid" ~kf:"none"
                  ~detail:("aid=" ^ aid ^ "_paid=" ^ zs paid ^ "_recv=" ^ zs recv ^ "_slice=" ^ zs slice);
              let (sp, ss, sb) = (try Hashtbl.find sums aid with Not_found -> (zzero, zzero, zzero)) in
              let sp = zadd sp paid and ss = zadd ss slice and sb = zadd sb (zsub recv slice) in
              Hashtbl.replace sums aid (sp, ss, sb);
              if not (holds_C10_v1_totals target coll bonus sp ss sb) then
                predfail ~case:!case ~step:!step ~pred:"holds_C10_v1_totals" ~kf:"none"
                  ~detail:("aid=" ^ aid ^ "_paid=" ^ zs sp ^ "_slices=" ^ zs ss ^ "_bonus=" ^ zs sb)
            | _ -> ())
         | _ -> ());
        (* custody: the auction account holds the live auctions' collateral (vault: and the debt collected so far) *)
        let sum_c = L.fold_left (fun acc (_, a) -> zadd acc a.o_cur) zzero !curA in
        let sum_d = if !cf.v_lend then zzero else L.fold_left (fun acc (_, a) -> zadd acc a.i_cur) zzero !curA in
        let res_c = zsub o.vb.(0) sum_c and res_d = zsub o.vb.(1) sum_d in
        if not !cf.v_lend then begin
          if not (holds_C10_v1_custody res_c res_d) then
            predfail ~case:!case ~step:!step ~pred:"holds_C10_v1_custody" ~kf:"none" ~detail:("res_c=" ^ zs res_c ^ "_res_d=" ^ zs res_d)
        end else begin
          (* lend: everything that ever entered the account went to bidders / owners or is still there; the
             accounting identity of c10_v1_custody must hold at every step, the custody clause itself once no
             auction is live (while one is, the pre-funded bonus still to be paid sits in the account) *)
          let funded = zadd (zadd o.vb.(0) o.vb.(2)) (zadd o.vb.(7) (zadd o.vb.(9) o.vb.(11))) in
          let coll_total = Hashtbl.fold (fun _ (_, c) acc -> zadd acc c) info zzero in
          let bonus_total = Hashtbl.fold (fun _ (_, _, b) acc -> zadd acc b) sums zzero in
          if not (zeq res_c (zsub (zsub funded coll_total) bonus_total)) || BinInt.Z.ltb res_c zzero || not (zeq res_d zzero) then
            predfail ~case:!case ~step:!step ~pred:"v1_lend_accounting" ~kf:"none"
              ~detail:("res_c=" ^ zs res_c ^ "_res_d=" ^ zs res_d ^ "_funded=" ^ zs funded ^ "_coll=" ^ zs coll_total ^ "_bonus=" ^ zs bonus_total)
          else if !curA = [] && not (holds_C10_v1_custody res_c res_d) then begin
            let kf = if kf_C10_4 true funded coll_total bonus_total then "kf_C10_4" else "none" in
            predfail ~case:!case ~step:!step ~pred:"holds_C10_v1_custody" ~kf ~detail:("res_c=" ^ zs res_c ^ "_no_auction_live")
          end
        end;
        prevL := Some o; prevA := !curA
      | _ -> ()) lines;
  end_case ();
  finish ~cases:!cases ~steps:!steps ~nontrivial:!nontrivial

let () = Conv.register "C10-v1" run_v1
