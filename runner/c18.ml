(* C18 runner: replays the accrual / rate observations on the extracted models (Accrual, Rates,
   F64), diffs result class and values, evaluates the extracted predicates holds_C18_* on the
   IMPLEMENTATION's results, tests the math.Pow hypotheses H1-H4 on every observed point. *)
open Conv

let zs = z_of_string
let sz = string_of_z
let zz = zz_of_z

(* IEEE-754 binary64 bit pattern -> integer in units of 2^-1074 (non-finite -> 2^2098) *)
let units_of_bits (s : string) : Z.t =
  let b = Z.of_string s in
  let sign = Z.testbit b 63 in
  let e = Z.to_int (Z.logand (Z.shift_right b 52) (Z.of_int 0x7ff)) in
  let m = Z.logand b (Z.pred (Z.shift_left Z.one 52)) in
  let v = if e = 0 then m else if e = 2047 then Z.shift_left Z.one 2098
    else Z.shift_left (Z.add (Z.shift_left Z.one 52) m) (e - 1) in
  if sign then Z.neg v else v

let cls_of (o : 'a Base.outcome) = match o with Base.Ok _ -> "ok" | Base.Err _ -> "err" | Base.Panic -> "panic"
let p18 = Z.of_string "1000000000000000000"
let fone = Z.shift_left Z.one 1074

type cobs = { ca : BinNums.coq_Z; cr : BinNums.coq_Z; ct : BinNums.coq_Z; cres : BinNums.coq_Z;
              cx : Z.t; cy : Z.t; cf : Z.t }

let run (path : string) =
  let lines = read_lines path in
  let cases = ref 0 and steps = ref 0 and nontrivial = ref 0 in
  let case = ref "" and step = ref 0 and nt = ref false in
  let sig_ = Buffer.create 256 in
  (* previous observations of the current case *)
  let prevL : (string * BinNums.coq_Z * BinNums.coq_Z * BinNums.coq_Z * BinNums.coq_Z) list ref = ref [] in
  let prevS = ref [] in
  let prevC : cobs list ref = ref [] in
  let params : BinNums.coq_Z array ref = ref [||] in
  let prevR : (BinNums.coq_Z * BinNums.coq_Z * BinNums.coq_Z) list ref = ref [] in  (* u, bapr, sapr (ok only) *)
  let accepted = ref false in
  let p18z = zs "1000000000000000000" in
  let is_ok = function Base.Ok _ -> true | _ -> false in
  let rp_of (a : BinNums.coq_Z array) : Rates.rate_params =
    { Rates.rp_asset = a.(0); rp_uopt = a.(1); rp_base = a.(2); rp_s1 = a.(3); rp_s2 = a.(4); rp_sbase = a.(5); rp_ss1 = a.(6);
      rp_ss2 = a.(7); rp_liqthr = a.(8); rp_liqbonus = a.(9); rp_liqpen = a.(10); rp_ltv = a.(11); rp_rf = a.(12); rp_casset = a.(13) } in
  let max_en = ref Z.zero and max_err53 = ref Z.zero and h4n = ref 0 in
  let end_case () =
    if !case <> "" then begin
      incr cases; if !nt then incr nontrivial;
      Hashtbl.replace distinct (Digest.string (Buffer.contents sig_)) ()
    end in
  let pf pred kf detail = predfail ~case:!case ~step:!step ~pred ~kf ~detail in
  let cmpf field model impl = if model <> impl then mismatch ~case:!case ~step:!step ~field ~model ~impl in
  let dom3 a r g = BinInt.Z.leb BinNums.Z0 a && BinInt.Z.leb BinNums.Z0 r && BinInt.Z.ltb BinNums.Z0 g in
  let mono kind (a, r, t, res) (a', r', t', res') =
    if not (Accrual.holds_C18_monotone a r t res a' r' t' res') then
      pf ("monotone_" ^ kind) "none" (Printf.sprintf "%s,%s,%s->%s_vs_%s,%s,%s->%s" (sz a) (sz r) (sz t) (sz res) (sz a') (sz r') (sz t') (sz res'));
    if not (Accrual.holds_C18_monotone a' r' t' res' a r t res) then
      pf ("monotone_" ^ kind) "none" (Printf.sprintf "%s,%s,%s->%s_vs_%s,%s,%s->%s" (sz a') (sz r') (sz t') (sz res') (sz a) (sz r) (sz t) (sz res)) in
  L.iter (fun line ->
      match tokens line with
      | "case" :: id :: kind :: _ ->
        end_case (); case := id; step := 0; nt := false; Buffer.clear sig_; Buffer.add_string sig_ kind;
        prevL := []; prevS := []; prevC := []; prevR := []; accepted := false; bump ("kind:" ^ kind)
      | "params" :: rest -> params := Array.of_list (L.map zs rest); Buffer.add_string sig_ line
      | "o" :: "L" :: now :: last :: amt :: rate :: gi :: c :: nw :: igc :: [] ->
        incr step; incr steps; Buffer.add_string sig_ line; bump ("L:" ^ c);
        let now, last, amt, rate, gi = zs now, zs last, zs amt, zs rate, zs gi in
        let m = Accrual.lend_reward now last amt rate gi in
        cmpf "L.class" (cls_of m) c;
        (match m with Base.Ok (n, i) -> cmpf "L.new" (sz n) nw; cmpf "L.index" (sz i) igc | _ -> ());
        if c = "ok" && dom3 amt rate gi then begin
          let res = zs nw in let secs = Accrual.lend_secs now last in
          if not (BinInt.Z.eqb res BinNums.Z0) then nt := true;
          if not (Accrual.holds_C18_nonneg res) then pf "idx_nonneg" "none" nw;
          if not (BinInt.Z.leb gi (zs igc)) then pf "idx_index_nondecreasing" "none" igc;
          if not (Accrual.holds_C18_zero_time secs res) then pf "idx_zero_time" "none" nw;
          L.iter (fun (g', a', r', t', res') -> if g' = sz gi then mono "idx" (a', r', t', res') (amt, rate, secs, res)) !prevL;
          prevL := (sz gi, amt, rate, secs, res) :: !prevL
        end
      | "o" :: "B" :: now :: last :: amt :: rate :: rrate :: gi :: rgi :: c :: n1 :: i1 :: n2 :: i2 :: [] ->
        incr step; incr steps; Buffer.add_string sig_ line; bump ("B:" ^ c);
        let now, last, amt, rate, rrate, gi, rgi = zs now, zs last, zs amt, zs rate, zs rrate, zs gi, zs rgi in
        let m = Accrual.borrow_interest now last amt rate rrate gi rgi in
        cmpf "B.class" (cls_of m) c;
        (match m with Base.Ok ((a1, b1), (a2, b2)) ->
           cmpf "B.new" (sz a1) n1; cmpf "B.index" (sz b1) i1; cmpf "B.reserve" (sz a2) n2; cmpf "B.rindex" (sz b2) i2 | _ -> ());
        if c = "ok" && dom3 amt rate gi && dom3 amt rrate rgi then begin
          let secs = Accrual.lend_secs now last in
          if not (BinInt.Z.eqb (zs n1) BinNums.Z0) then nt := true;
          if not (Accrual.holds_C18_nonneg (zs n1) && Accrual.holds_C18_nonneg (zs n2)) then pf "borrow_nonneg" "none" (n1 ^ "," ^ n2);
          if not (Accrual.holds_C18_zero_time secs (zs n1) && Accrual.holds_C18_zero_time secs (zs n2)) then pf "borrow_zero_time" "none" n1;
          L.iter (fun (g', a', r', t', res') -> if g' = sz gi then mono "borrow" (a', r', t', res') (amt, rate, secs, zs n1)) !prevL;
          prevL := (sz gi, amt, rate, secs, zs n1) :: !prevL
        end
      | "o" :: "S" :: now :: last :: amt :: perc :: c :: nw :: [] ->
        incr step; incr steps; Buffer.add_string sig_ line; bump ("S:" ^ c);
        let now, last, amt, perc = zs now, zs last, zs amt, zs perc in
        let m = Accrual.stable_interest now last amt perc in
        cmpf "S.class" (cls_of m) c;
        (match m with Base.Ok n -> cmpf "S.new" (sz n) nw | _ -> ());
        if c = "ok" then begin
          let res = zs nw in let secs = Accrual.lend_secs now last in
          if not (BinInt.Z.eqb res BinNums.Z0) then nt := true;
          if not (Accrual.holds_C18_nonneg res) then pf "stable_nonneg" "none" nw;
          if not (Accrual.holds_C18_zero_time secs res) then pf "stable_zero_time" "none" nw;
          L.iter (fun o' -> mono "stable" o' (amt, perc, secs, res)) !prevS;
          prevS := (amt, perc, secs, res) :: !prevS
        end
      | "o" :: "C" :: now :: btime :: amt :: lsr_ :: c :: nw :: xb :: yb :: fb :: [] ->
        incr step; incr steps; Buffer.add_string sig_ line; bump ("C:" ^ c);
        let now, btime, amt, lsr_ = zs now, zs btime, zs amt, zs lsr_ in
        let x, y, f = units_of_bits xb, units_of_bits yb, units_of_bits fb in
        let fz = z_of_zz f in
        (* math.Pow = its exact special cases around the observed value *)
        let m = AccrualFast.calculation_of_rewards_fast (Pow.go_pow (fun _ _ -> fz)) now btime amt lsr_ in
        cmpf "C.class" (cls_of m) c;
        (match m with Base.Ok n -> cmpf "C.new" (sz n) nw | _ -> ());
        let secs = BinInt.Z.sub now btime in
        if c = "ok" then begin
          (* the Dec -> float64 conversions of the operands *)
          cmpf "C.to64_x" (sz (AccrualFast.cmp_xf lsr_)) (Z.to_string x);
          cmpf "C.to64_y" (sz (AccrualFast.cmp_yf secs)) (Z.to_string y);
          let res = zs nw in
          if not (BinInt.Z.eqb res BinNums.Z0) then nt := true;
          (* hypotheses on math.Pow, tested *)
          let xz, yz = z_of_zz x, z_of_zz y in
          (* the modelled special cases of math.Pow (y == 0 || x == 1 -> 1, y == 1 -> x) against the observed value *)
          cmpf "C.pow_special_cases" (sz (Pow.go_pow (fun _ _ -> fz) xz yz)) (sz fz);
          if BinInt.Z.eqb yz BinNums.Z0 || Z.equal x fone || Z.equal y fone then bump "pow:special-case";
          (* derived facts, for information *)
          bump (if Accrual.h1_ok xz yz fz then "pow:ge1:ok" else "pow:ge1:FAIL");
          (* relative error against the exact power when the exponent is a whole number of years *)
          (if Z.sign y > 0 && Z.equal (Z.rem y fone) Z.zero then begin
              let k = Z.to_int (Z.div y fone) in
              if k >= 1 && k <= 40 then begin
                let xk = Z.pow x k and fs = Z.mul f (Z.pow fone (k - 1)) in
                let e = Z.div (Z.mul (Z.abs (Z.sub fs xk)) (Z.shift_left Z.one 53)) xk in
                if Z.gt e !max_err53 then max_err53 := e; bump "pow:H4:exact-checked"
              end end);
          if not (Accrual.holds_C18_nonneg res) then pf "cmp_nonneg" "none" nw;
          if not (Accrual.holds_C18_zero_time secs res) then pf "cmp_zero_time" "none" nw;
          let o = { ca = amt; cr = lsr_; ct = secs; cres = res; cx = x; cy = y; cf = f } in
          L.iter (fun o' ->
              (* the assumed hypothesis PowMonoBox, tested on this pair; a failure breaks the tie of the proof to the code *)
              if Pow.pow_mono_ok (z_of_zz o'.cx) (z_of_zz o'.cy) (z_of_zz o'.cf) xz yz fz
                 && Pow.pow_mono_ok xz yz fz (z_of_zz o'.cx) (z_of_zz o'.cy) (z_of_zz o'.cf) then bump "pow:mono:ok"
              else begin bump "pow:mono:FAIL"; mismatch ~case:!case ~step:!step ~field:"hypothesis.PowMonoBox" ~model:"monotone" ~impl:(Printf.sprintf "pow(%s,%s)=%s_vs_pow(%s,%s)=%s" (Z.to_string o'.cx) (Z.to_string o'.cy) (Z.to_string o'.cf) (Z.to_string x) (Z.to_string y) (Z.to_string f)) end;
              mono "cmp" (o'.ca, o'.cr, o'.ct, o'.cres) (amt, lsr_, secs, res)) !prevC;
          prevC := o :: !prevC
        end
      | "sub" :: "L" :: amt :: g1 :: g2 :: g12 :: n1 :: n2 :: n12 :: [] ->
        bump "sub:L";
        if BinInt.Z.ltb BinNums.Z0 (zs g1) && BinInt.Z.ltb BinNums.Z0 (zs g2) then begin
          if not (Accrual.holds_C18_idx_subadditive (zs amt) (zs g1) (zs g2) (zs g12) (zs n1) (zs n2) (zs n12)) then
            pf "idx_subadditive" "none" (Printf.sprintf "%s+%s>%s+slack" n1 n2 n12);
          let ex = Z.sub (Z.add (Z.of_string n1) (Z.of_string n2)) (Z.of_string n12) in
          if Z.sign ex > 0 then bump "sub:L:excess>0"
        end
      | "sub" :: "S" :: n1 :: n2 :: n12 :: [] ->
        bump "sub:S";
        if not (Accrual.holds_C18_stable_subadditive (zs n1) (zs n2) (zs n12)) then pf "stable_subadditive" "none" (n1 ^ "+" ^ n2 ^ ">" ^ n12)
      | "sub" :: "C" :: amt :: n1 :: n2 :: n12 :: [] ->
        bump "sub:C";
        (match !prevC with
         | o12 :: o2 :: o1 :: _ when Z.geq o1.cf fone && Z.geq o2.cf fone ->
           (* H4: smallest en with f1*f2 <= (1 + en/2^53) * f12 *)
           let num = Z.sub (Z.mul (Z.mul o1.cf o2.cf) (Z.shift_left Z.one 53)) (Z.mul (Z.mul (Z.shift_left Z.one 53) o12.cf) fone) in
           let en = if Z.sign num <= 0 then Z.zero else Z.cdiv num (Z.mul o12.cf fone) in
           incr h4n; if Z.gt en !max_en then max_en := en;
           if Accrual.h4_ok (z_of_int 4096) (z_of_zz o1.cf) (z_of_zz o2.cf) (z_of_zz o12.cf) then bump "pow:H4:ok(en<=4096)"
           else begin bump "pow:H4:FAIL(en>4096)"; mismatch ~case:!case ~step:!step ~field:"hypothesis.H4" ~model:"en<=4096" ~impl:(Z.to_string en) end;
           (* the proved bound (c18_cmp_subadditive), judged on the implementation's three results with the en measured for this triple:
              n1 + n2 <= n12 + amtf * f12 * (en + 5) * 2^-53 + 2 ulp *)
           let amtf = Accrual.cmp_amtf (zs amt) in
           if not (Pow.holds_C18_cmp_subadditive (z_of_zz en) amtf (z_of_zz o12.cf) (zs n1) (zs n2) (zs n12)) then
             pf "cmp_subadditive" "none" (Printf.sprintf "%s+%s>%s+slack(en=%s)" n1 n2 n12 (Z.to_string en));
           if Z.gt (Z.add (Z.of_string n1) (Z.of_string n2)) (Z.of_string n12) then bump "sub:C:excess>0"
         | _ -> ())
      | "v" :: v1 :: v2 :: v3 :: v4 :: v5 :: v6 :: st :: v7 :: nlen :: hd :: [] ->
        incr step; incr steps; Buffer.add_string sig_ line;
        (* every validation path, against the model of Validate / the keeper add functions *)
        let p = rp_of !params in
        let vc b = if b then "ok" else "err" in
        let valid = Rates.rates_valid p in
        let ppv = Rates.pool_pairs_valid p (zs nlen) (hd = "1") in
        cmpf "V.AssetRatesParams.Validate" (vc valid) v1;
        cmpf "V.AssetRatesPoolPairs.Validate" (vc ppv) v2;
        cmpf "V.AddAssetRatesParams.ValidateBasic" (vc valid) v3;
        cmpf "V.AddAssetRatesPoolPairsProposal.ValidateBasic" (vc ppv) v4;
        cmpf "V.GenesisState.Validate" (vc valid) v5;
        cmpf "V.handler.AddAssetRatesParams" (cls_of (Rates.add_rates_params p)) v6;
        cmpf "V.stored" (if is_ok (Rates.add_rates_params p) then "1" else "0") st;
        cmpf "V.keeper.AddAssetRatesPoolPairs" (cls_of (Rates.add_rates_pool_pairs p (zs nlen) (hd = "1") false)) v7;
        accepted := (v6 = "ok");
        bump ("V:handler:" ^ v6);
        if BinInt.Z.leb p18z p.Rates.rp_uopt then bump ("V:uopt>=1:handler:" ^ v6);
        if v6 = "ok" then nt := true
      | "o" :: "R" :: m_ :: b_ :: c1 :: ut :: c2 :: ba :: c3 :: sa :: c4 :: la :: [] ->
        incr step; incr steps; Buffer.add_string sig_ line;
        let p = rp_of !params in
        let uopt, base, s1, sbase, ss1, rf = p.Rates.rp_uopt, p.Rates.rp_base, p.Rates.rp_s1, p.Rates.rp_sbase, p.Rates.rp_ss1, p.Rates.rp_rf in
        let mu = Rates.utilisation (zs m_) (zs b_) in
        let oc = function Some _ -> "ok" | None -> "panic" in
        let ov = function Some v -> sz v | None -> "0" in
        cmpf "R.util.class" (oc mu) c1; cmpf "R.util" (ov mu) ut;
        (match mu with
         | Some u ->
           let mb = Rates.borrow_apr p false u and ms = Rates.borrow_apr p true u in
           cmpf "R.borrow.class" (oc mb) c2; cmpf "R.borrow" (ov mb) ba;
           cmpf "R.stable.class" (oc ms) c3; cmpf "R.stable" (ov ms) sa;
           let ml = Rates.lend_apr_p p u in
           cmpf "R.lend.class" (oc ml) c4; cmpf "R.lend" (ov ml) la
         | None -> ());
        bump ("R:" ^ c2);
        (* the rate is defined wherever the IMPLEMENTATION accepted the parameters *)
        if c1 = "ok" && not (Rates.holds_C18_rate_defined !accepted (Rates.rates_bounded p) (zs ut) (c2 = "panic" || c3 = "panic" || c4 = "panic")) then
          pf "rate_defined" "none" (Printf.sprintf "uopt=%s_u=%s" (sz uopt) ut);
        let in_dom = !accepted || (BinInt.Z.ltb BinNums.Z0 uopt && BinInt.Z.ltb uopt p18z) in
        if in_dom && c1 = "ok" && c2 = "ok" && c3 = "ok" then begin
          let u = zs ut in nt := true;
          if not (Rates.holds_C18_rate_base u base (zs ba)) then pf "rate_base" "none" ba;
          if not (Rates.holds_C18_rate_base u sbase (zs sa)) then pf "rate_base_stable" "none" sa;
          L.iter (fun (u', ba', sa') ->
              if not (Rates.holds_C18_rate_monotone u' ba' u (zs ba)) then pf "rate_monotone" "none" (Printf.sprintf "u=%s:%s_u=%s:%s" (sz u') (sz ba') ut ba);
              if not (Rates.holds_C18_rate_monotone u' sa' u (zs sa)) then pf "rate_monotone_stable" "none" (Printf.sprintf "u=%s:%s_u=%s:%s" (sz u') (sz sa') ut sa);
              if BinInt.Z.eqb u uopt && BinInt.Z.eqb u' (BinInt.Z.sub uopt (z_of_int 1)) then begin
                bump "R:kink-pair";
                if not (Rates.holds_C18_rate_kink uopt s1 (zs ba) ba') then pf "rate_kink" "none" (Printf.sprintf "%s_vs_%s" ba (sz ba'));
                if not (Rates.holds_C18_rate_kink uopt ss1 (zs sa) sa') then pf "rate_kink_stable" "none" (Printf.sprintf "%s_vs_%s" sa (sz sa'))
              end) !prevR;
          if c4 = "ok" && not (Rates.holds_C18_lend_le_borrow rf (zs la) (zs ba)) then pf "lend_le_borrow" "none" (la ^ ">" ^ ba);
          prevR := (u, zs ba, zs sa) :: !prevR
        end
      | _ -> ()
    ) lines;
  end_case ();
  Printf.printf "SAMPLE pow_H4_quasi_multiplicative: max en=%s (eps = en * 2^-53) over %d interval triples\n" (Z.to_string !max_en) !h4n;
  Printf.printf "SAMPLE pow_relative_error_vs_exact_power(whole years): max %s * 2^-53\n" (Z.to_string !max_err53);
  finish ~cases:!cases ~steps:!steps ~nontrivial:!nontrivial

let () = Conv.register "C18" run
