(* Conversions between OCaml strings / zarith and the extracted Coq numbers; token helpers.
   Trusted for the correspondence only. NOTE: the extracted [List] shadows Stdlib's. *)
module L = Stdlib.List
module S = Stdlib.String

let rec pos_of_zz (z : Z.t) : BinNums.positive =
  if Z.equal z Z.one then BinNums.Coq_xH
  else if Z.testbit z 0 then BinNums.Coq_xI (pos_of_zz (Z.shift_right z 1))
  else BinNums.Coq_xO (pos_of_zz (Z.shift_right z 1))

let z_of_zz (z : Z.t) : BinNums.coq_Z =
  let s = Z.sign z in
  if s = 0 then BinNums.Z0
  else if s > 0 then BinNums.Zpos (pos_of_zz z)
  else BinNums.Zneg (pos_of_zz (Z.neg z))

let rec zz_of_pos (p : BinNums.positive) : Z.t =
  match p with
  | BinNums.Coq_xH -> Z.one
  | BinNums.Coq_xO q -> Z.shift_left (zz_of_pos q) 1
  | BinNums.Coq_xI q -> Z.succ (Z.shift_left (zz_of_pos q) 1)

let zz_of_z (z : BinNums.coq_Z) : Z.t =
  match z with
  | BinNums.Z0 -> Z.zero
  | BinNums.Zpos p -> zz_of_pos p
  | BinNums.Zneg p -> Z.neg (zz_of_pos p)

let z_of_string (s : string) : BinNums.coq_Z = z_of_zz (Z.of_string s)
let string_of_z (z : BinNums.coq_Z) : string = Z.to_string (zz_of_z z)
let z_of_int (i : int) : BinNums.coq_Z = z_of_zz (Z.of_int i)
let int_of_z (z : BinNums.coq_Z) : int = Z.to_int (zz_of_z z)

let rec nat_of_int (i : int) : Datatypes.nat = if i <= 0 then Datatypes.O else Datatypes.S (nat_of_int (i - 1))

let bool_of_tok s = (s = "1" || s = "true" || s = "t")
let tok_of_bool b = if b then "1" else "0"

let tokens (line : string) : string list =
  L.filter (fun s -> s <> "") (S.split_on_char ' ' (S.trim line))

(* read all lines of a file *)
let read_lines (path : string) : string list =
  let ic = open_in path in
  let rec go acc = match input_line ic with
    | l -> go (l :: acc)
    | exception End_of_file -> close_in ic; L.rev acc in
  go []

(* take n tokens *)
let rec take n l = if n <= 0 then ([], l) else match l with
  | [] -> failwith "take: short line"
  | x :: r -> let (a, b) = take (n - 1) r in (x :: a, b)

(* ---------------- report ---------------- *)
let mismatches = ref 0
let predfails_kf = ref 0
let predfails = ref 0
let hist : (string, int) Hashtbl.t = Hashtbl.create 64
let bump k = Hashtbl.replace hist k (1 + (try Hashtbl.find hist k with Not_found -> 0))
let distinct : (string, unit) Hashtbl.t = Hashtbl.create 1024

let mismatch ~case ~step ~field ~model ~impl =
  incr mismatches;
  if !mismatches <= 50 then
    Printf.printf "MISMATCH case=%s step=%d field=%s model=%s impl=%s\n" case step field model impl

let predfail ~case ~step ~pred ~kf ~detail =
  if kf = "none" then incr predfails else incr predfails_kf;
  (* print caps are per class, so that many failures inside a known class can never hide a
     failure outside every class (kf = "none") *)
  if (if kf = "none" then !predfails <= 200 else !predfails_kf <= 200) then
    Printf.printf "PREDFAIL case=%s step=%d pred=%s kf=%s detail=%s\n" case step pred kf detail;
  bump ("predfail:" ^ pred ^ ":" ^ kf)

let finish ~cases ~steps ~nontrivial =
  Printf.printf "STAT cases=%d steps=%d nontrivial=%d distinct=%d mismatches=%d predfails=%d predfails_kf=%d\n"
    cases steps nontrivial (Hashtbl.length distinct) !mismatches !predfails !predfails_kf;
  Hashtbl.iter (fun k v -> Printf.printf "HIST %s %d\n" k v) hist

(* ---------------- registry: each cXX.ml registers its entry point ---------------- *)
let registry : (string, string -> unit) Hashtbl.t = Hashtbl.create 32
let register (name : string) (f : string -> unit) = Hashtbl.replace registry name f
