(* C20 runner.  Reads the genesis round-trip trace of harness/c20_test.go.
   Correspondence: for every (module, prefix) observed in a store, the prediction of the extracted
   table + model ([Genesis.predict], [Genesis.counter_restore]) is compared with what the real
   ExportGenesis -> JSON -> InitGenesis did (identical / zero records / empty / recomputed counter).
   (No prefix is predicted "zero records" since the repair of C20-F1, none of the collector is "at
   risk" since the repair of C20-F12: on an unrepaired tree the regenerated table predicts them again
   and the table theorem of Properties/C20.v fails.)
   Predicate: the extracted [holds_C20_prefix] on the implementation's two dumps and
   [holds_C20_step] on every continuation step; failures are classified by [kf_C20_class]. *)
open Conv
open GenesisTypes
open Genesis

let char_of_ascii (Ascii.Ascii (b0, b1, b2, b3, b4, b5, b6, b7)) =
  let v b i = if b then 1 lsl i else 0 in
  Char.chr (v b0 0 + v b1 1 + v b2 2 + v b3 3 + v b4 4 + v b5 5 + v b6 6 + v b7 7)

let rec ocaml_of_coq (s : String.string) : string =
  match s with
  | String.EmptyString -> ""
  | String.String (c, r) -> S.make 1 (char_of_ascii c) ^ ocaml_of_coq r

let rows : (string * int, prefix_row) Hashtbl.t = Hashtbl.create 256
let () = L.iter (fun p -> Hashtbl.replace rows (ocaml_of_coq p.p_mod, int_of_z p.p_byte) p) the_table.t_pref

type pline = { m : string; b : int; n_o : int; n_n : int; max_n : Z.t; last_n : Z.t;
               c_o : Z.t; c_n : Z.t; eo : (BinNums.coq_Z * BinNums.coq_Z) list; en : (BinNums.coq_Z * BinNums.coq_Z) list }

let rec pairs = function
  | k :: v :: r -> (z_of_string k, z_of_string v) :: pairs r
  | [] -> []
  | _ -> failwith "odd entry list"

let parse_p toks =
  match toks with
  | m :: b :: n_o :: n_n :: _max_o :: _last_o :: max_n :: last_n :: c_o :: c_n :: rest ->
    let rec split acc = function
      | "N" :: r -> (L.rev acc, r)
      | x :: r -> split (x :: acc) r
      | [] -> failwith "no N marker" in
    let rest = (match rest with "E" :: r -> r | _ -> failwith "no E marker") in
    let (e, n) = split [] rest in
    { m; b = int_of_string b; n_o = int_of_string n_o; n_n = int_of_string n_n; max_n = Z.of_string max_n;
      last_n = Z.of_string last_n; c_o = Z.of_string c_o; c_n = Z.of_string c_n; eo = pairs e; en = pairs n }
  | _ -> failwith "bad p line"

(* Conv.predfail prints only the first 200 failures of a run, known classes and unclassified ones
   together; a long run has thousands of known-class failures.  So that an unclassified failure is
   never cut off, each known class is reported through Conv.predfail at most [kf_cap] times per run
   and counted in the histogram ("predfail-more:<pred>:<kf>") after that. *)
let kf_cap = 12
let kf_seen : (string, int) Hashtbl.t = Hashtbl.create 16
let predfail ~case ~step ~pred ~kf ~detail =
  if kf = "none" then Conv.predfail ~case ~step ~pred ~kf ~detail
  else begin
    let n = (try Hashtbl.find kf_seen kf with Not_found -> 0) in
    Hashtbl.replace kf_seen kf (n + 1);
    if n < kf_cap then Conv.predfail ~case ~step ~pred ~kf ~detail
    else bump ("predfail-more:" ^ pred ^ ":" ^ kf)
  end

let class_code = function "ok" -> 0 | "err" -> 1 | "panic" -> 2 | _ -> 3
let is_zero z = (z = BinNums.Z0)

let run (path : string) =
  let lines = read_lines path in
  let cases = ref 0 and steps = ref 0 and nontrivial = ref 0 in
  let case = ref "" in
  let pbuf : pline list ref = ref [] in
  let live_seen = ref 0 and cont_seen = ref 0 in
  let flush () =
    let ps = L.rev !pbuf in
    pbuf := [];
    let stats : (string * int, pline) Hashtbl.t = Hashtbl.create 64 in
    L.iter (fun p -> Hashtbl.replace stats (p.m, p.b) p) ps;
    L.iter (fun p ->
        incr steps;
        let field = Printf.sprintf "%s.%d" p.m p.b in
        match Hashtbl.find_opt rows (p.m, p.b) with
        | None ->
          (* a store prefix the translator did not see *)
          mismatch ~case:!case ~step:!steps ~field:("unknown-prefix:" ^ field) ~model:"no-row" ~impl:(string_of_int p.n_o)
        | Some row ->
          let counter = row.p_counter in
          let norm es = if counter then L.filter (fun (_, v) -> not (is_zero v)) es else es in
          let eo = norm p.eo and en = norm p.en in
          if eo <> [] then incr live_seen;
          let equal = holds_C20_prefix eo en in
          let code = int_of_z (predict the_table row) in
          bump (Printf.sprintf "predict:%d" code);
          if eo <> [] || en <> [] then bump ("module:" ^ p.m);
          let obs = if equal then "identical" else if en = [] then "empty" else "differs" in
          (match code with
           | 0 -> if not equal then mismatch ~case:!case ~step:!steps ~field ~model:"identical" ~impl:obs
           | 1 -> if eo <> [] && equal then mismatch ~case:!case ~step:!steps ~field ~model:"zero-records" ~impl:obs
           | 2 -> if en <> [] then mismatch ~case:!case ~step:!steps ~field ~model:"empty" ~impl:obs
           | 3 ->
             let (k, items) = restore_code (counter_restore the_table row.p_mod row.p_byte) in
             let its = L.filter_map (fun b -> Hashtbl.find_opt stats (p.m, int_of_z b)) items in
             (* the records the counter is computed from share their prefix with records imported from
                OTHER fields (auction V1: surplus, debt and dutch auctions all live under prefix 17, the
                counter is the id of the last DUTCH auction): the prefix dump does not tell them apart, so
                the value is not predicted (the prefix itself is still judged by holds_C20_prefix) *)
             let shared b =
               L.length (L.filter (fun r -> ocaml_of_coq r.i_mod = p.m && r.i_arg = AFields &&
                                            L.exists (fun w -> int_of_z w = int_of_z b) r.i_writes) the_table.t_imp) >= 2 in
             let k = if L.exists shared items then z_of_int 0 else k in
             let expected = (match int_of_z k with
                 | 1 -> Some (L.fold_left (fun a q -> Z.max a q.max_n) Z.zero its)
                 | 2 -> Some (L.fold_left (fun _ q -> q.last_n) Z.zero its)
                 | 3 -> Some (Z.of_int (L.fold_left (fun a q -> a + q.n_n) 0 its))
                 | 4 -> Some Z.zero
                 | _ -> None) in
             (match expected with
              | Some e ->
                let got = Z.max p.c_n Z.zero in
                if not (Z.equal e got) then
                  mismatch ~case:!case ~step:!steps ~field:(field ^ ":counter") ~model:(Z.to_string e) ~impl:(Z.to_string got)
              | None -> bump "counter:unpredicted")
           | 4 -> bump "unchecked:mismatch-row"
           | _ -> bump ("at-risk:" ^ obs));
          (* the property predicate on the implementation's observation *)
          if not equal then begin
            let c = int_of_z (kf_C20_class row.p_mod row.p_byte) in
            let kf = if c = 0 then "none" else Printf.sprintf "kf_C20_%d" c in
            predfail ~case:!case ~step:!steps ~pred:"holds_C20_prefix" ~kf
              ~detail:(Printf.sprintf "%s_prefix_%d_%s_n=%d->%d" p.m p.b obs p.n_o p.n_n)
          end) ps in
  let end_case () =
    flush ();
    if !case <> "" then begin
      incr cases;
      if !live_seen >= 20 && !cont_seen >= 10 then incr nontrivial
    end in
  L.iter (fun line ->
      match tokens line with
      | "case" :: id :: rest ->
        end_case ();
        case := id; live_seen := 0; cont_seen := 0;
        Hashtbl.replace distinct (Digest.string (S.concat " " rest)) ()
      | "p" :: toks -> pbuf := parse_p toks :: !pbuf
      | "imp" :: m :: cls :: [] ->
        incr steps; bump ("import:" ^ cls);
        if cls <> "ok" then
          predfail ~case:!case ~step:!steps ~pred:"import_no_panic" ~kf:"none" ~detail:(m ^ "_InitGenesis_" ^ cls)
      | "imp" :: m :: cls :: _ ->
        (* the whole-application lines: app-export / app-validate / app *)
        incr steps; bump ("import:" ^ cls);
        if cls <> "ok" then
          predfail ~case:!case ~step:!steps ~pred:"import_no_panic" ~kf:"none" ~detail:(m ^ "_" ^ cls)
      | "contd" :: _i :: name :: co :: cn :: ido :: idn :: bo :: bn :: _n :: deps ->
        (* a step of the rich workload: the content of every DeFi module store (outside the prefixes that
           already differed) and every account's balance change; attributed to the first ACTIVE known
           hole among the prefixes that differed before the step in the modules the step depends on *)
        flush ();
        incr steps; incr cont_seen; bump ("cont:" ^ name); bump ("class:" ^ co);
        let ok = holds_C20_step (z_of_int (class_code co)) (z_of_int (class_code cn)) (z_of_string ido) (z_of_string idn)
            (z_of_string bo) (z_of_string bn) in
        if not ok then begin
          let rec first = function
            | m :: b :: rest ->
              (match Hashtbl.find_opt rows (m, int_of_string b) with
               | Some row ->
                 let c = int_of_z (kf_C20_class row.p_mod row.p_byte) in
                 if c = 0 then first rest else Printf.sprintf "kf_C20_%d" c
               | None -> first rest)
            | _ -> "none" in
          let kf = first deps in
          predfail ~case:!case ~step:!steps ~pred:"holds_C20_step" ~kf
            ~detail:(Printf.sprintf "%s_class=%s/%s_stores_%s_baldelta_%s" name co cn (if ido = idn then "same" else "differ") (if bo = bn then "same" else "differs"))
        end
      | "cont" :: _i :: name :: dm :: db :: co :: cn :: ido :: idn :: bo :: bn :: [] ->
        flush ();
        incr steps; incr cont_seen; bump ("cont:" ^ name); bump ("class:" ^ co);
        let ok = holds_C20_step (z_of_int (class_code co)) (z_of_int (class_code cn)) (z_of_string ido) (z_of_string idn)
            (z_of_string bo) (z_of_string bn) in
        if not ok then begin
          let kf = (match Hashtbl.find_opt rows (dm, int_of_string db) with
              | Some row ->
                let c = int_of_z (kf_C20_class row.p_mod row.p_byte) in
                if c = 0 then "none" else Printf.sprintf "kf_C20_%d" c
              | None -> "none") in
          predfail ~case:!case ~step:!steps ~pred:"holds_C20_step" ~kf
            ~detail:(Printf.sprintf "%s_class=%s/%s_id=%s/%s_baldelta_%s" name co cn ido idn (if bo = bn then "same" else "differs"))
        end
      | _ -> ()
    ) lines;
  end_case ();
  finish ~cases:!cases ~steps:!steps ~nontrivial:!nontrivial

let () = Conv.register "C20" run
