(* C15 runner.  Evaluates the extracted predicate Hooks.holds_C15 on every crash-point
   observation and "the hook returned" on every environment case, classifies failures by the
   extracted KF classes (Hooks.kf_C15_3 / _4 on the unit / inputs, Sweep.kf_C15_2 on the sweep
   inputs the harness printed - never on error strings), and cross-checks the regenerated table:
   Hooks.table_says_wrapped unit must agree with where the harness saw the unit's store accesses
   (inside an ApplyFuncIfNoError instance or not), and the sweep model must predict the slice panic. *)
open Conv

let coq_string (s : string) : String.string =
  let ascii_of_char c =
    let n = Char.code c in
    let b i = (n lsr i) land 1 = 1 in
    Ascii.Ascii (b 0, b 1, b 2, b 3, b 4, b 5, b 6, b 7) in
  let rec go i = if i >= S.length s then String.EmptyString else String.String (ascii_of_char (S.get s i), go (i + 1)) in
  go 0

let run (path : string) =
  let lines = read_lines path in
  let cases = ref 0 and steps = ref 0 and nontrivial = ref 0 in
  let case = ref "" and kind = ref "" and csig = ref "" in
  let case_work = ref false in
  (* last sweep line: cap counter off batch present *)
  let sweep : (string, (BinNums.coq_Z * BinNums.coq_Z * BinNums.coq_Z * BinNums.coq_Z * bool)) Hashtbl.t = Hashtbl.create 4 in
  let end_case () =
    if !case <> "" then begin
      incr cases;
      if !case_work then incr nontrivial;
      Hashtbl.replace distinct (Digest.string !csig) ()
    end in
  L.iter (fun line ->
      match tokens line with
      | "case" :: id :: "env" :: st :: fault :: _ ->
        end_case (); case := id; kind := "env"; csig := "env " ^ st ^ " " ^ fault; case_work := false;
        Hashtbl.reset sweep; bump ("fault:" ^ fault)
      | "case" :: id :: "crash" :: hook :: st :: _ ->
        end_case (); case := id; kind := "crash"; csig := "crash " ^ hook ^ " " ^ st; case_work := false;
        bump ("crash:" ^ hook)
      | "sweep" :: hook :: cap :: counter :: off :: batch :: present :: _ ->
        Hashtbl.replace sweep hook (z_of_string cap, z_of_string counter, z_of_string off, z_of_string batch, bool_of_tok present)
      | "hook" :: name :: cls :: changed :: at :: _ ->
        incr steps; bump ("hook:" ^ cls);
        if changed = "1" then case_work := true;
        let sw = Hashtbl.find_opt sweep name in
        (* the model's prediction for the unwrapped slice expression *)
        (match sw with
         | Some (cap, counter, off, batch, present) when present ->
           let predicted = Sweep.kf_C15_2 cap counter off batch in
           if predicted && cls <> "panic" then
             mismatch ~case:!case ~step:!steps ~field:("slice[" ^ name ^ "]") ~model:"panic" ~impl:cls
         | _ -> ());
        if cls = "panic" then begin
          let kf = (match sw with
              | Some (cap, counter, off, batch, _) when Sweep.kf_C15_2 cap counter off batch -> "kf_C15_2"
              | _ ->
                (* the panic arose inside the per-item function of a unit the table lists as unwrapped *)
                if at <> "-" && not (Hooks.table_says_wrapped (coq_string at)) && Hooks.kf_C15_3 (coq_string at) then "kf_C15_3"
                else "none") in
          predfail ~case:!case ~step:!steps ~pred:"hook_returns" ~kf ~detail:(name ^ "_panicked_in_" ^ at)
        end
      | "probe" :: m :: wraps :: cls :: _ ->
        incr steps;
        if cls = "panic" then
          predfail ~case:!case ~step:!steps ~pred:"hook_returns" ~kf:"none" ~detail:"fault_free_run_panicked";
        bump ("probe:" ^ cls);
        if int_of_string m > 0 then case_work := true
      | "k" :: k :: unit :: wrapped :: returned :: diff :: others :: _ ->
        incr steps; bump ("unit:" ^ unit); bump ("diff:" ^ diff);
        let u = coq_string unit in
        let says = Hooks.table_says_wrapped u in
        let seen = bool_of_tok wrapped in
        if says <> seen then
          mismatch ~case:!case ~step:!steps ~field:("wrapped[" ^ unit ^ "]") ~model:(tok_of_bool says) ~impl:(tok_of_bool seen);
        if not (Hooks.holds_C15 (bool_of_tok returned) (z_of_string diff) (bool_of_tok others)) then begin
          let kf = if Hooks.kf_C15_3 u then "kf_C15_3" else "none" in
          predfail ~case:!case ~step:!steps ~pred:"holds_C15" ~kf
            ~detail:(Printf.sprintf "unit=%s_k=%s_returned=%s_diff=%s_others=%s" unit k returned diff others)
        end
      | _ -> ()) lines;
  end_case ();
  finish ~cases:!cases ~steps:!steps ~nontrivial:!nontrivial

let () = Conv.register "C15" run
