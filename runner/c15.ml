(* C15 runner.  Evaluates the extracted predicate Hooks.holds_C15 on every crash-point
   observation and on every unit projection (unitobs: Hooks.trigger_obs_diff classifies "the unit
   reported failure" + the changes of what it writes into nothing / complete / partial), "the hook returned" on every environment
   case, and cross-checks the model:
   - Hooks.table_says_wrapped unit must agree with where the harness saw the unit's store accesses
     (inside an ApplyFuncIfNoError instance or not);
   - Sweep.slice_panics_stored (the model of GetSliceStartEndForLiquidations + the reset step + the
     int() conversions + the slice expression) must predict exactly the panics of the sweeps' slice
     expressions, on the inputs the harness printed - never on error strings.  In a case the harness
     declares FABRICATED (the vault counter set directly through the keeper: an unreachable state,
     outside the property's quantifier) an agreed panic is model validation only: no predicate
     failure, no finding.  In every other case a panic of a hook is a predicate failure outside
     every known class, and the reachability assumption counter <= capacity is itself checked;
   - error cases (a unit RETURNS AN ERROR after it has written): Hooks.holds_C15 on (hook returned,
     diff class of the failing unit, others processed); Hooks.table_says_propagates unit &&
     Hooks.table_says_apply_atomic (the closure hands the error on and ApplyFuncIfNoError drops the
     branch) must agree with "the failing unit's cache was not written back"; a case that was built to
     contain a failing-late unit and does not is a disagreement too. *)
open Conv

let coq_string (s : string) : String.string =
  let ascii_of_char c =
    let n = Char.code c in
    let b i = (n lsr i) land 1 = 1 in
    Ascii.Ascii (b 0, b 1, b 2, b 3, b 4, b 5, b 6, b 7) in
  let rec go i = if i >= S.length s then String.EmptyString else String.String (ascii_of_char (S.get s i), go (i + 1)) in
  go 0

let run (path : string) =
  let lines = read_lines path in
  let cases = ref 0 and steps = ref 0 and nontrivial = ref 0 in
  let case = ref "" and kind = ref "" and csig = ref "" in
  let case_work = ref false in
  let fabricated = ref false in
  (* error case: the unit it is about, and whether a failing-late item was seen *)
  let err_unit = ref "" and err_late = ref false in
  let end_err () =
    if !kind = "err" && not !err_late then
      mismatch ~case:!case ~step:!steps ~field:("errcase[" ^ !err_unit ^ "].failing_late_item") ~model:"present" ~impl:"absent" in
  (* sweep lines of the current hook: cap counter off batch (stored uint64 values) *)
  let sweep : (string, (string * BinNums.coq_Z * BinNums.coq_Z * BinNums.coq_Z * BinNums.coq_Z)) Hashtbl.t = Hashtbl.create 4 in
  let zle a b = Z.leq (zz_of_z a) (zz_of_z b) in
  let end_case () =
    if !case <> "" then begin
      end_err ();
      incr cases;
      if !case_work then incr nontrivial;
      Hashtbl.replace distinct (Digest.string !csig) ()
    end in
  L.iter (fun line ->
      match tokens line with
      | "case" :: id :: "env" :: st :: fault :: _ ->
        end_case (); case := id; kind := "env"; csig := "env " ^ st ^ " " ^ fault; case_work := false; fabricated := false;
        Hashtbl.reset sweep; bump ("fault:" ^ fault)
      | "case" :: id :: "crash" :: hook :: st :: _ ->
        end_case (); case := id; kind := "crash"; csig := "crash " ^ hook ^ " " ^ st; case_work := false; fabricated := false;
        bump ("crash:" ^ hook)
      | "case" :: id :: "err" :: unit :: hook :: st :: _ ->
        end_case (); case := id; kind := "err"; csig := "err " ^ unit ^ " " ^ hook ^ " " ^ st; case_work := false; fabricated := false;
        err_unit := unit; err_late := false;
        bump ("err:" ^ unit)
      | "errprobe" :: _ :: _ :: _ :: cls :: _ ->
        incr steps;
        if cls = "panic" then
          predfail ~case:!case ~step:!steps ~pred:"hook_returns" ~kf:"none" ~detail:"hook_panicked_in_error_case";
        bump ("errprobe:" ^ cls)
      | "item" :: _ :: _ :: failed :: wrote :: _ ->
        bump ("item:" ^ (if bool_of_tok failed then "failed" else "ok") ^ (if bool_of_tok wrote then "+wrote" else "+no-writes"))
      | "e" :: unit :: item :: late :: wrapped :: committed :: returned :: diff :: others :: _ ->
        incr steps; bump ("errunit:" ^ unit); bump ("errdiff:" ^ diff);
        let late = bool_of_tok late in
        if late then begin err_late := true; case_work := true end;
        let u = coq_string unit in
        let says_wrapped = Hooks.table_says_wrapped u in
        if says_wrapped <> bool_of_tok wrapped then
          mismatch ~case:!case ~step:!steps ~field:("wrapped[" ^ unit ^ "]") ~model:(tok_of_bool says_wrapped) ~impl:wrapped;
        (* the model's prediction: the error reaches ApplyFuncIfNoError, which drops the branch *)
        let says_dropped = says_wrapped && Hooks.table_says_propagates u && Hooks.table_says_apply_atomic in
        let dropped = not (bool_of_tok committed) in
        if late && says_dropped <> dropped then
          mismatch ~case:!case ~step:!steps ~field:("error_drops_branch[" ^ unit ^ "]") ~model:(tok_of_bool says_dropped) ~impl:(tok_of_bool dropped);
        if not (Hooks.holds_C15 (bool_of_tok returned) (z_of_string diff) (bool_of_tok others)) then
          predfail ~case:!case ~step:!steps ~pred:"holds_C15" ~kf:"none"
            ~detail:(Printf.sprintf "unit=%s_item=%s_reported_failure_after_writes=%s_cache_written_back=%s_returned=%s_diff=%s_others=%s"
                       unit item (tok_of_bool late) committed returned diff others)
      | "fabricated" :: what :: _ ->
        fabricated := true; bump ("fabricated:" ^ what)
      | "sweep" :: hook :: which :: cap :: counter :: off :: batch :: _ ->
        Hashtbl.add sweep hook (which, z_of_string cap, z_of_string counter, z_of_string off, z_of_string batch)
      | "hook" :: name :: cls :: changed :: at :: _ ->
        incr steps; bump ("hook:" ^ cls);
        if changed = "1" then case_work := true;
        let sws = Hashtbl.find_all sweep name in
        while Hashtbl.mem sweep name do Hashtbl.remove sweep name done;
        (* the model's prediction for the unwrapped slice expressions of this hook *)
        let predicted = L.exists (fun (_, cap, counter, off, batch) -> Sweep.slice_panics_stored cap counter off batch) sws in
        if sws <> [] then bump (if predicted then "slice:model-panics" else "slice:model-in-range");
        (* the reachability assumption of the sweep theorem, checked on every state the harness did not fabricate *)
        if not !fabricated then
          L.iter (fun (which, cap, counter, _, _) ->
              if not (zle counter cap) then
                predfail ~case:!case ~step:!steps ~pred:"counter_le_capacity" ~kf:"none"
                  ~detail:(Printf.sprintf "%s_%s_counter=%s_cap=%s" name which (string_of_z counter) (string_of_z cap))) sws;
        if predicted && cls <> "panic" then
          mismatch ~case:!case ~step:!steps ~field:("slice[" ^ name ^ "]") ~model:"panic" ~impl:cls;
        if cls = "panic" then begin
          if !fabricated then begin
            if predicted then bump "validated:slice-panic-on-fabricated-counter"
            else mismatch ~case:!case ~step:!steps ~field:("slice[" ^ name ^ "]") ~model:"in-range" ~impl:"panic"
          end else
            predfail ~case:!case ~step:!steps ~pred:"hook_returns" ~kf:"none" ~detail:(name ^ "_panicked_in_" ^ at)
        end
      | "unitobs" :: unit :: failed :: dcoll :: dnet :: dlocked :: dauction :: dactive :: _ ->
        incr steps;
        let f = bool_of_tok failed in
        let diff = Hooks.trigger_obs_diff f (z_of_string dcoll) (z_of_string dnet) (z_of_string dlocked) (z_of_string dauction) (z_of_string dactive) in
        bump ("unitobs:" ^ unit ^ (if f then ":reported-failure" else ":no-failure") ^ ":diff" ^ string_of_z diff);
        if string_of_z diff <> "0" then case_work := true;
        if not (Hooks.holds_C15 true diff true) then
          predfail ~case:!case ~step:!steps ~pred:"holds_C15" ~kf:"none"
            ~detail:(Printf.sprintf "unit=%s_partial_writes_visible_failed=%s_dcoll=%s_dnet=%s_dlocked=%s_dauction=%s_dactive=%s"
                       unit failed dcoll dnet dlocked dauction dactive)
      | "probe" :: m :: wraps :: cls :: _ ->
        incr steps;
        if cls = "panic" then
          predfail ~case:!case ~step:!steps ~pred:"hook_returns" ~kf:"none" ~detail:"fault_free_run_panicked";
        bump ("probe:" ^ cls);
        if int_of_string m > 0 then case_work := true
      | "k" :: k :: unit :: wrapped :: returned :: diff :: others :: _ ->
        incr steps; bump ("unit:" ^ unit); bump ("diff:" ^ diff);
        let u = coq_string unit in
        let says = Hooks.table_says_wrapped u in
        let seen = bool_of_tok wrapped in
        if says <> seen then
          mismatch ~case:!case ~step:!steps ~field:("wrapped[" ^ unit ^ "]") ~model:(tok_of_bool says) ~impl:(tok_of_bool seen);
        if not (Hooks.holds_C15 (bool_of_tok returned) (z_of_string diff) (bool_of_tok others)) then begin
          predfail ~case:!case ~step:!steps ~pred:"holds_C15" ~kf:"none"
            ~detail:(Printf.sprintf "unit=%s_k=%s_returned=%s_diff=%s_others=%s" unit k returned diff others)
        end
      | _ -> ()) lines;
  end_case ();
  finish ~cases:!cases ~steps:!steps ~nontrivial:!nontrivial

let () = Conv.register "C15" run
