(* C08 runner: replays the lend traces on the extracted model (Model/Lend.v), threading the model
   state through the whole history and diffing the full projection after EVERY message; then
   evaluates the extracted property predicates holds_C08_* on the IMPLEMENTATION's observations
   and classifies failures by the KF predicates. *)
open Conv
open Lend

let z = z_of_string
let zs = string_of_z
let zi = z_of_int

(* take a length-prefixed list of integers *)
let take_list toks =
  match toks with
  | n :: rest -> let (xs, rest) = take (int_of_string n) rest in (L.map z xs, rest)
  | [] -> failwith "take_list"

let take_biter toks =
  match toks with
  | a :: b :: c :: rest -> ({ bi_res = z a; bi_int = z b; bi_rsv = z c }, rest)
  | _ -> failwith "biter"

let empty_cfg = { c_assets = []; c_pools = []; c_pairs = []; c_rates = []; c_a2p = []; c_apps = [] }

let parse_cfg cfg toks =
  match toks with
  | "asset" :: id :: dec :: [] -> { cfg with c_assets = cfg.c_assets @ [ (z id, { a_id = z id; a_dec = z dec }) ] }
  | "pool" :: id :: md :: n :: rest ->
    let rec go i l = if i = 0 then [] else match l with
        | a :: t :: c :: tl -> { pa_asset = z a; pa_transit = z t; pa_cap = z c } :: go (i - 1) tl
        | _ -> failwith "cfg pool" in
    { cfg with c_pools = cfg.c_pools @ [ (z id, { p_id = z id; p_mod = z md; p_assets = go (int_of_string n) rest }) ] }
  | "pair" :: id :: i :: o :: inter :: op :: em :: [] ->
    { cfg with c_pairs = cfg.c_pairs @ [ (z id, { pr_id = z id; pr_in = z i; pr_out = z o; pr_inter = bool_of_tok inter;
                                                pr_out_pool = z op; pr_emode = bool_of_tok em }) ] }
  | "rates" :: id :: ltv :: eltv :: c :: st :: iso :: pen :: epen :: [] ->
    { cfg with c_rates = cfg.c_rates @ [ (z id, { r_asset = z id; r_ltv = z ltv; r_eltv = z eltv; r_casset = z c;
                                                r_stable = bool_of_tok st; r_isolated = bool_of_tok iso; r_pen = z pen; r_epen = z epen }) ] }
  | "a2p" :: a :: p :: rest -> let (ids, _) = take_list rest in { cfg with c_a2p = cfg.c_a2p @ [ ((z a, z p), ids) ] }
  | "app" :: id :: b :: [] -> { cfg with c_apps = cfg.c_apps @ [ (z id, bool_of_tok b) ] }
  | _ -> failwith "bad cfg line"

let empty_state = { lends = []; borrows = []; sstats = []; bnk = { bal = []; sup = [] }; lctr = BinNums.Z0; bctr = BinNums.Z0; prices = [];
                    killed = []; depr = []; v1 = [] }

(* one projection line into the observed state *)
let obs_line (st : state) toks : state =
  match toks with
  | "st" :: p :: a :: tl :: tb :: tsb :: tia :: rest ->
    let (lids, rest) = take_list rest in
    let (bids, _) = take_list rest in
    { st with sstats = st.sstats @ [ ((z p, z a), { s_lend = z tl; s_bor = z tb; s_sbor = z tsb; s_tia = z tia; s_lids = lids; s_bids = bids }) ] }
  | "ld" :: id :: ow :: p :: a :: ain :: av :: app :: rew :: trk :: rest ->
    let (bids, _) = take_list rest in
    { st with lends = st.lends @ [ (z id, { l_id = z id; l_owner = z ow; l_pool = z p; l_asset = z a; l_in = z ain; l_avail = z av;
                                            l_app = z app; l_rewards = z rew; l_tracker = z trk; l_bids = bids }) ] }
  | "bw" :: id :: ld :: pr :: ind :: ain :: out :: bd :: brd :: intr :: res :: stb :: liq :: [] ->
    { st with borrows = st.borrows @ [ (z id, { b_id = z id; b_lend = z ld; b_pair = z pr; b_in_denom = z ind; b_in = z ain; b_out = z out;
                                                b_brd_denom = z bd; b_brd = z brd; b_int = z intr; b_res = z res;
                                                b_stable = bool_of_tok stb; b_liq = bool_of_tok liq }) ] }
  | "bl" :: acct :: rest ->
    let rec go l acc = match l with
      | d :: v :: tl -> go tl (acc @ [ ((z acct, z d), z v) ])
      | [] -> acc
      | _ -> failwith "bl" in
    { st with bnk = { st.bnk with bal = go rest st.bnk.bal } }
  | "sp" :: rest ->
    let rec go l acc = match l with
      | d :: v :: tl -> go tl (acc @ [ (z d, z v) ])
      | [] -> acc
      | _ -> failwith "sp" in
    { st with bnk = { st.bnk with sup = go rest st.bnk.sup } }
  | "pr" :: rest ->
    let rec go l acc = match l with
      | a :: "-" :: tl -> go tl acc
      | a :: v :: tl -> go tl (acc @ [ (z a, z v) ])
      | [] -> acc
      | _ -> failwith "pr" in
    { st with prices = go rest [] }
  | "ct" :: a :: b :: [] -> { st with lctr = z a; bctr = z b }
  | "fl" :: rest ->
    let (kl, rest) = take_list rest in
    let (dp, rest) = take_list rest in
    let (v, _) = take_list rest in
    { st with killed = kl; depr = dp; v1 = v }
  | _ -> failwith ("bad obs line: " ^ S.concat " " toks)

let ints l = S.concat "," (L.map zs l)

(* canonical lines of a state, over the key sets of the observation *)
let lines_of (obs : state) (st : state) : (string * string) list =
  let out = ref [] in
  let add k v = out := (k, v) :: !out in
  L.iter (fun (k, _) ->
      let key = Printf.sprintf "stats[%s,%s]" (zs (fst k)) (zs (snd k)) in
      match pget st.sstats k with
      | Some s -> add key (Printf.sprintf "lend=%s;bor=%s;sbor=%s;tia=%s;lids=%s;bids=%s" (zs s.s_lend) (zs s.s_bor) (zs s.s_sbor) (zs s.s_tia) (ints s.s_lids) (ints s.s_bids))
      | None -> add key "absent") obs.sstats;
  let ids = L.sort_uniq compare (L.map (fun (k, _) -> zs k) obs.lends @ L.map (fun (k, _) -> zs k) st.lends) in
  L.iter (fun id ->
      let key = "lend[" ^ id ^ "]" in
      match zget st.lends (z id) with
      | Some l -> add key (Printf.sprintf "owner=%s;pool=%s;asset=%s;in=%s;avail=%s;app=%s;rewards=%s;tracker=%s;bids=%s" (zs l.l_owner) (zs l.l_pool)
                             (zs l.l_asset) (zs l.l_in) (zs l.l_avail) (zs l.l_app) (zs l.l_rewards) (zs l.l_tracker) (ints l.l_bids))
      | None -> add key "absent") ids;
  let ids = L.sort_uniq compare (L.map (fun (k, _) -> zs k) obs.borrows @ L.map (fun (k, _) -> zs k) st.borrows) in
  L.iter (fun id ->
      let key = "borrow[" ^ id ^ "]" in
      match zget st.borrows (z id) with
      | Some b -> add key (Printf.sprintf "lend=%s;pair=%s;ind=%s;in=%s;out=%s;brdd=%s;brd=%s;int=%s;res=%s;stable=%s;liq=%s" (zs b.b_lend) (zs b.b_pair)
                             (zs b.b_in_denom) (zs b.b_in) (zs b.b_out) (zs b.b_brd_denom) (zs b.b_brd) (zs b.b_int) (zs b.b_res)
                             (tok_of_bool b.b_stable) (tok_of_bool b.b_liq))
      | None -> add key "absent") ids;
  L.iter (fun ((a, d), _) -> add (Printf.sprintf "bal[%s,%s]" (zs a) (zs d)) (zs (balance st.bnk a d))) obs.bnk.bal;
  L.iter (fun (d, _) -> add (Printf.sprintf "supply[%s]" (zs d)) (zs (supply st.bnk d))) obs.bnk.sup;
  L.iter (fun (a, _) -> add (Printf.sprintf "price[%s]" (zs a)) (match zget st.prices a with Some v -> zs v | None -> "-")) obs.prices;
  add "lctr" (zs st.lctr); add "bctr" (zs st.bctr);
  add "killed" (ints (L.sort compare st.killed)); add "depreciated" (ints st.depr); add "generation1_flagged" (ints (L.sort compare st.v1));
  L.rev !out

let parse_op toks : string * op * string =
  (* returns (kind, op, result class) *)
  match toks with
  | "lend" :: u :: a :: d :: amt :: p :: app :: ipb :: res :: [] -> ("lend", OLend (z u, z a, z d, z amt, z p, z app, z ipb), res)
  | "withdraw" :: u :: l :: d :: amt :: ipb :: res :: [] -> ("withdraw", OWithdraw (z u, z l, z d, z amt, z ipb), res)
  | "deposit" :: u :: l :: d :: amt :: ipb :: res :: [] -> ("deposit", ODeposit (z u, z l, z d, z amt, z ipb), res)
  | "closelend" :: u :: l :: ipb :: res :: [] -> ("closelend", OCloseLend (z u, z l, z ipb), res)
  | "borrow" :: u :: l :: p :: stb :: din :: ain :: dout :: aout :: rest ->
    let (e1, rest) = take_biter rest in
    let (e2, rest) = take_biter rest in
    ("borrow", OBorrow (z u, z l, z p, bool_of_tok stb, z din, z ain, z dout, z aout, e1, e2), L.hd rest)
  | "repay" :: u :: b :: d :: amt :: rest -> let (e, rest) = take_biter rest in ("repay", ORepay (z u, z b, z d, z amt, e), L.hd rest)
  | "depositborrow" :: u :: b :: d :: amt :: rest -> let (e, rest) = take_biter rest in ("depositborrow", ODepositBorrow (z u, z b, z d, z amt, e), L.hd rest)
  | "draw" :: u :: b :: d :: amt :: rest -> let (e, rest) = take_biter rest in ("draw", ODraw (z u, z b, z d, z amt, e), L.hd rest)
  | "closeborrow" :: u :: b :: rest -> let (e, rest) = take_biter rest in ("closeborrow", OCloseBorrow (z u, z b, e), L.hd rest)
  | "borrowalt" :: u :: a :: p :: din :: ain :: pid :: stb :: dout :: aout :: app :: ipb :: rest ->
    let (e1, rest) = take_biter rest in
    let (e2, rest) = take_biter rest in
    ("borrowalt", OBorrowAlt (z u, z a, z p, z din, z ain, z pid, bool_of_tok stb, z dout, z aout, z app, z ipb, e1, e2), L.hd rest)
  | "calc" :: u :: nb :: rest ->
    let rec bs i l = if i = 0 then ([], l) else let (e, l) = take_biter l in let (r, l) = bs (i - 1) l in (e :: r, l) in
    let (es, rest) = bs (int_of_string nb) rest in
    let (ipbs, rest) = take_list rest in
    ("calc", OCalc (z u, es, ipbs), L.hd rest)
  | "handover" :: b :: d :: dint :: res :: [] -> ("handover", OHandOver (z b, z d, z dint), res)
  | "aucbid" :: b :: d :: res :: [] -> ("aucbid", OAucBid (z b, z d), res)
  | "aucclose" :: b :: tg :: ow :: back :: res :: [] -> ("aucclose", OAucClose (z b, z tg, z ow, z back), res)
  | "repaywithdraw" :: u :: b :: rest ->
    let (e, rest) = take_biter rest in
    (match rest with
     | ipb :: res :: [] -> ("repaywithdraw", ORepayWithdraw (z u, z b, e, z ipb), res)
     | _ -> failwith "repaywithdraw")
  | "fundmod" :: u :: p :: a :: d :: amt :: res :: [] -> ("fundmod", OFundMod (z u, z p, z a, z d, z amt), res)
  | "fundreserve" :: u :: a :: d :: amt :: res :: [] -> ("fundreserve", OFundReserve (z u, z a, z d, z amt), res)
  | "kill" :: adm :: app :: on :: res :: [] -> ("kill", OKill (bool_of_tok adm, z app, bool_of_tok on), res)
  | "depreciate" :: p :: res :: [] -> ("depreciate", ODepreciate (z p), res)
  | "handoverv1" :: b :: d :: dint :: ta :: pen :: ded :: res :: [] -> ("handoverv1", OHandOverV1 (z b, z d, z dint, z ta, z pen, z ded), res)
  | "setprice" :: a :: "-" :: res :: [] -> ("setprice", OSetPrice (z a, None), res)
  | "setprice" :: a :: p :: res :: [] -> ("setprice", OSetPrice (z a, Some (z p)), res)
  | _ -> failwith ("bad op: " ^ S.concat " " toks)

let run (path : string) =
  let lines = read_lines path in
  let cfg = ref empty_cfg in
  let cases = ref 0 and steps = ref 0 and nontrivial = ref 0 in
  let case = ref "" in
  let model = ref empty_state in        (* the model state, threaded through the history *)
  let pre_obs = ref empty_state in      (* the implementation's projection before the message *)
  let cur_obs = ref empty_state in      (* being read *)
  let pending : (string * op * string * string) option ref = ref None in  (* op whose projection is being read *)
  let have_init = ref false in
  let step = ref 0 in
  let dead = ref false in               (* model and implementation diverged: stop diffing this case *)
  let interesting = ref false in
  let tainted = ref false in            (* a message of known-finding class 2 succeeded earlier in this case *)
  let tainted4 = ref false in           (* a generation-1 hand-over (class 4) went through earlier in this case *)
  let sig_ = Buffer.create 1024 in
  let end_case () =
    if !case <> "" then begin
      incr cases;
      if !interesting then incr nontrivial;
      Hashtbl.replace distinct (Digest.string (Buffer.contents sig_)) ()
    end in
  let diff_states () =
    if not !dead then begin
      let lm = lines_of !cur_obs !model and li = lines_of !cur_obs !cur_obs in
      let n = ref 0 in
      L.iter2 (fun (k, vm) (_, vi) ->
          if vm <> vi then begin
            incr n;
            if !n <= 3 then mismatch ~case:!case ~step:!step ~field:k ~model:vm ~impl:vi
          end) lm li;
      if !n > 0 then dead := true
    end in
  let check_props kind o res =
    let obs = !cur_obs and pre = !pre_obs in
    if res = "ok" && kf_C08_2 pre o then begin tainted := true; bump "kf_C08_2:hand_over_deletes_live_lend_record" end;
    if res = "ok" && kf_C08_4 pre o then begin tainted4 := true; interesting := true; bump "kf_C08_4:generation1_hand_over_keeps_principal_in_totals" end;
    if kind = "handover" && res = "ok" then begin
      (match o with
       | OHandOver (j, _, _) ->
         (match zget pre.borrows j, zget obs.borrows j with
          | Some b0, Some b1 -> if (not b0.b_liq) && b1.b_liq then begin bump "handover:handed_over"; interesting := true end else bump "handover:not_liquidatable"
          | _ -> ())
       | _ -> ())
    end;
    (match o with
     | OAucClose (j, target, _, _) when res = "ok" ->
       interesting := true;
       (match zget pre.borrows j with
        | Some b0 ->
          bump (if b0.b_brd = BinNums.Z0 then "close:same_pool" else "close:cross_pool");
          (match zget !cfg.c_pairs b0.b_pair with Some pr when pr.pr_emode -> bump "close:emode" | _ -> ());
          (match zget pre.lends b0.b_lend with None -> bump "close:lend_record_deleted_at_handover" | Some _ -> ())
        | None -> ());
       (* the auction's target debt is the one the hand-over computed *)
       if not (holds_C08_target !cfg pre j target) then
         predfail ~case:!case ~step:!step ~pred:"holds_C08_target" ~kf:"none" ~detail:kind;
       (* the position is gone: not in the books, not in the published ids, not in the user mapping *)
       if zget obs.borrows j <> None then
         predfail ~case:!case ~step:!step ~pred:"holds_C08_closed_gone" ~kf:"none" ~detail:kind;
       (* the close rule: the pools receive what the close books and forwards *)
       let k3 = kf_C08_3 !cfg pre o in
       if k3 then bump "kf_C08_3:close_books_more_than_recovered";
       if not (holds_C08_close !cfg pre obs j) then
         predfail ~case:!case ~step:!step ~pred:"holds_C08_close" ~kf:(if k3 then "kf_C08_3" else "none") ~detail:kind
       else bump "close:pool_receives_what_is_booked"
     | OAucClose (j, _, _, _) ->
       bump ("close_failed:" ^ res);
       (match zget pre.borrows j with
        | Some b0 when b0.b_brd <> BinNums.Z0 && zget pre.lends b0.b_lend = None -> bump "C10-F7:cross_pool_close_stuck_lend_record_deleted"
        | _ -> ())
     | OAucBid (_, d) -> bump ("aucbid:" ^ zs d)
     | _ -> ());
    if not (holds_C08_lend obs) then
      predfail ~case:!case ~step:!step ~pred:"holds_C08_lend" ~kf:(if !tainted then "kf_C08_2" else if !tainted4 then "kf_C08_4" else "none") ~detail:("after_" ^ kind);
    if not (holds_C08_borrow !cfg obs) then
      predfail ~case:!case ~step:!step ~pred:"holds_C08_borrow" ~kf:(if !tainted4 then "kf_C08_4" else "none") ~detail:("after_" ^ kind);
    if not (holds_C08_avail obs) then
      predfail ~case:!case ~step:!step ~pred:"holds_C08_avail" ~kf:"none" ~detail:("after_" ^ kind);
    (* Side invariant (C08-F1 repaired): no position hangs on a lend position of another asset than its pair's asset in *)
    L.iter (fun (j, _) ->
        if mismatched_lend !cfg obs j then
          predfail ~case:!case ~step:!step ~pred:"holds_C08_collateral_asset" ~kf:"none" ~detail:(kind ^ "_borrow=" ^ zs j)) obs.borrows;
    if res = "ok" then begin
      let ltv_check pred name j =
        bump ("ltv_checked:" ^ name);
        if not (pred !cfg obs j) then
          predfail ~case:!case ~step:!step ~pred:name ~kf:"none" ~detail:(kind ^ "_borrow=" ^ zs j) in
      let pool_check pid amt =
        if not (holds_C08_pool !cfg pre pid amt) then
          predfail ~case:!case ~step:!step ~pred:"holds_C08_pool" ~kf:"none" ~detail:kind in
      (match o with
       | OBorrow (u, _, pid, _, _, _, _, aout, _, _) | OBorrowAlt (u, _, _, _, _, pid, _, _, aout, _, _, _, _) ->
         let alt = (match o with OBorrowAlt _ -> true | _ -> false) in
         if has_borrow_for_pair pre u pid then begin
           (* DepositDraw on the existing position of this pair: the draw rule; the pool is checked at the release *)
           (match borrow_id_for_pair pre u pid with
            | Some j -> ltv_check holds_C08_ltv "holds_C08_ltv" j
            | None -> predfail ~case:!case ~step:!step ~pred:"holds_C08_ltv" ~kf:"none" ~detail:"no_position_for_deposit_draw");
           bump "pool_check:at_release_only"
         end else begin
           if obs.bctr = pre.bctr then
             predfail ~case:!case ~step:!step ~pred:"holds_C08_ltv" ~kf:"none" ~detail:"no_position_after_borrow"
           else ltv_check holds_C08_ltv_new "holds_C08_ltv_new" obs.bctr;
           if alt then bump "pool_check:at_release_only" else pool_check pid aout
         end
       | ODraw (_, j, _, amt, _) ->
         ltv_check holds_C08_ltv "holds_C08_ltv" j;
         (match zget obs.borrows j with
          | Some b -> pool_check b.b_pair amt
          | None -> ())
       | OWithdraw (_, lid, _, amt, _) ->
         if not (holds_C08_pledged pre obs lid amt) then
           predfail ~case:!case ~step:!step ~pred:"holds_C08_pledged" ~kf:"none" ~detail:kind
       | ORepayWithdraw (u, bid, e, _) ->
         (* the state after the CloseBorrow half is computed from the OBSERVED pre-state; the withdrawal must take
            exactly the released collateral out of AvailableToBorrow and leave every pledge alone *)
         (match zget pre.borrows bid, close_borrow !cfg pre u bid e with
          | Some b0, Base.Ok st1 ->
            bump "repaywithdraw:pledged_checked";
            if not (holds_C08_pledged st1 obs b0.b_lend b0.b_in) || zget obs.borrows bid <> None then
              predfail ~case:!case ~step:!step ~pred:"holds_C08_pledged" ~kf:"none" ~detail:kind
          | _ -> predfail ~case:!case ~step:!step ~pred:"holds_C08_pledged" ~kf:"none" ~detail:"repaywithdraw_without_close")
       | OCloseLend (_, lid, _) ->
         let amt = (match zget pre.lends lid with Some l -> l.l_avail | None -> BinNums.Z0) in
         (* a closed position must be gone and must have had nothing pledged *)
         if not (holds_C08_pledged pre obs lid amt) || zget obs.lends lid <> None then
           predfail ~case:!case ~step:!step ~pred:"holds_C08_pledged" ~kf:"none" ~detail:kind
       | _ -> ())
    end in
  L.iter (fun line ->
      match tokens line with
      | "cfg" :: rest -> cfg := parse_cfg !cfg rest
      | "case" :: id :: _ ->
        end_case ();
        case := id; model := empty_state; pre_obs := empty_state; cur_obs := empty_state; pending := None;
        have_init := false; step := 0; dead := false; interesting := false; tainted := false; tainted4 := false; Buffer.clear sig_
      | "op" :: dt :: rest ->
        incr step; incr steps;
        let (kind, o, res) = parse_op rest in
        Buffer.add_string sig_ (S.concat " " rest); Buffer.add_char sig_ ';';
        bump ("op:" ^ kind ^ ":" ^ res);
        if !cur_obs.killed <> [] then bump ("under_kill_switch:" ^ kind ^ ":" ^ res);
        if !cur_obs.depr <> [] then bump ("with_depreciated_pool:" ^ kind ^ ":" ^ res);
        (let d = int_of_string dt in
         bump ("gap:" ^ (if d = 0 then "0" else if d < 3600 then "<1h" else if d < 86400 * 30 then "<30d" else if d < 31557600 then "<1y" else ">=1y")));
        if kind = "borrow" && res = "ok" then interesting := true;
        pre_obs := !cur_obs;
        cur_obs := empty_state;
        if not !dead then begin
          let r = Lend.step !cfg !model o in
          let mclass = (match r with Base.Ok _ -> "ok" | Base.Err _ -> "err" | Base.Panic -> "panic") in
          (match r with
           | Base.Err c -> bump ("model_err:" ^ kind ^ ":" ^ zs c)
           | Base.Panic -> bump ("model_panic:" ^ kind)
           | _ -> ());
          if mclass <> res then begin
            mismatch ~case:!case ~step:!step ~field:("result:" ^ kind) ~model:mclass ~impl:res;
            dead := true
          end else (match r with Base.Ok st' -> model := st' | _ -> ())
        end;
        pending := Some (kind, o, res, dt)
      | "end" :: [] ->
        if not !have_init then begin
          (* the initial projection initialises the model *)
          have_init := true; model := !cur_obs;
          if not (holds_C08_lend !cur_obs) || not (holds_C08_borrow !cfg !cur_obs) then
            predfail ~case:!case ~step:0 ~pred:"holds_C08_initial" ~kf:"none" ~detail:"initial_state"
        end else begin
          diff_states ();
          (match !pending with Some (kind, o, res, _) -> check_props kind o res | None -> ());
          pending := None
        end
      | ("st" | "ld" | "bw" | "bl" | "sp" | "pr" | "ct" | "fl") :: _ as toks -> cur_obs := obs_line !cur_obs toks
      | _ -> ()
    ) lines;
  end_case ();
  finish ~cases:!cases ~steps:!steps ~nontrivial:!nontrivial

let () = Conv.register "C08" run
