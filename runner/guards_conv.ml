(* OCaml string <-> the extracted Coq string (String.string = EmptyString | String of ascii * string,
   ascii = Ascii of 8 bools, least significant bit first).  Used by c12.ml / c14.ml. *)
let coq_of_char (c : char) : Ascii.ascii =
  let n = Char.code c in
  let b i = (n lsr i) land 1 = 1 in
  Ascii.Ascii (b 0, b 1, b 2, b 3, b 4, b 5, b 6, b 7)

let coq_of_string (s : string) : String.string =
  let rec go i = if i >= Stdlib.String.length s then String.EmptyString
    else String.String (coq_of_char (Stdlib.String.get s i), go (i + 1)) in
  go 0

let char_of_coq (a : Ascii.ascii) : char =
  match a with
  | Ascii.Ascii (b0, b1, b2, b3, b4, b5, b6, b7) ->
    let v b i = if b then 1 lsl i else 0 in
    Char.chr (v b0 0 + v b1 1 + v b2 2 + v b3 3 + v b4 4 + v b5 5 + v b6 6 + v b7 7)

let string_of_coq (s : String.string) : string =
  let buf = Buffer.create 32 in
  let rec go = function
    | String.EmptyString -> ()
    | String.String (a, r) -> Buffer.add_char buf (char_of_coq a); go r in
  go s; Buffer.contents buf

(* err_code of Model/Guards.v <-> the harness' error kinds *)
let kind_of_code (z : BinNums.coq_Z) : string =
  match Conv.int_of_z z with
  | 0 -> "ok" | 1 -> "unauth" | 2 -> "breaker" | 3 -> "esm" | 4 -> "cooloff" | 5 -> "control"
  | 6 -> "price" | 7 -> "notfound" | 8 -> "other" | _ -> "unknown"
