(* C13 runner: replays the locker / collector traces on the extracted model (Locker.step), diffs
   the whole projection after every step, and evaluates the extracted property predicates
   holds_C13_* on the state RECONSTRUCTED FROM THE IMPLEMENTATION's observation. *)
open Conv
open Collector
open Locker

let zs = string_of_z
let zo = z_of_string
let key2 a b = zs a ^ "," ^ zs b

(* ---- observation of one step, as mutable tables ---- *)
type obs = {
  mutable o_next : BinNums.coq_Z;
  mutable o_lockers : locker list;
  o_lks : (string, lookup) Hashtbl.t;
  o_nf : (string, BinNums.coq_Z) Hashtbl.t;
  o_clk : (string, clookup) Hashtbl.t;
  o_amp : (string, aflags) Hashtbl.t;
  o_lwl : (string, bool) Hashtbl.t;
  o_rwl : (string, bool) Hashtbl.t;
  o_adm : (string, bool) Hashtbl.t;
  o_trk : (string, BinNums.coq_Z) Hashtbl.t;
  o_umap : (string, BinNums.coq_Z) Hashtbl.t;
  o_bank : (string, BinNums.coq_Z) Hashtbl.t;
  o_esm : (string, bool) Hashtbl.t;
  o_brk : (string, bool) Hashtbl.t;
}

let new_obs () = { o_next = BinNums.Z0; o_lockers = []; o_lks = Hashtbl.create 8; o_nf = Hashtbl.create 8; o_clk = Hashtbl.create 8;
                   o_amp = Hashtbl.create 8; o_lwl = Hashtbl.create 8; o_rwl = Hashtbl.create 8; o_adm = Hashtbl.create 8; o_trk = Hashtbl.create 8;
                   o_umap = Hashtbl.create 8; o_bank = Hashtbl.create 16; o_esm = Hashtbl.create 4; o_brk = Hashtbl.create 4 }

let z0 = BinNums.Z0

(* the model-shaped state an observation denotes *)
let state_of_obs (assets : BinNums.coq_Z -> bool) (apps : BinNums.coq_Z -> bool) (o : obs) : state =
  let f2 tbl = fun (a, b) -> Hashtbl.find_opt tbl (key2 a b) in
  let fb tbl = fun (a, b) -> (match Hashtbl.find_opt tbl (key2 a b) with Some v -> v | None -> false) in
  { cs = { nf = f2 o.o_nf;
           bnk = (fun (a, d) -> match Hashtbl.find_opt o.o_bank (key2 a d) with Some v -> v | None -> z0);
           clk = f2 o.o_clk; amp = f2 o.o_amp; has_asset = assets; has_app = apps;
           esm_on = (fun a -> match Hashtbl.find_opt o.o_esm (zs a) with Some v -> v | None -> false);
           brk_on = (fun a -> match Hashtbl.find_opt o.o_brk (zs a) with Some v -> v | None -> false) };
    lockers = o.o_lockers; lks = f2 o.o_lks; next_id = o.o_next; lwl = fb o.o_lwl; rwl = fb o.o_rwl; trk = f2 o.o_trk;
    umap = (fun u (a, b) -> match Hashtbl.find_opt o.o_umap (zs u ^ "," ^ key2 a b) with Some v -> v | None -> z0);
    adm = fb o.o_adm }

(* canonical rendering over the finite universe of a case *)
let render (apps : BinNums.coq_Z list) (assets : BinNums.coq_Z list) (nusers : int) (s : state) : (string * string) list =
  let out = ref [] in
  let add k v = out := (k, v) :: !out in
  add "next_id" (zs s.next_id);
  add "lockers" (S.concat ";" (L.map (fun l -> S.concat "," [zs l.l_id; zs l.l_owner; zs l.l_app; zs l.l_asset; zs l.l_net; zs l.l_ret]) s.lockers));
  L.iter (fun a ->
      add ("esm[" ^ zs a ^ "]") (tok_of_bool (s.cs.esm_on a));
      add ("brk[" ^ zs a ^ "]") (tok_of_bool (s.cs.brk_on a));
      L.iter (fun d ->
          let k = "[" ^ key2 a d ^ "]" in
          add ("lookup" ^ k) (match s.lks (a, d) with None -> "none"
                                                    | Some lk -> zs lk.lk_dep ^ ":" ^ S.concat "," (L.map zs lk.lk_ids));
          add ("netfee" ^ k) (match s.cs.nf (a, d) with None -> "none" | Some v -> zs v);
          add ("clookup" ^ k) (match s.cs.clk (a, d) with None -> "none"
                                                        | Some c -> S.concat "," (L.map zs [c.cl_lsr; c.cl_surplus_thr; c.cl_debt_thr; c.cl_lot; c.cl_debt_lot; c.cl_secondary; c.cl_app; c.cl_asset]));
          add ("flags" ^ k) (match s.cs.amp (a, d) with None -> "none"
                                                      | Some f -> S.concat "" (L.map tok_of_bool [f.af_surplus; f.af_debt; f.af_distributor; f.af_active]));
          add ("wl" ^ k) (tok_of_bool (s.lwl (a, d)) ^ tok_of_bool (s.rwl (a, d)) ^ tok_of_bool (s.adm (a, d)));
          for u = 0 to nusers - 1 do
            add ("umap[" ^ string_of_int u ^ "," ^ key2 a d ^ "]") (zs (s.umap (z_of_int u) (a, d)))
          done) assets;
      let n = int_of_z s.next_id in
      for lid = 1 to n do
        add ("tracker[" ^ string_of_int lid ^ "," ^ zs a ^ "]")
          (match s.trk (z_of_int lid, a) with None -> "none" | Some v -> zs v)
      done) apps;
  L.iter (fun d ->
      add ("bal[locker," ^ zs d ^ "]") (zs (s.cs.bnk (coq_A_LOCKER, d)));
      add ("bal[collector," ^ zs d ^ "]") (zs (s.cs.bnk (coq_A_COLLECTOR, d)));
      for u = 0 to nusers - 1 do
        add ("bal[user" ^ string_of_int u ^ "," ^ zs d ^ "]") (zs (s.cs.bnk (user (z_of_int u), d)))
      done) assets;
  L.rev !out

let b = bool_of_tok

(* trace op -> model op (None: the op has no model counterpart in this outcome, e.g. a failed vault msg) *)
let parse_op (toks : string list) : (string * op option * string) =
  let rev = L.rev toks in
  let res = L.hd rev in
  let args = L.rev (L.tl rev) in
  match args with
  | ["create"; u; app; asset; amt] -> "create", Some (LCreate (zo u, zo app, zo asset, zo amt)), res
  | ["deposit"; u; app; asset; lid; amt; rw] -> "deposit", Some (LDeposit (zo u, zo app, zo asset, zo lid, zo amt, zo rw)), res
  | ["withdraw"; u; app; asset; lid; amt; rw] -> "withdraw", Some (LWithdraw (zo u, zo app, zo asset, zo lid, zo amt, zo rw)), res
  | ["close"; u; app; asset; lid; rw] -> "close", Some (LClose (zo u, zo app, zo asset, zo lid, zo rw)), res
  | ["calc"; app; lid; rw] -> "calc", Some (LRewardCalc (zo app, zo lid, zo rw)), res
  | "updlk" :: app :: asset :: lsr_ :: sthr :: dthr :: lot :: dlot :: n :: rws ->
    ignore n;
    "updlk", Some (UpdLookup (zo app, zo asset, zo lsr_, zo sthr, zo dthr, zo lot, zo dlot, L.map zo rws)), res
  | ["addlk"; app; asset; sec; lsr_; sthr; dthr; lot; dlot] ->
    "addlk", Some (AddLookup (zo app, zo asset, zo sec, zo lsr_, zo sthr, zo dthr, zo lot, zo dlot)), res
  | ["wll"; app; asset] -> "wll", Some (WlLocker (zo app, zo asset)), res
  | ["wlr"; app; asset] -> "wlr", Some (WlReward (zo app, zo asset)), res
  | ["flags"; app; asset; su; de; di] -> "flags", Some (SetFlags (zo app, zo asset, b su, b de, b di)), res
  | ["esm"; app; v] -> "esm", Some (SetEsm (zo app, b v)), res
  | ["brk"; app; v] -> "brk", Some (SetBreaker (zo app, b v)), res
  | ["time"; _] -> "time", None, res
  | ["init"] -> "init", None, res
  | ["vault"; kind; app; asset; delta] ->
    "vault-" ^ kind, (if res = "ok" then Some (FeeIn (zo app, zo asset, zo delta, kind = "close")) else None), res
  | ["getamt"; app; asset; amt] -> "getamt", Some (GetAmount (zo app, zo asset, zo amt)), res
  | ["decnf"; app; asset; amt] -> "decnf", Some (DecNetFee (zo app, zo asset, zo amt)), res
  | ["sfund"; app; asset; u; denom; amt] -> "sfund", Some (SurplusFund (zo app, zo asset, zo u, zo denom, zo amt)), res
  | ["v1ss"; app; asset] -> "v1-surplus-start", Some (V1SurplusStart (zo app, zo asset)), res
  | ["v1sc"; app; asset; lot; bidder; esm] -> "v1-surplus-close", Some (V1SurplusClose (zo app, zo asset, zo lot, b bidder, b esm)), res
  | ["v1ds"; app; asset] -> "v1-debt-start", Some (V1DebtStart (zo app, zo asset)), res
  | ["v1dc"; app; asset; amt; bids; esm] -> "v1-debt-close", Some (V1DebtClose (zo app, zo asset, zo amt, b bids, b esm)), res
  | ["v1pen"; app; asset; amt] -> "v1-penalty", Some (V1Penalty (zo app, zo asset, zo amt)), res
  | ["v2cs"; app; asset] -> "v2-check-stats", Some (V2CheckStats (zo app, zo asset)), res
  | ["v2sc"; app; asset; lot] -> "v2-surplus-close", Some (V2SurplusClose (zo app, zo asset, zo lot)), res
  | ["v2dc"; app; asset; ca; dd; da] -> "v2-debt-close", Some (V2DebtClose (zo app, zo asset, zo ca, zo dd, zo da)), res
  | ["v2pen"; app; ca; da; amt] -> "v2-penalty", Some (V2Penalty (zo app, zo ca, zo da, zo amt)), res
  | ["v2esm"; app; da; collected; fee] -> "v2-trigger-esm", Some (V2TriggerEsm (zo app, zo da, zo collected, zo fee)), res
  | "esmredeem" :: app :: st :: _n :: rest ->
    let rec pairs = function a :: c :: tl -> (zo a, zo c) :: pairs tl | [] -> [] | _ -> failwith "esmredeem line" in
    "esm-redeem", Some (EsmRedeem (zo app, b st, pairs rest)), res
  | ["cdep"; u; app; d; amt; done_] -> "collector-deposit", Some (CDeposit (zo u, zo app, zo d, zo amt, b done_)), res
  | ["noop"] -> "noop", None, res
  | _ -> failwith ("bad op: " ^ S.concat " " toks)

(* no known-finding class is left (C13-F1, C13-F2, C13-F3 are repaired) *)
let kf_of (o : op) : string = if kf_C13_any o then "kf_C13" else "none"

let run (path : string) =
  let lines = read_lines path in
  let cases = ref 0 and steps = ref 0 and nontrivial = ref 0 in
  let case = ref "" and step = ref 0 in
  let apps = ref [] and assets = ref [] and nusers = ref 0 in
  let in_apps = ref (fun (_ : BinNums.coq_Z) -> false) and in_assets = ref (fun (_ : BinNums.coq_Z) -> false) in
  let model = ref (init_state (fun _ -> false) (fun _ -> false)) in
  let prev_impl : state option ref = ref None in
  let cur_op : (string * op option * string) ref = ref ("init", None, "ok") in
  let pre_ops : (string * op) list ref = ref [] in   (* further auctions closed by the same real unit *)
  let o = ref (new_obs ()) in
  let taint = ref "none" in
  let ext_ok = ref true in         (* the harness's prediction for the part of the unit inside the auction module *)
  let outside = ref false in       (* an op outside valid_op succeeded (WasmMsgGetSurplusFund with the coin of another
                                      asset): the backing / flow theorems say nothing about the rest of this history *)
  let dead = ref false in
  let sig_ = Buffer.create 1024 in
  let ok_locker = ref 0 and ok_coll = ref 0 and paid = ref 0 in
  let end_case () =
    if !case <> "" then begin
      incr cases;
      if !ok_locker >= 2 && !ok_coll >= 1 then incr nontrivial;
      if !paid > 0 then bump "case:reward-paid";
      Hashtbl.replace distinct (Digest.string (Buffer.contents sig_)) ()
    end in
  let mem l = fun z -> L.exists (fun x -> zs x = zs z) l in
  let finish_step () =
    if not !dead then begin
      let (kind, mop, res) = !cur_op in
      let impl = state_of_obs !in_assets !in_apps !o in
      (* 1. model step: the unit = the "pre" ops and the op, all or nothing; expected class = err when the
         harness predicts a failure inside the auction module, the model's own class otherwise *)
      let had_pre = !pre_ops <> [] in
      let unit_ops = (L.rev !pre_ops) @ (match mop with Some op -> [(kind, op)] | None -> []) in
      pre_ops := [];
      if unit_ops <> [] then begin
        let rec go s = function
          | [] -> ("ok", Some s)
          | (k, op) :: tl ->
            (match Locker.step s op with
             | Base.Ok s' -> go s' tl
             | Base.Err c -> bump ("err:" ^ k ^ ":" ^ zs c); ("err", None)
             | Base.Panic -> ("panic", None)) in
        let (expected, s_final) = if not !ext_ok then (bump ("ext-fail:" ^ kind); ("err", None)) else go !model unit_ops in
        if expected <> res then mismatch ~case:!case ~step:!step ~field:("result:" ^ kind) ~model:expected ~impl:res;
        (match s_final with Some s' -> model := s' | None -> ());
        if res = "ok" then
          L.iter (fun (k, op) ->
              (let kf = kf_of op in if kf <> "none" then taint := kf);
              if not (valid_op op) then begin
                match op with
                | SurplusFund _ -> outside := true; bump "outside:sfund-coin-of-another-asset"
                | _ -> mismatch ~case:!case ~step:!step ~field:("valid_op:" ^ k) ~model:"true" ~impl:"false"
              end;
              if had_pre && k <> kind then bump ("op:" ^ k ^ ":ok(pre)")) unit_ops
      end;
      ext_ok := true;
      (* the emergency redemption lists every net-fee record of the app: the list must be the book *)
      (match mop with
       | Some (EsmRedeem (app, _, l)) ->
         L.iter (fun d ->
             let listed = L.exists (fun (x, _) -> zs x = zs d) l in
             let have = (match (!model).cs.nf (app, d) with Some _ -> true | None -> false) in
             if listed <> have then
               mismatch ~case:!case ~step:!step ~field:("esm-redeem:records[" ^ zs d ^ "]") ~model:(tok_of_bool have) ~impl:(tok_of_bool listed)) !assets
       | _ -> ());
      (* 2. diff the whole projection *)
      let rm = render !apps !assets !nusers !model and ri = render !apps !assets !nusers impl in
      (try
         L.iter2 (fun (k1, v1) (k2, v2) ->
             if k1 <> k2 then mismatch ~case:!case ~step:!step ~field:"projection-shape" ~model:k1 ~impl:k2
             else if v1 <> v2 then mismatch ~case:!case ~step:!step ~field:(kind ^ ":" ^ k1) ~model:v1 ~impl:v2) rm ri
       with Invalid_argument _ ->
         mismatch ~case:!case ~step:!step ~field:"projection-length" ~model:(string_of_int (L.length rm)) ~impl:(string_of_int (L.length ri)));
      (* after a mismatch keep following the implementation so that one disagreement is reported once *)
      if rm <> ri then model := impl;
      (* 3. the property predicates, on the implementation's state *)
      let pf pred kf detail = predfail ~case:!case ~step:!step ~pred ~kf ~detail in
      (match mop with Some op when res = "ok" -> (let kf = kf_of op in if kf <> "none" then taint := kf) | _ -> ());
      if not (holds_C13_locker !apps !assets impl) then pf "holds_C13_locker" "none" kind;
      if not (holds_C13_nonneg !apps !assets impl) then pf "holds_C13_nonneg" "none" kind;
      if not !outside && not (holds_C13_backed !apps !assets impl) then pf "holds_C13_backed" !taint kind;
      (match mop, !prev_impl with
       | Some op, Some p when res = "ok" ->
         let kf = kf_of op in
         if kf <> "none" then taint := kf;
         let keys = L.concat (L.map (fun a -> L.map (fun d -> (a, d)) !assets) !apps) in
         if not (holds_C13_pay p op impl) then pf "holds_C13_pay" "none" kind;
         (* the savings-rate change and the emergency redemption are exact only in a backed state *)
         let rate_kf = (match op with UpdLookup _ | EsmRedeem _ -> !taint | _ -> kf) in
         let multi_outside = !outside && (match op with UpdLookup _ | EsmRedeem _ -> true | _ -> false) in
         if not had_pre && not multi_outside then begin
           if not (holds_C13_delta keys p op impl) then pf "holds_C13_delta" rate_kf kind;
           if valid_op op && not (holds_C13_flow !apps !assets p op impl) then pf "holds_C13_flow" rate_kf kind
         end;
         (* histograms *)
         (match op with
          | LCreate _ | LDeposit _ | LWithdraw _ | LClose _ -> incr ok_locker
          | FeeIn (_, _, amt, _) -> if zs amt <> "0" then (incr ok_coll; bump "fee-in:positive")
          | GetAmount _ | DecNetFee _ | SurplusFund _ | V1Penalty _ | V2Penalty _ | V1SurplusClose _ | V1DebtClose _
          | V2SurplusClose _ | V2DebtClose _ | V2TriggerEsm _ | CDeposit _ -> incr ok_coll
          | EsmRedeem (a, _, l) ->
            if L.exists (fun (d, c) -> zs c = "1" && zs (nf_val p.cs a d) <> "0") l then (incr ok_coll; bump "esm-redeem:burnt")
          | _ -> ());
         (match op with
          | LDeposit (_, a, d, l, _, rw) | LWithdraw (_, a, d, l, _, rw) | LClose (_, a, d, l, rw) ->
            if zs (credited p a d l rw) <> "0" then (incr paid; bump "reward:paid")
          | LRewardCalc (a, l, rw) ->
            (match find_locker p.lockers l with
             | Some ld -> if zs (credited p a ld.l_asset l rw) <> "0" then (incr paid; bump "reward:paid")
             | None -> ())
          | UpdLookup (a, d, _, _, _, _, _, _) ->
            if zs (net_sum (lockers_of impl a d)) <> zs (net_sum (lockers_of p a d)) then (incr paid; bump "reward:paid-by-rate-change")
          | V1SurplusStart (a, d) | V2CheckStats (a, d) -> if started p impl a d then bump ("started:" ^ kind)
          | _ -> ())
       | _ -> ());
      prev_impl := Some impl;
      bump ("op:" ^ kind ^ ":" ^ res)
    end in
  L.iter (fun line ->
      match tokens line with
      | "case" :: id :: na :: rest ->
        end_case ();
        case := id; step := 0; dead := false; taint := "none"; outside := false; ext_ok := true; Buffer.clear sig_;
        ok_locker := 0; ok_coll := 0; paid := 0;
        let na = int_of_string na in
        let (a, rest) = take na rest in
        let nd = int_of_string (L.hd rest) in
        let (d, rest) = take nd (L.tl rest) in
        apps := L.map zo a; assets := L.map zo d; nusers := int_of_string (L.hd rest);
        in_apps := mem !apps; in_assets := mem !assets;
        model := init_state !in_assets !in_apps;
        prev_impl := None
      | ["fund"; u; d; amt] -> model := fund_user !model (zo u) (zo d) (zo amt)
      | "op" :: rest ->
        incr step; incr steps;
        Buffer.add_string sig_ (S.concat " " rest ^ ";");
        cur_op := parse_op rest;
        o := new_obs ()
      | "pre" :: rest ->
        (match parse_op rest with
         | (k, Some op, _) -> pre_ops := (k, op) :: !pre_ops
         | _ -> ())
      | "L" :: next :: n :: rest ->
        !o.o_next <- zo next;
        let rec go i l = if i = 0 then [] else match l with
            | id :: ow :: app :: asset :: net :: ret :: tl ->
              { l_id = zo id; l_owner = zo ow; l_app = zo app; l_asset = zo asset; l_net = zo net; l_ret = zo ret } :: go (i - 1) tl
            | _ -> failwith "L line" in
        !o.o_lockers <- go (int_of_string n) rest
      | ["E"; app; e; k] -> Hashtbl.replace !o.o_esm app (b e); Hashtbl.replace !o.o_brk app (b k)
      | "K" :: app :: asset :: found :: dep :: _n :: ids ->
        if b found then Hashtbl.replace !o.o_lks (app ^ "," ^ asset) { lk_dep = zo dep; lk_ids = L.map zo ids }
      | ["N"; app; asset; found; v] -> if b found then Hashtbl.replace !o.o_nf (app ^ "," ^ asset) (zo v)
      | ["C"; app; asset; found; lsr_; sthr; dthr; lot; dlot; sec; capp; casset] ->
        if b found then Hashtbl.replace !o.o_clk (app ^ "," ^ asset)
            { cl_lsr = zo lsr_; cl_surplus_thr = zo sthr; cl_debt_thr = zo dthr; cl_lot = zo lot; cl_debt_lot = zo dlot; cl_secondary = zo sec; cl_app = zo capp; cl_asset = zo casset }
      | ["A"; app; asset; found; su; de; di; act] ->
        if b found then Hashtbl.replace !o.o_amp (app ^ "," ^ asset)
            { af_surplus = b su; af_debt = b de; af_distributor = b di; af_active = b act }
      | ["W"; app; asset; l; r; dm] -> Hashtbl.replace !o.o_lwl (app ^ "," ^ asset) (b l); Hashtbl.replace !o.o_rwl (app ^ "," ^ asset) (b r);
        Hashtbl.replace !o.o_adm (app ^ "," ^ asset) (b dm)
      | ["U"; u; app; asset; lid] -> Hashtbl.replace !o.o_umap (u ^ "," ^ app ^ "," ^ asset) (zo lid)
      | ["T"; lid; app; v] -> Hashtbl.replace !o.o_trk (lid ^ "," ^ app) (zo v)
      | ["B"; acct; d; v] -> Hashtbl.replace !o.o_bank (acct ^ "," ^ d) (zo v)
      | ["ext"; v] -> ext_ok := b v
      | ["note"; "v2pen:split_mismatch"] ->
        (* generation-2 penalty: collector share + keeper share <> LockedVault.FeeToBeCollected *)
        mismatch ~case:!case ~step:!step ~field:"v2pen.split" ~model:"penalty=collector+keeper" ~impl:"differs"
      | ["note"; k] -> bump ("note:" ^ k)
      | ["end"] -> finish_step ()
      | _ -> ()
    ) lines;
  end_case ();
  finish ~cases:!cases ~steps:!steps ~nontrivial:!nontrivial

let () = Conv.register "C13" run
