(* C18-pair runner: replays Model/AccrualPair.v (WasmUpdatePairsVault, its sweep, the vault messages'
   interest calculation and stamps) over each case's history, diffs the pair's and every vault's records
   after EVERY step, and judges the extracted holds_C18_pair_charge on what the IMPLEMENTATION charged each
   vault in the step (the rise of InterestAccumulated * 10^18 + tracker), with the fee in force / since
   when / the vault's settlement time taken from the model's state before the step.  calc = the table of
   real CalculationOfRewards values ("q" lines). *)
open Conv

let zs = z_of_string
let sz = string_of_z
let z0 = BinNums.Z0
let p18 = zs "1000000000000000000"
let zadd = BinInt.Z.add
let zsub = BinInt.Z.sub
let zmul = BinInt.Z.mul
let zeq = BinInt.Z.eqb

let run (path : string) =
  let lines = read_lines path in
  let cases = ref 0 and steps = ref 0 and nontrivial = ref 0 in
  let case = ref "" and step = ref 0 and nt = ref false in
  let sig_ = Buffer.create 256 in
  let oracle : (string, BinNums.coq_Z Base.outcome) Hashtbl.t = Hashtbl.create 256 in
  let miss = ref false in
  let calc now bt p r =
    let k = S.concat " " [sz now; sz bt; sz p; sz r] in
    match Hashtbl.find_opt oracle k with
    | Some v -> v
    | None -> miss := true; bump "oracle-miss"; Base.Err z0 in
  let m : AccrualPair.pstate option ref = ref None in
  let pre : AccrualPair.pstate option ref = ref None in       (* model state before the pending step *)
  let mcls = ref "" and icls = ref "" and opk = ref "" in
  let obs_pair = ref ("", "", "") in
  let obs_v : (int, string array) Hashtbl.t = Hashtbl.create 8 in      (* after the step *)
  let prev_v : (int, string array) Hashtbl.t = Hashtbl.create 8 in     (* before the step *)
  let prev_fee = ref z0 in
  let now = ref z0 in
  let end_case () =
    if !case <> "" then begin
      incr cases; if !nt then incr nontrivial;
      Hashtbl.replace distinct (Digest.string (Buffer.contents sig_)) ()
    end in
  let cmpf field model impl = if model <> impl then mismatch ~case:!case ~step:!step ~field ~model ~impl in
  let cls_of = function Base.Ok _ -> "ok" | Base.Err _ -> "err" | Base.Panic -> "panic" in
  let do_op (o : AccrualPair.pop) cls =
    incr step; incr steps;
    (match !m with
     | None -> ()
     | Some s ->
       pre := Some s; miss := false;
       let res = AccrualPair.pstep calc s o in
       mcls := cls_of res; icls := cls;
       (match res with
        | Base.Ok (s', cs) -> m := Some s';
          L.iter (fun (c : AccrualPair.charge) -> if not (zeq c.AccrualPair.ch_amt z0) then nt := true) cs
        | _ -> ())) in
  let finish_step () =
    match !m, !pre with
    | Some s, Some s0 ->
      cmpf "class" !mcls !icls;
      if !miss then mismatch ~case:!case ~step:!step ~field:"oracle" ~model:"value-needed" ~impl:"not-in-table";
      let (f, bt, bh) = !obs_pair in
      cmpf "pair.fee" (sz s.AccrualPair.ps_fee) f; cmpf "pair.bt" (sz s.AccrualPair.ps_pbt) bt; cmpf "pair.bh" (sz s.AccrualPair.ps_pbh) bh;
      cmpf "vaults" (string_of_int (L.length s.AccrualPair.ps_vaults)) (string_of_int (Hashtbl.length obs_v));
      L.iteri (fun i (v : AccrualPair.pvault) ->
          match Hashtbl.find_opt obs_v i with
          | None -> ()
          | Some o ->
            let fld n = Printf.sprintf "v%d.%s" i n in
            cmpf (fld "debt") (sz v.AccrualPair.pv_debt) o.(0); cmpf (fld "intacc") (sz v.AccrualPair.pv_intacc) o.(1);
            (match v.AccrualPair.pv_tracker with
             | None -> cmpf (fld "tracker") "0:0" (o.(2) ^ ":" ^ o.(3))
             | Some t -> cmpf (fld "tracker") ("1:" ^ sz t) (o.(2) ^ ":" ^ o.(3)));
            cmpf (fld "bh") (sz v.AccrualPair.pv_bh) o.(4); cmpf (fld "bt") (sz v.AccrualPair.pv_bt) o.(5)) s.AccrualPair.ps_vaults;
      (* the property, on the implementation's own numbers *)
      let pre_vs = Array.of_list s0.AccrualPair.ps_vaults in
      Hashtbl.iter (fun i (o : string array) ->
          match Hashtbl.find_opt prev_v i with
          | None -> ()
          | Some p when i < Array.length pre_vs ->
            let tot a = zadd (zmul (zs a.(1)) p18) (zs a.(3)) in
            let charged = zsub (tot o) (tot p) in
            let owed = zadd (zs p.(0)) (zs p.(1)) in
            let g = pre_vs.(i) in
            let tchg = s0.AccrualPair.ps_tchg and cov = g.AccrualPair.pv_cov in
            let nowz = s0.AccrualPair.ps_now in
            if not (zeq charged z0) then bump ("charged:" ^ !opk);
            if zeq !prev_fee z0 then bump "judged:fee-zero"
            else if BinInt.Z.leb nowz (BinInt.Z.max cov tchg) then bump "judged:zero-time"
            else bump "judged:bounded";
            if not (AccrualPair.holds_C18_pair_charge calc nowz !prev_fee tchg cov owed charged) then
              predfail ~case:!case ~step:!step ~pred:"pair_charge"
                ~kf:"none"
                ~detail:(Printf.sprintf "op=%s_vault=%d_now=%s_fee=%s_since=%s_settled=%s_owed=%s_charged=%s" !opk i (sz nowz) (sz !prev_fee)
                           (sz tchg) (sz cov) (sz owed) (sz charged))
          | Some _ -> ()) obs_v;
      if !miss then bump "oracle-miss-in-bound";
      (* the implementation's records become "before" of the next step *)
      Hashtbl.reset prev_v; Hashtbl.iter (fun i o -> Hashtbl.replace prev_v i o) obs_v; Hashtbl.reset obs_v;
      (let (f, _, _) = !obs_pair in prev_fee := zs f);
      pre := None
    | _ -> Hashtbl.reset obs_v in
  L.iter (fun line ->
      match tokens line with
      | "case" :: id :: wl :: fee :: nw :: h :: _ ->
        end_case (); case := id; step := 0; nt := false; Buffer.clear sig_; Hashtbl.reset oracle; Hashtbl.reset prev_v; Hashtbl.reset obs_v;
        m := Some (AccrualPair.pinit (zs nw) (zs h) (bool_of_tok wl) false (zs fee)); pre := None; prev_fee := zs fee; now := zs nw;
        bump (if bool_of_tok wl then "app:whitelisted" else "app:not-whitelisted");
        bump (if fee = "0" then "fee0:zero" else "fee0:non-zero")
      | "q" :: nw :: bt :: p :: r :: cls :: v :: _ ->
        Hashtbl.replace oracle (S.concat " " [nw; bt; p; r])
          (match cls with "ok" -> Base.Ok (zs v) | "err" -> Base.Err (z_of_int 1) | _ -> Base.Panic)
      | "o" :: "nop" :: _ -> opk := "nop"; pre := None; mcls := "ok"; icls := "ok"; bump "op:nop"
      | "o" :: "adv" :: dt :: dh :: cls :: _ ->
        Buffer.add_string sig_ line; opk := "adv"; bump "op:adv"; if dt = "0" then bump "adv:same-time";
        do_op (AccrualPair.OAdvance (zs dt, zs dh)) cls
      | "o" :: "create" :: d :: cls :: _ ->
        Buffer.add_string sig_ line; opk := "create"; bump ("op:create:" ^ cls);
        if cls = "ok" then do_op (AccrualPair.OCreate (zs d)) cls else begin pre := None; bump "create-rejected" end
      | "o" :: "calc" :: i :: cls :: _ ->
        Buffer.add_string sig_ line; opk := "calc"; bump ("op:calc:" ^ cls);
        do_op (AccrualPair.OCalc (nat_of_int (int_of_string i))) cls
      | "o" :: "touch" :: i :: d :: cls :: _ ->
        Buffer.add_string sig_ line; opk := (if d = "0" then "deposit" else "draw"); bump ("op:" ^ !opk ^ ":" ^ cls);
        (* a draw rejected by the vault's own checks (collateral ratio ...) is outside this model: skip the step *)
        if cls = "ok" || d = "0" then do_op (AccrualPair.OTouch (nat_of_int (int_of_string i), zs d)) cls
        else begin pre := None; bump "draw-rejected" end
      | "o" :: "setfee" :: f :: kind :: cls :: _ ->
        Buffer.add_string sig_ line; opk := "setfee:" ^ kind; bump ("op:setfee:" ^ kind);
        (match !m with
         | Some s ->
           let touched = L.exists (fun (v : AccrualPair.pvault) -> not (zeq v.AccrualPair.pv_bh z0)) s.AccrualPair.ps_vaults in
           bump ("setfee:" ^ kind ^ (if s.AccrualPair.ps_vaults = [] then ":no-vault" else if touched then ":some-vault-own-stamp" else ":all-vaults-pair-stamp"))
         | None -> ());
        do_op (AccrualPair.OSetFee (zs f)) cls
      | "pair" :: f :: bt :: bh :: _ -> obs_pair := (f, bt, bh)
      | "v" :: i :: "gone" :: _ -> ignore i
      | "v" :: i :: d :: ia :: tf :: tv :: bh :: bt :: _ -> Hashtbl.replace obs_v (int_of_string i) [| d; ia; tf; tv; bh; bt |]
      | "e" :: _ -> if (match !pre with Some _ -> true | None -> false) then finish_step () else begin
            Hashtbl.reset prev_v; Hashtbl.iter (fun i o -> Hashtbl.replace prev_v i o) obs_v; Hashtbl.reset obs_v;
            (let (f, _, _) = !obs_pair in if f <> "" then prev_fee := zs f) end
      | _ -> ()) lines;
  end_case ();
  finish ~cases:!cases ~steps:!steps ~nontrivial:!nontrivial

let () = Conv.register "C18-pair" run
