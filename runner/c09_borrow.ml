(* C09 borrow runner: replays the liquidationsV2 hook (vault sweep on an empty vault list + BORROW
   sweep), the liquidate messages (liq type 1 / external) and the batch-size parameter change on the
   extracted model (Model/Liquidation.v): the decision of every visit is re-made by the extracted
   seize_rule_borrow from the RAW inputs the implementation read (the model - not the harness -
   chooses same pool / first transit / second transit / e-mode), the borrow list, the IsLiquidated
   set and both offsets are diffed after EVERY step, and the extracted predicates
   holds_C09_safe_borrow (safe borrow never seized), holds_C09_handover_borrow /
   holds_C09_handover_external (seizure moves exactly the recorded collateral, one locked vault, one
   auction, exact statistics) and holds_C09_live_borrow(_quiet) (unsafe borrow seized within the
   proved bound) are evaluated on the IMPLEMENTATION's observations. *)
open Conv
open Liquidation

let zs = string_of_z
let opt_price s = if s = "-1" then None else Some (z_of_string s)
let zi = z_of_int

type binput = { b : borrow_in; z : bseize }

let parse_b toks : binput =
  match toks with
  | [ id; found; liq; lfound; kill; intok; ain; aout; intr; pin; din; pout; dout; lt; elt; emode; bramt; brden; first;
      t1; t2; white; dutch; english; pbal; cbal; stable; pacc; denin; cden; poolin; assetin; poolout; assetout; lend ] ->
    let b = { b_id = z_of_string id; b_found = bool_of_tok found; b_liquidated = bool_of_tok liq; b_lend_found = bool_of_tok lfound;
              b_kill = bool_of_tok kill; b_interest_ok = (intok = "1"); b_interest_panic = (intok = "2"); b_amt_in = z_of_string ain; b_amt_out = z_of_string aout;
              b_interest = z_of_string intr; b_price_in = opt_price pin; b_dec_in = z_of_string din; b_price_out = opt_price pout;
              b_dec_out = z_of_string dout; b_liq_thr = z_of_string lt; b_eliq_thr = z_of_string elt; b_emode = bool_of_tok emode;
              b_bridged_amt = z_of_string bramt; b_bridged_denom = z_of_string brden; b_first_denom = z_of_string first;
              b_thr_one = z_of_string t1; b_thr_two = z_of_string t2; b_white = bool_of_tok white; b_dutch = bool_of_tok dutch;
              b_english = bool_of_tok english; b_pool_bal = z_of_string pbal; b_cpool_bal = z_of_string cbal; b_v1_start = false } in
    let z = { z_id = z_of_string id; z_amt_in = z_of_string ain; z_amt_out = z_of_string aout; z_stable = bool_of_tok stable;
              z_pool_acc = z_of_string pacc; z_denom_in = z_of_string denin; z_cdenom = z_of_string cden;
              z_pool_in = z_of_string poolin; z_asset_in = z_of_string assetin; z_pool_out = z_of_string poolout;
              z_asset_out = z_of_string assetout; z_lend = z_of_string lend } in
    { b; z }
  | _ -> failwith ("bad b line: " ^ S.concat " " toks)

(* the extracted rules are pure: evaluate them once per distinct input line (Coq-datatype arithmetic is slow) *)
type info = { x : binput; v : verdict; cr : BinNums.coq_Z Base.outcome; th : BinNums.coq_Z Base.outcome; unsafe : bool; ps : pos }
let memo_info : (string, info) Hashtbl.t = Hashtbl.create 4096
let info_of_line (line : string) (toks : string list) : info =
  match Hashtbl.find_opt memo_info line with
  | Some i -> i
  | None ->
    let x = parse_b toks in
    (* borrow_eval = (seize_rule_borrow, lend_cr, applicable_threshold, borrow_unsafe) with the ratio computed
       once (Properties/C09.v c09_borrow_eval); pos_of_borrow g b = mkPos (b_id b) 0 (seize_rule_borrow g b) *)
    let e = borrow_eval GB2 x.b in
    let ps = { p_id = x.b.b_id; p_app = BinNums.Z0; p_v = e.e_v } in
    let i = { x; v = e.e_v; cr = e.e_cr; th = e.e_th; unsafe = e.e_unsafe; ps } in
    Hashtbl.replace memo_info line i; i

type sproj = { off0 : string; off1 : string; ids : string list; liq : string list }

let parse_s toks : sproj =
  match toks with
  | off0 :: off1 :: n :: rest ->
    let (ids, rest) = take (int_of_string n) rest in
    (match rest with
     | nl :: rest -> let (liq, _) = take (int_of_string nl) rest in { off0; off1; ids; liq }
     | _ -> failwith "bad s line")
  | _ -> failwith "bad s line"

(* (k1 k2 v)* *)
let rec triples = function
  | a :: b :: c :: tl -> ((z_of_string a, z_of_string b), z_of_string c) :: triples tl
  | [] -> []
  | _ -> failwith "bad triple list"

let empty_world = { w_bal = []; w_supply = []; w_tlend = []; w_tborrow = []; w_tstable = []; w_lend = []; w_liq = [];
                    w_locked = []; w_auction = [] }

type newrec = { orig : string; amt : string; ty : string; den : string }

type track = { mutable age : int; n : int; mutable m : int; mutable c : int; mutable quiet : bool; mutable short : bool; mutable reported : bool }

let bridge_name (b : borrow_in) = match bridge_of b with SamePool -> "same" | FirstTransit -> "first" | SecondTransit -> "second"

let run (path : string) =
  let lines = read_lines path in
  let cases = ref 0 and steps = ref 0 and nontrivial = ref 0 in
  let case = ref "" and kind = ref "" in
  let batch = ref BinNums.Z0 in
  let m_ids : BinNums.coq_Z list ref = ref [] in
  let m_liq : string list ref = ref [] in
  let m_off0 = ref BinNums.Z0 and m_off1 = ref BinNums.Z0 in
  let inputs : info list ref = ref [] in
  let last_inputs : info list ref = ref [] in
  let last_op = ref "" in
  let step = ref 0 in
  let dead = ref false in
  let seized_any = ref false in
  let sig_ = Buffer.create 256 in
  let prev_s_ref : sproj option ref = ref None in
  let cur_s_ref : sproj option ref = ref None in
  let last_block_batch : BinNums.coq_Z option ref = ref None in
  let prev_w : lworld option ref = ref None in
  let cur_w = ref empty_world in
  let new_locked : newrec list ref = ref [] in
  let new_auc : (string * string) list ref = ref [] in
  let ext_expect : (BinNums.coq_Z * BinNums.coq_Z) option ref = ref None in
  let tracked : (string, track) Hashtbl.t = Hashtbl.create 16 in
  let tracked5 : (string, track) Hashtbl.t = Hashtbl.create 16 in
  let kf6_ids : (string, unit) Hashtbl.t = Hashtbl.create 16 in
  let end_case () =
    if !case <> "" then begin
      incr cases;
      if !seized_any then incr nontrivial;
      Hashtbl.replace distinct (Digest.string (Buffer.contents sig_)) ()
    end in
  let mism field model impl = mismatch ~case:!case ~step:!step ~field ~model ~impl in
  let expect_class model impl = if model <> impl then mism "result" model impl in
  let ids_str l = S.concat "," (L.map zs l) in
  let check_inputs_match () =
    let vi = L.map (fun i -> i.x.b.b_id) !inputs in
    if ids_str vi <> ids_str !m_ids then mism "input-ids" (ids_str !m_ids) (ids_str vi) in
  let nstep name = incr step; incr steps; bump ("op:" ^ name); last_op := name in
  (* histogram of the decisions: which case, how far from the applicable threshold *)
  let note_decision (i : info) =
    let b = i.x.b in
    if b.b_found && not b.b_liquidated then begin
      let vs = (match i.v with VSeize -> "seize" | VKeep -> "keep" | VErr -> "err" | VPanic -> "panic") in
      bump (Printf.sprintf "dec:%s:%s:%s" (bridge_name b) (if b.b_emode then "emode" else "plain") vs);
      (match i.cr, i.th with
       | Base.Ok cr, Base.Ok th ->
         let d = Z.sub (zz_of_z cr) (zz_of_z th) in
         let cls = if Z.equal d Z.zero then "0" else if Z.equal d Z.one then "+1" else if Z.equal d Z.minus_one then "-1"
           else if Z.gt d Z.zero && Z.leq d (Z.of_int 1000) then "+small" else if Z.lt d Z.zero && Z.geq d (Z.of_int (-1000)) then "-small"
           else if Z.gt d Z.zero then "+far" else "-far" in
         bump (Printf.sprintf "margin:%s:%s" (bridge_name b) cls)
       | _ -> bump "margin:not-computable")
    end in
  (* liveness bookkeeping: a borrow whose visit WOULD seize it (above its threshold, controls off, prices
     active, whitelisted, auction type on, funds there) counts the blocks until the implementation seizes it *)
  let live_pre (impl_batch : BinNums.coq_Z) =
    let n = L.length !inputs in
    L.iter (fun i ->
        let id = zs i.x.b.b_id in
        let unsafe_and_live = (i.v = VSeize) && BinInt.Z.geb impl_batch (zi 1) in
        if unsafe_and_live then begin
          match Hashtbl.find_opt tracked id with
          | Some t -> t.age <- t.age + 1
          | None -> Hashtbl.replace tracked id { age = 1; n; m = n; c = 0; quiet = true; short = false; reported = false }
        end else Hashtbl.remove tracked id;
        (* the property's own hypotheses (whether or not the visit can complete): hypotheses + above threshold *)
        let hyp_unsafe = live_hyp_borrow i.x.b && i.unsafe && BinInt.Z.geb impl_batch (zi 1) in
        if hyp_unsafe then begin
          let known6 = (i.v <> VSeize) && (i.x.b.b_interest_panic || not i.x.b.b_interest_ok) && kf_C09_6 i.x.b in
          if known6 then bump "live:interest-update-fails-visit";
          let short = (i.v <> VSeize) && (known6 || kf_C09_5 i.x.b) in
          if known6 then Hashtbl.replace kf6_ids id ();
          (match Hashtbl.find_opt tracked5 id with
           | Some t -> t.age <- t.age + 1; if short then t.short <- true
           | None -> Hashtbl.replace tracked5 id { age = 1; n; m = n; c = 0; quiet = true; short; reported = false });
          if short then bump "live:pool-short-visit"
        end else Hashtbl.remove tracked5 id) !inputs in
  let live_post (impl_batch : BinNums.coq_Z) (liq_now : string list) =
    let judge id (t : track) age =
      let age = zi age in
      let ok, bound =
        if t.quiet then holds_C09_live_borrow_quiet age (zi t.n) impl_batch, live_R (zi t.n) impl_batch
        else holds_C09_live_borrow age (zi t.m) (zi t.c) impl_batch, blive_bound (zi t.m) (zi t.c) impl_batch in
      if not ok then
        predfail ~case:!case ~step:!step ~pred:(if t.quiet then "holds_C09_live_borrow_quiet" else "holds_C09_live_borrow") ~kf:"none"
          ~detail:(Printf.sprintf "borrow=%s_unsafe_and_liquidatable_for_%s_blocks_not_seized_bound=%s_(n=%d_batch=%s)" id (zs age) (zs bound) t.n (zs impl_batch)) in
    let done_ = Hashtbl.fold (fun id _ acc -> if L.mem id liq_now then id :: acc else acc) tracked [] in
    L.iter (fun id ->
        (match Hashtbl.find_opt tracked id with
         | Some t -> bump (Printf.sprintf "live:seized-in-block=%d" (min t.age 30)); judge id t t.age
         | None -> ());
        Hashtbl.remove tracked id) done_;
    Hashtbl.iter (fun id t -> judge id t (t.age + 1)) tracked;
    (* class C09-F5: hypotheses hold and the borrow is unsafe for longer than the bound because the pool was
       short of its collateral during the wait (the strict tracker above restarts at every such block) *)
    L.iter (fun id -> Hashtbl.remove tracked5 id) (Hashtbl.fold (fun id _ acc -> if L.mem id liq_now then id :: acc else acc) tracked5 []);
    Hashtbl.iter (fun id t ->
        let age = zi (t.age + 1) in
        let ok = if t.quiet then holds_C09_live_borrow_quiet age (zi t.n) impl_batch else holds_C09_live_borrow age (zi t.m) (zi t.c) impl_batch in
        if not ok && t.short && not t.reported then begin
          t.reported <- true;
          if Hashtbl.mem kf6_ids id then
            predfail ~case:!case ~step:!step ~pred:"holds_C09_live_borrow" ~kf:"kf_C09_6"
              ~detail:(Printf.sprintf "borrow=%s_unsafe_with_every_hypothesis_for_%s_blocks_not_seized:_its_interest_update_fails_at_every_visit" id (zs age))
          else
            predfail ~case:!case ~step:!step ~pred:"holds_C09_live_borrow" ~kf:"kf_C09_5"
              ~detail:(Printf.sprintf "borrow=%s_unsafe_with_every_hypothesis_for_%s_blocks_not_seized:_its_pool_is_short_of_the_recorded_collateral" id (zs age))
        end) tracked5 in
  L.iter (fun line ->
      match tokens line with
      | [ "case"; id; k; b ] ->
        end_case ();
        case := id; kind := k; batch := z_of_string b;
        m_ids := []; m_liq := []; m_off0 := BinNums.Z0; m_off1 := BinNums.Z0; inputs := []; last_inputs := [];
        prev_s_ref := None; cur_s_ref := None; prev_w := None; last_op := "init"; step := 0; dead := false; seized_any := false;
        Hashtbl.reset tracked; Hashtbl.reset tracked5; Hashtbl.reset kf6_ids; ext_expect := None;
        Buffer.clear sig_; Buffer.add_string sig_ (k ^ ":" ^ b ^ ";");
        bump ("batch=" ^ b); bump ("kind=" ^ (if S.length k >= 6 && S.sub k 0 6 = "bridge" then "bridge" else k))
      | _ when !dead -> ()
      | "b" :: toks -> inputs := !inputs @ [ info_of_line line toks ]
      | "op" :: "price" :: _ -> nstep "price"
      | "op" :: "target" :: _ :: which :: delta :: _ -> nstep "target"; bump ("target:" ^ which ^ ":" ^ (if S.length delta > 6 then "far" else delta))
      | "op" :: "kill" :: _ -> nstep "kill"
      | "op" :: "white" :: _ -> nstep "white"
      | "op" :: "skip" :: _ -> nstep "skip"
      | "op" :: "drain" :: _ -> nstep "drain"
      | "op" :: "refill" :: _ -> nstep "refill"
      | "op" :: "draw" :: _ -> nstep "draw"
      | "op" :: "repay" :: _ -> nstep "repay"
      | [ "op"; "borrow"; _pair; _amt; _pm; _st; cls; id ] ->
        nstep "borrow"; bump ("borrow:" ^ cls);
        if cls = "ok" then begin
          (* the new id joins the list somewhere (its pool-asset group): the position is read off the projection *)
          last_op := "borrow-ok:" ^ id;
          Hashtbl.iter (fun _ t -> t.m <- t.m + 1; t.c <- t.c + 1; t.quiet <- false) tracked;
          Hashtbl.iter (fun _ t -> t.m <- t.m + 1; t.c <- t.c + 1; t.quiet <- false) tracked5
        end
      | [ "op"; "close"; id; cls ] ->
        nstep "close"; bump ("close:" ^ cls);
        if cls = "ok" then begin
          m_ids := L.filter (fun x -> zs x <> id) !m_ids;
          Hashtbl.remove tracked id; Hashtbl.remove tracked5 id;
          Hashtbl.iter (fun _ t -> t.quiet <- false) tracked; Hashtbl.iter (fun _ t -> t.quiet <- false) tracked5
        end
      | [ "op"; "govbatch"; v; cls ] ->
        nstep "govbatch";
        let v = z_of_string v in
        let ok = valid_batch v in
        expect_class (if ok then "ok" else "err") cls;
        bump ("govbatch:" ^ (if ok then "valid" else "invalid") ^ ":" ^ cls);
        if ok then batch := v
      | [ "op"; "ext"; _coll; amt; reserve; params; dutch; pc; pd; cls ] ->
        nstep "ext";
        let ok = ext_rule (bool_of_tok params) (bool_of_tok reserve) (bool_of_tok dutch) (opt_price pc) (opt_price pd) in
        expect_class (if ok then "ok" else "err") cls;
        bump ("ext:" ^ cls);
        ext_expect := (if cls = "ok" then Some (z_of_string _coll, z_of_string amt) else None)
      | [ "op"; "liq"; ty; id; cls ] ->
        nstep "liq";
        check_inputs_match ();
        if ty = "1" then begin
          let poss = L.map (fun i -> i.ps) !inputs in
          L.iter (fun i -> if zs i.x.b.b_id = id then note_decision i) !inputs;
          (match msg_liquidate GB2 poss (z_of_string id) with
           | Base.Ok (seized, _) ->
             expect_class "ok" cls;
             bump (if seized = [] then "liq:ok-noop" else "liq:ok-seized");
             m_liq := L.sort_uniq compare (!m_liq @ L.map zs seized)
           | Base.Err _ -> expect_class "err" cls; bump "liq:err"
           | Base.Panic -> expect_class "panic" cls; bump "liq:panic")
        end else begin
          (* MsgLiquidate with a liq type other than 0 / 1 does nothing and succeeds *)
          expect_class "ok" cls; bump "liq:other-type"
        end;
        Buffer.add_string sig_ ("l" ^ ty ^ "/" ^ id ^ cls ^ ";");
        last_inputs := !inputs; inputs := []
      | [ "op"; "block"; b; res ] ->
        nstep "block";
        let impl_batch = z_of_string b in
        last_block_batch := Some impl_batch;
        if b <> zs !batch then mism "batch" (zs !batch) b;
        check_inputs_match ();
        live_pre impl_batch;
        let poss = L.map (fun i -> i.ps) !inputs in
        L.iter note_decision !inputs;
        let n = zi (L.length poss) in
        (match sweep_v2 (fun k -> k) !batch { t_list = []; t_counter = BinNums.Z0; t_off0 = !m_off0; t_borrows = poss; t_off1 = !m_off1 } with
         | Base.Ok ((_, seized), st') ->
           expect_class "ok" res;
           m_off0 := st'.t_off0; m_off1 := st'.t_off1;
           m_liq := L.sort_uniq compare (!m_liq @ L.map zs seized);
           bump (Printf.sprintf "block:seized=%d" (L.length seized));
           Buffer.add_string sig_ ("b" ^ ids_str seized ^ ";")
         | Base.Err _ -> expect_class "err" res
         | Base.Panic -> expect_class "panic" res; bump "block:panic");
        bump (Printf.sprintf "block:n=%s" (zs n));
        if res = "panic" then dead := true;
        last_inputs := !inputs; inputs := []
      | "s" :: toks ->
        let p = parse_s toks in
        (* a borrow the lend module opened: inserted somewhere, the others keep their order *)
        (if S.length !last_op > 10 && S.sub !last_op 0 10 = "borrow-ok:" then begin
            let id = S.sub !last_op 10 (S.length !last_op - 10) in
            let rest = L.filter (fun x -> x <> id) p.ids in
            if rest <> L.map zs !m_ids || not (L.mem id p.ids) then
              mism "insert" (S.concat "," (L.map zs !m_ids) ^ "+" ^ id) (S.concat "," p.ids)
            else begin
              let rec pos i = function [] -> i | x :: tl -> if x = id then i else pos (i + 1) tl in
              bump (if pos 0 p.ids = L.length rest then "insert:appended" else "insert:inside")
            end;
            m_ids := L.map z_of_string p.ids
          end);
        let mi = L.map zs !m_ids in
        if mi <> p.ids then mism "borrow-ids" (S.concat "," mi) (S.concat "," p.ids);
        let sort = L.sort compare in
        let ml = sort (L.filter (fun id -> L.mem id p.ids) !m_liq) in
        if ml <> sort p.liq then mism "liquidated" (S.concat "," ml) (S.concat "," (sort p.liq));
        if zs !m_off0 <> p.off0 then mism "offset[0]" (zs !m_off0) p.off0;
        if zs !m_off1 <> p.off1 then mism "offset[1]" (zs !m_off1) p.off1;
        (* the model follows its own decisions; borrows that left the list are dropped from its liquidated set *)
        m_liq := L.filter (fun id -> L.mem id p.ids) !m_liq;
        cur_w := empty_world;
        cur_s_ref := Some p
      | "wb" :: _n :: rest -> cur_w := { !cur_w with w_bal = triples rest }
      | "wu" :: _n :: rest ->
        let rec pairs = function a :: b :: tl -> ((BinNums.Z0, z_of_string a), z_of_string b) :: pairs tl | _ -> [] in
        cur_w := { !cur_w with w_supply = pairs rest }
      | "wl" :: _n :: rest ->
        let rec go = function
          | p :: a :: tl :: tb :: ts :: r ->
            let (x, y, z) = go r in
            let k = (z_of_string p, z_of_string a) in
            ((k, z_of_string tl) :: x, (k, z_of_string tb) :: y, (k, z_of_string ts) :: z)
          | _ -> ([], [], []) in
        let (x, y, z) = go rest in
        cur_w := { !cur_w with w_tlend = x; w_tborrow = y; w_tstable = z }
      | "wp" :: _n :: rest ->
        let rec pairs = function a :: b :: tl -> (z_of_string a, z_of_string b) :: pairs tl | _ -> [] in
        cur_w := { !cur_w with w_lend = pairs rest }
      | "wk" :: _n :: rest ->
        let rec go = function o :: a :: t :: d :: tl -> { orig = o; amt = a; ty = t; den = d } :: go tl | _ -> [] in
        new_locked := go rest
      | "wa" :: _n :: rest ->
        let rec go = function o :: a :: tl -> (o, a) :: go tl | _ -> [] in
        new_auc := go rest;
        (* ---- the projection is complete: predicates on the implementation's observation ---- *)
        let p = (match !cur_s_ref with Some p -> p | None -> failwith "wa before s") in
        (match !prev_s_ref, !prev_w with
         | Some q, Some wq ->
           let impl_seized = L.filter (fun id -> not (L.mem id q.liq)) p.liq in
           let is_liq_step = (!last_op = "block" || !last_op = "liq") in
           if impl_seized <> [] then seized_any := true;
           if is_liq_step then begin
             (* safety: every borrow the implementation seized was above the threshold applicable to it *)
             L.iter (fun id ->
                 match L.find_opt (fun i -> zs i.x.b.b_id = id) !last_inputs with
                 | None -> predfail ~case:!case ~step:!step ~pred:"holds_C09_safe_borrow" ~kf:"none" ~detail:("seized_borrow_without_recorded_inputs=" ^ id)
                 | Some i ->
                   let b = i.x.b in
                   (* holds_C09_safe_borrow [b] = borrow_unsafe b (memoised) *)
                   if not i.unsafe then
                     predfail ~case:!case ~step:!step ~pred:"holds_C09_safe_borrow" ~kf:"none"
                       ~detail:(Printf.sprintf "borrow=%s_(%s%s)_seized_at_or_below_its_threshold_ratio=%s_threshold=%s" id (bridge_name b)
                                  (if b.b_emode then ",e-mode" else "")
                                  (match i.cr with Base.Ok c -> zs c | _ -> "not-computable")
                                  (match i.th with Base.Ok t -> zs t | _ -> "not-computable"))
                   else bump ("safe:seized-above-threshold:" ^ bridge_name b)) impl_seized;
             L.iter (fun i -> if not (L.mem (zs i.x.b.b_id) impl_seized) && not i.x.b.b_liquidated then
                        bump (if i.unsafe then "safe:kept-above-threshold" else "safe:kept-at-or-below")) !last_inputs;
             (* hand-over: the world after the step = the world before it + the book-keeping of exactly the
                borrows the implementation seized, in the order their locked vaults were opened *)
             let order = L.filter (fun id -> L.mem id impl_seized) (L.map (fun r -> r.orig) !new_locked) in
             let order = order @ L.filter (fun id -> not (L.mem id order)) impl_seized in
             let zs_ = L.filter_map (fun id -> match L.find_opt (fun i -> zs i.x.b.b_id = id) !last_inputs with Some i -> Some i.x.z | None -> None) order in
             let after = { !cur_w with w_liq = L.map z_of_string order;
                                       w_locked = L.map (fun r -> (z_of_string r.orig, z_of_string r.amt)) !new_locked;
                                       w_auction = L.map (fun (o, a) -> (z_of_string o, z_of_string a)) !new_auc } in
             if not (holds_C09_handover_borrow wq after zs_) then begin
               let m = L.fold_left seize_borrow_world wq zs_ in
               let diff name (a : ((BinNums.coq_Z * BinNums.coq_Z) * BinNums.coq_Z) list) (b : ((BinNums.coq_Z * BinNums.coq_Z) * BinNums.coq_Z) list) =
                 if a <> b then
                   S.concat "," (L.filter_map (fun ((k1, k2), v) ->
                       let v' = kget b (k1, k2) in
                       if v <> v' then Some (Printf.sprintf "%s[%s/%s]:expected=%s_observed=%s" name (zs k1) (zs k2) (zs v) (zs v')) else None) a)
                 else "" in
               let d = S.concat ";" (L.filter (fun s -> s <> "") [
                   diff "bal" m.w_bal after.w_bal; diff "supply" m.w_supply after.w_supply; diff "total_lend" m.w_tlend after.w_tlend;
                   diff "total_borrowed" m.w_tborrow after.w_tborrow; diff "total_stable" m.w_tstable after.w_tstable;
                   (if m.w_lend <> after.w_lend then "lend_positions" else "");
                   (if m.w_locked <> after.w_locked then Printf.sprintf "locked_vaults:expected=%d_observed=%d" (L.length m.w_locked) (L.length after.w_locked) else "");
                   (if m.w_auction <> after.w_auction then Printf.sprintf "auctions:expected=%d_observed=%d" (L.length m.w_auction) (L.length after.w_auction) else "") ]) in
               predfail ~case:!case ~step:!step ~pred:"holds_C09_handover_borrow" ~kf:"none"
                 ~detail:(Printf.sprintf "seized=[%s]_%s" (S.concat "," order) (if d = "" then "differs" else d))
             end else if impl_seized <> [] then bump (Printf.sprintf "handover:exact:%d" (L.length impl_seized));
             L.iter (fun r -> if r.ty <> "lend" then
                        predfail ~case:!case ~step:!step ~pred:"holds_C09_handover_borrow" ~kf:"none" ~detail:("unexpected_locked_vault_type=" ^ r.ty)) !new_locked;
             if !last_op = "block" then live_post (match !last_block_batch with Some b -> b | None -> !batch) p.liq
           end else begin
             (* any other step: nothing is seized, no locked vault of type lend appears *)
             if impl_seized <> [] then
               predfail ~case:!case ~step:!step ~pred:"holds_C09_safe_borrow" ~kf:"none" ~detail:("seized_outside_sweep_and_message=" ^ S.concat "," impl_seized);
             (match !ext_expect with
              | Some (den, amt) when !last_op = "ext" ->
                let after = { !cur_w with w_locked = L.map (fun r -> (z_of_string r.orig, z_of_string r.amt)) !new_locked;
                                          w_auction = L.map (fun (o, a) -> (z_of_string o, z_of_string a)) !new_auc } in
                if not (holds_C09_handover_external wq after den amt) then
                  predfail ~case:!case ~step:!step ~pred:"holds_C09_handover_external" ~kf:"none" ~detail:("collateral=" ^ zs amt)
                else bump "handover:external-exact"
              | _ ->
                if !new_locked <> [] || !new_auc <> [] then
                  predfail ~case:!case ~step:!step ~pred:"holds_C09_handover_borrow" ~kf:"none"
                    ~detail:(Printf.sprintf "locked_vault_or_auction_opened_by_step_%s" !last_op))
           end
         | _ -> ());
        ext_expect := None;
        prev_s_ref := Some p;
        prev_w := Some { !cur_w with w_liq = []; w_locked = []; w_auction = [] }
      | _ -> ()
    ) lines;
  end_case ();
  finish ~cases:!cases ~steps:!steps ~nontrivial:!nontrivial

let () = Conv.register "C09-borrow" run
