(* DEC runner: every modelled cosmossdk.io/math operation against the real library.
   line: <op> <a> <b> <result | P>   (Dec values as their scaled integers) *)
open Conv
open DecArith

let run path =
  let n = ref 0 and nt = ref 0 in
  L.iter (fun line ->
      match tokens line with
      | [op; a; b; res] ->
        incr n; bump ("op:" ^ op);
        let za = z_of_string a and zb = z_of_string b in
        let o2s = function Some v -> string_of_z v | None -> "P" in
        let guard v = if fits_dec v then string_of_z v else "P" in
        let model = (match op with
            | "mul" -> o2s (dmul_c za zb)
            | "mult" -> o2s (dmul_trunc_c za zb)
            | "mulup" -> guard (dmul_up za zb)
            | "quo" -> o2s (dquo_c za zb)
            | "quot" -> o2s (dquo_trunc_c za zb)
            | "quoup" -> o2s (dquo_up_c za zb)
            | "quoint" -> o2s (dquo_int_c za zb)
            | "mulint" -> o2s (dmul_int_c za zb)
            | "trunc" -> o2s (dtrunc_int_c za)
            | "round" -> o2s (dround_int_c za)
            | "ceil" -> string_of_z (dceil za)
            | "power" -> guard (dpower za zb)
            | "sqrt" -> string_of_z (dsqrt za)
            | "imul" -> o2s (imul_c za zb)
            | "iadd" -> o2s (iadd_c za zb)
            | "isub" -> o2s (isub_c za zb)
            | "iquo" -> o2s (iquo_c za zb)
            | "imod" -> o2s (imod_c za zb)
            | "add" -> o2s (dadd_c za zb)
            | "sub" -> o2s (dsub_c za zb)
            | _ -> "?") in
        if model <> "?" then begin
          if res <> "P" && a <> "0" && b <> "0" then incr nt;
          Hashtbl.replace distinct (op ^ a ^ "/" ^ b) ();
          if res = "P" then bump "impl:panic";
          (* power/sqrt intermediate overflow panics are not modelled step by step: compare only non-panicking runs *)
          if (op = "power" || op = "sqrt") && res = "P" then ()
          else if model <> res then mismatch ~case:op ~step:!n ~field:(a ^ "," ^ b) ~model ~impl:res
        end
      | _ -> ()) (read_lines path);
  finish ~cases:!n ~steps:!n ~nontrivial:!nt

let () = Conv.register "DEC" run
