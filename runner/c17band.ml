(* C17-band runner: replays the block-level pipeline traces (bandoracle.BeginBlocker +
   market.BeginBlocker, IBC callbacks, fetch-price proposal, asset registration) on the extracted
   model BandOracle.pstep, diffs the bandoracle records and every Twa record after every step, and
   evaluates the extracted predicate holds_C17_pipe on the IMPLEMENTATION's records against the
   observer (samples delivered since the last wipe) maintained by BandOracle.pghost. *)
open Conv
open Market
open BandOracle

let show_twa (t : twa option) = match t with
  | None -> "none"
  | Some r -> Printf.sprintf "a=%s_avg=%s_idx=%s_disc=%s_vals=[%s]" (tok_of_bool r.active)
                (string_of_z r.avg) (string_of_z r.idx) (string_of_z r.disc)
                (S.concat "," (L.map string_of_z r.vals))

let show_band (b : bstate) =
  Printf.sprintf "block=%s_last=%s_temp=%s_check=%s_dheight=%s_dbool=%s_valid=%s_script=%s_n=%s_gap=%s"
    (string_of_z b.b_block) (string_of_z b.b_last) (string_of_z b.b_temp) (tok_of_bool b.b_check)
    (string_of_z b.b_dheight) (tok_of_bool b.b_dbool) (tok_of_bool b.b_valid)
    (string_of_z b.b_msg.f_script) (string_of_z b.b_msg.f_n) (string_of_z b.b_msg.f_gap)

let run (path : string) =
  let lines = read_lines path in
  let cases = ref 0 and steps = ref 0 and nontrivial = ref 0 in
  let case = ref "" and step = ref 0 and dead = ref false in
  let p : pstate ref = ref pinit and gs : gstore ref = ref [] in
  let case_active = ref false and case_wipe = ref false in
  (* freshness (C17-F4, fixed): ids delivered so far, on the model's side and as observed on the implementation *)
  let cons_model : BinNums.coq_Z list ref = ref [] and cons_impl : BinNums.coq_Z list ref = ref [] in
  let pending_blk : BinNums.coq_Z option ref = ref None in
  let sig_ = Buffer.create 256 in
  let end_case () =
    if !case <> "" then begin
      incr cases;
      if !case_active && !case_wipe then incr nontrivial;
      Hashtbl.replace distinct (Digest.string (Buffer.contents sig_)) ()
    end in
  let apply (o : pop) (res : string) =
    incr step; incr steps;
    let g' = pghost !p !gs o in
    (match o with
     | Block h -> pending_blk := Some h
     | _ -> pending_blk := None);
    cons_model := pconsumed !p !cons_model o;
    (match pstep !p o with
     | Base.Ok p' ->
       if res <> "ok" then mismatch ~case:!case ~step:!step ~field:"result" ~model:"ok" ~impl:res;
       p := p'; gs := g'
     | Base.Panic ->
       if res <> "panic" then mismatch ~case:!case ~step:!step ~field:"result" ~model:"panic" ~impl:res;
       dead := true
     | Base.Err _ -> mismatch ~case:!case ~step:!step ~field:"result" ~model:"err" ~impl:res);
    if res = "panic" then begin
      predfail ~case:!case ~step:!step ~pred:"no_panic" ~kf:"none" ~detail:"block_hooks_panicked";
      dead := true
    end in
  L.iter (fun line ->
      match tokens line with
      | "case" :: id :: na :: [] ->
        end_case ();
        case := id; step := 0; dead := false; p := pinit; gs := []; case_active := false; case_wipe := false;
        cons_model := []; cons_impl := []; pending_blk := None;
        Buffer.clear sig_;
        if na <> "0" then mismatch ~case:!case ~step:0 ~field:"genesis-assets" ~model:"0" ~impl:na
      | "op" :: "reg" :: h :: script :: n :: gap :: res :: [] when not !dead ->
        bump "op:register"; if res = "rej" then bump "op:register-rejected";
        Buffer.add_string sig_ ("R" ^ script ^ "," ^ n ^ "," ^ gap ^ ";");
        let m = { f_script = z_of_string script; f_n = z_of_string n; f_gap = z_of_string gap } in
        (* a rejected proposal is the model's no-op *)
        let before = !p in
        apply (Register (z_of_string h, m)) (if res = "rej" then "ok" else res);
        let rejected_model = BinInt.Z.eqb m.f_n BinNums.Z0 in
        if rejected_model <> (res = "rej") then
          mismatch ~case:!case ~step:!step ~field:"validate-basic" ~model:(tok_of_bool rejected_model) ~impl:res;
        ignore before
      | "op" :: "asset" :: id :: req :: res :: [] when not !dead ->
        bump "op:asset"; Buffer.add_string sig_ ("A" ^ req ^ ";");
        apply (AddAsset (bool_of_tok req)) res;
        (match L.rev !p.p_assets with
         | (mid, _) :: _ when string_of_z mid = id -> ()
         | (mid, _) :: _ -> mismatch ~case:!case ~step:!step ~field:"asset-id" ~model:(string_of_z mid) ~impl:id
         | [] -> ())
      | "op" :: "ack" :: r :: res :: [] when not !dead ->
        bump "op:ack"; Buffer.add_string sig_ "k;";
        apply (Ack (z_of_string r)) res
      | "op" :: "result" :: r :: k :: rest when not !dead ->
        bump "op:result";
        let (rs, rest) = take (int_of_string k) rest in
        let res = (match rest with [a] -> a | _ -> failwith "result tail") in
        Buffer.add_string sig_ ("r" ^ S.concat "," rs ^ ";");
        apply (Result (z_of_string r, L.map z_of_string rs)) res
      | "op" :: "blk" :: h :: res :: [] when not !dead ->
        let hz = z_of_string h in
        Buffer.add_string sig_ ("b" ^ h ^ ";");
        let b1 = band_begin_block hz !p.p_band in
        let check20 = BinInt.Z.eqb (BinInt.Z.modulo hz (z_of_int 20)) BinNums.Z0 in
        bump (if check20 then "op:block20" else "op:block-other");
        if check20 && not (BinInt.Z.eqb b1.b_block BinNums.Z0) then begin
          if not !p.p_band.b_check then bump "band:first-check"
          else if not b1.b_valid then bump "band:silent-check"
          else if BinInt.Z.gtb !p.p_band.b_dheight BinNums.Z0 then begin
            let len = BinInt.Z.sub hz !p.p_band.b_dheight in
            let gap = !p.p_band.b_msg.f_gap in
            let rel = BinInt.Z.sub len gap in
            bump ("band:outage-end:" ^ (if b1.b_dbool then "wipe" else "keep"));
            if BinInt.Z.eqb rel BinNums.Z0 then bump "band:outage=gap"
            else if BinInt.Z.eqb rel (z_of_int 20) then bump "band:outage=gap+20"
            else if BinInt.Z.eqb rel (z_of_int (-20)) then bump "band:outage=gap-20";
            if b1.b_dbool && !p.p_store <> [] then case_wipe := true
          end else bump "band:answered-check"
        end;
        apply (Block hz) res
      | "b" :: blk :: last :: temp :: check :: dh :: db :: valid :: script :: n :: gap :: [] when not !dead ->
        let impl = { b_block = z_of_string blk; b_last = z_of_string last; b_temp = z_of_string temp;
                     b_check = bool_of_tok check; b_dheight = z_of_string dh; b_dbool = bool_of_tok db;
                     b_valid = bool_of_tok valid;
                     b_msg = { f_script = z_of_string script; f_n = z_of_string n; f_gap = z_of_string gap };
                     b_results = [] } in
        if show_band impl <> show_band !p.p_band then
          mismatch ~case:!case ~step:!step ~field:"band" ~model:(show_band !p.p_band) ~impl:(show_band impl);
        (* freshness of what this block delivered, judged on the implementation's records (the results
           themselves are inputs: taken from the trace) *)
        (match !pending_blk with
         | Some h ->
           pending_blk := None;
           let d = delivered_id h { impl with b_results = !p.p_band.b_results } in
           (match d with Some _ -> bump "band:delivery" | None -> ());
           if not (holds_C17_fresh !cons_impl d) then
             predfail ~case:!case ~step:!step ~pred:"fresh_samples" ~kf:"none"
               ~detail:("result_of_request_" ^ (match d with Some r -> string_of_z r | None -> "-") ^
                        "_delivered_again_at_height_" ^ string_of_z h);
           cons_impl := consume !cons_impl d
         | None -> ());
        (* the discard flag never survives a block: market consumes it in the block that raises it *)
        if impl.b_dbool then
          predfail ~case:!case ~step:!step ~pred:"discard_flag_consumed" ~kf:"none" ~detail:(show_band impl)
      | "t" :: _ :: keys when not !dead ->
        let model_keys = L.map (fun (k, _) -> string_of_z k) !p.p_store in
        if model_keys <> keys then
          mismatch ~case:!case ~step:!step ~field:"twa-keys" ~model:(S.concat "," model_keys) ~impl:(S.concat "," keys)
      | "o" :: id :: found :: active :: avg :: idx :: disc :: _script :: len :: rest when not !dead ->
        let (vs, rest) = take (int_of_string len) rest in
        let calc = (match rest with [c] -> c | _ -> failwith "obs tail") in
        let r = { vals = L.map z_of_string vs; idx = z_of_string idx; avg = z_of_string avg;
                  active = bool_of_tok active; disc = z_of_string disc } in
        let impl = if bool_of_tok found then Some r else None in
        let idz = z_of_string id in
        let model = sget !p.p_store idz in
        if show_twa impl <> show_twa model then
          mismatch ~case:!case ~step:!step ~field:("twa[" ^ id ^ "]") ~model:(show_twa model) ~impl:(show_twa impl);
        let exp_calc = (match price_in_force impl with Base.Ok _ -> "ok" | _ -> "err") in
        if exp_calc <> calc then
          predfail ~case:!case ~step:!step ~pred:"inactive_price_is_error" ~kf:"none"
            ~detail:("CalcAssetPrice=" ^ calc ^ "_expected=" ^ exp_calc);
        (match impl with
         | Some r when r.active -> case_active := true; bump "obs:active"
         | Some _ -> bump "obs:inactive"
         | None -> bump "obs:absent");
        (* the property predicate, on the implementation's record, for the configured window size *)
        let n = !p.p_band.b_msg.f_n in
        if not (holds_C17_pipe n (gget !gs idz) impl) then
          predfail ~case:!case ~step:!step ~pred:"holds_C17_pipe" ~kf:"none"
            ~detail:("asset=" ^ id ^ "_n=" ^ string_of_z n ^ "_samples_since_wipe=" ^
                     string_of_int (L.length (gget !gs idz).g_hist) ^ "_" ^ show_twa impl)
      | _ -> ()
    ) lines;
  end_case ();
  finish ~cases:!cases ~steps:!steps ~nontrivial:!nontrivial

let () = Conv.register "C17-band" run
