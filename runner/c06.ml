(* C06 runner: replays the amm traces (Deposit / Withdraw / InitialPoolCoinSupply / CreateBasicPool /
   CreateRangedPool / NewRangedPool / Price / clamps and whole deposit-withdraw histories) on the
   extracted model, diffs every output, and evaluates the extracted predicates holds_C06_* on the
   IMPLEMENTATION's outputs. *)
open Conv
open Pool

let zs = string_of_z
let z = z_of_string
let zz s = Z.of_string s
let is_nonneg s = Z.sign (zz s) >= 0
let p18 = Z.pow (Z.of_int 10) 18

(* largest price excursion seen (scaled by 10^18) and the relative one (excursion * 10^18 / bound) *)
let max_exc = ref Z.zero
let max_exc_rel = ref Z.zero
let max_exc_where = ref ""
let kf_seen : (string, int) Hashtbl.t = Hashtbl.create 8
let prices_seen = ref 0
let prices_out = ref 0

let bits_bucket s =
  let b = Z.numbits (Z.abs (zz s)) in
  if b = 0 then "0" else if b <= 16 then "1-16" else if b <= 64 then "17-64" else if b <= 133 then "65-133" else ">133"

let run (path : string) =
  let lines = read_lines path in
  let cases = ref 0 and steps = ref 0 and nontrivial = ref 0 in
  let case = ref "" and step = ref 0 in
  (* sequence state: the MODEL's pool state is threaded; the implementation's is read from the trace *)
  let mstate = ref { p_rx = BinNums.Z0; p_ry = BinNums.Z0; p_ps = BinNums.Z0 } in
  let istate = ref { p_rx = BinNums.Z0; p_ry = BinNums.Z0; p_ps = BinNums.Z0 } in
  let ranged = ref false and rmin = ref BinNums.Z0 and rmax = ref BinNums.Z0 in
  let live = ref false in
  let ndep = ref 0 and nwd = ref 0 and case_nt = ref false in
  let sig_ = Buffer.create 256 in
  let end_case () =
    if !case <> "" then begin
      incr cases;
      if !case_nt || (!ndep > 0 && !nwd > 0) then incr nontrivial;
      Hashtbl.replace distinct (Digest.string (Buffer.contents sig_)) ()
    end in
  let start id line =
    end_case (); case := id; step := 0; live := false; ndep := 0; nwd := 0; case_nt := false;
    Buffer.clear sig_;
    (* digest of the case header without the id *)
    (match tokens line with _ :: _ :: rest -> Buffer.add_string sig_ (S.concat " " rest) | _ -> ()) in
  let mm field model impl = if model <> impl then mismatch ~case:!case ~step:!step ~field ~model ~impl in
  let show_state s = Printf.sprintf "%s,%s,%s" (zs s.p_rx) (zs s.p_ry) (zs s.p_ps) in
  (* the model pool of the current model state, computed once per state *)
  let pool_cache : (string * rpool option) option ref = ref None in
  let model_pool () =
    let key = S.concat "," [zs !mstate.p_rx; zs !mstate.p_ry; zs !mstate.p_ps; zs !rmin; zs !rmax] in
    match !pool_cache with
    | Some (k, v) when k = key -> v
    | _ -> let v = new_ranged_pool !mstate.p_rx !mstate.p_ry !mstate.p_ps !rmin !rmax in
      pool_cache := Some (key, v); v in
  let check_deposit ~rx ~ry ~ps ~x ~y ~res ~ax ~ay ~pc =
    (* model vs implementation *)
    let (mres, m) = (match deposit (z rx) (z ry) (z ps) (z x) (z y) with
        | Base.Ok ((a, b), c) -> ("ok", Printf.sprintf "%s,%s,%s" (zs a) (zs b) (zs c))
        | Base.Panic -> ("panic", "0,0,0")
        | Base.Err _ -> ("err", "0,0,0")) in
    mm "deposit.result" mres res;
    if res = "ok" then mm "deposit.(ax,ay,pc)" m (Printf.sprintf "%s,%s,%s" ax ay pc);
    (* the property predicate on the implementation's outputs; inputs inside the quantifier only *)
    let inq = L.for_all is_nonneg [rx; ry; ps; x; y] && Z.sign (zz ps) > 0 in
    if not inq then bump "dep:malformed-input"
    else if res = "panic" then bump "dep:panic-in-quantifier(rx=ry=0)"
    else begin
      if pc <> "0" then bump "dep:minted" else bump "dep:nothing";
      if pc <> "0" && ax = "0" && ay = "0" then bump "dep:minted-for-nothing";
      if not (holds_C06_deposit (z rx) (z ry) (z ps) (z x) (z y) (z ax) (z ay) (z pc)) then
        predfail ~case:!case ~step:!step ~pred:"holds_C06_deposit" ~kf:"none"
          ~detail:(Printf.sprintf "rx=%s,ry=%s,ps=%s,x=%s,y=%s,ax=%s,ay=%s,pc=%s" rx ry ps x y ax ay pc)
    end in
  let check_withdraw ~rx ~ry ~ps ~pc ~fee ~res ~x ~y =
    let (mres, m) = (match withdraw (z rx) (z ry) (z ps) (z pc) (z fee) with
        | Base.Ok (a, b) -> ("ok", Printf.sprintf "%s,%s" (zs a) (zs b))
        | Base.Panic -> ("panic", "0,0")
        | Base.Err _ -> ("err", "0,0")) in
    mm "withdraw.result" mres res;
    if res = "ok" then mm "withdraw.(x,y)" m (Printf.sprintf "%s,%s" x y);
    let inq = L.for_all is_nonneg [rx; ry; ps; pc; fee] && Z.leq (zz pc) (zz ps) && Z.leq (zz fee) p18
              && Z.sign (zz ps) > 0 in
    if not inq then bump "wd:malformed-input"
    else if res = "panic" then
      predfail ~case:!case ~step:!step ~pred:"withdraw_no_panic" ~kf:"none" ~detail:"panic"
    else begin
      if pc = ps then bump "wd:last-share" else if x <> "0" || y <> "0" then bump "wd:paid" else bump "wd:nothing";
      if not (holds_C06_withdraw (z rx) (z ry) (z ps) (z pc) (z fee) (z x) (z y)) then
        predfail ~case:!case ~step:!step ~pred:"holds_C06_withdraw" ~kf:"none"
          ~detail:(Printf.sprintf "rx=%s,ry=%s,ps=%s,pc=%s,fee=%s,x=%s,y=%s" rx ry ps pc fee x y)
    end in
  let roots_cache : (string * bool) option ref = ref None in
  (* CreateRangedPool returned a pool: accepted (ax, ay) of offered (x, y) *)
  let check_create ~x ~y ~mn ~mx ~init ~ax ~ay =
    if is_nonneg x && is_nonneg y then begin
      bump "eval:C06_create";
      if ax = x && ay = y then bump "create:all-of-both-accepted(balanced)"
      else if ax = x then bump "create:all-x" else if ay = y then bump "create:all-y" else bump "create:neither";
      if not (holds_C06_create (z x) (z y) (z ax) (z ay)) then
        predfail ~case:!case ~step:!step ~pred:"holds_C06_create" ~kf:"none"
          ~detail:(Printf.sprintf "offered_x=%s,y=%s,accepted_x=%s,y=%s,min=%s,max=%s,initial=%s" x y ax ay mn mx init);
      (* the hypothesis of c06_create_ranged_bounded_partial about the Newton square roots *)
      let key = mn ^ "," ^ mx ^ "," ^ init in
      let roots_ok = (match !roots_cache with
          | Some (k, v) when k = key -> v
          | _ -> let v = ranged_roots_ok (z mn) (z mx) (z init) in roots_cache := Some (key, v); v) in
      if not roots_ok then
        predfail ~case:!case ~step:!step ~pred:"ranged_roots_ok" ~kf:"none"
          ~detail:(Printf.sprintf "min=%s,max=%s,initial=%s" mn mx init)
    end else bump "create:malformed-input" in
  let after_op o ~rx' ~ry' ~ps' =
    (* thread the model state, diff, and judge the implementation's state transition *)
    let m' = pstep !ranged !mstate o in
    let i' = { p_rx = z rx'; p_ry = z ry'; p_ps = z ps' } in
    mm "state" (show_state m') (show_state i');
    if not (holds_C06_value !istate i') then
      predfail ~case:!case ~step:!step ~pred:"holds_C06_value" ~kf:"none"
        ~detail:(Printf.sprintf "before=%s_after=%s" (show_state !istate) (show_state i'));
    if show_state i' <> show_state !istate then bump "seq:executed" else bump "seq:no-change";
    mstate := m'; istate := i' in
  L.iter (fun line ->
      match tokens line with
      | "case" :: id :: "dep" :: rx :: ry :: ps :: x :: y :: res :: ax :: ay :: pc :: [] ->
        start id line; incr steps; bump "op:Deposit"; bump ("bits:" ^ bits_bucket rx);
        check_deposit ~rx ~ry ~ps ~x ~y ~res ~ax ~ay ~pc;
        if res = "ok" && pc <> "0" then case_nt := true
      | "case" :: id :: "wd" :: rx :: ry :: ps :: pc :: fee :: res :: x :: y :: [] ->
        start id line; incr steps; bump "op:Withdraw"; bump ("bits:" ^ bits_bucket rx);
        check_withdraw ~rx ~ry ~ps ~pc ~fee ~res ~x ~y;
        if res = "ok" && (x <> "0" || y <> "0") then case_nt := true
      | "case" :: id :: "ips" :: x :: y :: res :: v :: [] ->
        start id line; incr steps; bump "op:InitialPoolCoinSupply";
        if res = "ok" then begin
          mm "ips" (zs (initial_pool_coin_supply (z x) (z y))) v; case_nt := true
        end else bump "ips:panic(out-of-bound)"
      | "case" :: id :: "basic" :: rx :: ry :: res :: prx :: pry :: pps :: [] ->
        start id line; incr steps; bump "op:CreateBasicPool"; ranged := false;
        (match create_basic_pool (z rx) (z ry) with
         | Base.Ok ((a, b), c) ->
           mm "basic.result" "ok" res;
           if res = "ok" then mm "basic.(rx,ry,ps)" (Printf.sprintf "%s,%s,%s" (zs a) (zs b) (zs c)) (Printf.sprintf "%s,%s,%s" prx pry pps);
           mstate := { p_rx = a; p_ry = b; p_ps = c }; live := (res = "ok")
         | Base.Err c -> bump ("basic:err" ^ zs c); mm "basic.result" "err" res
         | Base.Panic -> mm "basic.result" "panic" res);
        istate := { p_rx = z prx; p_ry = z pry; p_ps = z pps }
      | "case" :: id :: "ranged" :: x :: y :: mn :: mx :: init :: res :: ax :: ay :: ps :: tx :: ty :: [] ->
        start id line; incr steps; bump "op:CreateRangedPool"; ranged := true; rmin := z mn; rmax := z mx;
        (match create_ranged_pool (z x) (z y) (z mn) (z mx) (z init) with
         | Base.Ok p ->
           mm "ranged.result" "ok" res;
           if res = "ok" then
             mm "ranged.(ax,ay,ps,tx,ty)"
               (Printf.sprintf "%s,%s,%s,%s,%s" (zs p.r_rx) (zs p.r_ry) (zs p.r_ps) (zs p.r_tx) (zs p.r_ty))
               (Printf.sprintf "%s,%s,%s,%s,%s" ax ay ps tx ty);
           mstate := { p_rx = p.r_rx; p_ry = p.r_ry; p_ps = p.r_ps }; live := (res = "ok");
           (* accepted amounts never exceed the offered ones: the extracted predicate on the implementation's amounts *)
           if res = "ok" then check_create ~x ~y ~mn ~mx ~init ~ax ~ay
         | Base.Err c -> bump ("ranged:err" ^ zs c); mm "ranged.result" "err" res
         | Base.Panic -> bump "ranged:model-panic"; mm "ranged.result" "panic" res);
        istate := { p_rx = z ax; p_ry = z ay; p_ps = z ps }
      | "cre" :: x :: y :: mn :: mx :: init :: res :: ax :: ay :: [] ->
        incr step; incr steps; bump "obs:CreateRangedPool";
        Buffer.add_string sig_ (";c" ^ x ^ "," ^ y);
        (match create_ranged_amounts (z x) (z y) (z mn) (z mx) (z init) with
         | Base.Ok (a, b) ->
           (* the amounts are followed by NewRangedPool, which can panic on its own *)
           if res = "err" then mm "cre.result" "ok" res;
           if res = "ok" then mm "cre.(ax,ay)" (zs a ^ "," ^ zs b) (ax ^ "," ^ ay)
         | Base.Err c -> bump ("cre:err" ^ zs c); mm "cre.result" "err" res
         | Base.Panic -> mm "cre.result" "panic" res);
        if res = "ok" then check_create ~x ~y ~mn ~mx ~init ~ax ~ay
      | "case" :: id :: "rangedraw" :: rx :: ry :: ps :: mn :: mx :: res :: tx :: ty :: [] ->
        start id line; incr steps; bump "op:NewRangedPool"; ranged := true; rmin := z mn; rmax := z mx;
        mstate := { p_rx = z rx; p_ry = z ry; p_ps = z ps }; istate := !mstate;
        (match model_pool () with
         | Some p ->
           mm "rangedraw.result" "ok" res;
           if res = "ok" then mm "rangedraw.(tx,ty)" (Printf.sprintf "%s,%s" (zs p.r_tx) (zs p.r_ty)) (Printf.sprintf "%s,%s" tx ty);
           live := (res = "ok")
         | None -> bump "rangedraw:model-panic"; mm "rangedraw.result" "panic" res)
      | "op" :: "dep" :: x :: y :: res :: ax :: ay :: pc :: rx' :: ry' :: ps' :: [] when !live ->
        incr step; incr steps; bump "seq:Deposit";
        Buffer.add_string sig_ (";d" ^ x ^ "," ^ y);
        let s = !istate in
        if not (depleted !ranged s) then
          check_deposit ~rx:(zs s.p_rx) ~ry:(zs s.p_ry) ~ps:(zs s.p_ps) ~x ~y ~res ~ax ~ay ~pc
        else bump "seq:depleted";
        if pc <> "0" then incr ndep;
        after_op (Dep (z x, z y)) ~rx' ~ry' ~ps'
      | "op" :: "wd" :: pc :: fee :: res :: x :: y :: rx' :: ry' :: ps' :: [] when !live ->
        incr step; incr steps; bump "seq:Withdraw";
        Buffer.add_string sig_ (";w" ^ pc ^ "," ^ fee);
        let s = !istate in
        if depleted !ranged s then bump "seq:depleted"
        else if not (op_admissible s (Wd (z pc, z fee))) then bump "seq:inadmissible-withdraw"
        else check_withdraw ~rx:(zs s.p_rx) ~ry:(zs s.p_ry) ~ps:(zs s.p_ps) ~pc ~fee ~res ~x ~y;
        if x <> "0" || y <> "0" then incr nwd;
        after_op (Wd (z pc, z fee)) ~rx' ~ry' ~ps'
      | "price" :: res :: p :: [] when !live ->
        incr steps; bump "obs:Price";
        let mp = (match model_pool () with Some pl -> ranged_price pl | None -> None) in
        (match mp with
         | Some v -> mm "price.result" "ok" res; if res = "ok" then mm "price" (zs v) p
         | None -> mm "price.result" "panic" res);
        if res = "ok" then begin
          incr prices_seen; case_nt := true;
          let e = zz (zs (price_excursion !rmin !rmax (z p))) in
          (* the property clause "price within [min,max]", on the implementation's price *)
          if not (holds_C06_price_range !rmin !rmax (z p)) then begin
            let kf = if kf_C06_1 !istate.p_rx !istate.p_ry then "kf_C06_1"
              else if kf_C06_2 !istate.p_rx !istate.p_ry then "kf_C06_2"
              else if kf_C06_3 !rmin !rmax (z p) then "kf_C06_3" else "none" in
            bump ("price:class:" ^ kf);
            let seen = (try Hashtbl.find kf_seen kf with Not_found -> 0) in
            Hashtbl.replace kf_seen kf (seen + 1);
            (* Conv prints only the first 200 failures: keep room for failures outside the known classes *)
            if kf = "none" || seen < 15 then
            predfail ~case:!case ~step:!step ~pred:"holds_C06_price_range" ~kf
              ~detail:(Printf.sprintf "rx=%s,ry=%s,min=%s,max=%s,price=%s" (zs !istate.p_rx) (zs !istate.p_ry) (zs !rmin) (zs !rmax) p)
          end;
          if Z.sign e > 0 then begin
            incr prices_out;
            let bound = if Z.lt (zz p) (zz (zs !rmin)) then zz (zs !rmin) else zz (zs !rmax) in
            let rel = Z.div (Z.mul e p18) bound in
            bump (Printf.sprintf "price:outside-range(rel<=1e-%d)"
                    (let rec k r n = if n >= 18 || Z.geq r p18 then n else k (Z.mul r (Z.of_int 10)) (n + 1) in
                     if Z.sign rel = 0 then 18 else (k rel 0)));
            if Z.gt rel !max_exc_rel || (Z.equal rel !max_exc_rel && Z.gt e !max_exc) then begin
              max_exc_rel := rel; max_exc := e;
              max_exc_where := Printf.sprintf "case=%s step=%d rx=%s ry=%s min=%s max=%s price=%s" !case !step
                  (zs !istate.p_rx) (zs !istate.p_ry) (zs !rmin) (zs !rmax) p
            end
          end else bump "price:inside-range"
        end else bump "price:panic"
      | "bao" :: price :: res :: amt :: [] when !live ->
        incr steps; bump "obs:BuyAmountOver";
        let m = (match model_pool () with Some pl -> ranged_buy_amount_over pl (z price) | None -> None) in
        (match m with
         | Some v -> mm "bao.result" "ok" res; if res = "ok" then mm "bao" (zs v) amt
         | None -> mm "bao.result" "panic" res);
        if res = "ok" && not (holds_C06_clamp_buy !istate.p_rx (z price) (z amt)) then
          predfail ~case:!case ~step:!step ~pred:"holds_C06_clamp_buy" ~kf:"none"
            ~detail:(Printf.sprintf "rx=%s,price=%s,amt=%s" (zs !istate.p_rx) price amt)
      | "sau" :: price :: res :: amt :: [] when !live ->
        incr steps; bump "obs:SellAmountUnder";
        let m = (match model_pool () with Some pl -> ranged_sell_amount_under pl (z price) | None -> None) in
        (match m with
         | Some v -> mm "sau.result" "ok" res; if res = "ok" then mm "sau" (zs v) amt
         | None -> mm "sau.result" "panic" res);
        if res = "ok" && not (holds_C06_clamp_sell !istate.p_ry (z amt)) then
          predfail ~case:!case ~step:!step ~pred:"holds_C06_clamp_sell" ~kf:"none"
            ~detail:(Printf.sprintf "ry=%s,amt=%s" (zs !istate.p_ry) amt)
      | _ -> ()
    ) lines;
  end_case ();
  if !prices_seen > 0 then
    Printf.printf "SAMPLE ranged-price: %d prices observed, %d outside [min,max]; largest excursion %s e-18 absolute, %s e-18 relative to the bound; at %s\n"
      !prices_seen !prices_out (Z.to_string !max_exc) (Z.to_string !max_exc_rel)
      (if !max_exc_where = "" then "-" else !max_exc_where);
  finish ~cases:!cases ~steps:!steps ~nontrivial:!nontrivial

let () = Conv.register "C06" run
