(* C14 runner.  The harness ran every handler x breaker x ESM phase x inactive-price subset on the
   REAL code (and the sweeps under breaker on/off).  Here:
   - correspondence: the class of the result is compared with what the regenerated guard table +
     Guards semantics predict for the control state (exact error kind: esm / breaker / cooloff;
     ok where the table has no control guard), for the sweeps with what Gen/SweepGuards predicts;
   - the extracted predicates holds_C14 / holds_C14_price / holds_C14_sweep judge the
     implementation's observations. *)
open Conv
open GuardsCheck
open Guards_conv

let run_gen ~(xmode : bool) (path : string) =
  let lines = read_lines path in
  let cases = ref 0 and steps = ref 0 and nontrivial = ref 0 in
  let z = z_of_int in
  let kf_seen = ref 0 in
  let exercised : (string, unit) Hashtbl.t = Hashtbl.create 64 in
  let boundary_seen : (string, unit) Hashtbl.t = Hashtbl.create 64 in
  let focused = ref false in
  let no_amount : (string, unit) Hashtbl.t = Hashtbl.create 16 in
  let base_ok_seen : (string, unit) Hashtbl.t = Hashtbl.create 64 in
  let breaker_seen : (string, unit) Hashtbl.t = Hashtbl.create 64 in
  let price_seen : (string, unit) Hashtbl.t = Hashtbl.create 64 in
  let notes = ref 0 in
  let mem_x n = L.exists (fun hn -> string_of_coq hn = n) x_matrix_handlers in
  L.iter (fun line ->
      match tokens line with
      | "case" :: id :: "c14" :: handler :: app :: breaker :: esm :: mask :: np :: cls :: kind :: changed :: base_cls :: same :: reads :: needed :: tag :: [] ->
        incr cases; incr steps;
        let h = coq_of_string handler in
        let breaker = bool_of_tok breaker and esm = int_of_string esm and mask = int_of_string mask in
        let full = (1 lsl (int_of_string np)) - 1 in
        let ok = (cls = "ok") and changed = bool_of_tok changed and same = bool_of_tok same in
        let base_ok = (base_cls = "ok") in
        ignore app;
        let reads = int_of_string reads and needed = int_of_string needed in
        let boundary = (tag <> "default") in
        Hashtbl.replace exercised handler ();
        if boundary && breaker then Hashtbl.replace boundary_seen handler ();
        if base_ok then Hashtbl.replace base_ok_seen handler ();
        if base_ok && breaker then Hashtbl.replace breaker_seen handler ();
        if base_ok && mask <> 0 then Hashtbl.replace price_seen handler ();
        bump (Printf.sprintf "c14:%s:b%d:e%d:%s:%s:%s" (if boundary then "boundary-amount" else "default-amount") (if breaker then 1 else 0) esm
                (if mask = 0 then "p-all" else if mask = full then "p-none" else if mask land reads <> 0 then "p-some-read" else "p-some-unread") cls kind);
        Hashtbl.replace distinct (Digest.string (Printf.sprintf "%s %b %d %d %s" handler breaker esm mask tag)) ();
        if base_ok && (breaker || esm > 0 || mask <> 0) then incr nontrivial;
        if cls = "panic" then bump ("c14:panic:" ^ handler);
        if not (handler_known h) then
          mismatch ~case:id ~step:1 ~field:("handler-row:" ^ handler) ~model:"absent" ~impl:"present"
        else if base_ok then begin
          let (now, end_) = if esm = 2 then (z 11, z 10) else (z 0, z 10) in
          let pred = kind_of_code (predict_full h (esm > 0) now end_ breaker (mask = 0)) in
          let is_ctrl k = (k = "esm" || k = "breaker" || k = "cooloff" || k = "control") in
          if is_ctrl pred then begin
            (* the control check stands before everything that could depend on prices.  The liquidation / auction
               handlers of the extended matrix return unregistered errors (fmt.Errorf) for their control checks:
               there the class alone is compared *)
            if cls <> "err" || (kind <> pred && not (xmode && (kind = "other" || pred = "control"))) then
              mismatch ~case:id ~step:1 ~field:("control-class:" ^ handler) ~model:pred ~impl:(cls ^ ":" ^ kind)
          end else if pred = "unknown" then
            (* a writing call the translator does not enter reads the controls itself *)
            bump ("c14:model-cannot-tell:" ^ handler)
          else if xmode && handler = "esm.ExecuteESM" && esm > 0 && cls = "err" && kind = "esm" then
            (* the shutdown record the control state writes IS this handler's own precondition (`_, found := GetESMStatus;
               if found { return ErrESMAlreadyExecuted }`, a GOther guard of the row): executing twice is refused *)
            bump "c14:execute-esm-refused-when-already-executed"
          else if mask = 0 then begin
            if pred = "ok" && not ok then
              mismatch ~case:id ~step:1 ~field:("control-class:" ^ handler) ~model:"ok" ~impl:(cls ^ ":" ^ kind)
            else if pred <> "ok" then
              mismatch ~case:id ~step:1 ~field:("control-class:" ^ handler) ~model:pred ~impl:(cls ^ ":" ^ kind)
          end else if mask = full && pred = "price" && ok then
            (* an unconditional top-level price lookup in the table, yet the handler succeeded *)
            mismatch ~case:id ~step:1 ~field:("price-class:" ^ handler) ~model:"price" ~impl:"ok"
        end;
        (* property predicates on the implementation's observation *)
        if not (holds_C14 h breaker (z esm) ok changed) then
          predfail ~case:id ~step:1 ~pred:"holds_C14" ~kf:"none"
            ~detail:(Printf.sprintf "%s_%s_breaker=%b_esm=%d_mask=%d_cls=%s_changed=%b" handler tag breaker esm mask cls changed);
        if (not breaker) && esm = 0 then
          if not (holds_C14_price (mask <> 0) (needed <> 0) ok base_ok same changed) then
            let kf = "none" in
            (* Conv prints the first 200 failures only: a known class must not crowd out an unknown one *)
            if kf <> "none" then incr kf_seen;
            if kf <> "none" && !kf_seen > 20 then bump ("predfail-not-listed:holds_C14_price:" ^ kf) else
            predfail ~case:id ~step:1 ~pred:"holds_C14_price" ~kf
              ~detail:(Printf.sprintf "%s_%s_inactive-mask=%d_prices-read-when-active=%d_inactive-and-needed=%d_cls=%s_all-active-cls=%s_same-outcome=%b" handler tag mask reads needed cls base_cls same)
      | "#" :: "no-amount-field" :: handler :: _ -> Hashtbl.replace no_amount handler ()
      | "#" :: "fixture-note" :: _ -> incr notes
      | "case" :: id :: "sweep" :: name :: breaker :: div :: cls :: started :: [] ->
        incr cases; incr steps;
        let g = coq_of_string name in
        let breaker = bool_of_tok breaker and started = bool_of_tok started in
        bump (Printf.sprintf "sweep:%s:b%d:%s:started%d" name (if breaker then 1 else 0) cls (if started then 1 else 0));
        Hashtbl.replace distinct (Digest.string (name ^ div ^ tok_of_bool breaker)) ();
        if started || breaker then incr nontrivial;
        if not (sweep_group_known g) then
          mismatch ~case:id ~step:1 ~field:("sweep-row:" ^ name) ~model:"absent" ~impl:"present"
        else if started && not (sweep_group_starts g breaker) then
          mismatch ~case:id ~step:1 ~field:("sweep-started:" ^ name) ~model:"0" ~impl:"1";
        if not (holds_C14_sweep breaker started) then
          predfail ~case:id ~step:1 ~pred:"holds_C14_sweep" ~kf:"none"
            ~detail:(Printf.sprintf "%s_started_under_breaker_div=%s" name div)
      | "#" :: "focus" :: _ -> focused := true
      | _ -> ()
    ) lines;
  (* coverage (plain matrix): every handler of the breaker scope was run, and (when it has an amount field at all:
     the harness says so) with boundary amounts under the breaker; a handler of the price scope that neither this
     matrix nor the extended one (x_matrix_handlers) sends is a mismatch *)
  if (not xmode) && Sys.getenv_opt "VERIF_CASE" = None && !cases > 100 && not !focused then begin
    L.iter (fun hn ->
        let n = string_of_coq hn in
        if not (Hashtbl.mem exercised n) then
          mismatch ~case:"-" ~step:0 ~field:("coverage:" ^ n) ~model:"handler-in-breaker-scope" ~impl:"not-exercised"
        else if (not (Hashtbl.mem boundary_seen n)) && not (Hashtbl.mem no_amount n) then
          mismatch ~case:"-" ~step:0 ~field:("coverage-boundary-amounts:" ^ n) ~model:"boundary-amounts-under-breaker" ~impl:"never")
      breaker_scope;
    L.iter (fun hn ->
        let n = string_of_coq hn in
        if (not (Hashtbl.mem exercised n)) && not (mem_x n) then
          mismatch ~case:"-" ~step:0 ~field:("coverage:" ^ n) ~model:"price-scope-handler-in-some-matrix" ~impl:"in-no-matrix")
      price_scope_names
  end;
  (* coverage (extended matrix): every msgServer method of the liquidation / auction / esm / rewards / collector /
     tokenmint modules (from the regenerated registry) was run where its uncontrolled run succeeds, under the breaker,
     with inactive prices, and (when it has an amount field) with boundary amounts under the breaker *)
  if xmode && Sys.getenv_opt "VERIF_CASE" = None && !cases > 100 && not !focused then begin
    if !notes > 0 then
      mismatch ~case:"-" ~step:0 ~field:"fixture" ~model:"extended-fixture-complete" ~impl:(Printf.sprintf "%d-notes-in-trace" !notes);
    L.iter (fun hn ->
        let n = string_of_coq hn in
        if not (Hashtbl.mem exercised n) then
          mismatch ~case:"-" ~step:0 ~field:("coverage:" ^ n) ~model:"msg-server-method-of-the-extended-matrix" ~impl:"not-exercised"
        else if not (Hashtbl.mem base_ok_seen n) then
          mismatch ~case:"-" ~step:0 ~field:("coverage-uncontrolled-ok:" ^ n) ~model:"uncontrolled-run-succeeds" ~impl:"never"
        else if not (Hashtbl.mem breaker_seen n && Hashtbl.mem price_seen n) then
          mismatch ~case:"-" ~step:0 ~field:("coverage-controls:" ^ n) ~model:"run-under-breaker-and-inactive-prices" ~impl:"never"
        else if (not (Hashtbl.mem boundary_seen n)) && not (Hashtbl.mem no_amount n) then
          mismatch ~case:"-" ~step:0 ~field:("coverage-boundary-amounts:" ^ n) ~model:"boundary-amounts-under-breaker" ~impl:"never")
      x_matrix_handlers
  end;
  finish ~cases:!cases ~steps:!steps ~nontrivial:!nontrivial

(* runner C14-focus <ignored>: the handlers whose regenerated row fails a C14 table check *)
let focus (_ : string) =
  L.iter (fun n -> print_endline ("FOCUS " ^ string_of_coq n)) c14_broken_rows

let run = run_gen ~xmode:false
let run_x = run_gen ~xmode:true
let () = Conv.register "C14" run
let () = Conv.register "C14X" run_x
let () = Conv.register "C14-focus" focus
