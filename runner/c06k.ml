(* C06K runner entry: see liqrun.ml (shared with C04 / C07) *)
let () = Conv.register "C06-keeper" (Liqrun.run_prop "C06")
