(* runner <entry> <trace-file>: entries are registered by the cXX.ml files *)
let () =
  match Array.to_list Sys.argv with
  | _ :: name :: path :: _ ->
    (match Hashtbl.find_opt Conv.registry name with
     | Some f -> f path
     | None -> prerr_endline ("unknown runner entry " ^ name); exit 2)
  | _ -> prerr_endline "usage: runner <entry> <trace>"; exit 2
