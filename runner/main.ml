let () =
  match Array.to_list Sys.argv with
  | _ :: "C17" :: path :: _ -> C17.run path
  | _ -> prerr_endline "usage: runner <property> <trace>"; exit 2
