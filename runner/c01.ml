(* C01 / C02 / C03 runner: replays the vault traces on the extracted model (Model/Vault.v),
   threading the MODEL state through the whole history and diffing the complete projection after
   every step; evaluates the extracted property predicates holds_C01 / holds_C02 / holds_C02_step
   / holds_C03 / holds_C03_step on the IMPLEMENTATION's observations and classifies failures by
   kf=none (C02-F1, the only class found, is repaired: fixes/C02-F1).  One replay, three entries (each reports its own predicates). *)
open Conv
open Vault

type obs = {
  mutable o_now : BinNums.coq_Z;
  o_bal : (string, BinNums.coq_Z) Hashtbl.t;          (* "acct:denom" *)
  o_sup : (string, BinNums.coq_Z) Hashtbl.t;          (* "denom" *)
  mutable o_vaults : vault list;
  mutable o_svaults : svault list;
  o_prods : (string, prod) Hashtbl.t;                 (* "app:pair", present = found *)
  mutable o_len : BinNums.coq_Z; mutable o_vid : BinNums.coq_Z; mutable o_sid : BinNums.coq_Z;
  o_um : (string, BinNums.coq_Z) Hashtbl.t;           (* "user:app:pair" *)
  o_price : (string, BinNums.coq_Z) Hashtbl.t;        (* "asset", present = active *)
}

let new_obs () = { o_now = BinNums.Z0; o_bal = Hashtbl.create 64; o_sup = Hashtbl.create 16; o_vaults = []; o_svaults = [];
                   o_prods = Hashtbl.create 8; o_len = BinNums.Z0; o_vid = BinNums.Z0; o_sid = BinNums.Z0;
                   o_um = Hashtbl.create 16; o_price = Hashtbl.create 16 }

let zs = string_of_z
let z0 = BinNums.Z0
let key2 a b = zs a ^ ":" ^ zs b
let key3 a b c = zs a ^ ":" ^ zs b ^ ":" ^ zs c

(* the observed state as a model state; esm / snapshot / breaker are inputs (taken from [env]),
   the unsolicited ghost is maintained from the inputs *)
let state_of_obs (o : obs) (env : state option) (ghost : (string, BinNums.coq_Z) Hashtbl.t) : state =
  let ghost = Hashtbl.copy ghost in
  { vaults = o.o_vaults; svaults = o.o_svaults;
    prods = (fun a p -> Hashtbl.find_opt o.o_prods (key2 a p));
    umap = (fun u a p -> Hashtbl.find_opt o.o_um (key3 u a p));
    vlen = o.o_len; vid = o.o_vid; sid = o.o_sid;
    bal = (fun a d -> match Hashtbl.find_opt o.o_bal (key2 a d) with Some x -> x | None -> z0);
    sup = (fun d -> match Hashtbl.find_opt o.o_sup (zs d) with Some x -> x | None -> z0);
    now = o.o_now;
    price = (fun a -> Hashtbl.find_opt o.o_price (zs a));
    esm = (match env with Some e -> e.esm | None -> (fun _ -> esm0));
    snap = (match env with Some e -> e.snap | None -> (fun _ _ -> None));
    brk = (match env with Some e -> e.brk | None -> (fun _ -> false));
    unsol = (fun d -> match Hashtbl.find_opt ghost (zs d) with Some x -> x | None -> z0) }

let show_vault (v : vault) = Printf.sprintf "%s/%s/%s/%s/%s/%s/%s/%s" (zs v.v_id) (zs v.v_owner) (zs v.v_app) (zs v.v_pair)
    (zs v.v_in) (zs v.v_out) (zs v.v_int) (zs v.v_fee)
let show_svault (v : svault) = Printf.sprintf "%s/%s/%s/%s/%s" (zs v.sv_id) (zs v.sv_app) (zs v.sv_pair) (zs v.sv_in) (zs v.sv_out)
let show_prod (p : prod option) = match p with
  | None -> "absent"
  | Some p -> Printf.sprintf "%s/%s/[%s]" (zs p.p_coll) (zs p.p_mint) (S.concat "," (L.map zs p.p_ids))
let show_opt = function None -> "none" | Some x -> zs x

let parse_op (toks : string list) : (op * string * string) option =
  let z = z_of_string in
  match toks with
  | ["create"; f; a; e; i; o; res] -> Some (Create (z f, z a, z e, z i, z o), "create", res)
  | ["deposit"; f; a; e; id; m; ie; res] -> Some (Deposit (z f, z a, z e, z id, z m, z ie), "deposit", res)
  | ["withdraw"; f; a; e; id; m; ie; res] -> Some (Withdraw (z f, z a, z e, z id, z m, z ie), "withdraw", res)
  | ["draw"; f; a; e; id; m; ie; res] -> Some (Draw (z f, z a, z e, z id, z m, z ie), "draw", res)
  | ["repay"; f; a; e; id; m; ie; res] -> Some (Repay (z f, z a, z e, z id, z m, z ie), "repay", res)
  | ["close"; f; a; e; id; ie; res] -> Some (Close (z f, z a, z e, z id, z ie), "close", res)
  | ["depositdraw"; f; a; e; id; m; i1; i2; res] -> Some (DepositDraw (z f, z a, z e, z id, z m, z i1, z i2), "depositdraw", res)
  | ["screate"; f; a; e; m; res] -> Some (StableCreate (z f, z a, z e, z m), "screate", res)
  | ["sdeposit"; f; a; e; id; m; res] -> Some (StableDeposit (z f, z a, z e, z id, z m), "sdeposit", res)
  | ["swithdraw"; f; a; e; id; m; res] -> Some (StableWithdraw (z f, z a, z e, z id, z m), "swithdraw", res)
  | ["interest"; a; id; ie; res] -> Some (InterestCalc (z a, z id, z ie), "interest", res)
  | ["donate"; f; d; m; res] -> Some (Donate (z f, z d, z m), "donate", res)
  | ["time"; dt; res] -> Some (AdvanceTime (z dt), "time", res)
  | ["price"; a; act; p; res] -> Some (SetPrice (z a, (if bool_of_tok act then Some (z p) else None)), "price", res)
  | ["esm"; a; st; en; sn; res] -> Some (SetEsm (z a, bool_of_tok st, z en, bool_of_tok sn), "esm", res)
  | ["snap"; a; x; p; res] -> Some (SetSnap (z a, z x, Some (z p)), "snap", res)
  | ["breaker"; a; b; res] -> Some (SetBreaker (z a, bool_of_tok b), "breaker", res)
  | _ -> None

let is_msg = function
  | AdvanceTime _ | SetPrice _ | SetEsm _ | SetSnap _ | SetBreaker _ | Donate _ -> false
  | _ -> true

let run_for (which : string) (path : string) =
  let lines = read_lines path in
  let cases = ref 0 and steps = ref 0 and nontrivial = ref 0 in
  let case = ref "" in
  let apps = ref [] and denoms = ref [] and eps : epair list ref = ref [] and nusers = ref 0 in
  let model : state option ref = ref None in
  let prev_impl : state option ref = ref None in
  let ext : (string, BinNums.coq_Z) Hashtbl.t = Hashtbl.create 16 in
  let ghost : (string, BinNums.coq_Z) Hashtbl.t = Hashtbl.create 16 in
  let cur = ref (new_obs ()) in
  let pending_init = ref false in
  let last_op : (op * string * string) option ref = ref None in
  let hist_ops : op list ref = ref [] in
  let step = ref 0 in
  let ok_msgs = ref 0 and created = ref false in
  let sig_ = Buffer.create 1024 in
  let dead = ref false in
  let cfg () = { apps = !apps; epairs = !eps } in
  let want p = (which = p) in
  let end_case () =
    if !case <> "" then begin
      incr cases;
      if !created && !ok_msgs >= 3 then incr nontrivial;
      Hashtbl.replace distinct (Digest.string (Buffer.contents sig_)) ()
    end in
  let diff_state (m : state) (o : obs) =
    let mm field model impl = if model <> impl then mismatch ~case:!case ~step:!step ~field ~model ~impl in
    mm "now" (zs m.now) (zs o.o_now);
    for a = 0 to !nusers + 1 do
      L.iter (fun d ->
          let az = z_of_int a in
          let iv = (match Hashtbl.find_opt o.o_bal (key2 az d) with Some x -> x | None -> z0) in
          mm (Printf.sprintf "bal[%d,%s]" a (zs d)) (zs (m.bal az d)) (zs iv)) !denoms
    done;
    L.iter (fun d ->
        let iv = (match Hashtbl.find_opt o.o_sup (zs d) with Some x -> x | None -> z0) in
        mm ("supply[" ^ zs d ^ "]") (zs (m.sup d)) (zs iv)) !denoms;
    let sortv l = L.sort (fun (a : vault) b -> Z.compare (zz_of_z a.v_id) (zz_of_z b.v_id)) l in
    let sortsv l = L.sort (fun (a : svault) b -> Z.compare (zz_of_z a.sv_id) (zz_of_z b.sv_id)) l in
    mm "vaults" (S.concat ";" (L.map show_vault (sortv m.vaults))) (S.concat ";" (L.map show_vault (sortv o.o_vaults)));
    mm "stable_vaults" (S.concat ";" (L.map show_svault (sortsv m.svaults))) (S.concat ";" (L.map show_svault (sortsv o.o_svaults)));
    L.iter (fun (e : epair) ->
        mm (Printf.sprintf "product[%s,%s]" (zs e.ep_app) (zs e.ep_id))
          (show_prod (m.prods e.ep_app e.ep_id)) (show_prod (Hashtbl.find_opt o.o_prods (key2 e.ep_app e.ep_id)));
        for u = 2 to !nusers + 1 do
          let uz = z_of_int u in
          mm (Printf.sprintf "usermap[%d,%s,%s]" u (zs e.ep_app) (zs e.ep_id))
            (show_opt (m.umap uz e.ep_app e.ep_id)) (show_opt (Hashtbl.find_opt o.o_um (key3 uz e.ep_app e.ep_id)))
        done) !eps;
    mm "length" (zs m.vlen) (zs o.o_len);
    mm "vault_id_counter" (zs m.vid) (zs o.o_vid);
    mm "stable_id_counter" (zs m.sid) (zs o.o_sid);
    L.iter (fun d -> mm ("price[" ^ zs d ^ "]") (show_opt (m.price d)) (show_opt (Hashtbl.find_opt o.o_price (zs d)))) !denoms in
  let judge (impl : state) =
    let c = cfg () in
    let extf d = (match Hashtbl.find_opt ext (zs d) with Some x -> x | None -> z0) in
    (* ---- state predicates ---- *)
    if want "C01" && not (holds_C01 c !denoms impl) then begin
      L.iter (fun d ->
          if not (c01_custody c impl d) then begin
            predfail ~case:!case ~step:!step ~pred:"c01_custody" ~kf:"none"
              ~detail:(Printf.sprintf "denom=%s_custody=%s_recorded=%s_unsolicited=%s" (zs d) (zs (impl.bal coq_VAULT d)) (zs (coll_sum c impl d)) (zs (impl.unsol d)))
          end) !denoms;
      if not (c01_count impl) then
        predfail ~case:!case ~step:!step ~pred:"c01_count" ~kf:"none" ~detail:(Printf.sprintf "length=%s_open=%d" (zs impl.vlen) (L.length impl.vaults));
      L.iter (fun (e : epair) ->
          if not (c01_product impl e.ep_app e.ep_id) then
            predfail ~case:!case ~step:!step ~pred:"c01_product" ~kf:"none"
              ~detail:(Printf.sprintf "app=%s_pair=%s_published=%s" (zs e.ep_app) (zs e.ep_id) (show_prod (impl.prods e.ep_app e.ep_id)))) !eps
    end;
    if want "C02" && not (holds_C02 c extf !denoms impl) then
      L.iter (fun d ->
          if not (c02_backing c extf impl d) then
            predfail ~case:!case ~step:!step ~pred:"c02_backing" ~kf:"none"
              ~detail:(Printf.sprintf "denom=%s_supply=%s_external=%s_principal=%s" (zs d) (zs (impl.sup d)) (zs (extf d)) (zs (debt_sum c impl d)))) !denoms;
    if want "C03" && not (holds_C03 c impl) then begin
      if not (c03_floor_ok c impl) then predfail ~case:!case ~step:!step ~pred:"c03_floor" ~kf:"none" ~detail:"a_vault_below_floor";
      if not (c03_ceiling_ok c impl) then predfail ~case:!case ~step:!step ~pred:"c03_ceiling" ~kf:"none" ~detail:"minted_above_ceiling"
    end;
    (* ---- step predicates: on the implementation's observation before and after ---- *)
    (match !last_op, !prev_impl with
     | Some (o, kind, res), Some pre ->
       let ok = (res = "ok") in
       if want "C02" && ok && is_msg o && not (holds_C02_step c pre o impl) then begin
         predfail ~case:!case ~step:!step ~pred:("c02_step_" ^ kind) ~kf:"none" ~detail:"mint_delivery/burn/fee_law"
       end;
       if want "C03" && is_msg o && not (holds_C03_step c pre o ok impl) then
         predfail ~case:!case ~step:!step ~pred:("c03_step_" ^ kind) ~kf:"none" ~detail:("result=" ^ res)
     | _ -> ()) in
  L.iter (fun line ->
      match tokens line with
      | "case" :: id :: _ ->
        end_case ();
        case := id; apps := []; denoms := []; eps := []; nusers := 0; model := None; prev_impl := None;
        Hashtbl.reset ext; Hashtbl.reset ghost; cur := new_obs (); pending_init := false; last_op := None; hist_ops := [];
        step := 0; ok_msgs := 0; created := false; Buffer.clear sig_; dead := false
      | "apps" :: _ :: rest -> apps := L.map z_of_string rest
      | "assets" :: _ :: rest -> denoms := L.map z_of_string rest
      | "addasset" :: id :: [] -> denoms := !denoms @ [z_of_string id]
      | "users" :: n :: [] -> nusers := int_of_string n
      | ["ep"; id; app; i; o; di; dout; stab; closing; ddf; mincr; floor; ceil; stable; active; orc; outp] ->
        let z = z_of_string in
        eps := !eps @ [{ ep_id = z id; ep_app = z app; ep_in = z i; ep_out = z o; ep_dec_in = z di; ep_dec_out = z dout;
                         ep_stab = z stab; ep_closing = z closing; ep_ddf = z ddf; ep_min_cr = z mincr; ep_floor = z floor;
                         ep_ceiling = z ceil; ep_stable = bool_of_tok stable; ep_active = bool_of_tok active;
                         ep_oracle_out = bool_of_tok orc; ep_out_price = z outp }];
        Buffer.add_string sig_ (line ^ ";")
      | "init" :: [] -> pending_init := true; cur := new_obs ()
      | "op" :: rest when not !dead ->
        (match parse_op rest with
         | None -> failwith ("bad op line: " ^ line)
         | Some (o, kind, res) ->
           incr step; incr steps;
           bump ("op:" ^ kind ^ ":" ^ res);
           Buffer.add_string sig_ (S.concat " " rest ^ ";");
           last_op := Some (o, kind, res);
           hist_ops := !hist_ops @ [o];
           if res = "ok" && is_msg o then incr ok_msgs;
           (match o with Create _ when res = "ok" -> created := true | _ -> ());
           (match !model with
            | None -> failwith "op before init"
            | Some m ->
              let cls = (match run (cfg ()) m o with Base.Ok _ -> "ok" | Base.Err _ -> "err" | Base.Panic -> "panic") in
              if cls <> res then mismatch ~case:!case ~step:!step ~field:("result:" ^ kind) ~model:cls ~impl:res;
              model := Some (Vault.step (cfg ()) m o));
           (* the ghost follows the implementation's result *)
           (match o with
            | Donate (_, d, amt) when res = "ok" ->
              let old = (match Hashtbl.find_opt ghost (zs d) with Some x -> x | None -> z0) in
              Hashtbl.replace ghost (zs d) (BinInt.Z.add old amt)
            | _ -> ());
           cur := new_obs ())
      | "t" :: n :: [] -> !cur.o_now <- z_of_string n
      | "b" :: acct :: _ :: rest ->
        let rec go = function
          | d :: v :: tl -> Hashtbl.replace !cur.o_bal (acct ^ ":" ^ d) (z_of_string v); go tl
          | _ -> () in go rest
      | "s" :: _ :: rest ->
        let rec go = function
          | d :: v :: tl -> Hashtbl.replace !cur.o_sup d (z_of_string v); go tl
          | _ -> () in go rest
      | ["v"; id; owner; app; pair; i; o; int_; fee] ->
        let z = z_of_string in
        !cur.o_vaults <- !cur.o_vaults @ [{ v_id = z id; v_owner = z owner; v_app = z app; v_pair = z pair; v_in = z i; v_out = z o;
                                            v_int = z int_; v_fee = z fee }]
      | ["sv"; id; app; pair; i; o] ->
        let z = z_of_string in
        !cur.o_svaults <- !cur.o_svaults @ [{ sv_id = z id; sv_app = z app; sv_pair = z pair; sv_in = z i; sv_out = z o }]
      | "p" :: app :: pair :: found :: coll :: mint :: _ :: ids ->
        if bool_of_tok found then
          Hashtbl.replace !cur.o_prods (app ^ ":" ^ pair) { p_coll = z_of_string coll; p_mint = z_of_string mint; p_ids = L.map z_of_string ids }
      | ["c"; len; vid; sid] -> !cur.o_len <- z_of_string len; !cur.o_vid <- z_of_string vid; !cur.o_sid <- z_of_string sid
      | ["um"; u; app; pair; vid] -> Hashtbl.replace !cur.o_um (u ^ ":" ^ app ^ ":" ^ pair) (z_of_string vid)
      | ["pr"; a; act; p] -> if bool_of_tok act then Hashtbl.replace !cur.o_price a (z_of_string p)
      | "eo" :: [] when not !dead ->
        let o = !cur in
        if !pending_init then begin
          pending_init := false;
          Hashtbl.reset ghost; Hashtbl.reset ext;
          Hashtbl.iter (fun k v -> Hashtbl.replace ext k v) o.o_sup;
          let st = state_of_obs o None ghost in
          model := Some st; prev_impl := Some st; last_op := None
        end else begin
          (match !model with
           | None -> ()
           | Some m ->
             diff_state m o;
             let impl = state_of_obs o (Some m) ghost in
             judge impl;
             prev_impl := Some impl;
             last_op := None)
        end
      | _ -> ()
    ) lines;
  end_case ();
  finish ~cases:!cases ~steps:!steps ~nontrivial:!nontrivial

let () = Conv.register "C01" (run_for "C01")
let () = Conv.register "C02" (run_for "C02")
let () = Conv.register "C03" (run_for "C03")
