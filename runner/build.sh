#!/bin/sh
# extract the Coq models to OCaml (Separate Extraction, run inside extracted/) and build the runner
set -e
cd "$(dirname "$0")"
mkdir -p extracted _build
( cd extracted && find . -maxdepth 1 -type f \( -name '*.ml' -o -name '*.mli' \) -delete && coqc -R ../../coq Comdex ../../coq/Extract/Extract.v >/dev/null )
find _build -maxdepth 1 -type f -delete
cp extracted/*.ml extracted/*.mli _build/
cp *.ml _build/
cd _build
ORDER=$(ocamlfind ocamldep -sort *.mli *.ml)
ocamlfind ocamlopt -O3 -w -a -package zarith -linkpkg $ORDER -o ../runner 2>/dev/null || ocamlfind ocamlopt -w -a -package zarith -linkpkg $ORDER -o ../runner
