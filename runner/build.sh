#!/bin/sh
# extract the Coq models to OCaml (Separate Extraction, run inside extracted/) and build the runner
set -e
cd "$(dirname "$0")"
../bin/gen_build_files
mkdir -p extracted _build
( cd ../coq && timeout 1500 make -j16 Extract/Extract.vo >/dev/null 2>&1 || true )
( cd extracted && find . -maxdepth 1 -type f \( -name '*.ml' -o -name '*.mli' \) -delete && coqc -R ../../coq Comdex ../../coq/Extract/Extract.v >/dev/null )
find _build -maxdepth 1 -type f -delete
cp extracted/*.ml extracted/*.mli _build/
cp *.ml _build/
cd _build
# main.ml must come last; every cXX.ml is linked (it registers itself)
ORDER=$(ocamlfind ocamldep -sort $(ls *.mli *.ml | grep -v '^main.ml$'))
ocamlfind ocamlopt -O3 -w -a -package zarith -linkpkg $ORDER main.ml -o ../runner.new 2>/dev/null || ocamlfind ocamlopt -w -a -package zarith -linkpkg $ORDER main.ml -o ../runner.new
mv ../runner.new ../runner
