(* C18-sites runner: replays the accrual SITES (Model/AccrualSites.v) — vault stability fee, locker
   savings, the two "iterate" copies' vault form, lend reward, borrow interest incl. stable-rate and
   reserve share — threading the MODEL state (tracker, record, time base, indices) through each
   case's history, diffing after every call, and evaluating the extracted predicates
   holds_C18_site_* on the IMPLEMENTATION's records before / after the call. *)
open Conv

let zs = z_of_string
let sz = string_of_z
let z0 = BinNums.Z0
let zadd = BinInt.Z.add
let zsub = BinInt.Z.sub
let zeq = BinInt.Z.eqb

let cls_of (o : 'a Base.outcome) = match o with Base.Ok _ -> "ok" | Base.Err _ -> "err" | Base.Panic -> "panic"
let fone = Z.shift_left Z.one 1074

(* float operands as the model computes them, against the observed bit patterns *)
let check_xy cmpf (lsr_ : BinNums.coq_Z) (secs : BinNums.coq_Z) xb yb =
  let x, y = C18.units_of_bits xb, C18.units_of_bits yb in
  cmpf "to64_x" (sz (AccrualFast.cmp_xf lsr_)) (Z.to_string x);
  cmpf "to64_y" (sz (AccrualFast.cmp_yf secs)) (Z.to_string y)

let run (path : string) =
  let lines = read_lines path in
  let cases = ref 0 and steps = ref 0 and nontrivial = ref 0 in
  let case = ref "" and step = ref 0 and nt = ref false in
  let sig_ = Buffer.create 256 in
  let params : BinNums.coq_Z array ref = ref [||] in
  (* model state of the position of the current case *)
  let first = ref true in
  let m_tr : BinNums.coq_Z option ref = ref None in
  let m_rec = ref z0 and m_bh = ref z0 and m_bt = ref z0 and m_aux = ref z0 and m_aux2 = ref z0 and m_aux3 = ref z0 in
  let m_base = ref z0 in
  let end_case () =
    if !case <> "" then begin
      incr cases; if !nt then incr nontrivial;
      Hashtbl.replace distinct (Digest.string (Buffer.contents sig_)) ()
    end in
  let pf pred detail = predfail ~case:!case ~step:!step ~pred ~kf:"none" ~detail in
  let cmpf field model impl = if model <> impl then mismatch ~case:!case ~step:!step ~field ~model ~impl in
  let trk found v = if found = "1" then Some (zs v) else None in
  let trs = function Some v -> ("1", sz v) | None -> ("0", "0") in
  let rp_of (a : BinNums.coq_Z array) : Rates.rate_params =
    { Rates.rp_asset = a.(0); rp_uopt = a.(1); rp_base = a.(2); rp_s1 = a.(3); rp_s2 = a.(4); rp_sbase = a.(5); rp_ss1 = a.(6);
      rp_ss2 = a.(7); rp_liqthr = a.(8); rp_liqbonus = a.(9); rp_liqpen = a.(10); rp_ltv = a.(11); rp_rf = a.(12); rp_casset = a.(13) } in
  let calc fb = AccrualFast.calculation_of_rewards_fast (Pow.go_pow (fun _ _ -> z_of_zz (C18.units_of_bits fb))) in
  (* the site predicates on the implementation's own numbers *)
  let judge kind ~secs ~t0 ~r0 ~accrued ~t1 ~r1 =
    let paid = zsub r1 r0 in
    if not (AccrualSites.holds_C18_site_step t0 r0 accrued paid t1 r1) then
      pf (kind ^ "_site_step") (Printf.sprintf "t0=%s_r0=%s_x=%s_t1=%s_r1=%s" (sz t0) (sz r0) (sz accrued) (sz t1) (sz r1));
    if not (AccrualSites.holds_C18_site_zero_time secs t0 r0 t1 r1) then
      pf (kind ^ "_site_zero_time") (Printf.sprintf "t0=%s_r0=%s_t1=%s_r1=%s" (sz t0) (sz r0) (sz t1) (sz r1)) in
  L.iter (fun line ->
      match tokens line with
      | "case" :: id :: kind :: _ ->
        end_case (); case := id; step := 0; nt := false; Buffer.clear sig_; Buffer.add_string sig_ kind;
        first := true; bump ("kind:" ^ kind)
      | "params" :: rest -> params := Array.of_list (L.map zs rest); Buffer.add_string sig_ line
      | "stats" :: _ -> Buffer.add_string sig_ line
      (* ---------------- CalculateVaultInterest ---------------- *)
      | "o" :: "V" :: now :: h :: appok :: pairfound :: fee :: stablemint :: pair_bt :: bh :: bt :: debt :: trf :: tr :: intacc
        :: c :: dc :: direct :: trf' :: tr' :: intacc' :: vbt' :: vbh' :: xb :: yb :: fb :: [] ->
        incr step; incr steps; Buffer.add_string sig_ line;
        let now, h, fee, pair_bt = zs now, zs h, zs fee, zs pair_bt in
        if !first then begin
          first := false; m_tr := trk trf tr; m_rec := zs intacc; m_bh := zs bh; m_bt := zs bt;
          m_base := zsub (zs debt) (zs intacc)            (* AmountOut *)
        end;
        (* the inputs the implementation used are the model's state *)
        let (mf, mt) = trs !m_tr in
        cmpf "V.in.tracker" (mf ^ ":" ^ mt) (trf ^ ":" ^ tr); cmpf "V.in.intacc" (sz !m_rec) intacc;
        cmpf "V.in.bh" (sz !m_bh) bh; cmpf "V.in.bt" (sz !m_bt) bt; cmpf "V.in.debt" (sz (zadd !m_base !m_rec)) debt;
        let v = { AccrualSites.vs_app_ok = (appok = "1"); vs_pair_found = (pairfound = "1"); vs_fee = fee; vs_stable_mint = (stablemint = "1");
                  vs_pair_bt = pair_bt; vs_bh = !m_bh; vs_bt = !m_bt; vs_debt = zadd !m_base !m_rec; vs_tracker = !m_tr; vs_intacc = !m_rec } in
        let sel_bt = if zeq !m_bh z0 || BinInt.Z.ltb !m_bt pair_bt then pair_bt else !m_bt in
        let m = AccrualSites.vault_interest_with (calc fb) now v in
        cmpf "V.class" (cls_of m) c; bump ("V:" ^ c);
        (* the direct call of CalculationOfRewards on the operands the site must select *)
        let md = calc fb now sel_bt (zadd !m_base !m_rec) fee in
        cmpf "V.direct.class" (cls_of md) dc;
        (match md with Base.Ok x -> cmpf "V.direct" (sz x) direct; check_xy (fun f a b -> cmpf ("V." ^ f) a b) fee (zsub now sel_bt) xb yb | _ -> ());
        let t0 = AccrualSites.tracker_val !m_tr and r0 = !m_rec in
        (match m with
         | Base.Ok (AccrualSites.Updated (x, _, t', r')) ->
           cmpf "V.tracker" ("1:" ^ sz t') (trf' ^ ":" ^ tr'); cmpf "V.intacc" (sz r') intacc';
           cmpf "V.vault_bt" (sz now) vbt'; cmpf "V.vault_bh" (sz h) vbh';
           if dc = "ok" then cmpf "V.accrued" (sz x) direct;
           m_tr := Some t'; m_rec := r'; m_bt := now; m_bh := h;
           if not (zeq x z0) then nt := true; bump "V:updated"
         | _ ->
           (* nothing written *)
           cmpf "V.tracker" (mf ^ ":" ^ mt) (trf' ^ ":" ^ tr'); cmpf "V.intacc" (sz !m_rec) intacc';
           cmpf "V.vault_bt" (sz !m_bt) vbt'; cmpf "V.vault_bh" (sz !m_bh) vbh'; bump "V:untouched");
        (* predicates on the implementation's records *)
        if c = "ok" && trf' = "1" && dc = "ok" && (appok = "1" && not (zeq fee z0) && stablemint = "0") then
          judge "vault" ~secs:(zsub now sel_bt) ~t0:(if trf = "1" then zs tr else z0) ~r0:(zs intacc) ~accrued:(zs direct) ~t1:(zs tr') ~r1:(zs intacc')
        else begin ignore t0; if not (BinInt.Z.leb r0 (zs intacc')) then pf "vault_record_decreased" intacc' end
      (* ---------------- VaultIterateRewards, one vault ---------------- *)
      | "o" :: "VI" :: now :: h :: lsr_ :: coll_bt :: change :: vbh :: vbt :: amount_out :: trf :: tr :: intacc
        :: c :: dc :: direct :: trf' :: tr' :: intacc' :: vbt' :: vbh' :: xb :: yb :: fb :: [] ->
        incr step; incr steps; Buffer.add_string sig_ line;
        let now, h, lsr_, coll_bt = zs now, zs h, zs lsr_, zs coll_bt in
        if !first then begin first := false; m_tr := trk trf tr; m_rec := zs intacc; m_bh := zs vbh; m_bt := zs vbt end;
        let (mf, mt) = trs !m_tr in
        cmpf "VI.in.tracker" (mf ^ ":" ^ mt) (trf ^ ":" ^ tr); cmpf "VI.in.intacc" (sz !m_rec) intacc;
        cmpf "VI.in.bh" (sz !m_bh) vbh; cmpf "VI.in.bt" (sz !m_bt) vbt;
        let sel_bt = if zeq !m_bh z0 || BinInt.Z.ltb !m_bt coll_bt then coll_bt else !m_bt in
        let m = AccrualSites.vault_iterate_one_with (calc fb) now lsr_ coll_bt !m_bh !m_bt (zs amount_out) !m_tr !m_rec in
        (* an error of CalculationOfRewards ends the loop silently: the function itself returns nothing *)
        cmpf "VI.class" (if cls_of m = "panic" then "panic" else "ok") c; bump ("VI:" ^ cls_of m);
        let md = calc fb now sel_bt (zs amount_out) lsr_ in
        cmpf "VI.direct.class" (cls_of md) dc;
        (match md with Base.Ok x -> cmpf "VI.direct" (sz x) direct; check_xy (fun f a b -> cmpf ("VI." ^ f) a b) lsr_ (zsub now sel_bt) xb yb | _ -> ());
        (match m with
         | Base.Ok (AccrualSites.Updated (x, _, t', r')) ->
           cmpf "VI.tracker" ("1:" ^ sz t') (trf' ^ ":" ^ tr'); cmpf "VI.intacc" (sz r') intacc';
           let nbh = if change = "1" then h else z0 in
           cmpf "VI.vault_bt" (sz now) vbt'; cmpf "VI.vault_bh" (sz nbh) vbh';
           m_tr := Some t'; m_rec := r'; m_bt := now; m_bh := nbh;
           if not (zeq x z0) then nt := true;
           judge "vault_iterate" ~secs:(zsub now sel_bt) ~t0:(if trf = "1" then zs tr else z0) ~r0:(zs intacc) ~accrued:(zs direct) ~t1:(zs tr') ~r1:(zs intacc')
         | _ ->
           cmpf "VI.tracker" (mf ^ ":" ^ mt) (trf' ^ ":" ^ tr'); cmpf "VI.intacc" (sz !m_rec) intacc';
           cmpf "VI.vault_bt" (sz !m_bt) vbt'; cmpf "VI.vault_bh" (sz !m_bh) vbh')
      (* ---------------- CalculateLockerRewards ---------------- *)
      | "o" :: "K" :: now :: h :: rewardok :: collfound :: lsr_ :: coll_bt :: bh :: bt :: balance :: trf :: tr :: net :: returns :: nff :: nf :: collbal
        :: c :: dc :: direct :: trf' :: tr' :: net' :: returns' :: nf' :: lbt' :: lbh' :: dep_delta :: totrew :: lockermod_delta :: xb :: yb :: fb :: [] ->
        incr step; incr steps; Buffer.add_string sig_ line;
        let now, h, lsr_, coll_bt = zs now, zs h, zs lsr_, zs coll_bt in
        if !first then begin
          first := false; m_tr := trk trf tr; m_rec := zs net; m_aux := zs returns; m_bh := zs bh; m_bt := zs bt;
          m_aux2 := z0 (* LockerTotalRewardsByAssetAppWise: not in the store at the start *)
        end;
        let (mf, mt) = trs !m_tr in
        cmpf "K.in.tracker" (mf ^ ":" ^ mt) (trf ^ ":" ^ tr); cmpf "K.in.net" (sz !m_rec) net; cmpf "K.in.returns" (sz !m_aux) returns;
        cmpf "K.in.bh" (sz !m_bh) bh; cmpf "K.in.bt" (sz !m_bt) bt; cmpf "K.in.balance" (sz !m_rec) balance;
        let l = { AccrualSites.ls_reward_ok = (rewardok = "1"); ls_coll_found = (collfound = "1"); ls_lsr = lsr_; ls_coll_bt = coll_bt;
                  ls_bh = !m_bh; ls_bt = !m_bt; ls_balance = !m_rec; ls_tracker = !m_tr; ls_net = !m_rec; ls_returns = !m_aux;
                  ls_netfee = (if nff = "1" then Some (zs nf) else None); ls_coll_bal = zs collbal } in
        let sel_bt = if zeq !m_bh z0 then coll_bt else !m_bt in
        let m = AccrualSites.locker_rewards_with (calc fb) now l in
        cmpf "K.class" (cls_of m) c; bump ("K:" ^ c);
        let md = calc fb now sel_bt !m_rec lsr_ in
        cmpf "K.direct.class" (cls_of md) dc;
        (match md with Base.Ok x -> cmpf "K.direct" (sz x) direct; check_xy (fun f a b -> cmpf ("K." ^ f) a b) lsr_ (zsub now sel_bt) xb yb | _ -> ());
        (match m with
         | Base.Ok (AccrualSites.LUpdated (x, p, t', n', r', f')) ->
           cmpf "K.tracker" ("1:" ^ sz t') (trf' ^ ":" ^ tr'); cmpf "K.net" (sz n') net'; cmpf "K.returns" (sz r') returns';
           cmpf "K.netfee" (sz f') nf'; cmpf "K.locker_bt" (sz now) lbt'; cmpf "K.locker_bh" (sz h) lbh';
           (* what was paid moved from the collector to the locker module and is booked in the lookup table and the reward total *)
           cmpf "K.lookup_deposited_delta" (sz p) dep_delta; cmpf "K.locker_module_delta" (sz p) lockermod_delta;
           m_aux2 := zadd !m_aux2 p; if not (zeq p z0) then cmpf "K.total_rewards" (sz !m_aux2) totrew;
           m_tr := Some t'; m_rec := n'; m_aux := r'; m_bt := now; m_bh := h;
           if not (zeq x z0) then nt := true; bump "K:updated";
           judge "locker" ~secs:(zsub now sel_bt) ~t0:(if trf = "1" then zs tr else z0) ~r0:(zs net) ~accrued:(zs direct) ~t1:(zs tr') ~r1:(zs net');
           if not (zeq (zsub (zs returns') (zs returns)) (zsub (zs net') (zs net))) then pf "locker_returns_vs_balance" returns'
         | _ ->
           cmpf "K.tracker" (mf ^ ":" ^ mt) (trf' ^ ":" ^ tr'); cmpf "K.net" (sz !m_rec) net'; cmpf "K.returns" (sz !m_aux) returns';
           cmpf "K.locker_bt" (sz !m_bt) lbt'; cmpf "K.locker_bh" (sz !m_bh) lbh'; cmpf "K.locker_module_delta" "0" lockermod_delta; bump "K:untouched")
      (* ---------------- IterateLends ---------------- *)
      | "o" :: "IL" :: now :: mbal :: tb :: tsb :: last :: amt :: gi :: trf :: tr :: avail :: totrew :: _tia
        :: c :: idx :: trf' :: tr' :: avail' :: totrew' :: dc :: direct :: [] ->
        incr step; incr steps; Buffer.add_string sig_ line;
        let now = zs now in
        if !first then begin first := false; m_tr := trk trf tr; m_rec := zs avail; m_aux := zs totrew; m_bt := zs last; m_aux2 := zs gi end;
        let (mf, mt) = trs !m_tr in
        cmpf "IL.in.tracker" (mf ^ ":" ^ mt) (trf ^ ":" ^ tr); cmpf "IL.in.avail" (sz !m_rec) avail; cmpf "IL.in.rewards" (sz !m_aux) totrew;
        cmpf "IL.in.last" (sz !m_bt) last; cmpf "IL.in.index" (sz !m_aux2) gi;
        let p = rp_of !params in
        let mu = Rates.utilisation (zs mbal) (zadd (zs tb) (zs tsb)) in
        let mapr = (match mu with Some u -> Rates.lend_apr_p p u | None -> None) in
        (match mapr with
         | None -> cmpf "IL.class" "panic" c
         | Some apr ->
           let m = AccrualSites.lend_site now !m_bt (zs amt) apr !m_aux2 !m_tr in
           cmpf "IL.class" (cls_of m) c; bump ("IL:" ^ c);
           (match m with
            | Base.Ok (((x, pd), t'), igc) ->
              cmpf "IL.index" (sz igc) idx; cmpf "IL.tracker" ("1:" ^ sz t') (trf' ^ ":" ^ tr');
              cmpf "IL.avail" (sz (zadd !m_rec pd)) avail'; cmpf "IL.rewards" (sz (zadd !m_aux pd)) totrew';
              let secs = Accrual.lend_secs now !m_bt in
              (* CalculateLendReward called directly on the same operands: an error there is ignored by IterateLends (it adds zero) *)
              cmpf "IL.direct" (sz x) (if dc = "ok" then direct else "0");
              judge "lend" ~secs ~t0:(if trf = "1" then zs tr else z0) ~r0:(zs avail) ~accrued:(zs direct) ~t1:(zs tr') ~r1:(zs avail');
              if not (zeq (zsub (zs totrew') (zs totrew)) (zsub (zs avail') (zs avail))) then pf "lend_rewards_vs_available" totrew';
              m_tr := Some t'; m_rec := zadd !m_rec pd; m_aux := zadd !m_aux pd;
              (* the callers store the returned index (if positive) and the interaction time *)
              if BinInt.Z.ltb z0 igc then m_aux2 := igc; m_bt := now;
              if not (zeq x z0) then nt := true
            | _ -> ()))
      (* ---------------- IterateBorrow ---------------- *)
      | "o" :: "IB" :: now :: mbal :: tb :: tsb :: last :: stable :: amt :: srate :: gi :: rgi :: intacc :: resf :: res
        :: ca :: avg :: cr :: rr :: cp :: apr :: c :: i1 :: i2 :: intacc' :: resf' :: res' :: [] ->
        incr step; incr steps; Buffer.add_string sig_ line;
        let now = zs now in
        if !first then begin first := false; m_tr := trk resf res; m_rec := zs intacc; m_bt := zs last; m_aux2 := zs gi; m_aux3 := zs rgi end;
        let (mf, mt) = trs !m_tr in
        cmpf "IB.in.reserve" (mf ^ ":" ^ mt) (resf ^ ":" ^ res); cmpf "IB.in.intacc" (sz !m_rec) intacc;
        cmpf "IB.in.last" (sz !m_bt) last; cmpf "IB.in.index" (sz !m_aux2) gi; cmpf "IB.in.rindex" (sz !m_aux3) rgi;
        let p = rp_of !params in
        let st = (stable = "1") in
        let mr = AccrualSites.borrow_rates p (zs mbal) (zs tb) (zs tsb) st in
        bump ("IB:rates:" ^ cls_of mr);
        (match mr with
         | Base.Ok (((mapr, mrr), mavg), u) ->
           cmpf "IB.avg.class" "ok" ca; cmpf "IB.avg" (sz mavg) avg; cmpf "IB.reserve_rate.class" "ok" cr; cmpf "IB.reserve_rate" (sz mrr) rr;
           cmpf "IB.apr.class" "ok" cp; cmpf "IB.apr" (sz mapr) apr;
           if not (AccrualSites.holds_C18_reserve_rate (zs avg) p.Rates.rp_rf (zs rr)) then pf "reserve_rate_range" (rr ^ "_vs_" ^ avg);
           ignore u;
           let b = { AccrualSites.bs_stable = st; bs_apr = mapr; bs_rrate = mrr; bs_stable_rate = zs srate; bs_amt = zs amt; bs_last = !m_bt;
                     bs_gi = !m_aux2; bs_rgi = !m_aux3; bs_intacc = !m_rec; bs_reserve = !m_tr } in
           let m = AccrualSites.borrow_site_step now b in
           cmpf "IB.class" (cls_of m) c; bump ("IB:" ^ c ^ (if st then ":stable" else ":variable"));
           (match m with
            | Base.Ok ((((s, ia'), rs'), igc), rigc) ->
              cmpf "IB.index" (sz igc) i1; cmpf "IB.rindex" (sz rigc) i2; cmpf "IB.intacc" (sz ia') intacc';
              cmpf "IB.reserve" ("1:" ^ sz rs') (resf' ^ ":" ^ res');
              let secs = Accrual.lend_secs now !m_bt in
              if not (AccrualSites.holds_C18_dec_site secs (zs intacc) (zs intacc')) then pf "borrow_interest_site" (intacc ^ "->" ^ intacc');
              if not (AccrualSites.holds_C18_dec_site secs (if resf = "1" then zs res else z0) (zs res')) then pf "borrow_reserve_site" (res ^ "->" ^ res');
              m_rec := ia'; m_tr := Some rs';
              if BinInt.Z.ltb z0 igc then m_aux2 := igc; if BinInt.Z.ltb z0 rigc then m_aux3 := rigc; m_bt := now;
              if not (zeq s z0) then nt := true
            | _ ->
              cmpf "IB.intacc" (sz !m_rec) intacc'; cmpf "IB.reserve" (mf ^ ":" ^ mt) (resf' ^ ":" ^ res'))
         | Base.Err _ ->
           (* nothing borrowed: GetAverageBorrowRate errors, IterateBorrow returns it before touching anything *)
           cmpf "IB.avg.class" "err" ca; cmpf "IB.class" "err" c; cmpf "IB.intacc" (sz !m_rec) intacc'; cmpf "IB.reserve" (mf ^ ":" ^ mt) (resf' ^ ":" ^ res')
         | Base.Panic -> cmpf "IB.class" "panic" c)
      | _ -> ()
    ) lines;
  end_case ();
  finish ~cases:!cases ~steps:!steps ~nontrivial:!nontrivial

let () = Conv.register "C18-sites" run
