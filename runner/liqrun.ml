(* Shared runner of C07 / C04: replays the liquidity traces on the extracted model (Liquidity.step),
   threading the model state through the whole history, diffs the full projection after EVERY step,
   and evaluates the extracted property predicates on the IMPLEMENTATION's observations. *)
open Conv
open Liquidity

let z = z_of_string
let zs = string_of_z
let z0 = BinNums.Z0
let zadd = BinInt.Z.add
let zsub = BinInt.Z.sub
let zeq a b = BinInt.Z.eqb a b
let zi = z_of_int

let acct_of_tok (t : string) : acct =
  match S.split_on_char '.' t with
  | ["u"; n] -> User (z n)
  | ["esc"; a; p] -> Escrow (z a, z p)
  | ["fee"; a; p] -> SwapFee (z a, z p)
  | ["ge"] -> GlobalEscrow
  | ["mod"] -> Module
  | ["res"; a; p] -> Reserve (z a, z p)
  | ["dust"; a] -> Dust (z a)
  | ["fc"; a] -> FeeColl (z a)
  | _ -> failwith ("acct " ^ t)

let cat l = S.concat " " l

(* the model's records as key -> value, in the harness's canonical text *)
let model_kv (s : state) : (string * string) list =
  let b = tok_of_bool in
  L.map (fun ((o : order), _) ->
      (Printf.sprintf "ord:%s:%s:%s" (zs o.o_app) (zs o.o_pair) (zs o.o_id),
       cat [zs o.o_owner; b o.o_buy; zs o.o_type; zs o.o_odenom; zs o.o_ddenom; zs o.o_offer; zs o.o_rem; zs o.o_recv;
            zs o.o_price; zs o.o_amt; zs o.o_open; zs o.o_batch; zs o.o_expire; zs o.o_status])) s.orders
  @ L.map (fun (p : pair) ->
      (Printf.sprintf "pair:%s:%s" (zs p.p_app) (zs p.p_id),
       cat [zs p.p_base; zs p.p_quote; zs p.p_last_order;
            (match p.p_last_price with Some x -> "1 " ^ zs x | None -> "0 0"); zs p.p_batch])) s.pairs
  @ L.map (fun (m : mmindex) ->
      (Printf.sprintf "mm:%s:%s:%s" (zs m.mi_app) (zs m.mi_owner) (zs m.mi_pair),
       cat (string_of_int (L.length m.mi_ids) :: L.map zs m.mi_ids))) s.mmidx
  @ L.concat_map (fun (p : pool) ->
      [ (Printf.sprintf "pool:%s:%s" (zs p.pl_app) (zs p.pl_id),
         cat [zs p.pl_pair; b p.pl_ranged; b p.pl_disabled; zs p.pl_last_dep; zs p.pl_last_wd]);
        (let d = pool_denom p.pl_app p.pl_id in (Printf.sprintf "sup:%s" (zs d), zs (s.sup p.pl_app p.pl_id))) ]) s.pools
  @ L.map (fun (r : depreq) ->
      (Printf.sprintf "dep:%s:%s:%s" (zs r.d_app) (zs r.d_pool) (zs r.d_id),
       cat [zs r.d_owner; zs r.d_x; zs r.d_y; zs r.d_ax; zs r.d_ay; zs r.d_pc; zs r.d_status])) s.deps
  @ L.map (fun (r : wdreq) ->
      (Printf.sprintf "wd:%s:%s:%s" (zs r.w_app) (zs r.w_pool) (zs r.w_id),
       cat [zs r.w_owner; zs r.w_pc; zs r.w_x; zs r.w_y; zs r.w_status])) s.wds
  @ L.map (fun (q : qfarmer) ->
      (Printf.sprintf "qf:%s:%s:%s" (zs q.q_app) (zs q.q_pool) (zs q.q_owner),
       cat (string_of_int (L.length q.q_coins) :: L.concat_map (fun (a, t) -> [zs a; zs t]) q.q_coins))) s.qfs
  @ L.map (fun (a : afarmer) ->
      (Printf.sprintf "af:%s:%s:%s" (zs a.a_app) (zs a.a_pool) (zs a.a_owner), zs a.a_amt)) s.afs

let is_record_key k =
  L.exists (fun p -> S.length k > S.length p && S.sub k 0 (S.length p) = p)
    ["ord:"; "pair:"; "mm:"; "pool:"; "sup:"; "dep:"; "wd:"; "qf:"; "af:"]

let order_of_kv (k : string) (v : string) : order =
  match S.split_on_char ':' k, tokens v with
  | [_; a; p; id], [ow; buy; ty; od; dd; off; rem; recv; price; amt; op; batch; exp; st] ->
    { o_app = z a; o_pair = z p; o_id = z id; o_owner = z ow; o_buy = bool_of_tok buy; o_type = z ty; o_odenom = z od;
      o_ddenom = z dd; o_offer = z off; o_rem = z rem; o_recv = z recv; o_price = z price; o_amt = z amt; o_open = z op;
      o_batch = z batch; o_expire = z exp; o_status = z st }
  | _ -> failwith ("order kv " ^ k ^ " " ^ v)

(* ---- parsing of op lines ---- *)
let rec take_n n f toks = if n = 0 then ([], toks) else let (x, r) = f toks in let (xs, r') = take_n (n - 1) f r in (x :: xs, r')

let parse_end (toks : string list) : op =
  match toks with
  | h :: now :: na :: rest ->
    let parse_fill = function id :: m :: p :: r :: tl -> ((((z id, z m), z p), z r), tl) | _ -> failwith "fill" in
    let parse_flow = function pid :: dq :: db :: tl -> (((z pid, z dq), z db), tl) | _ -> failwith "flow" in
    let parse_batch = function
      | "batch" :: pid :: m :: price :: nf :: tl ->
        let (fills, tl) = take_n (int_of_string nf) parse_fill tl in
        (match tl with
         | np :: tl ->
           let (flows, tl) = take_n (int_of_string np) parse_flow tl in
           (match tl with
            | dust :: tl -> ({ b_pair = z pid; b_matched = bool_of_tok m; b_price = z price; b_fills = fills; b_pools = flows; b_dust = z dust }, tl)
            | _ -> failwith "dust")
         | _ -> failwith "np")
      | _ -> failwith "batch" in
    let parse_dep = function p :: i :: ax :: ay :: pc :: tl -> (((((z p, z i), z ax), z ay), z pc), tl) | _ -> failwith "depenv" in
    let parse_wd = function p :: i :: x :: y :: tl -> ((((z p, z i), z x), z y), tl) | _ -> failwith "wdenv" in
    let parse_app = function
      | "app" :: a :: nb :: tl ->
        let (bs, tl) = take_n (int_of_string nb) parse_batch tl in
        (match tl with
         | nd :: tl ->
           let (ds, tl) = take_n (int_of_string nd) parse_dep tl in
           (match tl with
            | nw :: tl ->
              let (ws, tl) = take_n (int_of_string nw) parse_wd tl in
              ({ e_app = z a; e_batches = bs; e_deps = ds; e_wds = ws }, tl)
            | _ -> failwith "nw")
         | _ -> failwith "nd")
      | _ -> failwith "appenv" in
    let (envs, _) = take_n (int_of_string na) parse_app rest in
    OEnd (z h, z now, envs)
  | _ -> failwith "end"

let parse_coin = function d :: a :: tl -> ((z d, z a), tl) | _ -> failwith "coin"

(* returns the op and the implementation's result class ("" when the line carries none) *)
let parse_op (toks : string list) : op * string =
  match toks with
  | ["app"; a; fee; tick; ratio; life; mmt; fd; pf; plf; minpc; mindep; maxp; batch; qd] ->
    (OAddApp (z a, { pr_fee_rate = z fee; pr_tick = z tick; pr_ratio = z ratio; pr_max_life = z life; pr_mm_ticks = z mmt;
                     pr_fee_denom = z fd; pr_pair_fee = z pf; pr_pool_fee = z plf; pr_min_pc = z minpc; pr_min_dep = z mindep;
                     pr_max_pools = z maxp; pr_batch = z batch; pr_queue_dur = z qd }), "")
  | ["asset"; d] -> (OAddAsset (z d), "")
  | ["fund"; w; d; a] -> (OFund (z w, z d, z a), "")
  | ["pair"; a; c; b; q; res] -> (OCreatePair (z a, z c, z b, z q), res)
  | ["pool"; a; c; p; x; y; ok; ps; res] -> (OCreatePool (z a, z c, z p, z x, z y, bool_of_tok ok, z ps), res)
  | ["rpool"; a; c; p; x; y; ok; ax; ay; ps; res] -> (OCreateRanged (z a, z c, z p, z x, z y, bool_of_tok ok, z ax, z ay, z ps), res)
  | [("limit" | "market") as k; a; ow; p; buy; dok; od; oamt; dd; price; amt; life; now; res] ->
    let m = { m_app = z a; m_owner = z ow; m_pair = z p; m_buy = bool_of_tok buy; m_dir_ok = bool_of_tok dok; m_odenom = z od;
              m_oamt = z oamt; m_ddenom = z dd; m_price = z price; m_amt = z amt; m_life = z life } in
    ((if k = "limit" then OLimit (m, z now) else OMarket (m, z now)), res)
  | ["mm"; a; ow; p; maxs; mins; sa; maxb; minb; ba; life; now; res] ->
    (OMM ({ mm_app = z a; mm_owner = z ow; mm_pair = z p; mm_max_sell = z maxs; mm_min_sell = z mins; mm_sell_amt = z sa;
            mm_max_buy = z maxb; mm_min_buy = z minb; mm_buy_amt = z ba; mm_life = z life }, z now), res)
  | ["cancel"; a; ow; p; id; res] -> (OCancel (z a, z ow, z p, z id), res)
  | "cancelall" :: a :: ow :: n :: rest ->
    let (ps, rest) = take (int_of_string n) rest in
    (OCancelAll (z a, z ow, L.map z ps), (match rest with [r] -> r | _ -> failwith "cancelall"))
  | ["cancelmm"; a; ow; p; res] -> (OCancelMM (z a, z ow, z p), res)
  | "deposit" :: a :: ow :: p :: n :: rest ->
    let (cs, rest) = take_n (int_of_string n) parse_coin rest in
    (ODeposit (z a, z ow, z p, cs), (match rest with [r] -> r | _ -> failwith "deposit"))
  | ["withdraw"; a; ow; p; dn; pc; res] -> (OWithdraw (z a, z ow, z p, z dn, z pc), res)
  | ["farm"; a; ow; p; dn; amt; now; res] -> (OFarm (z a, z ow, z p, z dn, z amt, z now), res)
  | ["unfarm"; a; ow; p; dn; amt; res] -> (OUnfarm (z a, z ow, z p, z dn, z amt), res)
  | "depfarm" :: a :: ow :: p :: n :: rest ->
    let (cs, rest) = take_n (int_of_string n) parse_coin rest in
    (match rest with
     | [now; ax; ay; pc; res] -> (ODepositAndFarm (z a, z ow, z p, cs, z now, z ax, z ay, z pc), res)
     | _ -> failwith "depfarm")
  | ["unfarmwd"; a; ow; p; dn; pc; x; y; res] -> (OUnfarmAndWithdraw (z a, z ow, z p, z dn, z pc, z x, z y), res)
  | ["begin"] -> (OBegin, "")
  | "end" :: rest -> (parse_end rest, "")
  | _ -> failwith ("bad op: " ^ cat toks)

(* ---------------------------------------------------------------------------------------------- *)
let rec int_of_nat = function Datatypes.O -> 0 | Datatypes.S n -> 1 + int_of_nat n
let two64 = z_of_string "18446744073709551616"

(* one line of a shadow book: the order as it entered the engine (fresh) and what the implementation made of it *)
type mo_row = { mkind : string; mid : string; mord : AMM.order; mopen : string; mpaid : string; mrecv : string }

module LedTbl = Hashtbl.Make (struct
    type t = acct * BinNums.coq_Z
    let equal (a : t) (b : t) = a = b
    let hash (k : t) = Hashtbl.hash_param 64 128 k
  end)
let tdiff = ref 0. and tprops = ref 0. and tstep = ref 0.
let run_prop (prop : string) (path : string) =
  let c04 = prop = "C04" and c05 = prop = "C05" and c06 = prop = "C06" and c07 = prop = "C07" in
  let life_on = c07 || c05 in
  let lines = read_lines path in
  let cases = ref 0 and steps = ref 0 and nontrivial = ref 0 in
  let case = ref "" and step = ref 0 in
  let model = ref init in
  let impl : (string, string) Hashtbl.t = Hashtbl.create 4096 in
  let known : (string, order) Hashtbl.t = Hashtbl.create 1024 in        (* last observed record of every order *)
  let by_owner : (string, string list) Hashtbl.t = Hashtbl.create 256 in (* owner -> order keys *)
  let by_pair : (string, string list) Hashtbl.t = Hashtbl.create 32 in   (* app:pair -> order keys *)
  let funded : (string, BinNums.coq_Z) Hashtbl.t = Hashtbl.create 1024 in (* user:denom *)
  let rates : (string, BinNums.coq_Z) Hashtbl.t = Hashtbl.create 8 in
  let fills_net : (string, BinNums.coq_Z) Hashtbl.t = Hashtbl.create 32 in (* app:pair:denom -> net of recorded fills *)
  let nonconserving : (string, unit) Hashtbl.t = Hashtbl.create 8 in     (* app:pair whose recorded fills lost base coin *)
  let changed : (string, unit) Hashtbl.t = Hashtbl.create 64 in          (* keys changed by the current step *)
  let prev_changed : (string, string) Hashtbl.t = Hashtbl.create 64 in   (* previous values of changed record keys *)
  let dead = ref false in
  let sig_ = Buffer.create 4096 in
  let seen_fill = ref false and seen_end = ref false and seen_pool = ref false and seen_farm = ref false in
  let pending_mm : (string * string * string * string list) option ref = ref None in   (* app owner pair, ids listed before *)
  let cur_op = ref "" in
  (* shadow matching of the coming EndBlocker *)
  let mi_ids : (string, string list) Hashtbl.t = Hashtbl.create 16 in        (* app:pair -> ids handed to NewUserOrder *)
  let shadow_pairs : (string, unit) Hashtbl.t = Hashtbl.create 16 in         (* app:pair with a shadow book *)
  let shadow_fills : (string, string) Hashtbl.t = Hashtbl.create 64 in       (* app:pair:id -> "matched paid recv" *)
  let shadow_kf : (string, unit) Hashtbl.t = Hashtbl.create 8 in             (* app:pair whose shadow book is inside kf_C05_1 *)
  let app_nets : (string, BinNums.coq_Z list) Hashtbl.t = Hashtbl.create 8 in   (* app -> non-zero base nets of the batches applied so far *)
  let shadow_env : (string, (batch_env * BinNums.coq_Z) list) Hashtbl.t = Hashtbl.create 8 in   (* app -> the engine's batches (ENV form) with their base net *)
  let m_hdr : string list ref = ref [] and m_need = ref 0 and m_rows : mo_row list ref = ref [] in
  let ex_flags : (string, string) Hashtbl.t = Hashtbl.create 8 in            (* app -> the implementation's executed flag *)
  let model_flags : (string * string) list ref = ref [] in
  let wfee : (string, BinNums.coq_Z) Hashtbl.t = Hashtbl.create 8 in
  let cur_parsed : op option ref = ref None and cur_res = ref "" in
  let seen_shadow_fill = ref false in
  let reported : (string, unit) Hashtbl.t = Hashtbl.create 64 in
  let esc_denoms : (string, string list) Hashtbl.t = Hashtbl.create 32 in   (* app:pair -> denoms watched on its escrow *)
  let case_mism0 = ref 0 in
  let geti tbl k = try Hashtbl.find tbl k with Not_found -> z0 in
  let rate_of a = geti rates (zs a) in
  let impl_z k = try z (Hashtbl.find impl k) with Not_found -> z0 in
  let end_case () =
    if !case <> "" then begin
      incr cases;
      if (if c04 then !seen_pool && !seen_farm else if c06 then !seen_pool else if c05 then !seen_shadow_fill && !seen_end else !seen_fill && !seen_end) then incr nontrivial;
      Hashtbl.replace distinct (Digest.string (Buffer.contents sig_)) ()
    end in
  let pf ~pred ~kf ~detail = predfail ~case:!case ~step:!step ~pred ~kf ~detail in
  let orders_of tbl k = L.filter_map (fun ok -> try Some (Hashtbl.find known ok) with Not_found -> None) (try Hashtbl.find tbl k with Not_found -> []) in
  let pair_kf ap = if Hashtbl.mem nonconserving ap then "kf_C05_1_via_fills" else "none" in

  let impl_order k = try Some (order_of_kv k (Hashtbl.find impl k)) with Not_found -> None in
  let prev_order k = try Some (order_of_kv k (Hashtbl.find prev_changed k)) with Not_found -> impl_order k in

  (* ------- one batch's fill of a stored order against what the engine is given for it ------- *)
  let judge_fill ~(src : string) (k : string) (ob : order option) (m : BinNums.coq_Z) (p : BinNums.coq_Z) (r : BinNums.coq_Z) =
    if life_on then
      match ob with
      | None -> ()
      | Some o ->
        bump ("eval:C05_life:" ^ src);
        if not (holds_C05_life o m p r) then
          pf ~pred:("holds_C05_life_" ^ src) ~kf:"none"
            ~detail:(Printf.sprintf "%s_remaining_before=%s_open_before=%s_matched=%s_paid=%s_received=%s" k (zs o.o_rem) (zs o.o_open) (zs m) (zs p) (zs r)) in

  (* ------- a complete shadow book: replay on the matching-engine model, judge the implementation's fills ------- *)
  let process_shadow () =
    (match !m_hdr with
     | [a; p; has; lp; res; matched; price; qcd; _n] ->
       let ap = a ^ ":" ^ p in
       let rows = L.rev !m_rows in
       Hashtbl.replace shadow_pairs ap ();
       bump "shadow:books";
       if res = "panic" then pf ~pred:"matching_no_panic" ~kf:"none" ~detail:("keeper.Match_panicked_pair=" ^ ap);
       let os0 = L.mapi (fun i (r : mo_row) -> { r.mord with AMM.o_id = nat_of_int i }) rows in
       let os1 = L.map2 (fun (o : AMM.order) (r : mo_row) -> { o with AMM.o_open = z r.mopen; AMM.o_paid = z r.mpaid; AMM.o_recv = z r.mrecv }) os0 rows in
       let imatched = bool_of_tok matched in
       (* the implementation's fills of the user orders; judged against the stored record *)
       L.iter2 (fun (o : AMM.order) (r : mo_row) ->
           if r.mkind = "u" then begin
             let m = zsub o.AMM.o_amt (z r.mopen) in
             if not (zeq m z0) || not (zeq (z r.mpaid) z0) || not (zeq (z r.mrecv) z0) then begin
               seen_shadow_fill := true;
               let k = Printf.sprintf "ord:%s:%s" ap r.mid in
               Hashtbl.replace shadow_fills (ap ^ ":" ^ r.mid) (cat [zs m; r.mpaid; r.mrecv]);
               judge_fill ~src:"engine" k (impl_order k) m (z r.mpaid) (z r.mrecv)
             end
           end) os0 rows;
       (* the engine's result in the ENV form of the model: user fills in book order, each pool's net reserve change, dust *)
       if res = "ok" && imatched then begin
         let fills = L.concat (L.map2 (fun (o : AMM.order) (r : mo_row) ->
             if r.mkind = "u" && not (zeq (zsub o.AMM.o_amt (z r.mopen)) z0 && zeq (z r.mpaid) z0 && zeq (z r.mrecv) z0)
             then [(((z r.mid, zsub o.AMM.o_amt (z r.mopen)), z r.mpaid), z r.mrecv)] else []) os0 rows) in
         let flows : (string, BinNums.coq_Z * BinNums.coq_Z) Hashtbl.t = Hashtbl.create 8 in
         let order = ref [] in
         L.iter2 (fun (o : AMM.order) (r : mo_row) ->
             if r.mkind = "p" && not (zeq (z r.mpaid) z0 && zeq (z r.mrecv) z0) then begin
               let (dq, db) = (try Hashtbl.find flows r.mid with Not_found -> (order := r.mid :: !order; (z0, z0))) in
               let (dq, db) = (match o.AMM.o_dir with
                   | AMM.Buy -> (zsub dq (z r.mpaid), zadd db (z r.mrecv))      (* pays quote, receives base *)
                   | AMM.Sell -> (zadd dq (z r.mrecv), zsub db (z r.mpaid))) in
               Hashtbl.replace flows r.mid (dq, db)
             end) os0 rows;
         let pools = L.map (fun id -> let (dq, db) = Hashtbl.find flows id in ((z id, dq), db)) (L.rev !order) in
         let b = { b_pair = z p; b_matched = true; b_price = z price; b_fills = fills; b_pools = pools; b_dust = z qcd } in
         let buy_of id = L.exists2 (fun (o : AMM.order) (r : mo_row) -> r.mkind = "u" && zeq (z r.mid) id && o.AMM.o_dir = AMM.Buy) os0 rows in
         let bn = batch_base_net buy_of b in
         Hashtbl.replace shadow_env a ((b, bn) :: (try Hashtbl.find shadow_env a with Not_found -> []))
       end;
       if res = "ok" && c05 then begin
         let dom_p, model =
           if bool_of_tok has then (z lp, Some (AMM.run_match os0 (z lp)))
           else if imatched then (z price, Some (AMM.run_single_price os0 (z price)))
           else (zi 1, None) in
         (match model with
          | None -> bump "shadow:no_last_price_unmatched"
          | Some _ when not (AMM.dom_ok os0 dom_p) -> bump "shadow:out_of_domain"
          | Some None -> mismatch ~case:!case ~step:!step ~field:("shadow:" ^ ap ^ ":result") ~model:"panic" ~impl:"ok"
          | Some (Some (mr : AMM.mresult)) ->
            bump (if mr.AMM.r_matched then "shadow:matched" else "shadow:unmatched");
            if mr.AMM.r_under then begin bump "shadow:kf_C05_1"; Hashtbl.replace shadow_kf ap () end;
            let fld f = "shadow:" ^ ap ^ ":" ^ f in
            if mr.AMM.r_matched <> imatched then
              mismatch ~case:!case ~step:!step ~field:(fld "matched") ~model:(tok_of_bool mr.AMM.r_matched) ~impl:matched;
            if mr.AMM.r_matched && imatched then begin
              if zs mr.AMM.r_price <> price then mismatch ~case:!case ~step:!step ~field:(fld "matchPrice") ~model:(zs mr.AMM.r_price) ~impl:price;
              let q = zs (AMM.fills_qdiff mr.AMM.r_fills) in
              if q <> qcd then mismatch ~case:!case ~step:!step ~field:(fld "quoteCoinDiff") ~model:q ~impl:qcd
            end;
            L.iteri (fun i ((mo : AMM.order), (r : mo_row)) ->
                let chk f a b = if a <> b then mismatch ~case:!case ~step:!step ~field:(fld (Printf.sprintf "%s%s.%s" r.mkind r.mid f)) ~model:a ~impl:b in
                ignore i;
                chk "open" (zs mo.AMM.o_open) r.mopen; chk "paid" (zs mo.AMM.o_paid) r.mpaid; chk "recv" (zs mo.AMM.o_recv) r.mrecv)
              (L.combine mr.AMM.r_orders rows);
            (* C05's predicates on the implementation's book after matching *)
            if c05 then begin
              let fs = mr.AMM.r_fills in
              let cls = if mr.AMM.r_under then "kf_C05_1" else "none" in
              bump "eval:C05_keeper_book";
              let base_ok = AMM.holds_C05_base os0 os1 in
              if not base_ok then
                pf ~pred:"holds_C05_base" ~kf:cls ~detail:(Printf.sprintf "pair=%s_buyers_received=%s_sellers_paid=%s" ap (zs (AMM.base_bought os0 os1)) (zs (AMM.base_sold os0 os1)));
              if not (AMM.holds_C05_dust os0 os1 (zi (L.length fs))) then
                pf ~pred:"holds_C05_dust" ~kf:(if base_ok then "none" else cls) ~detail:("pair=" ^ ap);
              if not (AMM.holds_C05_bounds os1) then pf ~pred:"holds_C05_bounds" ~kf:"none" ~detail:("pair=" ^ ap ^ "_order_overfilled_or_overpaid");
              if not (AMM.holds_C05_limit os0 os1 fs) then pf ~pred:"holds_C05_limit" ~kf:"none" ~detail:("pair=" ^ ap);
              if not (AMM.holds_C05_positive os1) then pf ~pred:"holds_C05_positive" ~kf:"none" ~detail:("pair=" ^ ap);
              if imatched && not (AMM.holds_C05_qdiff os0 os1 (z qcd)) then pf ~pred:"holds_C05_qdiff" ~kf:"none" ~detail:("pair=" ^ ap)
            end)
       end
     | _ -> ());
    m_hdr := []; m_rows := []; m_need := 0 in

  (* ------- after an EndBlocker: executed flags, the applied fills against the shadow, the order books ------- *)
  let check_end () =
    match !cur_parsed with
    | Some (OEnd (_, now, envs)) ->
      (* was each app's batch executed?  a rolled-back batch (error or recovered panic) is never expected *)
      L.iter (fun (a, mf) ->
          match (try Some (Hashtbl.find ex_flags a) with Not_found -> None) with
          | Some f when f <> "2" && mf <> "2" && mf <> "3" ->
            bump ("endblock:executed:" ^ f);
            if f <> mf then mismatch ~case:!case ~step:!step ~field:("end:app" ^ a ^ ":batch_executed") ~model:mf ~impl:f;
            if f = "0" then begin
              (* base nets of the engine's batches of this app: this block's, and those applied at earlier blocks *)
              let nets = L.map snd (try Hashtbl.find shadow_env a with Not_found -> []) @ (try Hashtbl.find app_nets a with Not_found -> []) in
              pf ~pred:"endblock_batch_executed" ~kf:(if kf_C05_2_stall nets then "kf_C05_2_stall" else "none")
                ~detail:(Printf.sprintf "app=%s_batch_rolled_back_orders_and_requests_stay_engine_base_nets=%s" a (S.concat "," (L.map zs nets)))
            end
          | _ -> ()) !model_flags;
      (* the orders put on the book: model (on_book over the stored records before the block) vs NewUserOrder calls *)
      Hashtbl.iter (fun ap () ->
          let ids = L.sort compare (L.map int_of_string (try Hashtbl.find mi_ids ap with Not_found -> [])) in
          let expect = Hashtbl.fold (fun k _ acc ->
              match S.split_on_char ':' k with
              | ["ord"; a; p; id] when a ^ ":" ^ p = ap ->
                (match prev_order k with Some o when on_book now o -> int_of_string id :: acc | _ -> acc)
              | _ -> acc) known [] in
          (* orders deleted in the meantime are no longer among the records: restrict to those stored before the block *)
          let expect = L.sort compare (L.filter (fun id ->
              let k = Printf.sprintf "ord:%s:%d" ap id in Hashtbl.mem impl k || Hashtbl.mem prev_changed k) expect) in
          if ids <> expect then
            mismatch ~case:!case ~step:!step ~field:("end:" ^ ap ^ ":book_orders")
              ~model:(S.concat "," (L.map string_of_int expect)) ~impl:(S.concat "," (L.map string_of_int ids))) shadow_pairs;
      (* the fills applied to the records (ENV) are the engine's fills (shadow) *)
      L.iter (fun (e : app_env) ->
          let a = zs e.e_app in
          if (try Hashtbl.find ex_flags a with Not_found -> "") = "1" then begin
            let applied = Hashtbl.create 16 in
            L.iter (fun (b : batch_env) ->
                let ap = a ^ ":" ^ zs b.b_pair in
                L.iter (fun (((id, m), p), r) ->
                    let key = ap ^ ":" ^ zs id in
                    Hashtbl.replace applied key ();
                    let v = cat [zs m; zs p; zs r] in
                    let sv = (try Hashtbl.find shadow_fills key with Not_found -> "none") in
                    if Hashtbl.mem shadow_pairs ap && sv <> v then
                      mismatch ~case:!case ~step:!step ~field:("end:" ^ key ^ ":applied_fill_vs_engine") ~model:(S.map (fun c -> if c = ' ' then '_' else c) sv) ~impl:(S.map (fun c -> if c = ' ' then '_' else c) v);
                    let k = "ord:" ^ key in
                    judge_fill ~src:"applied" k (prev_order k) m p r) b.b_fills) e.e_batches;
            Hashtbl.iter (fun key v ->
                match S.split_on_char ':' key with
                | [a2; _; _] when a2 = a && not (Hashtbl.mem applied key) ->
                  mismatch ~case:!case ~step:!step ~field:("end:" ^ key ^ ":applied_fill_vs_engine") ~model:(S.map (fun c -> if c = ' ' then '_' else c) v) ~impl:"none"
                | _ -> ()) shadow_fills
          end) envs;
      Hashtbl.reset mi_ids; Hashtbl.reset shadow_pairs; Hashtbl.reset shadow_fills; Hashtbl.reset ex_flags; Hashtbl.reset shadow_env; model_flags := []
    | _ -> () in

  (* ------- C06 through the keeper: reserves and share supply of EVERY pool, after EVERY step ------- *)
  let check_pools () =
    let pst_of get a pl =
      match (try tokens (get (Printf.sprintf "pool:%s:%s" a pl)) with Not_found -> []) with
      | pr :: ranged :: _ ->
        (match (try tokens (Hashtbl.find impl (Printf.sprintf "pair:%s:%s" a pr)) with Not_found -> []) with
         | base :: quote :: _ ->
           let g k = (try z (get k) with Not_found -> z0) in
           Some ({ Pool.p_rx = g (Printf.sprintf "bal:res.%s.%s:%s" a pl quote); Pool.p_ry = g (Printf.sprintf "bal:res.%s.%s:%s" a pl base);
                   Pool.p_ps = g ("sup:" ^ zs (pool_denom (z a) (z pl))) }, bool_of_tok ranged, base, quote)
         | _ -> None)
      | _ -> None in
    let before_get k = (try Hashtbl.find prev_changed k with Not_found -> Hashtbl.find impl k) in
    let show (s : Pool.pstate) = Printf.sprintf "%s/%s/%s" (zs s.Pool.p_rx) (zs s.Pool.p_ry) (zs s.Pool.p_ps) in
    let pools = Hashtbl.fold (fun k _ acc -> match S.split_on_char ':' k with ["pool"; a; pl] -> (a, pl) :: acc | _ -> acc) impl [] in
    (* MsgCreateRangedPool executed: of the offered DepositCoins (x quote, y base) amm.CreateRangedPool accepted (ax, ay);
       neither what left the creator's wallet nor what arrived in the new pool's reserve exceeds the offer, per denom
       (the pool creation fee, when it is paid in a pair denom, is not part of the deposit) *)
    (match !cur_parsed with
     | Some (OCreateRanged (oa, creator, opair, x, y, _, ax, ay, _)) when !cur_res = "ok" ->
       let a = zs oa in
       bump "eval:C06_create_keeper";
       if not (Pool.holds_C06_create x y ax ay) then
         pf ~pred:"holds_C06_create_amm" ~kf:"none"
           ~detail:(Printf.sprintf "app=%s_pair=%s_offered=%s/%s_accepted=%s/%s" a (zs opair) (zs x) (zs y) (zs ax) (zs ay));
       (match (try tokens (Hashtbl.find impl (Printf.sprintf "pair:%s:%s" a (zs opair))) with Not_found -> []) with
        | base :: quote :: _ ->
          let before k = (try z (before_get k) with Not_found -> z0) and after k = impl_z k in
          let fee d = (match get_params !model oa with
              | Some p when zs p.pr_fee_denom = d -> p.pr_pool_fee
              | _ -> z0) in
          let spent d = let k = Printf.sprintf "bal:u.%s:%s" (zs creator) d in zsub (zsub (before k) (after k)) (fee d) in
          let sq = spent quote and sb = spent base in
          if not (Pool.holds_C06_create x y sq sb) then
            pf ~pred:"holds_C06_create_wallet" ~kf:"none"
              ~detail:(Printf.sprintf "app=%s_pair=%s_creator=%s_offered=%s/%s_left_the_wallet=%s/%s" a (zs opair) (zs creator) (zs x) (zs y) (zs sq) (zs sb));
          (* the pool created by this step: its reserve account was empty before *)
          L.iter (fun (pa, pl) ->
              let pk = Printf.sprintf "pool:%s:%s" pa pl in
              if pa = a && Hashtbl.mem changed pk && not (Hashtbl.mem prev_changed pk) then begin
                let rq = after (Printf.sprintf "bal:res.%s.%s:%s" a pl quote) and rb = after (Printf.sprintf "bal:res.%s.%s:%s" a pl base) in
                if not (Pool.holds_C06_create x y rq rb) then
                  pf ~pred:"holds_C06_create_reserve" ~kf:"none"
                    ~detail:(Printf.sprintf "pool=%s:%s_offered=%s/%s_reserve_received=%s/%s" a pl (zs x) (zs y) (zs rq) (zs rb))
              end) pools
        | _ -> ())
     | _ -> ());
    L.iter (fun (a, pl) ->
        let created = Hashtbl.mem changed (Printf.sprintf "pool:%s:%s" a pl) && not (Hashtbl.mem prev_changed (Printf.sprintf "pool:%s:%s" a pl)) in
        if not created then
          match pst_of before_get a pl, pst_of (Hashtbl.find impl) a pl with
          | Some (s0, _, base, quote), Some (s1, _, _, _) ->
            let name = a ^ ":" ^ pl in
            let fee = (try Hashtbl.find wfee a with Not_found -> z0) in
            (* the requests executed on THIS pool in this step, in execution order: (kind, offered x, offered y / pc, results) *)
            let cur = ref s0 and swapped = ref false in
            let value_step (sa : Pool.pstate) (sb : Pool.pstate) what =
              bump "eval:C06_value_keeper";
              if not (Pool.holds_C06_value sa sb) then
                pf ~pred:"holds_C06_value_keeper" ~kf:"none" ~detail:(Printf.sprintf "pool=%s_%s_before=%s_after=%s" name what (show sa) (show sb)) in
            let do_dep x y ax ay pc st =
              let s = !cur in
              if st = "2" then begin
                bump "eval:C06_deposit_keeper";
                (match Pool.deposit s.Pool.p_rx s.Pool.p_ry s.Pool.p_ps x y with
                 | Base.Ok ((max, may), mpc) ->
                   if not (zeq max ax && zeq may ay && zeq mpc pc) then
                     mismatch ~case:!case ~step:!step ~field:("pool:" ^ name ^ ":deposit") ~model:(cat [zs max; zs may; zs mpc] |> S.map (fun c -> if c = ' ' then '_' else c))
                       ~impl:(cat [zs ax; zs ay; zs pc] |> S.map (fun c -> if c = ' ' then '_' else c))
                 | _ -> mismatch ~case:!case ~step:!step ~field:("pool:" ^ name ^ ":deposit") ~model:"panic" ~impl:"ok");
                if not (Pool.holds_C06_deposit s.Pool.p_rx s.Pool.p_ry s.Pool.p_ps x y ax ay pc) then
                  pf ~pred:"holds_C06_deposit_keeper" ~kf:"none" ~detail:(Printf.sprintf "pool=%s_state=%s_offered=%s/%s_accepted=%s/%s_minted=%s" name (show s) (zs x) (zs y) (zs ax) (zs ay) (zs pc));
                let s' = { Pool.p_rx = zadd s.Pool.p_rx ax; Pool.p_ry = zadd s.Pool.p_ry ay; Pool.p_ps = zadd s.Pool.p_ps pc } in
                value_step s s' "deposit"; cur := s'
              end in
            let do_wd pc x y st =
              let s = !cur in
              if st = "2" then begin
                bump "eval:C06_withdraw_keeper";
                (match Pool.withdraw s.Pool.p_rx s.Pool.p_ry s.Pool.p_ps pc fee with
                 | Base.Ok (mx, my) ->
                   if not (zeq mx x && zeq my y) then
                     mismatch ~case:!case ~step:!step ~field:("pool:" ^ name ^ ":withdraw") ~model:(zs mx ^ "_" ^ zs my) ~impl:(zs x ^ "_" ^ zs y)
                 | _ -> mismatch ~case:!case ~step:!step ~field:("pool:" ^ name ^ ":withdraw") ~model:"panic" ~impl:"ok");
                if not (Pool.holds_C06_withdraw s.Pool.p_rx s.Pool.p_ry s.Pool.p_ps pc fee x y) then
                  pf ~pred:"holds_C06_withdraw_keeper" ~kf:"none" ~detail:(Printf.sprintf "pool=%s_state=%s_shares=%s_paid=%s/%s" name (show s) (zs pc) (zs x) (zs y));
                let s' = { Pool.p_rx = zsub s.Pool.p_rx x; Pool.p_ry = zsub s.Pool.p_ry y; Pool.p_ps = zsub s.Pool.p_ps pc } in
                value_step s s' "withdraw"; cur := s'
              end in
            let amt_of cs d = L.fold_left (fun acc (dn, am) -> if zeq dn (z d) then zadd acc am else acc) z0 cs in
            (match !cur_parsed with
             | Some (OEnd (_, _, envs)) ->
               L.iter (fun (e : app_env) ->
                   if zs e.e_app = a then begin
                     L.iter (fun (b : batch_env) ->
                         L.iter (fun ((pid, dq), db) ->
                             if zs pid = pl then begin
                               swapped := true;
                               cur := { !cur with Pool.p_rx = zadd (!cur).Pool.p_rx dq; Pool.p_ry = zadd (!cur).Pool.p_ry db }
                             end) b.b_pools) e.e_batches;
                     L.iter (fun ((((pid, id), ax), ay), pc) ->
                         if zs pid = pl then
                           match tokens (try Hashtbl.find impl (Printf.sprintf "dep:%s:%s:%s" a pl (zs id)) with Not_found -> "") with
                           | [_; x; y; _; _; _; st] -> do_dep (z x) (z y) ax ay pc st
                           | _ -> ()) e.e_deps;
                     L.iter (fun (((pid, id), x), y) ->
                         if zs pid = pl then
                           match tokens (try Hashtbl.find impl (Printf.sprintf "wd:%s:%s:%s" a pl (zs id)) with Not_found -> "") with
                           | [_; pc; _; _; st] -> do_wd (z pc) x y st
                           | _ -> ()) e.e_wds
                   end) envs
             | Some (ODepositAndFarm (oa, _, op, cs, _, ax, ay, pc)) when !cur_res = "ok" && zs oa = a && zs op = pl ->
               do_dep (amt_of cs quote) (amt_of cs base) ax ay pc "2"
             | Some (OUnfarmAndWithdraw (oa, _, op, _, pc, x, y)) when !cur_res = "ok" && zs oa = a && zs op = pl ->
               do_wd pc x y (if zeq x z0 && zeq y z0 then "3" else "2")     (* nothing to pay out: the request fails, the shares go back *)
             | _ -> ());
            (* what was observed after the step is exactly what the executed requests (and swaps) explain;
               a step that executes nothing on the pool leaves it untouched *)
            bump "eval:C06_untouched_keeper";
            if not (Pool.holds_C06_untouched !cur s1) then
              pf ~pred:"holds_C06_untouched_keeper" ~kf:"none"
                ~detail:(Printf.sprintf "pool=%s_op=%s_before=%s_explained=%s_observed=%s" name !cur_op (show s0) (show !cur) (show s1));
            (* reserves per share over the whole step, when no swap went through the pool *)
            if not !swapped then value_step s0 s1 ("step_" ^ !cur_op)
          | _ -> ()) pools in

  (* ------- property predicates on the implementation's observation, after each step ------- *)
  let check_props () =
    (* accounts and pairs touched by this step *)
    let owners = Hashtbl.create 16 and prs = Hashtbl.create 16 in
    Hashtbl.iter (fun k () ->
        match S.split_on_char ':' k with
        | ["ord"; a; p; _] ->
          (try Hashtbl.replace owners (zs (Hashtbl.find known k).o_owner) () with Not_found -> ());
          Hashtbl.replace prs (a ^ ":" ^ p) ()
        | ["bal"; acct; _] ->
          (match S.split_on_char '.' acct with
           | ["u"; n] -> Hashtbl.replace owners n ()
           | [("esc" | "fee"); a; p] -> Hashtbl.replace prs (a ^ ":" ^ p) ()
           | _ -> ())
        | _ -> ()) changed;
    (* C07: every trader account's balance change is explained by the records of its orders *)
    Hashtbl.iter (fun n () ->
        if c07 && int_of_string n >= 50 && int_of_string n <> 90 then begin
          let os = orders_of by_owner n in
          L.iter (fun d ->
              let bk = Printf.sprintf "bal:u.%s:%s" n d in
              if Hashtbl.mem impl bk then begin
                bump "eval:C07_account";
                let net = zsub (geti funded (n ^ ":" ^ d)) (impl_z bk) in
                if not (holds_C07_account rate_of os (z d) net) then
                  pf ~pred:"holds_C07_account" ~kf:"none" ~detail:(Printf.sprintf "user=%s_denom=%s_net_spent=%s_orders=%d" n d (zs net) (L.length os))
              end) ["1"; "2"; "3"]
        end) owners;
    (* C07 / C04: pair escrow and fee collector *)
    Hashtbl.iter (fun ap () ->
        match S.split_on_char ':' ap with
        | [a; p] ->
          let os = orders_of by_pair ap in
          let live = L.filter (fun (o : order) -> Hashtbl.mem impl (Printf.sprintf "ord:%s:%s:%s" a p (zs o.o_id))) os in
          (match (try Some (tokens (Hashtbl.find impl ("pair:" ^ ap))) with Not_found -> None) with
           | Some (base :: quote :: _) ->
             (* per DENOM: the pair's two coins and every other coin watched on the escrow (all assets; whatever an
                accepted order offers) - an order escrowed in a foreign coin is paid out of the other orders' coins *)
             let others = L.filter (fun d -> d <> base && d <> quote) (try Hashtbl.find esc_denoms ap with Not_found -> []) in
             L.iter (fun d ->
                 let balk = Printf.sprintf "bal:esc.%s.%s:%s" a p d in
                 if Hashtbl.mem impl balk then begin
                   let balance = impl_z balk in
                   let net = geti fills_net (ap ^ ":" ^ d) in
                   if c07 then bump "eval:C07_escrow";
                   (* exact decomposition, given the recorded fills *)
                   if c07 && not (holds_C07_escrow (rate_of (z a)) os (z d) balance net) then
                     pf ~pred:"holds_C07_escrow_decomposition" ~kf:"none" ~detail:(Printf.sprintf "pair=%s_denom=%s_balance=%s_fills_net=%s" ap d (zs balance) (zs net));
                   (* nothing of a terminated order remains: relative to conservation of the recorded fills *)
                   if c07 && not (holds_C07_escrow (rate_of (z a)) os (z d) balance z0) then
                     pf ~pred:"holds_C07_nothing_left" ~kf:(pair_kf ap) ~detail:(Printf.sprintf "pair=%s_denom=%s_balance=%s_fills_net=%s" ap d (zs balance) (zs net));
                   (* C04: escrow >= remaining offer coins of the live orders *)
                   let req = L.fold_left (fun acc (o : order) -> if zeq o.o_odenom (z d) && not (is_term o.o_status) then zadd acc o.o_rem else acc) z0 live in
                   if c04 then bump "eval:C04_pair_escrow";
                   if c04 && not (holds_C04_escrow balance req) then
                     pf ~pred:"holds_C04_pair_escrow" ~kf:(pair_kf ap) ~detail:(Printf.sprintf "pair=%s_denom=%s_balance=%s_required=%s" ap d (zs balance) (zs req))
                 end;
                 let feek = Printf.sprintf "bal:fee.%s.%s:%s" a p d in
                 if c07 && Hashtbl.mem impl feek then begin
                   bump "eval:C07_feecoll";
                   if not (holds_C07_feecoll (rate_of (z a)) os (z d) (impl_z feek)) then
                     pf ~pred:"holds_C07_feecoll" ~kf:"none" ~detail:(Printf.sprintf "pair=%s_denom=%s_balance=%s" ap d (Hashtbl.find impl feek))
                 end) (base :: quote :: others)
           | _ -> ())
        | _ -> ()) prs;
    (* C07: CancelMM / MM replace cancels every previously indexed MM order *)
    (match !pending_mm with
     | Some (a, _ow, p, ids) when c07 ->
       let sts = L.filter_map (fun id -> try Some (order_of_kv (Printf.sprintf "ord:%s:%s:%s" a p id) (Hashtbl.find impl (Printf.sprintf "ord:%s:%s:%s" a p id))).o_status
                                with Not_found -> None) ids in
       bump "eval:C07_mm";
       if not (holds_C07_mm sts) then
         pf ~pred:"holds_C07_mm_cancel" ~kf:"none"
           ~detail:(Printf.sprintf "app=%s_pair=%s_indexed=%d_still_live=%d" a p (L.length ids) (L.length (L.filter is_live sts)))
     | _ -> ());
    pending_mm := None;
    if c04 then begin
    (* ---- C04 ---- *)
    (* global escrow >= pending deposits + pending withdrawals, over ALL apps *)
    let need : (string, BinNums.coq_Z) Hashtbl.t = Hashtbl.create 8 in
    let addneed d x = Hashtbl.replace need d (zadd (geti need d) x) in
    Hashtbl.iter (fun k v ->
        match S.split_on_char ':' k, tokens v with
        | ["dep"; a; pl; _], [_; x; y; _; _; _; "1"] ->
          (match (try tokens (Hashtbl.find impl (Printf.sprintf "pool:%s:%s" a pl)) with Not_found -> []) with
           | pr :: _ ->
             (match (try tokens (Hashtbl.find impl (Printf.sprintf "pair:%s:%s" a pr)) with Not_found -> []) with
              | base :: quote :: _ -> addneed quote (z x); addneed base (z y)
              | _ -> ())
           | _ -> ())
        | ["wd"; a; pl; _], [_; pc; _; _; "1"] -> addneed (zs (pool_denom (z a) (z pl))) (z pc)
        | _ -> ()) impl;
    Hashtbl.iter (fun d req ->
        bump "eval:C04_global_escrow";
        let balance = impl_z ("bal:ge:" ^ d) in
        if not (holds_C04_escrow balance req) then
          pf ~pred:"holds_C04_global_escrow" ~kf:"none" ~detail:(Printf.sprintf "denom=%s_balance=%s_required=%s" d (zs balance) (zs req))) need;
    (* per pool: farmed coins exact, disabled flag, supply changes *)
    Hashtbl.iter (fun k v ->
        match S.split_on_char ':' k, tokens v with
        | ["pool"; a; pl], [_; _; dis; _; _] ->
          let d = zs (pool_denom (z a) (z pl)) in
          let q = ref z0 and act = ref z0 in
          Hashtbl.iter (fun k2 v2 ->
              match S.split_on_char ':' k2 with
              | ["qf"; a2; p2; _] when a2 = a && p2 = pl ->
                let rec go = function amt :: _ :: tl -> q := zadd !q (z amt); go tl | _ -> () in
                (match tokens v2 with _ :: tl -> go tl | [] -> ())
              | ["af"; a2; p2; _] when a2 = a && p2 = pl -> act := zadd !act (z v2)
              | _ -> ()) impl;
          bump "eval:C04_farmed";
          let mb = impl_z ("bal:mod:" ^ d) in
          if not (holds_C04_farmed mb !q !act) then
            pf ~pred:"holds_C04_farmed_exact" ~kf:"none" ~detail:(Printf.sprintf "pool=%s:%s_module=%s_queued=%s_active=%s" a pl (zs mb) (zs !q) (zs !act));
          let sup = impl_z ("sup:" ^ d) in
          if Hashtbl.mem changed ("sup:" ^ d) && zeq sup z0 then bump ("supply_to_zero:by_" ^ !cur_op);
          bump "eval:C04_disabled";
          if not (holds_C04_disabled sup (bool_of_tok dis)) then
            pf ~pred:"holds_C04_disabled" ~kf:"none" ~detail:(Printf.sprintf "pool=%s:%s_supply=0_not_disabled" a pl);
          (* supply change of this step *)
          let req_done = ref false in
          Hashtbl.iter (fun k2 () ->
              match S.split_on_char ':' k2 with
              | [("dep" | "wd"); a2; p2; _] when a2 = a && p2 = pl ->
                (match L.rev (tokens (try Hashtbl.find impl k2 with Not_found -> "")) with "2" :: _ -> req_done := true | _ -> ())
              | _ -> ()) changed;
          if Hashtbl.mem changed ("sup:" ^ d) || !req_done then begin
            let before = (try z (Hashtbl.find prev_changed ("sup:" ^ d)) with Not_found -> if Hashtbl.mem changed ("sup:" ^ d) then z0 else sup) in
            let created = if not (Hashtbl.mem prev_changed k) && Hashtbl.mem changed k then sup else z0 in
            let minted = ref z0 and burned = ref z0 in
            Hashtbl.iter (fun k2 () ->
                match S.split_on_char ':' k2 with
                | ["dep"; a2; p2; _] when a2 = a && p2 = pl ->
                  (match tokens (try Hashtbl.find impl k2 with Not_found -> "") with
                   | [_; _; _; _; _; pc; "2"] ->
                     let was2 = (match tokens (try Hashtbl.find prev_changed k2 with Not_found -> "") with [_; _; _; _; _; _; "2"] -> true | _ -> false) in
                     if not was2 then minted := zadd !minted (z pc)
                   | _ -> ())
                | ["wd"; a2; p2; _] when a2 = a && p2 = pl ->
                  (match tokens (try Hashtbl.find impl k2 with Not_found -> "") with
                   | [_; pc; _; _; "2"] ->
                     let was2 = (match tokens (try Hashtbl.find prev_changed k2 with Not_found -> "") with [_; _; _; _; "2"] -> true | _ -> false) in
                     if not was2 then burned := zadd !burned (z pc)
                   | _ -> ())
                | _ -> ()) changed;
            bump "eval:C04_supply";
            if not (holds_C04_supply before sup created !minted !burned) then
              pf ~pred:"holds_C04_supply_change" ~kf:"none"
                ~detail:(Printf.sprintf "pool=%s:%s_op=%s_before=%s_after=%s_created=%s_minted=%s_burned=%s" a pl !cur_op (zs before) (zs sup) (zs created) (zs !minted) (zs !burned))
          end
        | _ -> ()) impl
    end;
    check_end ();
    if c06 then check_pools ()
  in

  (* ------- diff of the full projection, after each step ------- *)
  let diff () =
    let mk = model_kv !model in
    let seen = Hashtbl.create 256 in
    (* a difference that persists (the model does not follow a step the implementation should not have taken) is
       reported once per case and key, so that the predicates keep judging the implementation's later states *)
    let mismatch ~case ~step ~field ~model ~impl =
      let key = (match S.index_opt field ':' with Some i -> S.sub field (i + 1) (S.length field - i - 1) | None -> field) ^ "|" ^ model ^ "|" ^ impl in
      if not (Hashtbl.mem reported key) then begin Hashtbl.replace reported key (); mismatch ~case ~step ~field ~model ~impl end in
    L.iter (fun (k, v) ->
        Hashtbl.replace seen k ();
        match (try Some (Hashtbl.find impl k) with Not_found -> None) with
        | Some iv -> if iv <> v then mismatch ~case:!case ~step:!step ~field:(!cur_op ^ ":" ^ k) ~model:(S.map (fun c -> if c = ' ' then '_' else c) v) ~impl:(S.map (fun c -> if c = ' ' then '_' else c) iv)
        | None -> mismatch ~case:!case ~step:!step ~field:(!cur_op ^ ":" ^ k) ~model:"present" ~impl:"absent") mk;
    let flat : BinNums.coq_Z LedTbl.t = LedTbl.create 512 in
    Hashtbl.iter (fun k v ->
        if is_record_key k then begin
          if not (Hashtbl.mem seen k) then mismatch ~case:!case ~step:!step ~field:(!cur_op ^ ":" ^ k) ~model:"absent" ~impl:"present"
        end else
          match S.split_on_char ':' k with
          | ["bal"; acct; d] ->
            let ak = (acct_of_tok acct, z d) in
            let mz = (!model).led (fst ak) (snd ak) in
            LedTbl.replace flat ak mz;
            let mv = zs mz in
            if mv <> v then mismatch ~case:!case ~step:!step ~field:(!cur_op ^ ":" ^ k) ~model:mv ~impl:v
          | _ -> ()) impl;
    (* the model's ledger is a chain of closures, one per transfer; re-base it on a table of the watched balances
       (the same function, extensionally) so that look-ups do not slow down with the length of the history *)
    let old = (!model).led in
    model := { !model with led = (fun a d -> match LedTbl.find_opt flat (a, d) with Some v -> v | None -> old a d) }
  in

  L.iter (fun line ->
      match tokens line with
      | "case" :: id :: _ ->
        end_case ();
        case := id; step := 0; model := init; dead := false; case_mism0 := !mismatches;
        Hashtbl.reset impl; Hashtbl.reset known; Hashtbl.reset by_owner; Hashtbl.reset by_pair; Hashtbl.reset funded; Hashtbl.reset rates;
        Hashtbl.reset fills_net; Hashtbl.reset nonconserving; Hashtbl.reset changed; Hashtbl.reset prev_changed;
        Buffer.clear sig_; seen_fill := false; seen_end := false; seen_pool := false; seen_farm := false; pending_mm := None;
        Hashtbl.reset mi_ids; Hashtbl.reset shadow_pairs; Hashtbl.reset shadow_fills; Hashtbl.reset shadow_kf; Hashtbl.reset ex_flags;
        Hashtbl.reset shadow_env; Hashtbl.reset app_nets; Hashtbl.reset wfee; Hashtbl.reset reported; Hashtbl.reset esc_denoms; model_flags := []; m_hdr := []; m_rows := []; m_need := 0; cur_parsed := None; cur_res := ""; seen_shadow_fill := false
      | "op" :: "endpanic" :: _ -> pf ~pred:"endblocker_no_panic" ~kf:"none" ~detail:"EndBlocker_panicked"
      | ["wfee"; a; r] -> Hashtbl.replace wfee a (z r)
      | ["ex"; a; f] -> Hashtbl.replace ex_flags a f
      | ["mi"; a; p; id; d; price; amt; offer; batch] when not !dead ->
        let ap = a ^ ":" ^ p in
        Hashtbl.replace mi_ids ap (id :: (try Hashtbl.find mi_ids ap with Not_found -> []));
        (* the amm order NewUserOrder built against the model's construction from the stored record *)
        let k = Printf.sprintf "ord:%s:%s" ap id in
        (match impl_order k with
         | None -> mismatch ~case:!case ~step:!step ~field:("NewUserOrder:" ^ k) ~model:"no_record" ~impl:"order"
         | Some o ->
           let ai = user_order_amm o in
           bump "eval:NewUserOrder";
           let chk f a b =
             let fld = Printf.sprintf "NewUserOrder:%s:%s" k f in
             if a <> b && not (Hashtbl.mem reported fld) then begin
               Hashtbl.replace reported fld (); mismatch ~case:!case ~step:!step ~field:fld ~model:a ~impl:b end in
           chk "direction" (if ai.ai_buy then "B" else "S") d;
           chk "price" (zs ai.ai_price) price;
           chk "amount" (zs ai.ai_amt) amt;
           chk "offer_coin_bound" (zs ai.ai_offer) offer;
           chk "batch" (zs ai.ai_batch) batch)
      | "m" :: hdr when not !dead ->
        m_hdr := hdr; m_rows := [];
        m_need := (match L.rev hdr with n :: _ -> int_of_string n | [] -> 0);
        if !m_need = 0 then process_shadow ()
      | ["mo"; kind; id; d; price; amt; offer; batch; op; paid; recv] when not !dead && !m_hdr <> [] ->
        let key = if kind = "u" then z id else zadd two64 (z id) in
        let o = { AMM.o_id = Datatypes.O; AMM.o_dir = (if d = "B" then AMM.Buy else AMM.Sell); AMM.o_price = z price; AMM.o_amt = z amt;
                  AMM.o_offer = z offer; AMM.o_open = z amt; AMM.o_paid = z0; AMM.o_recv = z0; AMM.o_batch = z batch; AMM.o_key = key } in
        m_rows := { mkind = kind; mid = id; mord = o; mopen = op; mpaid = paid; mrecv = recv } :: !m_rows;
        decr m_need;
        if !m_need = 0 then process_shadow ()
      | "op" :: toks when not !dead ->
        incr step; incr steps;
        Hashtbl.reset changed; Hashtbl.reset prev_changed;
        let (o, res) = parse_op toks in
        (* an app whose batch the implementation rolled back shows no fills in its records: the model is given the
           engine's fills instead (what ExecuteMatching computed before ApplyMatchResult failed) and must roll back too *)
        let o = (match o with
            | OEnd (h, now, envs) ->
              let apps_model = L.map (fun (a, _) -> zs a) (!model).apps in
              let have = L.map (fun (e : app_env) -> zs e.e_app) envs in
              let envs = envs @ L.filter_map (fun a -> if L.mem a have then None else Some { e_app = z a; e_batches = []; e_deps = []; e_wds = [] }) apps_model in
              OEnd (h, now, L.map (fun (e : app_env) ->
                  let a = zs e.e_app in
                  if (try Hashtbl.find ex_flags a with Not_found -> "") = "0" && Hashtbl.mem shadow_env a
                  then begin bump "end:rolled_back:engine_fills_as_env"; { e with e_batches = L.rev_map fst (Hashtbl.find shadow_env a) } end
                  else e) envs)
            | o -> o) in
        let kind = L.hd toks in
        cur_op := kind; cur_parsed := Some o; cur_res := res;
        (match o with
         | OEnd (h, now, envs) ->
           let (s_tr, flags) = end_block_trace h now envs !model in
           ignore s_tr;
           model_flags := L.map (fun (a, f) -> (zs a, zs f)) flags
         | _ -> ());
        Buffer.add_string sig_ (kind ^ res ^ ";");
        if res <> "" then bump ("op:" ^ kind ^ ":" ^ res) else bump ("op:" ^ kind);
        (* bookkeeping from the inputs *)
        (match o with
         | OAddApp (a, p) -> Hashtbl.replace rates (zs a) p.pr_fee_rate
         | OFund (w, d, a) -> let k = zs w ^ ":" ^ zs d in Hashtbl.replace funded k (zadd (geti funded k) a)
         | OEnd (_, _, envs) ->
           L.iter (fun (e : app_env) ->
               let applied = (try Hashtbl.find ex_flags (zs e.e_app) with Not_found -> "") <> "0" in   (* a rolled-back batch applied nothing *)
               L.iter (fun (b : batch_env) ->
                   if b.b_matched && applied then begin
                     let ap = zs e.e_app ^ ":" ^ zs b.b_pair in
                     let buy_of id = (try (Hashtbl.find known (Printf.sprintf "ord:%s:%s" ap (zs id))).o_buy with Not_found -> false) in
                     let bn = batch_base_net buy_of b and qn = batch_quote_net buy_of b in
                     if b.b_fills <> [] then seen_fill := true;
                     (match (try tokens (Hashtbl.find impl ("pair:" ^ ap)) with Not_found -> []) with
                      | base :: quote :: _ ->
                        Hashtbl.replace fills_net (ap ^ ":" ^ base) (zadd (geti fills_net (ap ^ ":" ^ base)) bn);
                        Hashtbl.replace fills_net (ap ^ ":" ^ quote) (zadd (geti fills_net (ap ^ ":" ^ quote)) qn)
                      | _ -> ());
                     bump "batch:matched";
                     if kf_C05_1_via_fills bn then begin
                       Hashtbl.replace nonconserving ap (); bump "batch:base_not_conserved";
                       Hashtbl.replace app_nets (zs e.e_app) (bn :: (try Hashtbl.find app_nets (zs e.e_app) with Not_found -> []))
                     end;
                     if not (zeq qn z0) then bump "batch:quote_net_nonzero"
                   end) e.e_batches;
               if e.e_deps <> [] || e.e_wds <> [] then seen_pool := true) envs
         | OCancelMM (a, ow, p) when res = "ok" ->
           (match (try tokens (Hashtbl.find impl (Printf.sprintf "mm:%s:%s:%s" (zs a) (zs ow) (zs p))) with Not_found -> []) with
            | _ :: ids -> pending_mm := Some (zs a, zs ow, zs p, ids) | [] -> ())
         | OMM (m, _) when res = "ok" ->
           (match (try tokens (Hashtbl.find impl (Printf.sprintf "mm:%s:%s:%s" (zs m.mm_app) (zs m.mm_owner) (zs m.mm_pair))) with Not_found -> []) with
            | _ :: ids -> pending_mm := Some (zs m.mm_app, zs m.mm_owner, zs m.mm_pair, ids) | [] -> ())
         | OCancel (a, ow, p, id) ->
           (* c07_cancellable: the owner of a stored order outside its placement batch can cancel it *)
           let k = Printf.sprintf "ord:%s:%s:%s" (zs a) (zs p) (zs id) in
           (match (try Some (order_of_kv k (Hashtbl.find impl k)) with Not_found -> None),
                  (try tokens (Hashtbl.find impl (Printf.sprintf "pair:%s:%s" (zs a) (zs p))) with Not_found -> []) with
            | Some od, [_; _; _; _; _; batch] when c07 && zeq od.o_owner ow && not (zeq od.o_status (zi 5)) && not (zeq od.o_batch (z batch)) ->
              bump "eval:C07_cancellable";
              if res <> "ok" then pf ~pred:"holds_C07_cancellable" ~kf:(pair_kf (zs a ^ ":" ^ zs p)) ~detail:("cancel_refused_" ^ k)
            | _ -> ())
         | OFarm _ | OUnfarm _ | ODepositAndFarm _ | OUnfarmAndWithdraw _ -> if res = "ok" then seen_farm := true
         | OBegin -> seen_end := true
         | _ -> ());
        (match (let t0 = Sys.time () in let r = Liquidity.step !model o in tstep := !tstep +. (Sys.time () -. t0); r) with
         | Base.Ok s' ->
           if res <> "" && res <> "ok" then mismatch ~case:!case ~step:!step ~field:(kind ^ ":result") ~model:"ok" ~impl:res;
           if res = "" || res = "ok" then model := s'
         | Base.Err c ->
           if res <> "err" then mismatch ~case:!case ~step:!step ~field:(kind ^ ":result") ~model:("err" ^ zs c) ~impl:res
           else bump ("err:" ^ kind ^ ":" ^ zs c)
         | Base.Panic ->
           if res <> "panic" then mismatch ~case:!case ~step:!step ~field:(kind ^ ":result") ~model:"panic" ~impl:res);
        if res = "panic" then pf ~pred:"msg_no_panic" ~kf:"none" ~detail:(kind ^ "_panicked")
      | ["o"; "end"] when not !dead ->
        let t0 = Sys.time () in
        diff ();
        let t1 = Sys.time () in
        check_props ();
        let t2 = Sys.time () in
        tdiff := !tdiff +. (t1 -. t0); tprops := !tprops +. (t2 -. t1);
        if !mismatches - !case_mism0 > 40 then dead := true      (* this case has diverged; the next case starts afresh *)
      | "o" :: k :: vs when not !dead ->
        let v = cat vs in
        Hashtbl.replace changed k ();
        (match (try Some (Hashtbl.find impl k) with Not_found -> None) with Some old -> Hashtbl.replace prev_changed k old | None -> ());
        Hashtbl.replace impl k v;
        (match S.split_on_char ':' k with
         | ["bal"; acct; d] ->
           (match S.split_on_char '.' acct with
            | ["esc"; a; p] ->
              let ap = a ^ ":" ^ p in
              let ds = (try Hashtbl.find esc_denoms ap with Not_found -> []) in
              if not (L.mem d ds) then Hashtbl.replace esc_denoms ap (ds @ [d])
            | _ -> ())
         | ["ord"; a; p; _] ->
           let od = order_of_kv k v in
           if not (Hashtbl.mem known k) then begin
             let ow = zs od.o_owner in
             Hashtbl.replace by_owner ow (k :: (try Hashtbl.find by_owner ow with Not_found -> []));
             let ap = a ^ ":" ^ p in
             Hashtbl.replace by_pair ap (k :: (try Hashtbl.find by_pair ap with Not_found -> []))
           end;
           if life_on then begin
             bump "eval:C07_life";
             if not (holds_C07_life od) then
               pf ~pred:"holds_C07_life" ~kf:"none" ~detail:(Printf.sprintf "%s_offer=%s_remaining=%s_amount=%s_open=%s" k (zs od.o_offer) (zs od.o_rem) (zs od.o_amt) (zs od.o_open));
             (match (try Some (Hashtbl.find known k) with Not_found -> None) with
              | Some prev ->
                if not (holds_C07_life_step prev od) then
                  pf ~pred:"holds_C07_life_step" ~kf:"none" ~detail:(Printf.sprintf "%s_remaining=%s->%s_open=%s->%s" k (zs prev.o_rem) (zs od.o_rem) (zs prev.o_open) (zs od.o_open))
              | None -> ())
           end;
           Hashtbl.replace known k od;
           bump ("ordstatus:" ^ zs od.o_status)
         | _ -> ())
      | ["x"; k] when not !dead ->
        Hashtbl.replace changed k ();
        (match (try Some (Hashtbl.find impl k) with Not_found -> None) with Some old -> Hashtbl.replace prev_changed k old | None -> ());
        Hashtbl.remove impl k
      | ["i"; broken; name] -> bump (if broken = "0" then "modinv:ok" else "modinv:broken:" ^ name)
      | _ -> ()) lines;
  end_case ();
  if Sys.getenv_opt "LIQRUN_PROFILE" <> None then Printf.eprintf "diff %.1f props %.1f step %.1f\n" !tdiff !tprops !tstep;
  finish ~cases:!cases ~steps:!steps ~nontrivial:!nontrivial
